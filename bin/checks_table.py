"""Per-property configuration for bin/check."""

FS_TRUST = "os.ReadDir/Remove/Stat behave as POSIX readdir/unlink/rmdir and succeed (except removing a non-empty directory)"
COMMON = [
    "Lean 4.33 kernel (theorems re-checked by `lake build` on every run; leanchecker in the thorough tier)",
    "hand-written Lean model, tied to the Go code by the correspondence run of this check and by tables regenerated from source (tools/extract)",
    "the Go harness, canonicaliser and oracles under /verif/harness; the Go toolchain",
]

CHECKS = {
    "C20": {
        "lean_modules": ["Restli.Props.C20"],
        "modules": ["v2", "root"],
        "level": "proof",
        "fingerprint_prefixes": ["v2/codegen/utils:CleanTargetDir", "codegen/utils:CleanTargetDir"],
        "trusted_base": COMMON + [FS_TRUST],
    },
}
