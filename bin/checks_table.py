"""Per-property configuration for bin/check: one json file per property under bin/checks.d/."""
import glob, json, os

COMMON = [
    "Lean 4.33 kernel (theorems re-checked by `lake build` on every run; leanchecker in the thorough tier)",
    "hand-written Lean model, tied to the Go code by the correspondence run of this check and by tables regenerated from source (tools/extract)",
    "the Go harness, canonicaliser and oracles under /verif/harness; the Go toolchain"
]

CHECKS = {}
for _p in sorted(glob.glob(os.path.join(os.path.dirname(os.path.abspath(__file__)), "checks.d", "*.json"))):
    _c = json.load(open(_p))
    _c["trusted_base"] = COMMON + _c.get("trusted_base", [])
    CHECKS[os.path.basename(_p)[:-5]] = _c
