//go:build gencode && !rootmod

package c02

// The packages the REAL generator produced from the C02 resource corpus (harness/codec/c02corpus.go)
// in bin/check's gencode step: generated client, generated RegisterResource, generated MockResource.

import (
	"github.com/PapaCharlie/go-restli/v2/restli"
	gCollLong "verif/harness/gen/c02/collLong"
	gCollLongT "verif/harness/gen/c02/collLong_test"
	gCollStr "verif/harness/gen/c02/collStr"
	gCollStrT "verif/harness/gen/c02/collStr_test"
	gCollTr "verif/harness/gen/c02/collTr"
	gCollTrT "verif/harness/gen/c02/collTr_test"
	gCollTrLong "verif/harness/gen/c02/collTrLong"
	gCollTrLongT "verif/harness/gen/c02/collTrLong_test"
	gCollCk "verif/harness/gen/c02/collCk"
	gCollCkT "verif/harness/gen/c02/collCk_test"
	gSimple "verif/harness/gen/c02/simple"
	gSimpleT "verif/harness/gen/c02/simple_test"
	gActs "verif/harness/gen/c02/acts"
	gActsT "verif/harness/gen/c02/acts_test"
	gSub "verif/harness/gen/c02/sub"
	gSubT "verif/harness/gen/c02/sub_test"
	gSubOfSimple "verif/harness/gen/c02/subOfSimple"
	gSubOfSimpleT "verif/harness/gen/c02/subOfSimple_test"
	gDetail "verif/harness/gen/c02/detail"
	gDetailT "verif/harness/gen/c02/detail_test"
	gSubOfCk "verif/harness/gen/c02/subOfCk"
	gSubOfCkT "verif/harness/gen/c02/subOfCk_test"
	gExRo "verif/harness/gen/c02/exRo"
	gExRoT "verif/harness/gen/c02/exRo_test"
	gExCo "verif/harness/gen/c02/exCo"
	gExCoT "verif/harness/gen/c02/exCo_test"
	gExBoth "verif/harness/gen/c02/exBoth"
	gExBothT "verif/harness/gen/c02/exBoth_test"
)

const generatedBindings = true

var bindings = map[string]binding{
	"collLong": {
		newClient: func(c *restli.Client) any { return gCollLong.NewClient(c) },
		register:  func(s restli.Server, r any) { gCollLong.RegisterResource(s, r.(gCollLong.Resource)) },
		newMock:   func() any { return &gCollLongT.MockResource{} },
	},
	"collStr": {
		newClient: func(c *restli.Client) any { return gCollStr.NewClient(c) },
		register:  func(s restli.Server, r any) { gCollStr.RegisterResource(s, r.(gCollStr.Resource)) },
		newMock:   func() any { return &gCollStrT.MockResource{} },
	},
	"collTr": {
		newClient: func(c *restli.Client) any { return gCollTr.NewClient(c) },
		register:  func(s restli.Server, r any) { gCollTr.RegisterResource(s, r.(gCollTr.Resource)) },
		newMock:   func() any { return &gCollTrT.MockResource{} },
	},
	"collTrLong": {
		newClient: func(c *restli.Client) any { return gCollTrLong.NewClient(c) },
		register:  func(s restli.Server, r any) { gCollTrLong.RegisterResource(s, r.(gCollTrLong.Resource)) },
		newMock:   func() any { return &gCollTrLongT.MockResource{} },
	},
	"collCk": {
		newClient: func(c *restli.Client) any { return gCollCk.NewClient(c) },
		register:  func(s restli.Server, r any) { gCollCk.RegisterResource(s, r.(gCollCk.Resource)) },
		newMock:   func() any { return &gCollCkT.MockResource{} },
	},
	"simple": {
		newClient: func(c *restli.Client) any { return gSimple.NewClient(c) },
		register:  func(s restli.Server, r any) { gSimple.RegisterResource(s, r.(gSimple.Resource)) },
		newMock:   func() any { return &gSimpleT.MockResource{} },
	},
	"acts": {
		newClient: func(c *restli.Client) any { return gActs.NewClient(c) },
		register:  func(s restli.Server, r any) { gActs.RegisterResource(s, r.(gActs.Resource)) },
		newMock:   func() any { return &gActsT.MockResource{} },
	},
	"sub": {
		newClient: func(c *restli.Client) any { return gSub.NewClient(c) },
		register:  func(s restli.Server, r any) { gSub.RegisterResource(s, r.(gSub.Resource)) },
		newMock:   func() any { return &gSubT.MockResource{} },
	},
	"subOfSimple": {
		newClient: func(c *restli.Client) any { return gSubOfSimple.NewClient(c) },
		register:  func(s restli.Server, r any) { gSubOfSimple.RegisterResource(s, r.(gSubOfSimple.Resource)) },
		newMock:   func() any { return &gSubOfSimpleT.MockResource{} },
	},
	"detail": {
		newClient: func(c *restli.Client) any { return gDetail.NewClient(c) },
		register:  func(s restli.Server, r any) { gDetail.RegisterResource(s, r.(gDetail.Resource)) },
		newMock:   func() any { return &gDetailT.MockResource{} },
	},
	"subOfCk": {
		newClient: func(c *restli.Client) any { return gSubOfCk.NewClient(c) },
		register:  func(s restli.Server, r any) { gSubOfCk.RegisterResource(s, r.(gSubOfCk.Resource)) },
		newMock:   func() any { return &gSubOfCkT.MockResource{} },
	},
	"exRo": {
		newClient: func(c *restli.Client) any { return gExRo.NewClient(c) },
		register:  func(s restli.Server, r any) { gExRo.RegisterResource(s, r.(gExRo.Resource)) },
		newMock:   func() any { return &gExRoT.MockResource{} },
	},
	"exCo": {
		newClient: func(c *restli.Client) any { return gExCo.NewClient(c) },
		register:  func(s restli.Server, r any) { gExCo.RegisterResource(s, r.(gExCo.Resource)) },
		newMock:   func() any { return &gExCoT.MockResource{} },
	},
	"exBoth": {
		newClient: func(c *restli.Client) any { return gExBoth.NewClient(c) },
		register:  func(s restli.Server, r any) { gExBoth.RegisterResource(s, r.(gExBoth.Resource)) },
		newMock:   func() any { return &gExBothT.MockResource{} },
	},
}
