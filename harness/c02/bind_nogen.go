//go:build !gencode && !rootmod

package c02

// Built without the generated bindings (the committed harness module compiles against the stub of
// package gen): the runner reports that instead of running.
const generatedBindings = false

var bindings = map[string]binding{}
