//go:build !rootmod

package c02

import (
	"fmt"
	"reflect"

	"verif/harness/codec"
)

// bridge converts between model values and the Go values of the generated bindings, directed by
// the Go type found in the generated method signatures and by the schema (codec.Bridge does the
// work for everything below a record; the complex key and the envelopes are handled here).
type bridge struct {
	env *codec.Env
	cb  *codec.Bridge
}

func newBridge() *bridge {
	e := ExtEnv()
	return &bridge{env: e, cb: &codec.Bridge{Env: e}}
}

func (b *bridge) isRef(t codec.Ty) bool {
	if t.Ref == "" {
		return false
	}
	switch b.env.Find(t.Ref).Kind {
	case "record", "union", "fixed":
		return true
	}
	return false
}

// set stores v into slot, whose Go type is the generator's ReferencedType of t (a pointer for
// records, unions, fixed; the plain type otherwise).
func (b *bridge) set(slot reflect.Value, t codec.Ty, v *codec.V) error {
	if t.Ref == codec.C02ComplexKey {
		if slot.Kind() != reflect.Ptr {
			return fmt.Errorf("complex key slot is %s", slot.Type())
		}
		p := reflect.New(slot.Type().Elem())
		keyPart := codec.VRec()
		var params *codec.V
		for _, kv := range v.KVs {
			if kv.K == "$params" {
				params = kv.V
			} else {
				keyPart.KVs = append(keyPart.KVs, kv)
			}
		}
		if err := b.cb.Set(p.Elem().FieldByName(codec.C02ComplexKeyKey), codec.R(codec.C02ComplexKeyKey), keyPart); err != nil {
			return err
		}
		if params != nil {
			pf := p.Elem().FieldByName("Params")
			pp := reflect.New(pf.Type().Elem())
			if err := b.cb.Set(pp.Elem(), codec.R(codec.C02ComplexKeyParams), params); err != nil {
				return err
			}
			pf.Set(pp)
		}
		slot.Set(p)
		return nil
	}
	if b.isRef(t) {
		if slot.Kind() != reflect.Ptr {
			return fmt.Errorf("slot for %s is %s, not a pointer", t.Sexp(), slot.Type())
		}
		p := reflect.New(slot.Type().Elem())
		if err := b.cb.Set(p.Elem(), t, v); err != nil {
			return err
		}
		slot.Set(p)
		return nil
	}
	return b.cb.Set(slot, t, v)
}

// get reads slot (of the ReferencedType of t) back; a nil pointer reads as nil.
func (b *bridge) get(slot reflect.Value, t codec.Ty) *codec.V {
	if t.Ref == codec.C02ComplexKey {
		if slot.IsNil() {
			return nil
		}
		out := b.cb.Get(slot.Elem().FieldByName(codec.C02ComplexKeyKey), codec.R(codec.C02ComplexKeyKey))
		if pf := slot.Elem().FieldByName("Params"); !pf.IsNil() {
			out.KVs = append(out.KVs, codec.KV{K: "$params", V: b.cb.Get(pf.Elem(), codec.R(codec.C02ComplexKeyParams))})
		}
		return out
	}
	if b.isRef(t) {
		if slot.IsNil() {
			return nil
		}
		return b.cb.Get(slot.Elem(), t)
	}
	return b.cb.Get(slot, t)
}

// newOf builds a Go value of type gt (the ReferencedType of t) holding v.
func (b *bridge) newOf(gt reflect.Type, t codec.Ty, v *codec.V) (reflect.Value, error) {
	slot := reflect.New(gt).Elem()
	err := b.set(slot, t, v)
	return slot, err
}

// ---- partial updates

func (b *bridge) newPU(gt reflect.Type, rec string, pu *codec.PU) (reflect.Value, error) {
	p := reflect.New(gt.Elem()) // gt = *X_PartialUpdate
	err := b.cb.SetPU(p.Elem(), rec, pu)
	return p, err
}

func (b *bridge) getPU(v reflect.Value, rec string) *codec.PU {
	if v.IsNil() {
		return nil
	}
	return b.cb.GetPU(v.Elem(), rec)
}
