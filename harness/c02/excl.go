//go:build !rootmod

package c02

// Property C07 through the GENERATED bindings (harness prop C07G, result property C07).
//
// The corpus resources that declare readOnlyFields / createOnlyFields (exRo: read-only only, exCo:
// create-only only, exBoth: both; entity vc.Nested) are called through the clients the real
// generator produced, over net/http, against the generated server registrations — the same worlds
// as property C02. Direct oracles only (no model):
//
//	(a) create / batch_create: what travels is the entity minus the read-only fields, nothing else is
//	    missing (create-only fields travel), the resource sees exactly that;
//	(b) update / batch_update: what travels is the entity minus read-only and create-only fields;
//	(c) partial_update / batch_partial_update whose $set, $delete or nested patch names such a field:
//	    the client returns a partial-update error and NO request is sent; a $set value that merely
//	    contains one travels without it;
//	(d) a request that bypasses the client (the wire request of a control call, with another body)
//	    and carries such a field: status 400, no resource method invoked; the same request with the
//	    field taken out: 2xx, resource invoked with the remaining values;
//	(e) controls: the same calls on entities without annotated fields go through unchanged; get
//	    returns read-only and create-only fields to the caller.
//
// The oracle's notion of "matches" is the property's: a directive matches a path when it equals a
// prefix of it segment by segment, `*` standing for any array item or map key. It is evaluated on
// documents parsed with encoding/json, never with the library.

import (
	"errors"
	"fmt"
	"math/rand"
	"net/http"
	"sort"
	"strconv"
	"strings"

	"github.com/PapaCharlie/go-restli/v2/restli/patch"
	"verif/harness/codec"
	"verif/harness/hx"
)

// ---- the property's own predicates

func splitDirs(ds []string) [][]string {
	var out [][]string
	for _, d := range ds {
		out = append(out, strings.Split(strings.TrimPrefix(d, "/"), "/"))
	}
	return out
}

// exclSpec: which fields a method must neither transmit nor accept.
func exclSpec(res *codec.C02Resource, kind string) [][]string {
	switch kind {
	case "create", "batch_create":
		return splitDirs(res.ReadOnly)
	case "update", "batch_update", "partial_update", "batch_partial_update":
		return splitDirs(append(append([]string{}, res.ReadOnly...), res.CreateOnly...))
	}
	return nil
}

func dirMatches(spec [][]string, path []string) bool {
	for _, dir := range spec {
		if len(dir) > len(path) {
			continue
		}
		ok := true
		for i := range dir {
			if dir[i] != "*" && dir[i] != path[i] {
				ok = false
				break
			}
		}
		if ok {
			return true
		}
	}
	return false
}

func at(prefix []string, seg string) []string { return append(append([]string{}, prefix...), seg) }

// pruneD: the document without every node at a matching path (with its subtree).
func pruneD(d *codec.D, spec [][]string, prefix []string) *codec.D {
	out := &codec.D{K: d.K, I: d.I, F: d.F, B: d.B, S: d.S}
	for _, kv := range d.KVs {
		p := at(prefix, kv.K)
		if dirMatches(spec, p) {
			continue
		}
		out.KVs = append(out.KVs, codec.DKV{K: kv.K, V: pruneD(kv.V, spec, p)})
	}
	for _, c := range d.Elts {
		out.Elts = append(out.Elts, pruneD(c, spec, at(prefix, "*")))
	}
	return out
}

// prunePatchD: a patch document whose $set values lost the nodes at matching entity paths.
func prunePatchD(d *codec.D, spec [][]string, prefix []string) *codec.D {
	out := &codec.D{K: "obj"}
	for _, kv := range d.KVs {
		switch kv.K {
		case "$delete":
			out.KVs = append(out.KVs, kv)
		case "$set":
			set := &codec.D{K: "obj"}
			for _, e := range kv.V.KVs {
				set.KVs = append(set.KVs, codec.DKV{K: e.K, V: pruneD(e.V, spec, at(prefix, e.K))})
			}
			out.KVs = append(out.KVs, codec.DKV{K: kv.K, V: set})
		default:
			out.KVs = append(out.KVs, codec.DKV{K: kv.K, V: prunePatchD(kv.V, spec, at(prefix, kv.K))})
		}
	}
	return out
}

// carries: does a parsed entity document hold a value at a matching path?
func carries(tree any, spec [][]string, prefix []string) bool {
	switch t := tree.(type) {
	case map[string]any:
		for k, c := range t {
			p := at(prefix, k)
			if dirMatches(spec, p) || carries(c, spec, p) {
				return true
			}
		}
	case []any:
		for _, c := range t {
			if carries(c, spec, at(prefix, "*")) {
				return true
			}
		}
	}
	return false
}

// patchCarries: does a parsed patch document delete, set or patch a field at a matching path, or
// set a value that holds one?
func patchCarries(tree any, spec [][]string, prefix []string) bool {
	m, ok := tree.(map[string]any)
	if !ok {
		return false
	}
	for k, c := range m {
		switch k {
		case "$delete":
			names, _ := c.([]any)
			for _, n := range names {
				if s, ok := n.(string); ok && dirMatches(spec, at(prefix, s)) {
					return true
				}
			}
		case "$set":
			if carries(c, spec, prefix) {
				return true
			}
		default:
			if dirMatches(spec, at(prefix, k)) || patchCarries(c, spec, at(prefix, k)) {
				return true
			}
		}
	}
	return false
}

// bodyCarries opens the method's envelope and applies carries / patchCarries to every entity in it.
func bodyCarries(kind string, tree any, spec [][]string) bool {
	m, _ := tree.(map[string]any)
	switch kind {
	case "create", "update":
		return carries(tree, spec, nil)
	case "partial_update":
		return m != nil && patchCarries(m["patch"], spec, nil)
	case "batch_create":
		els, _ := m["elements"].([]any)
		for _, e := range els {
			if carries(e, spec, nil) {
				return true
			}
		}
	case "batch_update", "batch_partial_update":
		ents, _ := m["entities"].(map[string]any)
		for _, e := range ents {
			if kind == "batch_update" && carries(e, spec, nil) {
				return true
			}
			if em, ok := e.(map[string]any); ok && kind == "batch_partial_update" && patchCarries(em["patch"], spec, nil) {
				return true
			}
		}
	}
	return false
}

func sortDeletesAny(v any) {
	switch t := v.(type) {
	case map[string]any:
		for k, c := range t {
			if a, ok := c.([]any); ok && k == "$delete" {
				sort.SliceStable(a, func(i, j int) bool { return fmt.Sprint(a[i]) < fmt.Sprint(a[j]) })
			} else {
				sortDeletesAny(c)
			}
		}
	case []any:
		for _, c := range t {
			sortDeletesAny(c)
		}
	}
}

func sortDeletesD(d *codec.D) *codec.D {
	out := &codec.D{K: d.K, I: d.I, F: d.F, B: d.B, S: d.S}
	for _, kv := range d.KVs {
		c := sortDeletesD(kv.V)
		if kv.K == "$delete" && c.K == "arr" {
			sort.SliceStable(c.Elts, func(i, j int) bool { return string(c.Elts[i].S) < string(c.Elts[j].S) })
		}
		out.KVs = append(out.KVs, codec.DKV{K: kv.K, V: c})
	}
	for _, c := range d.Elts {
		out.Elts = append(out.Elts, sortDeletesD(c))
	}
	return out
}

// sameBody: a parsed request body against a reference document ($delete lists are sets)
func sameBody(tree any, want *codec.D) bool {
	sortDeletesAny(tree)
	return codec.SameTree(tree, sortDeletesD(want))
}

// ---- values

func (x *runner) fieldOf(rec, name string) (codec.Field, bool) {
	for _, f := range x.env.AllFields(rec) {
		if f.Name == name {
			return f, true
		}
	}
	return codec.Field{}, false
}

func (x *runner) recordOf(t codec.Ty) string {
	if t.Ref != "" && x.env.Find(t.Ref).Kind == "record" {
		return t.Ref
	}
	return ""
}

func (x *runner) zeroOf(t codec.Ty) *codec.V {
	switch {
	case t.Arr != nil:
		return codec.VArr()
	case t.Map != nil:
		return codec.VMap()
	}
	p := t.Prim
	if t.Ref != "" {
		d := x.env.Find(t.Ref)
		if d.Kind != "typeref" {
			panic("C07G corpus: a required field of type " + t.Ref + " is excluded; the harness has no zero value for it")
		}
		p = d.Prim
	}
	switch p {
	case "i32":
		return codec.VI32(0)
	case "i64":
		return codec.VI64(0)
	case "f32":
		return codec.VF32(0)
	case "f64":
		return codec.VF64(0)
	case "bool":
		return codec.VBool(false)
	case "str":
		return codec.VStr("")
	}
	return codec.VBytes([]byte{})
}

// pruneV: what a receiver holds after decoding the document of v without the nodes at matching
// paths: optional fields are absent, required ones hold their Go zero value.
func (x *runner) pruneV(t codec.Ty, v *codec.V, spec [][]string, prefix []string) *codec.V {
	switch {
	case t.Arr != nil:
		out := codec.VArr()
		for _, i := range v.Items {
			out.Items = append(out.Items, x.pruneV(*t.Arr, i, spec, at(prefix, "*")))
		}
		return out
	case t.Map != nil:
		out := codec.VMap()
		for _, kv := range v.KVs {
			if p := at(prefix, kv.K); !dirMatches(spec, p) {
				out.KVs = append(out.KVs, codec.KV{K: kv.K, V: x.pruneV(*t.Map, kv.V, spec, p)})
			}
		}
		return out
	}
	rec := x.recordOf(t)
	if rec == "" {
		return v
	}
	out := codec.VRec()
	for _, f := range x.env.AllFields(rec) {
		fv := v.Get(f.Name)
		if fv == nil {
			continue
		}
		p := at(prefix, f.Name)
		switch {
		case !dirMatches(spec, p):
			out.KVs = append(out.KVs, codec.KV{K: f.Name, V: x.pruneV(f.Ty, fv, spec, p)})
		case !f.Optional && f.Default == nil:
			out.KVs = append(out.KVs, codec.KV{K: f.Name, V: x.zeroOf(f.Ty)})
		}
	}
	return out
}

// touched: the entity paths a partial update deletes, sets or patches (at any nesting of patches)
func (x *runner) touched(rec string, pu *codec.PU, prefix []string, out *[][]string) {
	for _, n := range pu.Del {
		*out = append(*out, at(prefix, n))
	}
	for _, kv := range pu.Set {
		*out = append(*out, at(prefix, kv.K))
	}
	for _, kv := range pu.Patch {
		*out = append(*out, at(prefix, kv.K))
		f, _ := x.fieldOf(rec, kv.K)
		x.touched(x.recordOf(f.Ty), kv.V, at(prefix, kv.K), out)
	}
}

func (x *runner) puTouches(rec string, pu *codec.PU, spec [][]string) bool {
	var ps [][]string
	x.touched(rec, pu, nil, &ps)
	for _, p := range ps {
		if dirMatches(spec, p) {
			return true
		}
	}
	return false
}

// prunePU: the partial update the receiver holds when the $set values travelled without the
// nodes at matching paths.
func (x *runner) prunePU(rec string, pu *codec.PU, spec [][]string, prefix []string) *codec.PU {
	out := &codec.PU{Del: pu.Del}
	for _, kv := range pu.Set {
		f, _ := x.fieldOf(rec, kv.K)
		out.Set = append(out.Set, codec.KV{K: kv.K, V: x.pruneV(f.Ty, kv.V, spec, at(prefix, kv.K))})
	}
	for _, kv := range pu.Patch {
		f, _ := x.fieldOf(rec, kv.K)
		out.Patch = append(out.Patch, codec.PKV{K: kv.K, V: x.prunePU(x.recordOf(f.Ty), kv.V, spec, at(prefix, kv.K))})
	}
	return out
}

// tame renames the map keys `$set` / `$delete` (a directive through a map with such a key is
// the known finding C07-patch-operator-key, established by the codec run; not this run's subject)
func tame(v *codec.V) *codec.V {
	if v == nil {
		return nil
	}
	out := *v
	out.KVs, out.Items = nil, nil
	seen := map[string]bool{}
	for _, kv := range v.KVs {
		k := kv.K
		if v.K == "map" {
			if k == "$set" || k == "$delete" {
				k = "k" + k[1:]
			}
			if seen[k] {
				continue
			}
			seen[k] = true
		}
		out.KVs = append(out.KVs, codec.KV{K: k, V: tame(kv.V)})
	}
	for _, i := range v.Items {
		out.Items = append(out.Items, tame(i))
	}
	return &out
}

func tamePU(pu *codec.PU) *codec.PU {
	out := &codec.PU{Del: pu.Del}
	for _, kv := range pu.Set {
		out.Set = append(out.Set, codec.KV{K: kv.K, V: tame(kv.V)})
	}
	for _, kv := range pu.Patch {
		out.Patch = append(out.Patch, codec.PKV{K: kv.K, V: tamePU(kv.V)})
	}
	return out
}

// fullNested draws a vc.Nested in which every annotated path of the corpus resources exists: all
// optional fields present, arrays and maps non-empty, every Inner with a name.
func (x *runner) fullNested(rng *rand.Rand) *codec.V {
	prim := func(p codec.Prim) *codec.V { return x.env.GenPrim(rng, p) }
	inner := func() *codec.V {
		return codec.VRec(codec.KV{K: "id", V: prim("i32")}, codec.KV{K: "name", V: prim("str")})
	}
	keys := []string{"k", "a b", "é", "x/y", "*", "", "(", "'", "id", "name"}
	pick := func(n int) []string {
		var out []string
		for _, i := range rng.Perm(len(keys))[:n] {
			out = append(out, keys[i])
		}
		return out
	}
	arr := codec.VArr()
	for i, n := 0, 1+rng.Intn(3); i < n; i++ {
		arr.Items = append(arr.Items, inner())
	}
	m := codec.VMap()
	for _, k := range pick(1 + rng.Intn(3)) {
		m.KVs = append(m.KVs, codec.KV{K: k, V: inner()})
	}
	aa := codec.VArr()
	for i, n := 0, 1+rng.Intn(2); i < n; i++ {
		row := codec.VArr()
		for j, w := 0, rng.Intn(3); j < w; j++ {
			row.Items = append(row.Items, prim("i32"))
		}
		aa.Items = append(aa.Items, row)
	}
	mm := codec.VMap()
	for _, k := range pick(1 + rng.Intn(2)) {
		in := codec.VMap()
		for _, k2 := range pick(rng.Intn(3)) {
			in.KVs = append(in.KVs, codec.KV{K: k2, V: prim("str")})
		}
		mm.KVs = append(mm.KVs, codec.KV{K: k, V: in})
	}
	am := codec.VArr()
	for i, n := 0, 1+rng.Intn(2); i < n; i++ {
		in := codec.VMap()
		for _, k2 := range pick(rng.Intn(3)) {
			in.KVs = append(in.KVs, codec.KV{K: k2, V: prim("i64")})
		}
		am.Items = append(am.Items, in)
	}
	return codec.VRec(
		codec.KV{K: "inner", V: inner()}, codec.KV{K: "optInner", V: inner()}, codec.KV{K: "arr", V: arr}, codec.KV{K: "m", V: m},
		codec.KV{K: "aa", V: aa}, codec.KV{K: "mm", V: mm}, codec.KV{K: "am", V: am}, codec.KV{K: "empty", V: codec.VRec()})
}

// ---- documents of a call

func keyText(k *codec.V) string { return strconv.FormatInt(k.I, 10) }

func obj(kvs ...codec.DKV) *codec.D { return &codec.D{K: "obj", KVs: kvs} }

// bodyDoc is the protocol's request body for the call; with a spec, without the excluded nodes.
func (x *runner) bodyDoc(c *Call, spec [][]string) *codec.D {
	ent := codec.R(c.Res.Schema)
	entity := func(v *codec.V) *codec.D {
		d := x.env.RefDoc(ent, v)
		if d == nil {
			panic("C07G: value outside its schema")
		}
		return pruneD(d, spec, nil)
	}
	pu := func(p *codec.PU) *codec.D {
		d := x.env.RefPatchDoc(c.Res.Schema, p)
		if d == nil {
			panic("C07G: patch value outside its schema")
		}
		return obj(codec.DKV{K: "patch", V: prunePatchD(d, spec, nil)})
	}
	switch c.Kind() {
	case "create", "update":
		return entity(c.Entity)
	case "partial_update":
		return pu(c.PU)
	case "batch_create":
		arr := &codec.D{K: "arr"}
		for _, e := range c.Entities {
			arr.Elts = append(arr.Elts, entity(e))
		}
		return obj(codec.DKV{K: "elements", V: arr})
	case "batch_update":
		ents := obj()
		for i, k := range c.BatchKeys {
			ents.KVs = append(ents.KVs, codec.DKV{K: keyText(k), V: entity(c.BatchVals[i])})
		}
		return obj(codec.DKV{K: "entities", V: ents})
	case "batch_partial_update":
		ents := obj()
		for i, k := range c.BatchKeys {
			ents.KVs = append(ents.KVs, codec.DKV{K: keyText(k), V: pu(c.BatchPUs[i])})
		}
		return obj(codec.DKV{K: "entities", V: ents})
	}
	return nil
}

// seenCall: the call as the resource must see it.
func (x *runner) seenCall(c *Call, spec [][]string) *Call {
	ent := codec.R(c.Res.Schema)
	out := &Call{Res: c.Res, M: c.M, Keys: c.Keys, Params: c.Params, BatchKeys: c.BatchKeys, Reply: c.Reply}
	if c.Entity != nil {
		out.Entity = x.pruneV(ent, c.Entity, spec, nil)
	}
	if c.PU != nil {
		out.PU = x.prunePU(c.Res.Schema, c.PU, spec, nil)
	}
	for _, e := range c.Entities {
		out.Entities = append(out.Entities, x.pruneV(ent, e, spec, nil))
	}
	for _, e := range c.BatchVals {
		out.BatchVals = append(out.BatchVals, x.pruneV(ent, e, spec, nil))
	}
	for _, p := range c.BatchPUs {
		out.BatchPUs = append(out.BatchPUs, x.prunePU(c.Res.Schema, p, spec, nil))
	}
	return out
}

// refused: must the client refuse the call (a partial update names an excluded field)?
func (x *runner) refused(c *Call, spec [][]string) bool {
	if c.PU != nil && x.puTouches(c.Res.Schema, c.PU, spec) {
		return true
	}
	for _, p := range c.BatchPUs {
		if x.puTouches(c.Res.Schema, p, spec) {
			return true
		}
	}
	return false
}

// templateCall: the same call with a body no exclusion concerns (its wire request is the carrier
// of the hand-made bodies of (d))
func (x *runner) templateCall(c *Call, spec [][]string) *Call {
	t := x.seenCall(c, spec)
	if c.PU != nil {
		t.PU = &codec.PU{}
	}
	for i := range t.BatchPUs {
		t.BatchPUs[i] = &codec.PU{}
	}
	return t
}

// planReply: a plain successful reply
func planReply(c *Call) {
	c.Reply = Reply{}
	ok := 204
	switch c.Kind() {
	case "create":
		c.Reply.Created = []Created{{Id: codec.VI64(77), Status: 201}}
	case "batch_create":
		for i := range c.Entities {
			c.Reply.Created = append(c.Reply.Created, Created{Id: codec.VI64(int64(100 + i)), Status: 201})
		}
	case "batch_update", "batch_partial_update":
		for _, k := range c.BatchKeys {
			c.Reply.Batch = append(c.Reply.Batch, BatchEntry{Key: k, Update: &ok})
		}
	}
}

// ---- grafting: a pruned document plus ONE node of the full document at a matching path

// graft returns a copy of dst in which the first node of src that lies exactly at the directive
// (and whose parent dst still has) is put back; in patch documents the walk also descends into
// `$set`. ok=false when src has no such node.
func graft(dst, src *codec.D, dir []string, patchDoc bool) (*codec.D, bool) {
	if dst == nil || src == nil || dst.K != src.K {
		return nil, false
	}
	cp := func() *codec.D {
		c := *dst
		c.KVs = append([]codec.DKV(nil), dst.KVs...)
		c.Elts = append([]*codec.D(nil), dst.Elts...)
		return &c
	}
	get := func(d *codec.D, k string) (*codec.D, int) {
		for i, e := range d.KVs {
			if e.K == k {
				return e.V, i
			}
		}
		return nil, -1
	}
	switch src.K {
	case "arr":
		if dir[0] != "*" || len(dir) == 1 {
			return nil, false
		}
		for i := range src.Elts {
			if i < len(dst.Elts) {
				if sub, ok := graft(dst.Elts[i], src.Elts[i], dir[1:], patchDoc); ok {
					out := cp()
					out.Elts[i] = sub
					return out, true
				}
			}
		}
		return nil, false
	case "obj":
		if patchDoc {
			if s, _ := get(src, "$set"); s != nil {
				if d, i := get(dst, "$set"); d != nil {
					if sub, ok := graft(d, s, dir, false); ok {
						out := cp()
						out.KVs[i] = codec.DKV{K: "$set", V: sub}
						return out, true
					}
				}
			}
		}
		for _, e := range src.KVs {
			if (dir[0] != "*" && dir[0] != e.K) || (patchDoc && strings.HasPrefix(e.K, "$")) {
				continue
			}
			d, i := get(dst, e.K)
			if len(dir) == 1 {
				if d != nil {
					continue // still there: not an excluded node of this document
				}
				out := cp()
				out.KVs = append(out.KVs, e)
				return out, true
			}
			if d == nil {
				continue
			}
			if sub, ok := graft(d, e.V, dir[1:], patchDoc); ok {
				out := cp()
				out.KVs[i] = codec.DKV{K: e.K, V: sub}
				return out, true
			}
		}
	}
	return nil, false
}

// graftBody applies graft inside the method's envelope (first entity that takes it).
func graftBody(kind string, pruned, full *codec.D, dir []string) (*codec.D, bool) {
	wrap := func(d *codec.D, k string, sub *codec.D) *codec.D {
		out := obj()
		for _, e := range d.KVs {
			if e.K == k {
				e.V = sub
			}
			out.KVs = append(out.KVs, e)
		}
		return out
	}
	child := func(d *codec.D, k string) *codec.D {
		for _, e := range d.KVs {
			if e.K == k {
				return e.V
			}
		}
		return nil
	}
	switch kind {
	case "create", "update":
		return graft(pruned, full, dir, false)
	case "partial_update":
		sub, ok := graft(child(pruned, "patch"), child(full, "patch"), dir, true)
		if !ok {
			return nil, false
		}
		return wrap(pruned, "patch", sub), true
	case "batch_create":
		pe, fe := child(pruned, "elements"), child(full, "elements")
		for i := range pe.Elts {
			if sub, ok := graft(pe.Elts[i], fe.Elts[i], dir, false); ok {
				arr := &codec.D{K: "arr", Elts: append([]*codec.D(nil), pe.Elts...)}
				arr.Elts[i] = sub
				return wrap(pruned, "elements", arr), true
			}
		}
	case "batch_update", "batch_partial_update":
		pe, fe := child(pruned, "entities"), child(full, "entities")
		for _, e := range pe.KVs {
			var sub *codec.D
			var ok bool
			if kind == "batch_update" {
				sub, ok = graft(e.V, child(fe, e.K), dir, false)
			} else if sub, ok = graft(child(e.V, "patch"), child(child(fe, e.K), "patch"), dir, true); ok {
				sub = wrap(e.V, "patch", sub)
			}
			if ok {
				return wrap(pruned, "entities", wrap(pe, e.K, sub)), true
			}
		}
	}
	return nil, false
}

// ---- one case

func exOp(module string, c *Call) string {
	return fmt.Sprintf("c07g %s %s %s %s", module, c.Res.Pkg, c.Kind(), c.callSexp())
}

func (x *runner) describe(ex *execution) string {
	body := "-"
	if _, _, b, ok := effective(&ex.cap); ok && len(b) > 0 {
		body = string(b)
	} else if len(ex.cap.body) > 0 {
		body = "(undecodable) " + string(ex.cap.body)
	}
	s := fmt.Sprintf("[%s] requests=%d wire=%s %s?%s body=%s status=%d | saw: %s | returned: %s", ex.cfg, ex.cap.n, ex.cap.method, ex.cap.escPath, ex.cap.rawQuery, body, ex.cap.status, ex.inv, ex.ret)
	if ex.errText != "" {
		s += " (" + ex.errText + ")"
	}
	return s
}

// rawSend sends the wire request of a captured exchange again with another body, through real
// net/http serialisation, to the plain world's server; the generated client is not involved.
func (x *runner) rawSend(tpl *capture, c *Call, body []byte) (status int, calls []recorded, err error) {
	w := x.worlds["plain"]
	w.calls, w.plan = nil, c
	defer func() { w.plan = nil }()
	u := "http://c02.test" + tpl.escPath
	if tpl.rawQuery != "" {
		u += "?" + tpl.rawQuery
	}
	req, err := http.NewRequest(tpl.method, u, hx.ShortReads(body))
	if err != nil {
		return 0, nil, err
	}
	req.ContentLength = int64(len(body))
	for k, v := range tpl.header {
		if k != "Content-Length" {
			req.Header[k] = append([]string(nil), v...)
		}
	}
	var got capture
	t := &transport{w: w, mode: "wire", cap: &got}
	res, err := t.RoundTrip(req)
	if err != nil {
		return 0, nil, err
	}
	res.Body.Close()
	return got.status, w.calls, nil
}

func invokedNames(calls []recorded) string {
	var ns []string
	for _, r := range calls {
		ns = append(ns, r.res+"."+r.fn)
	}
	return "[" + strings.Join(ns, ",") + "]"
}

const exWhat = "a read-only or create-only field"

// exCase runs one call through the generated client under every configuration and judges it, then
// (plain world) sends hand-made bodies for the same request past the client.
func (x *runner) exCase(c *Call, cfgs []runCfg) {
	r := x.r
	kind := c.Kind()
	spec := exclSpec(c.Res, kind)
	op := exOp(x.cfg.Module, c)
	planReply(c)
	full := x.bodyDoc(c, nil)
	fullTree, err := codec.ParseJSONStrict([]byte(full.JSON(codec.JSONStyle{})))
	if err != nil {
		panic("C07G: reference renderer wrote invalid JSON: " + err.Error())
	}
	offending := bodyCarries(kind, fullTree, spec)
	refuse := x.refused(c, spec)
	want := x.bodyDoc(c, spec)
	seen := x.seenCall(c, spec)
	wantInv, wantRet := canonInvocation(x.env, seen), expectedRet(x.env, c)

	r.Count("method:" + kind)
	r.Count("resource:" + c.Res.Pkg)
	switch {
	case refuse:
		r.Count("expect:refused on the client")
	case offending:
		r.Count("expect:travels without the excluded fields")
	default:
		r.Count("expect:travels unchanged")
	}
	if offending {
		r.Distinctive(op)
	}

	for _, rc := range cfgs {
		ex := x.execute(rc, c)
		opc := op + " ;cfg=" + rc.String()
		impl := x.describe(ex)
		r.Count("cfg:" + rc.world + "/" + rc.mode)
		r.OracleCases++
		if ex.out.buildFail != "" || ex.out.panicked != "" {
			r.OracleFail(hx.Case{Sig: "C07 the generated client could not be called or panicked (" + kind + ")", Op: opc, Impl: impl})
			continue
		}
		if refuse {
			// (c) nothing leaves the client
			var ipe *patch.IllegalPartialUpdateError
			if ex.cap.n != 0 || len(ex.calls) != 0 || ex.out.err == nil || !errors.As(ex.out.err, &ipe) {
				r.OracleFail(hx.Case{Sig: "C07 " + kind + " naming " + exWhat + " was not refused on the client before anything was sent", Op: opc, Impl: impl,
					Expected: "a partial-update error from the client, no request, no resource method invoked"})
			}
			continue
		}
		// (a) (b) (e): what travels
		_, _, body, okEff := effective(&ex.cap)
		tree, perr := codec.ParseJSONStrict(body)
		switch {
		case ex.cap.n != 1 || !okEff || perr != nil:
			r.OracleFail(hx.Case{Sig: "C07 " + kind + " did not send exactly one request with a JSON body", Op: opc, Impl: impl, Expected: want.JSON(codec.JSONStyle{})})
			continue
		case bodyCarries(kind, tree, spec):
			r.OracleFail(hx.Case{Sig: "C07 " + kind + " transmitted " + exWhat, Op: opc, Impl: impl, Expected: want.JSON(codec.JSONStyle{})})
			continue
		case !sameBody(tree, want):
			r.OracleFail(hx.Case{Sig: "C07 " + kind + ": the request body is not the entity minus the excluded fields", Op: opc, Impl: impl, Expected: want.JSON(codec.JSONStyle{})})
			continue
		}
		r.OracleCases++
		if !ex.invOK || ex.inv != wantInv {
			r.OracleFail(hx.Case{Sig: "C07 " + kind + ": the resource did not see the values sent, minus the excluded fields", Op: opc, Impl: impl, Expected: "exactly one invocation: " + wantInv})
			continue
		}
		if ex.ret != wantRet {
			r.OracleFail(hx.Case{Sig: "C07 " + kind + ": the client did not return what the resource returned", Op: opc, Impl: impl, Expected: wantRet})
		}
	}

	// (d) past the client: the control call's own request carries the hand-made bodies
	tc := x.templateCall(c, spec)
	planReply(tc)
	tex := x.execute(runCfg{"wire", 0, "plain"}, tc)
	r.OracleCases++
	if tex.cap.n != 1 || tex.out.err != nil || !tex.invOK || tex.inv != canonInvocation(x.env, tc) {
		r.OracleFail(hx.Case{Sig: "C07 control " + kind + " without any annotated field did not go through unchanged", Op: exOp(x.cfg.Module, tc) + " ;cfg=" + tex.cfg.String(), Impl: x.describe(tex),
			Expected: "exactly one invocation: " + canonInvocation(x.env, tc)})
		return
	}
	send := func(label string, doc *codec.D, reject bool, seenAs *Call) {
		body := []byte(doc.JSON(codec.JSONStyle{}))
		opr := op + " ;raw=" + label
		r.OracleCases++
		r.Count("raw:" + map[bool]string{true: "carrying an excluded field", false: "carrying none"}[reject])
		status, calls, err := x.rawSend(&tex.cap, seenAs, body)
		impl := fmt.Sprintf("%s %s?%s body=%s -> status=%d invoked=%s", tex.cap.method, tex.cap.escPath, tex.cap.rawQuery, body, status, invokedNames(calls))
		if err != nil {
			r.OracleFail(hx.Case{Sig: "C07 harness: hand-made request could not be exchanged", Op: opr, Impl: impl + " " + err.Error()})
			return
		}
		if reject {
			if status != 400 || len(calls) != 0 {
				r.OracleFail(hx.Case{Sig: "C07 the server did not answer 400 without invoking the resource to a " + kind + " body carrying " + exWhat, Op: opr, Impl: impl, Expected: "status=400 invoked=[]"})
			}
			return
		}
		got := "no resource method invoked"
		if len(calls) == 1 {
			if gc, err := x.worlds["plain"].readInvocation(calls[0], seenAs); err == nil && calls[0].res == seenAs.Res.Pkg && calls[0].fn == FuncName(seenAs.M) {
				got = canonInvocation(x.env, gc)
			} else {
				got = "another or unreadable invocation " + invokedNames(calls)
			}
		} else if len(calls) > 1 {
			got = "several invocations " + invokedNames(calls)
		}
		if status < 200 || status > 299 || got != canonInvocation(x.env, seenAs) {
			r.OracleFail(hx.Case{Sig: "C07 the server did not accept a " + kind + " body carrying no excluded field", Op: opr, Impl: impl + " saw: " + got, Expected: "2xx, exactly one invocation: " + canonInvocation(x.env, seenAs)})
		}
	}
	if offending {
		send("full", full, true, seen)
	} else {
		send("full", full, false, seen)
	}
	if !refuse && offending {
		send("pruned", want, false, seen)
	}
	if offending {
		base := want
		if refuse {
			// nothing of this call travels: graft onto the control call's body instead
			base = x.bodyDoc(tc, spec)
		}
		for _, dir := range spec {
			if doc, ok := graftBody(kind, base, full, dir); ok {
				tree, err := codec.ParseJSONStrict([]byte(doc.JSON(codec.JSONStyle{})))
				if err != nil || !bodyCarries(kind, tree, spec) {
					panic("C07G: grafted document does not carry " + strings.Join(dir, "/"))
				}
				send("only:"+strings.Join(dir, "/"), doc, true, seen)
			}
		}
	}
}

// getCase: reads are not concerned — the caller receives every field the resource returned.
func (x *runner) getCase(res *codec.C02Resource, key int64, v *codec.V) {
	c := &Call{Res: res, M: res.Method("rest", "get"), Keys: []*codec.V{codec.VI64(key)}}
	c.Reply.Entity = v
	op := exOp(x.cfg.Module, c)
	x.r.Count("method:get")
	for _, rc := range []runCfg{{"wire", 0, "plain"}, {"wire", 1, "plain"}} {
		ex := x.execute(rc, c)
		x.r.OracleCases++
		if !ex.invOK || ex.ret != expectedRet(x.env, c) {
			x.r.OracleFail(hx.Case{Sig: "C07 get: the returned entity did not reach the caller with its read-only and create-only fields", Op: op + " ;cfg=" + rc.String(), Impl: x.describe(ex), Expected: expectedRet(x.env, c)})
		}
	}
}

// ---- case generation

// directTouches: partial updates that name the directive's field by $set, $delete or a nested
// patch, and one whose $set value merely contains it; values come from a full entity.
func (x *runner) directTouches(rec string, full *codec.V, dir []string) []*codec.PU {
	var out []*codec.PU
	f, ok := x.fieldOf(rec, dir[0])
	if !ok {
		return nil
	}
	deletable := f.Optional || f.Default != nil
	val := full.Get(dir[0])
	sub := x.recordOf(f.Ty)
	// the whole field set: names it (len 1) or contains the excluded node (longer directives)
	out = append(out, &codec.PU{Set: []codec.KV{{K: dir[0], V: val}}})
	if len(dir) == 1 {
		if deletable {
			out = append(out, &codec.PU{Del: []string{dir[0]}})
		}
		if sub != "" {
			out = append(out, &codec.PU{Patch: []codec.PKV{{K: dir[0], V: &codec.PU{}}}})
			for _, sf := range x.env.AllFields(sub) {
				if sv := val.Get(sf.Name); sv != nil {
					out = append(out, &codec.PU{Patch: []codec.PKV{{K: dir[0], V: &codec.PU{Set: []codec.KV{{K: sf.Name, V: sv}}}}}})
					break
				}
			}
		}
		return out
	}
	if sub != "" && dir[1] != "*" {
		for _, p := range x.directTouches(sub, val, dir[1:]) {
			out = append(out, &codec.PU{Patch: []codec.PKV{{K: dir[0], V: p}}})
		}
		// a sibling of the excluded field patched: allowed
		for _, sf := range x.env.AllFields(sub) {
			if sf.Name != dir[1] && val.Get(sf.Name) != nil {
				out = append(out, &codec.PU{Patch: []codec.PKV{{K: dir[0], V: &codec.PU{Set: []codec.KV{{K: sf.Name, V: val.Get(sf.Name)}}}}}})
			}
		}
	}
	return out
}

func (x *runner) exclRounds(res *codec.C02Resource, rng *rand.Rand, round int) {
	rec := res.Schema
	ent := codec.R(rec)
	m := func(name string) *codec.C02Method { return res.Method("rest", name) }
	key := func() *codec.V { return codec.VI64([]int64{1, 0, -7, 9007199254740993, 42}[rng.Intn(5)]) }
	cfgsFor := func(i int) []runCfg {
		cfgs := []runCfg{{"wire", 0, "plain"}}
		switch i % 4 {
		case 1:
			cfgs = append(cfgs, runCfg{"wire", 1, "plain"})
		case 2:
			cfgs = append(cfgs, runCfg{"wire", 0, "prefixed"})
		case 3:
			if round == 0 || x.cfg.Tier == "thorough" {
				cfgs = append(cfgs, runCfg{"tcp", 0, "plain"})
			}
		}
		return cfgs
	}
	n := 0
	run := func(c *Call) {
		x.exCase(c, cfgsFor(n))
		n++
	}
	all := splitDirs(append(append([]string{}, res.ReadOnly...), res.CreateOnly...))

	full := x.fullNested(rng)
	bare := x.pruneV(ent, full, all, nil) // no annotated optional field, annotated required ones zero
	random := tame(x.env.GenValue(rng, ent, 3, codec.GenOpts{OptPct: 60}))
	values := []*codec.V{full, bare, random}

	// (a) (b) (e): entities
	for _, v := range values {
		run(&Call{Res: res, M: m("create"), Entity: v})
		run(&Call{Res: res, M: m("update"), Keys: []*codec.V{key()}, Entity: v})
	}
	run(&Call{Res: res, M: m("batch_create"), Entities: []*codec.V{full, bare, random}})
	run(&Call{Res: res, M: m("batch_create"), Entities: []*codec.V{bare}})
	run(&Call{Res: res, M: m("batch_update"), BatchKeys: []*codec.V{codec.VI64(1), codec.VI64(-2), codec.VI64(3)}, BatchVals: []*codec.V{bare, full, random}})
	run(&Call{Res: res, M: m("batch_update"), BatchKeys: []*codec.V{codec.VI64(5)}, BatchVals: []*codec.V{full}})
	run(&Call{Res: res, M: m("batch_update"), BatchKeys: []*codec.V{codec.VI64(6)}, BatchVals: []*codec.V{bare}})
	x.getCase(res, 9, full)

	// (c): partial updates built around every directive, then drawn ones
	var pus []*codec.PU
	for _, dir := range all {
		pus = append(pus, x.directTouches(rec, full, dir)...)
	}
	pus = append(pus, &codec.PU{}, &codec.PU{Set: []codec.KV{{K: "m", V: codec.VMap()}}})
	for i := 0; i < 4; i++ {
		p, _ := x.env.GenPU(rng, rec, 2, 0)
		pus = append(pus, tamePU(p))
	}
	benign := &codec.PU{Patch: []codec.PKV{{K: "empty", V: &codec.PU{}}}}
	for i, p := range pus {
		run(&Call{Res: res, M: m("partial_update"), Keys: []*codec.V{key()}, PU: p})
		if i%2 == round%2 {
			run(&Call{Res: res, M: m("batch_partial_update"), BatchKeys: []*codec.V{codec.VI64(11), codec.VI64(12)}, BatchPUs: []*codec.PU{benign, p}})
		}
	}
	run(&Call{Res: res, M: m("batch_partial_update"), BatchKeys: []*codec.V{codec.VI64(11)}, BatchPUs: []*codec.PU{benign}})
}

// exReplay: "c07g <module> <resource> <method> (call …)[ ;cfg=… | ;raw=…]"
func (x *runner) exReplay(line string) {
	opPart := line
	if i := strings.Index(line, " ;"); i >= 0 {
		opPart = line[:i]
	}
	ss, err := hx.ParseLine(opPart)
	if err != nil || len(ss) != 5 || ss[0].Atom != "c07g" || !ss[4].IsList || len(ss[4].List) != 4 {
		return // another runner's op
	}
	var res *codec.C02Resource
	for _, r := range codec.C02Resources() {
		if r.Pkg == ss[2].Atom && r.HasExclusions() {
			res = r
		}
	}
	if res == nil || res.Method("rest", ss[3].Atom) == nil {
		x.r.OracleFail(hx.Case{Sig: "C07 replay line not understood", Op: line, Impl: "no such resource / method"})
		return
	}
	c := &Call{Res: res, M: res.Method("rest", ss[3].Atom)}
	call := ss[4]
	for _, k := range call.List[1].List {
		v, err := codec.ParseV(k)
		if err != nil {
			x.r.OracleFail(hx.Case{Sig: "C07 replay line not understood", Op: line, Impl: err.Error()})
			return
		}
		c.Keys = append(c.Keys, v)
	}
	if err := parseBody(c, call.List[3]); err != nil {
		x.r.OracleFail(hx.Case{Sig: "C07 replay line not understood", Op: line, Impl: err.Error()})
		return
	}
	if c.Kind() == "get" {
		return
	}
	x.exCase(c, []runCfg{{"wire", 0, "plain"}, {"wire", 1, "plain"}, {"wire", 0, "prefixed"}, {"tcp", 0, "plain"}})
}

// RunExcluded is harness prop C07G.
func RunExcluded(cfg Config) *hx.Result {
	r := hx.NewResult("C07", cfg.Module, cfg.Seed, cfg.Tier)
	r.Rule = "the corpus resources declaring readOnlyFields / createOnlyFields (read-only only, create-only only, both; whole fields, fields of a nested record, of array items and of map values, required and optional) " +
		"× create, batch_create, update, batch_update, partial_update, batch_partial_update through the clients and server registrations the real generator produced, over net/http (untunnelled, tunnelled, under a context path, over TCP): " +
		"entities with every annotated field set, with none, and drawn ones; partial updates that $set / $delete / patch each annotated field or a field containing it, and drawn ones; " +
		"then the same wire request with hand-made bodies (the full document, the pruned one, the pruned one plus ONE excluded node) past the client; non-trivial = the call's own document carries an excluded field"
	if !generatedBindings {
		r.OracleFail(hx.Case{Sig: "C07 harness built without the generated bindings (the extra run C07G must set gencode)", Op: "-", Impl: "-"})
		return r
	}
	x := newRunner(cfg, r)
	defer x.close()
	if len(cfg.Replay) > 0 {
		for _, line := range cfg.Replay {
			x.exReplay(line)
		}
		return r
	}
	rounds := 2
	if cfg.Tier == "thorough" {
		rounds = 25
	}
	nres := 0
	for _, res := range codec.C02Resources() {
		if !res.HasExclusions() {
			continue
		}
		nres++
		rng := hx.Rng(cfg.Seed, "c07g/"+res.Pkg)
		for round := 0; round < rounds; round++ {
			x.exclRounds(res, rng, round)
		}
	}
	if nres == 0 {
		r.OracleFail(hx.Case{Sig: "C07 the resource corpus declares no read-only / create-only field", Op: "-", Impl: "-"})
	}
	return r
}
