//go:build !rootmod

package c02

import (
	"fmt"
	"math"
	"strconv"
	"strings"

	"verif/harness/codec"
	"verif/harness/hx"
)

func find(rs []*codec.C02Resource, pkg string) *codec.C02Resource {
	for _, r := range rs {
		if r.Pkg == pkg {
			return r
		}
	}
	panic("no resource " + pkg)
}

var allCfgs = []runCfg{{"wire", 0, "plain"}, {"wire", 1, "plain"}, {"wire", 0, "prefixed"}, {"wire", 1, "prefixed"}, {"wire", 0, "mux"}, {"tcp", 0, "plain"}}

// fixedCorpus: the situations the property names, one by one.
func (x *runner) fixedCorpus(rs []*codec.C02Resource) {
	g := x.gen
	ok := func(c *Call) *Call { // a successful reply whatever was drawn
		for c.Reply.Err != nil {
			c2 := g.call(c.Res, c.M)
			c.Reply = c2.Reply
		}
		return c
	}
	// every nasty string as a path key of the string-keyed collection, of the typeref-keyed one, as
	// the parent key of a simple sub-resource and as the key part of a complex key
	for _, s := range append([]string{".", ".."}, nastyKeyStrings...) {
		cs := find(rs, "collStr")
		c := ok(g.call(cs, cs.Method("rest", "get")))
		c.Keys = []*codec.V{codec.VStr(s)}
		x.runCall(c, allCfgs)

		c = ok(g.call(cs, cs.Method("rest", "delete")))
		c.Keys = []*codec.V{codec.VStr(s)}
		x.runCall(c, allCfgs[:2])

		ct := find(rs, "collTr")
		c = ok(g.call(ct, ct.Method("rest", "update")))
		c.Keys = []*codec.V{codec.VStr(s)}
		x.runCall(c, allCfgs[:2])

		d := find(rs, "detail")
		c = ok(g.call(d, d.Method("rest", "get")))
		c.Keys = []*codec.V{codec.VStr(s)}
		x.runCall(c, allCfgs[:3])

		sub := find(rs, "sub")
		c = ok(g.call(sub, sub.Method("action", "bump")))
		c.Keys = []*codec.V{codec.VI64(7), codec.VStr(s)}
		x.runCall(c, allCfgs[:2])

		ck := find(rs, "collCk")
		c = ok(g.call(ck, ck.Method("rest", "get")))
		c.Keys = []*codec.V{codec.VRec(codec.KV{K: "id", V: codec.VI32(1)}, codec.KV{K: "name", V: codec.VStr(s)},
			codec.KV{K: "$params", V: codec.VRec(codec.KV{K: "baseId", V: codec.VI64(2)}, codec.KV{K: "baseOpt", V: codec.VStr(s)})})}
		x.runCall(c, allCfgs[:3])

		// … as a batch key, a created id, a finder parameter, an action parameter
		c = ok(g.call(cs, cs.Method("rest", "batch_get")))
		c.BatchKeys = []*codec.V{codec.VStr(s), codec.VStr(s + "x")}
		c.Reply.Batch = []BatchEntry{{Key: codec.VStr(s), Result: g.entity("Inner")}, {Key: codec.VStr(s + "x"), Err: g.errorResponse()}}
		x.runCall(c, allCfgs[:3])

		c = ok(g.call(cs, cs.Method("rest", "create")))
		c.Reply.Created = []Created{{Id: codec.VStr(s), Status: 201, Entity: g.entity("Inner")}}
		x.runCall(c, allCfgs[:2])

		c = ok(g.call(cs, cs.Method("rest", "batch_create")))
		c.Entities = []*codec.V{g.entity("Inner")}
		c.Reply.Created = []Created{{Id: codec.VStr(s), Status: 201, Entity: g.entity("Inner")}}
		x.runCall(c, allCfgs[:2])

		c = ok(g.call(cs, cs.Method("finder", "byPrefix")))
		c.Params = codec.VRec(codec.KV{K: "prefix", V: codec.VStr(s)}, codec.KV{K: "keys", V: codec.VArr(codec.VStr(s), codec.VStr(""))})
		x.runCall(c, allCfgs[:3])

		a := find(rs, "acts")
		c = ok(g.call(a, a.Method("action", "concat")))
		c.Params = codec.VRec(codec.KV{K: "a", V: codec.VStr(s)}, codec.KV{K: "b", V: codec.VStr(s)})
		c.Reply.Action = codec.VStr(s + s)
		x.runCall(c, allCfgs[:2])
	}
	// integer extremes as keys
	cl := find(rs, "collLong")
	for _, k := range []int64{0, -1, 1, math.MaxInt64, math.MinInt64, 1 << 53} {
		c := ok(g.call(cl, cl.Method("rest", "get")))
		c.Keys = []*codec.V{codec.VI64(k)}
		x.runCall(c, allCfgs)
		c = ok(g.call(cl, cl.Method("rest", "batch_delete")))
		c.BatchKeys = []*codec.V{codec.VI64(k), codec.VI64(k / 2)}
		if k/2 == k {
			c.BatchKeys = c.BatchKeys[:1]
		}
		c.Reply.Batch = nil
		for _, bk := range c.BatchKeys {
			s := 204
			c.Reply.Batch = append(c.Reply.Batch, BatchEntry{Key: bk, Update: &s})
		}
		x.runCall(c, allCfgs[:3])
	}
	// float specials as a finder parameter
	for _, f := range []float64{0, math.Copysign(0, -1), 1e6, 1e21, 1e-7, math.Inf(1), math.Inf(-1), math.NaN(), math.MaxFloat64, 5e-324} {
		c := ok(g.call(cl, cl.Method("finder", "byName")))
		c.Params = codec.VRec(codec.KV{K: "name", V: codec.VStr("n")}, codec.KV{K: "tags", V: codec.VArr()}, codec.KV{K: "ratio", V: codec.VF64(f)},
			codec.KV{K: "start", V: codec.VI32(math.MinInt32)}, codec.KV{K: "count", V: codec.VI32(math.MaxInt32)})
		x.runCall(c, allCfgs[:3])
	}
}

// ---- replay: parse an op line back into a call

func (x *runner) replay(line string) {
	opPart := line
	var rc *runCfg
	if i := strings.Index(line, " ;cfg="); i >= 0 {
		opPart = line[:i]
		f := strings.Fields(line[i+6:])
		if len(f) > 0 {
			p := strings.Split(f[0], "/")
			if len(p) == 3 {
				t, _ := strconv.Atoi(strings.TrimPrefix(p[1], "T"))
				rc = &runCfg{mode: p[2], threshold: t, world: p[0]}
			}
		}
	}
	c, opCfg, err := x.parseOp(opPart)
	if err != nil {
		x.r.OracleFail(hx.Case{Sig: "C02 replay line not understood", Op: line, Impl: err.Error()})
		return
	}
	cfgs := []runCfg{opCfg}
	if rc != nil && *rc != opCfg {
		cfgs = append(cfgs, *rc)
	}
	if opCfg.threshold == 0 && opCfg.world == "plain" {
		cfgs = append(cfgs, runCfg{"wire", 1, "plain"})
	}
	x.runCall(c, cfgs)
}

func atomBytes(s *hx.Sexp) []byte { return hx.UnHex(s.Atom) }

func parsePU(s *hx.Sexp) (*codec.PU, error) {
	if !s.IsList || len(s.List) != 4 || s.List[0].Atom != "pu" {
		return nil, fmt.Errorf("bad pu %s", s)
	}
	pu := &codec.PU{}
	for _, d := range s.List[1].List[1:] {
		pu.Del = append(pu.Del, string(atomBytes(d)))
	}
	for _, e := range s.List[2].List[1:] {
		v, err := codec.ParseV(e.List[1])
		if err != nil {
			return nil, err
		}
		pu.Set = append(pu.Set, codec.KV{K: string(atomBytes(e.List[0])), V: v})
	}
	for _, e := range s.List[3].List[1:] {
		sub, err := parsePU(e.List[1])
		if err != nil {
			return nil, err
		}
		pu.Patch = append(pu.Patch, codec.PKV{K: string(atomBytes(e.List[0])), V: sub})
	}
	return pu, nil
}

func parseOptV(s *hx.Sexp) (*codec.V, error) {
	if !s.IsList && s.Atom == "-" {
		return nil, nil
	}
	return codec.ParseV(s)
}

func parseOptI(s *hx.Sexp) *int {
	if s.Atom == "-" {
		return nil
	}
	i, _ := strconv.Atoi(s.Atom)
	return &i
}

// parseBody reads the BODY part of a call s-expression (callSexp) into c.
func parseBody(c *Call, body *hx.Sexp) (err error) {
	if body.IsList {
		items := body.List[1:]
		switch body.List[0].Atom {
		case "entity":
			c.Entity, err = codec.ParseV(items[0])
		case "patch":
			c.PU, err = parsePU(items[0])
		case "entities", "ids":
			for _, it := range items {
				v, e := codec.ParseV(it)
				if e != nil {
					return e
				}
				if body.List[0].Atom == "ids" {
					c.BatchKeys = append(c.BatchKeys, v)
				} else {
					c.Entities = append(c.Entities, v)
				}
			}
		case "keyed", "keyedpatch":
			for _, it := range items {
				k, e := codec.ParseV(it.List[0])
				if e != nil {
					return e
				}
				c.BatchKeys = append(c.BatchKeys, k)
				if body.List[0].Atom == "keyed" {
					v, e := codec.ParseV(it.List[1])
					if e != nil {
						return e
					}
					c.BatchVals = append(c.BatchVals, v)
				} else {
					p, e := parsePU(it.List[1])
					if e != nil {
						return e
					}
					c.BatchPUs = append(c.BatchPUs, p)
				}
			}
		}
		if err != nil {
			return err
		}
	}
	return nil
}

// parseOp: "e2e <module> <env> <spec> <call> <reply> (cfg T PFX)"
func (x *runner) parseOp(line string) (*Call, runCfg, error) {
	rc := runCfg{mode: "wire", world: "plain"}
	ss, err := hx.ParseLine(line)
	if err != nil || len(ss) != 8 || ss[0].Atom != "e2e" {
		return nil, rc, fmt.Errorf("not an e2e op (%v)", err)
	}
	spec, call, reply, cfg := ss[4], ss[5], ss[6], ss[7]
	// the resource: by its segment names; the method: by kind and name
	var names []string
	for _, s := range spec.List[1].List[1:] {
		names = append(names, string(atomBytes(s.List[0])))
	}
	var res *codec.C02Resource
	for _, r := range codec.C02Resources() {
		if len(r.Segs) != len(names) {
			continue
		}
		same := true
		for i, s := range r.Segs {
			same = same && s.Name == names[i]
		}
		if same {
			res = r
		}
	}
	if res == nil {
		return nil, rc, fmt.Errorf("no corpus resource %v", names)
	}
	ms := spec.List[3].List
	kind, name := ms[1].Atom, ""
	var m *codec.C02Method
	switch kind {
	case "finder", "action":
		name = string(atomBytes(ms[2]))
		m = res.Method(kind, name)
	default:
		m = res.Method("rest", kind)
	}
	if m == nil {
		return nil, rc, fmt.Errorf("no method %s %s on %s", kind, name, res.Pkg)
	}
	c := &Call{Res: res, M: m}
	for _, k := range call.List[1].List {
		v, err := codec.ParseV(k)
		if err != nil {
			return nil, rc, err
		}
		c.Keys = append(c.Keys, v)
	}
	if c.Params, err = parseOptV(call.List[2]); err != nil {
		return nil, rc, err
	}
	if err = parseBody(c, call.List[3]); err != nil {
		return nil, rc, err
	}
	// the reply
	rl := reply.List[1:]
	if len(rl) == 1 && rl[0].List[0].Atom == "err" {
		st, _ := strconv.Atoi(rl[0].List[1].Atom)
		c.Reply.Err = &ErrSpec{Status: st, Message: string(atomBytes(rl[0].List[2]))}
	} else {
		rp := &c.Reply
		if rp.Entity, err = parseOptV(rl[0].List[1]); err != nil {
			return nil, rc, err
		}
		if el := rl[1].List[1]; el.IsList {
			rp.HasElems = true
			for _, it := range el.List {
				v, e := codec.ParseV(it)
				if e != nil {
					return nil, rc, e
				}
				rp.Elements = append(rp.Elements, v)
			}
		}
		if rp.Paging, err = parseOptV(rl[2].List[1]); err != nil {
			return nil, rc, err
		}
		if rp.Metadata, err = parseOptV(rl[3].List[1]); err != nil {
			return nil, rc, err
		}
		if rp.Action, err = parseOptV(rl[4].List[1]); err != nil {
			return nil, rc, err
		}
		for _, it := range rl[5].List[1:] {
			cr := Created{}
			if cr.Id, err = codec.ParseV(it.List[0]); err != nil {
				return nil, rc, err
			}
			cr.Status, _ = strconv.Atoi(it.List[1].Atom)
			if a := it.List[2].Atom; a != "-" {
				l := string(hx.UnHex(a[1:]))
				cr.Location = &l
			}
			if cr.Entity, err = parseOptV(it.List[3]); err != nil {
				return nil, rc, err
			}
			rp.Created = append(rp.Created, cr)
		}
		for _, it := range rl[6].List[1:] {
			be := BatchEntry{}
			if be.Key, err = codec.ParseV(it.List[0]); err != nil {
				return nil, rc, err
			}
			if be.Result, err = parseOptV(it.List[1]); err != nil {
				return nil, rc, err
			}
			be.Update, be.Status = parseOptI(it.List[2]), parseOptI(it.List[3])
			if be.Err, err = parseOptV(it.List[4]); err != nil {
				return nil, rc, err
			}
			rp.Batch = append(rp.Batch, be)
		}
	}
	rc.threshold, _ = strconv.Atoi(cfg.List[1].Atom)
	if cfg.List[2].Atom != "-" {
		rc.world = "prefixed"
	}
	return c, rc, nil
}
