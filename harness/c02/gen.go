//go:build !rootmod

package c02

import (
	"math/rand"

	"verif/harness/codec"
)

type generator struct {
	env *codec.Env
	rng *rand.Rand
}

var opts = codec.GenOpts{OptPct: 55}

// keys that are interesting in a URL path, in a query list and as a JSON member name
var nastyKeyStrings = []string{
	"", "''", "a", "a b", "a+b", "+", " ", "%", "%41", "100%", "%2F", "/", "a/b", "//", "?", "#", "&", "=", "a=b&c", ";",
	"(", ")", "(a:b)", ",", ":", "'", "List(1,2)", "$params", "é", "日本語", "\x00", "\x7f", "\t", "~", "*", "!", "@", "$",
	"a.b", ".a", "..a", "a..", "...", "null", "true", "\"", "\\", "{}", "[", "<x>", "key with spaces and (parens), commas: 'quotes' %25",
}

func (g *generator) str() *codec.V {
	if g.rng.Intn(3) == 0 {
		return codec.VStr(nastyKeyStrings[g.rng.Intn(len(nastyKeyStrings))])
	}
	return g.env.GenPrim(g.rng, "str")
}

func (g *generator) key(t codec.Ty) *codec.V {
	switch {
	case t.Ref == codec.C02ComplexKey:
		k := codec.VRec(codec.KV{K: "id", V: g.env.GenPrim(g.rng, "i32")})
		if g.rng.Intn(2) == 0 {
			k.KVs = append(k.KVs, codec.KV{K: "name", V: g.str()})
		}
		if g.rng.Intn(3) == 0 {
			p := codec.VRec(codec.KV{K: "baseId", V: g.env.GenPrim(g.rng, "i64")})
			if g.rng.Intn(2) == 0 {
				p.KVs = append(p.KVs, codec.KV{K: "baseOpt", V: g.str()})
			}
			k.KVs = append(k.KVs, codec.KV{K: "$params", V: p})
		}
		return k
	case t.Prim == "str" || (t.Ref != "" && g.env.Find(t.Ref).Kind == "typeref" && g.env.Find(t.Ref).Prim == "str"):
		return g.str()
	}
	return g.env.GenValue(g.rng, t, 2, opts)
}

// keyIdentity: what the key type's equality looks at (a complex key's key part only)
func keyIdentity(k *codec.V) string {
	if k.K != "rec" {
		return k.Canon()
	}
	kp := codec.VRec()
	for _, kv := range k.KVs {
		if kv.K != "$params" {
			kp.KVs = append(kp.KVs, kv)
		}
	}
	return kp.Canon()
}

func (g *generator) distinctKeys(t codec.Ty, n int) []*codec.V {
	seen := map[string]bool{}
	var out []*codec.V
	for i := 0; i < n*3 && len(out) < n; i++ {
		k := g.key(t)
		if id := keyIdentity(k); !seen[id] {
			seen[id] = true
			out = append(out, k)
		}
	}
	return out
}

func (g *generator) entity(rec string) *codec.V { return g.env.GenValue(g.rng, codec.R(rec), 3, opts) }

func (g *generator) paging() *codec.V {
	if g.rng.Intn(3) == 0 {
		return nil
	}
	return g.env.GenValue(g.rng, codec.R(tCollMeta), 3, opts)
}

var statuses = []int{200, 201, 202, 204, 400, 404, 409, 412, 500}

func (g *generator) errorResponse() *codec.V {
	return g.env.GenValue(g.rng, codec.R(tErrResp), 2, codec.GenOpts{OptPct: 30})
}

func (g *generator) created(c *Call, returnEntity bool) Created {
	cr := Created{Id: g.key(c.Res.Last().Key.Ty), Status: []int{0, 201, 201, 200, 202}[g.rng.Intn(5)]}
	if returnEntity {
		cr.Entity = g.entity(c.Res.Schema)
	}
	return cr
}

// call draws one well-formed call of method m and the reply its resource will give.
func (g *generator) call(r *codec.C02Resource, m *codec.C02Method) *Call {
	c := &Call{Res: r, M: m}
	for _, k := range r.Keys(m.OnEntity) {
		c.Keys = append(c.Keys, g.key(k.Ty))
	}
	if hasParams(m) {
		c.Params = g.env.GenValue(g.rng, codec.R(paramsDecl(r, m)), 3, opts)
	}
	kind := c.Kind()
	var kt codec.Ty
	if r.Last().Key != nil {
		kt = r.Last().Key.Ty
	}
	switch kind {
	case "create", "update":
		c.Entity = g.entity(r.Schema)
	case "partial_update":
		c.PU, _ = g.env.GenPU(g.rng, r.Schema, 2, 0)
	case "batch_create":
		for i, n := 0, g.rng.Intn(4); i < n; i++ {
			c.Entities = append(c.Entities, g.entity(r.Schema))
		}
	case "batch_get", "batch_delete":
		c.BatchKeys = g.distinctKeys(kt, g.rng.Intn(5))
	case "batch_update":
		c.BatchKeys = g.distinctKeys(kt, g.rng.Intn(4))
		for range c.BatchKeys {
			c.BatchVals = append(c.BatchVals, g.entity(r.Schema))
		}
	case "batch_partial_update":
		c.BatchKeys = g.distinctKeys(kt, g.rng.Intn(4))
		for range c.BatchKeys {
			pu, _ := g.env.GenPU(g.rng, r.Schema, 2, 0)
			c.BatchPUs = append(c.BatchPUs, pu)
		}
	}

	// the reply
	rp := &c.Reply
	if g.rng.Intn(14) == 0 {
		rp.Err = &ErrSpec{Status: []int{400, 404, 409, 422, 500, 503}[g.rng.Intn(6)], Message: string(g.str().B)}
		return c
	}
	switch kind {
	case "get":
		rp.Entity = g.entity(r.Schema)
	case "partial_update":
		if m.ReturnEntity {
			rp.Entity = g.entity(r.Schema)
		}
	case "create":
		rp.Created = []Created{g.created(c, m.ReturnEntity)}
	case "batch_create":
		for range c.Entities {
			cr := g.created(c, m.ReturnEntity)
			if g.rng.Intn(3) == 0 {
				l := string(g.str().B)
				cr.Location = &l
			}
			rp.Created = append(rp.Created, cr)
		}
	case "get_all", "finder":
		rp.HasElems = true
		et := codec.R(r.Schema)
		if m.Return != nil {
			et = *m.Return
		}
		for i, n := 0, g.rng.Intn(4); i < n; i++ {
			rp.Elements = append(rp.Elements, g.env.GenValue(g.rng, et, 3, opts))
		}
		rp.Paging = g.paging()
		if m.Metadata != nil {
			rp.Metadata = g.env.GenValue(g.rng, *m.Metadata, 3, opts)
		}
	case "action":
		if m.Return != nil {
			rp.Action = g.env.GenValue(g.rng, *m.Return, 3, opts)
		}
	case "batch_get", "batch_update", "batch_partial_update", "batch_delete":
		for _, k := range c.BatchKeys {
			e := BatchEntry{Key: k}
			switch g.rng.Intn(6) {
			case 0:
				e.Err = g.errorResponse()
			case 1:
				continue // the resource says nothing about this key
			default:
				if kind == "batch_get" {
					e.Result = g.entity(r.Schema)
				} else {
					s := []int{0, 204, 200, 404}[g.rng.Intn(4)]
					e.Update = &s
				}
			}
			if g.rng.Intn(3) == 0 {
				s := statuses[g.rng.Intn(len(statuses))]
				e.Status = &s
			}
			rp.Batch = append(rp.Batch, e)
		}
	}
	return c
}
