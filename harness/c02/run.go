//go:build !rootmod

package c02

import (
	"fmt"
	"mime"
	"io"
	"mime/multipart"
	"net/http"
	"net/url"
	"reflect"
	"sort"
	"strings"

	"github.com/PapaCharlie/go-restli/v2/restli"
	"verif/harness/codec"
	"verif/harness/hx"
	"verif/harness/tbl"
)

type Config struct {
	Module string
	Seed   int64
	Tier   string
	Driver *hx.Driver
	Replay []string
}

// ---- canonical forms (what D and K compare)

func sortedStrings(xs []string) []string {
	out := append([]string(nil), xs...)
	sort.Strings(out)
	return out
}

func canonPU(p *codec.PU) string {
	if p == nil {
		return "nil"
	}
	return p.Canon()
}

func canonOpt(v *codec.V) string {
	if v == nil {
		return "-"
	}
	return v.Canon()
}

// canonInvocation renders the arguments of a call; batch keys are a set (the ids travel in
// ascending order of their encodings, map iteration has no order), everything else is exact.
func canonInvocation(e *codec.Env, c *Call) string {
	return c.Res.Pkg + "." + FuncName(c.M) + " " + canonArgs(c)
}

// canonArgs: the arguments alone (the format of the model's answer)
func canonArgs(c *Call) string {
	var b strings.Builder
	fmt.Fprintf(&b, "keys=%s params=%s", vs(c.Keys, true), canonOpt(c.Params))
	switch c.Kind() {
	case "create", "update":
		b.WriteString(" entity=" + canonOpt(c.Entity))
	case "partial_update":
		b.WriteString(" patch=" + canonPU(c.PU))
	case "batch_create":
		b.WriteString(" entities=" + vs(c.Entities, true))
	case "batch_get", "batch_delete":
		var ks []string
		for _, k := range c.BatchKeys {
			ks = append(ks, k.Canon())
		}
		b.WriteString(" ids={" + strings.Join(sortedStrings(ks), " ") + "}")
	case "batch_update":
		var ks []string
		for i, k := range c.BatchKeys {
			ks = append(ks, k.Canon()+"="+canonOpt(c.BatchVals[i]))
		}
		b.WriteString(" entities={" + strings.Join(sortedStrings(ks), " ") + "}")
	case "batch_partial_update":
		var ks []string
		for i, k := range c.BatchKeys {
			ks = append(ks, k.Canon()+"="+canonPU(c.BatchPUs[i]))
		}
		b.WriteString(" patches={" + strings.Join(sortedStrings(ks), " ") + "}")
	}
	return b.String()
}

func defaultStatus(s, dflt int) int {
	if s == 0 {
		return dflt
	}
	return s
}

// canonReply renders what a resource returned / a client call returned. `asReturned` applies the
// protocol's reading of zero statuses (CreatedEntity.Status 0 = 201, BatchEntityUpdateResponse
// .Status 0 = 204) and fills schema defaults (CollectionMetadata.total), which is what the
// receiving side legitimately sees.
func canonReply(e *codec.Env, c *Call, r *Reply, single bool) string {
	if r == nil {
		return "nil"
	}
	exp := func(t codec.Ty, v *codec.V) string {
		if v == nil {
			return "-"
		}
		if v.K == "nilref" {
			return "nilref"
		}
		return e.Expected(t, v).Canon()
	}
	ent := codec.R(c.Res.Schema)
	var b strings.Builder
	switch kind := c.Kind(); {
	case kind == "update" || kind == "delete" || (kind == "partial_update" && !c.M.ReturnEntity) || (kind == "action" && c.M.Return == nil):
		return "unit"
	}
	switch kind := c.Kind(); kind {
	case "get", "partial_update":
		b.WriteString("entity=" + exp(ent, r.Entity))
	case "create", "batch_create":
		b.WriteString("created=[")
		for _, cr := range r.Created {
			loc := "-"
			if cr.Location != nil && kind == "batch_create" {
				loc = hx.Hex([]byte(*cr.Location))
			}
			fmt.Fprintf(&b, "(%s %d %s %s)", canonOpt(cr.Id), defaultStatus(cr.Status, 201), loc, exp(ent, cr.Entity))
		}
		b.WriteString("]")
	case "get_all", "finder":
		et := ent
		if c.M.Return != nil {
			et = *c.M.Return
		}
		var els []string
		for _, el := range r.Elements {
			els = append(els, exp(et, el))
		}
		b.WriteString("elements=[" + strings.Join(els, " ") + "] paging=" + exp(codec.R(tCollMeta), r.Paging))
		if c.M.Metadata != nil {
			b.WriteString(" meta=" + exp(*c.M.Metadata, r.Metadata))
		}
	case "action":
		b.WriteString("action=" + exp(*c.M.Return, r.Action))
	default:
		var es []string
		for _, be := range r.Batch {
			s := canonOpt(be.Key) + " r=" + exp(ent, be.Result)
			if be.Update != nil {
				s += fmt.Sprintf(" u=%d", defaultStatus(*be.Update, 204))
			}
			s += " s=" + optI(be.Status) + " e=" + exp(codec.R(tErrResp), be.Err)
			es = append(es, "("+s+")")
		}
		b.WriteString("batch={" + strings.Join(sortedStrings(es), " ") + "}")
	}
	return b.String()
}

// ---- one execution of one call

type runCfg struct {
	mode      string // wire | tcp
	threshold int
	world     string // plain | prefixed | mux
}

func (rc runCfg) String() string { return fmt.Sprintf("%s/T%d/%s", rc.world, rc.threshold, rc.mode) }

type execution struct {
	cfg      runCfg
	cap      capture
	calls    []recorded
	inv      string // canonical invocation seen by the fake, or a description of what went wrong
	invOK    bool
	args     string // the arguments alone
	other    bool   // another method than the call's was invoked
	errText  string // the client error's own text (diagnostics only, never compared)
	out      clientOutcome
	ret      string // canonical client result
	tunneled bool
}

func clientErrClass(err error) string {
	switch e := err.(type) {
	case *restli.Error:
		st := -1
		if e.Status != nil {
			st = int(*e.Status)
		}
		msg := "-"
		if e.Message != nil {
			msg = hx.Hex([]byte(*e.Message))
		}
		return fmt.Sprintf("err restli %d %s", st, msg)
	case *restli.UnexpectedStatusCodeError:
		return fmt.Sprintf("err unexpected-status %d", e.Response.StatusCode)
	case *restli.CreateResponseHasNoEntityHeaderError, restli.CreateResponseHasNoEntityHeaderError:
		return "err no-id-header"
	case *url.Error:
		return "err transport"
	}
	// everything else is a response that did not decode (missing fields, unknown keys, syntax)
	return "err decode"
}

func (x *runner) execute(rc runCfg, c *Call) *execution {
	w := x.worlds[rc.world]
	ex := &execution{cfg: rc}
	w.calls = nil
	w.plan = c
	cl := w.client(rc.mode, rc.threshold, &ex.cap)
	client := x.bindings[c.Res.Pkg].newClient(cl)
	ex.out = w.invoke(client, c)
	w.plan = nil
	ex.calls = w.calls
	ex.tunneled = ex.cap.header.Get("X-HTTP-Method-Override") != ""
	switch {
	case len(ex.calls) == 0:
		ex.inv = "no resource method invoked"
	case len(ex.calls) > 1:
		var names []string
		for _, r := range ex.calls {
			names = append(names, r.res+"."+r.fn)
		}
		ex.inv = "several resource methods invoked: " + strings.Join(names, ",")
	case ex.calls[0].res != c.Res.Pkg || ex.calls[0].fn != FuncName(c.M):
		ex.inv = "another method invoked: " + ex.calls[0].res + "." + ex.calls[0].fn
		ex.other = true
	default:
		got, err := w.readInvocation(ex.calls[0], c)
		if err != nil {
			ex.inv = "unreadable invocation: " + err.Error()
		} else {
			ex.inv, ex.invOK, ex.args = canonInvocation(x.env, got), true, canonArgs(got)
		}
	}
	switch {
	case ex.out.buildFail != "":
		ex.ret = "harness cannot build the call: " + ex.out.buildFail
	case ex.out.panicked != "":
		ex.ret = "panic " + ex.out.panicked
	case ex.out.err != nil:
		ex.ret = clientErrClass(ex.out.err)
		ex.errText = strings.SplitN(ex.out.err.Error(), "\n", 2)[0]
	default:
		ex.ret = "ok " + canonReply(x.env, c, ex.out.reply, true)
	}
	return ex
}

// ---- the runner

type runner struct {
	cfg      Config
	r        *hx.Result
	env      *codec.Env
	bindings map[string]binding
	worlds   map[string]*world
	gen      *generator
}

// the context path, in the form it travels in (escaped): the resolver URL carries it, the server is
// built with it (ServeHTTP compares the prefix with the escaped request path)
const prefixPath = "/ctx/api%20v1"

func expectedRet(e *codec.Env, c *Call) string {
	if c.Reply.Err != nil {
		return fmt.Sprintf("err restli %d %s", c.Reply.Err.Status, hx.Hex([]byte(c.Reply.Err.Message)))
	}
	return "ok " + canonReply(e, c, &c.Reply, true)
}

// classify names the input class a failing call belongs to (part of the failure signature, so that
// a known finding can be listed by its class). Two former classes — a path key that is a dot segment,
// a created id that is not a transparent header value — are gone with their repairs; what is left is
// decided per execution (a ServeMux redirect, see judge).
func classify(c *Call) string { return "" }

func (x *runner) judge(c *Call, op string, execs []*execution) {
	wantInv := canonInvocation(x.env, c)
	wantRet := expectedRet(x.env, c)
	cls := classify(c)
	for _, ex := range execs {
		x.r.OracleCases++
		impl := fmt.Sprintf("[%s] wire=%s %s?%s status=%d | saw: %s | returned: %s", ex.cfg, ex.cap.method, ex.cap.escPath, ex.cap.rawQuery, ex.cap.status, ex.inv, ex.ret)
		if ex.errText != "" {
			impl += " (" + ex.errText + ")"
		}
		opc := op + " ;cfg=" + ex.cfg.String()
		cls := cls
		if ex.cfg.world == "mux" && ex.cap.n > 1 && cls == "" {
			cls = " [ServeMux redirected the request: the decoded path is not clean]"
		}
		if ex.out.buildFail != "" {
			x.r.OracleFail(hx.Case{Sig: "C02 harness could not build the call", Op: opc, Impl: impl})
			continue
		}
		if !ex.invOK {
			x.r.OracleFail(hx.Case{Sig: "C02 the call did not reach exactly its resource method (" + strings.SplitN(ex.inv, ":", 2)[0] + ")" + cls, Op: opc, Impl: impl, Expected: "exactly one invocation: " + wantInv})
			continue
		}
		if ex.inv != wantInv {
			x.r.OracleFail(hx.Case{Sig: "C02 the resource saw other arguments than the caller passed (" + c.Kind() + ")" + cls, Op: opc, Impl: impl, Expected: wantInv})
			continue
		}
		if ex.ret != wantRet {
			x.r.OracleFail(hx.Case{Sig: "C02 the client returned something else than the resource returned (" + c.Kind() + ")" + cls, Op: opc, Impl: impl, Expected: wantRet})
			continue
		}
		// batch responses: filed under the caller's own key objects
		if ex.out.err == nil && len(ex.out.respKeys) > 0 {
			for _, rk := range ex.out.respKeys {
				if rk.Kind() != reflect.Ptr {
					continue
				}
				found := false
				for _, ck := range ex.out.callKeys {
					if ck.Pointer() == rk.Pointer() {
						found = true
					}
				}
				if !found {
					x.r.OracleFail(hx.Case{Sig: "C02 batch response entry not filed under the caller's key object", Op: opc, Impl: impl})
				}
			}
		}
	}
	// tunnelling and mounting make no difference
	base := execs[0]
	for _, ex := range execs[1:] {
		x.r.OracleCases++
		cls := cls
		if ex.cfg.world == "mux" && ex.cap.n > 1 && cls == "" {
			cls = " [ServeMux redirected the request: the decoded path is not clean]"
		}
		if ex.inv != base.inv || ex.ret != base.ret {
			x.r.OracleFail(hx.Case{Sig: "C02 outcome depends on tunnelling / mounting / transport" + cls, Op: op + " ;cfg=" + ex.cfg.String() + " vs " + base.cfg.String(),
				Impl: fmt.Sprintf("saw: %s | returned: %s", ex.inv, ex.ret), Expected: fmt.Sprintf("saw: %s | returned: %s", base.inv, base.ret)})
		}
	}
}

// effective de-tunnels a captured request with independent means (mime/multipart), for K's
// boundary-free comparison: (verb, query, body, content type of the carried body).
func effective(c *capture) (verb, query string, body []byte, ok bool) {
	ov := c.header.Get("X-HTTP-Method-Override")
	if ov == "" {
		return c.method, c.rawQuery, c.body, true
	}
	mt, params, err := mime.ParseMediaType(c.header.Get("Content-Type"))
	if err != nil {
		return "", "", nil, false
	}
	switch mt {
	case "application/x-www-form-urlencoded":
		return ov, string(c.body), nil, true
	case "multipart/mixed":
		mr := multipart.NewReader(strings.NewReader(string(c.body)), params["boundary"])
		for {
			p, err := mr.NextPart()
			if err == io.EOF {
				break
			}
			if err != nil {
				return "", "", nil, false
			}
			data, _ := io.ReadAll(p)
			switch p.Header.Get("Content-Type") {
			case "application/x-www-form-urlencoded":
				query = string(data)
			case "application/json":
				body = data
			default:
				return "", "", nil, false
			}
		}
		return ov, query, body, true
	}
	return "", "", nil, false
}

func hexOrDash(b []byte, present bool) string {
	if !present {
		return "-"
	}
	return "B" + hx.Hex(b)
}

// implAnswer is the implementation's side of a K comparison, in the format of the model's answer.
func (x *runner) implAnswer(c *Call, ex *execution) string {
	cp := &ex.cap
	verb, q, body, ok := effective(cp)
	mt := "-"
	if ct := cp.header.Get("Content-Type"); ct != "" {
		if m, _, err := mime.ParseMediaType(ct); err == nil {
			mt = m
		}
	}
	ov := cp.header.Get("X-HTTP-Method-Override")
	if ov == "" {
		ov = "-"
	}
	eff := "undecodable"
	if ok {
		eff = fmt.Sprintf("%s %s %s", verb, hx.Hex([]byte(q)), hexOrDash(body, len(body) > 0))
	}
	req := fmt.Sprintf("req %s %s %s %s %s %s eff %s", cp.method, hx.Hex([]byte(cp.escPath)), hx.Hex([]byte(cp.rawQuery)),
		cp.header.Get("X-RestLi-Method"), ov, mt, eff)
	inv := "inv " + ex.args
	if ex.other {
		return req + " | inv other"
	}
	if !ex.invOK {
		// nothing was invoked: the response is an error page whose text is not compared
		er := "0"
		if cp.respHdr.Get("X-RestLi-Error-Response") == "true" {
			er = "1"
		}
		ret := ex.ret
		if f := strings.Fields(ret); len(f) == 4 && f[0] == "err" && f[1] == "restli" {
			ret = "err restli " + f[2] + " -"
		}
		return req + " | inv none | " + fmt.Sprintf("resp %d - %s -", cp.status, er) + " | ret " + ret
	}
	id := "-"
	if v, ok := cp.respHdr[http.CanonicalHeaderKey("X-RestLi-Id")]; ok && len(v) > 0 {
		id = "I" + hx.Hex([]byte(v[0]))
	}
	er := "0"
	if cp.respHdr.Get("X-RestLi-Error-Response") == "true" {
		er = "1"
	}
	resp := fmt.Sprintf("resp %d %s %s %s", cp.status, id, er, hexOrDash(cp.respBody, len(cp.respBody) > 0))
	if cp.tripErr != "" {
		// net/http could not read the response (a header field value it rejects)
		resp = "resp unreadable"
	}
	return req + " | " + inv + " | " + resp + " | ret " + ex.ret
}

func (x *runner) opLine(c *Call, rc runCfg) string {
	pfx := "-"
	if rc.world == "prefixed" {
		pfx = hx.Hex([]byte(prefixPath))
	}
	return fmt.Sprintf("e2e %s %s %s %s %s %s (cfg %d %s)", x.cfg.Module, x.env.Closure(c.envRoots()...), regsSexp(), c.specSexp(), c.callSexp(), c.Reply.sexp(), rc.threshold, pfx)
}

var regsOnce string

// regsSexp lists every registration of the server (Driver/Routing.lean's format): the routing model
// walks the same tree as the real server
func regsSexp() string {
	if regsOnce != "" {
		return regsOnce
	}
	parts := []string{"regs"}
	for _, r := range codec.C02Resources() {
		var segs []string
		for _, s := range r.Segs {
			segs = append(segs, "("+s.Name+" "+b01(s.Key != nil)+")")
		}
		for i := range r.Methods {
			m := &r.Methods[i]
			what := "(m " + m.Name + ")"
			switch m.Kind {
			case "finder":
				what = "(f " + m.Name + ")"
			case "action":
				what = "(a " + m.Name + " " + b01(m.OnEntity) + ")"
			}
			parts = append(parts, "(r ("+strings.Join(segs, " ")+") "+what+")")
		}
	}
	regsOnce = "(" + strings.Join(parts, " ") + ")"
	return regsOnce
}

func keyKind(r *codec.C02Resource, m *codec.C02Method) string {
	ks := r.Keys(m.OnEntity)
	if len(ks) == 0 {
		return "none"
	}
	var parts []string
	for _, k := range ks {
		parts = append(parts, strings.NewReplacer("(", "", ")", "", " ", "-").Replace(k.Ty.Sexp()))
	}
	return strings.Join(parts, "+")
}

func (x *runner) runCall(c *Call, cfgs []runCfg) {
	op := x.opLine(c, cfgs[0])
	var execs []*execution
	for _, rc := range cfgs {
		ex := x.execute(rc, c)
		execs = append(execs, ex)
		x.r.Count("cfg:" + rc.world + "/" + rc.mode)
		if ex.tunneled {
			x.r.Count("tunnelled:yes")
		} else {
			x.r.Count("tunnelled:no")
		}
	}
	x.r.Count("method:" + c.Kind())
	x.r.Count("resource:" + c.Res.Pkg)
	x.r.Count("keys:" + keyKind(c.Res, c.M))
	if c.Reply.Err != nil {
		x.r.Count("reply:error")
	} else {
		x.r.Count("reply:ok")
	}
	x.judge(c, op, execs)
	x.r.Distinctive(fmt.Sprintf("%s.%s %s", c.Res.Pkg, FuncName(c.M), c.callSexp()))
	// K: one op per distinct (threshold, prefix)
	if x.cfg.Driver != nil {
		seen := map[string]bool{}
		for i, ex := range execs {
			id := fmt.Sprintf("%d/%v", ex.cfg.threshold, ex.cfg.world == "prefixed")
			if seen[id] || ex.out.buildFail != "" {
				continue
			}
			seen[id] = true
			kop := x.opLine(c, cfgs[i])
			x.r.Ops++
			model := x.cfg.Driver.MustAsk(kop)
			if strings.HasPrefix(model, "unmodelled") {
				x.r.Unmodelled[model]++
				continue
			}
			impl := x.implAnswer(c, ex)
			if model != impl {
				x.r.Disagree(hx.Case{Sig: "C02 model and implementation differ (" + firstDiff(model, impl) + ")" + classify(c), Op: kop, Impl: impl, Model: model})
			}
		}
	}
}

// firstDiff names the first of the four parts of an answer in which the two differ
func firstDiff(a, b string) string {
	pa, pb := strings.Split(a, " | "), strings.Split(b, " | ")
	names := []string{"wire request", "invocation", "wire response", "client result"}
	for i := range names {
		if i >= len(pa) || i >= len(pb) {
			return "shape"
		}
		if pa[i] != pb[i] {
			return names[i]
		}
	}
	return "shape"
}

// newRunner builds the three worlds (every corpus resource registered on a plain server, on a
// prefixed one and behind a ServeMux) and the call generator.
func newRunner(cfg Config, r *hx.Result) *runner {
	x := &runner{cfg: cfg, r: r, env: ExtEnv(), bindings: bindings, worlds: map[string]*world{}}
	x.worlds["plain"] = newWorld(bindings, "", false)
	x.worlds["prefixed"] = newWorld(bindings, prefixPath, false)
	x.worlds["mux"] = newWorld(bindings, "", true)
	x.gen = &generator{env: x.env, rng: hx.Rng(cfg.Seed, "c02")}
	return x
}

func (x *runner) close() {
	for _, w := range x.worlds {
		w.close()
	}
}

func Run(cfg Config) *hx.Result {
	r := hx.NewResult("C02", cfg.Module, cfg.Seed, cfg.Tier)
	r.Rule = "calls drawn per (resource, method) of the C02 resource corpus through the clients the real generator produced, " +
		"keys/params/bodies from URL- and ROR2-reserved characters, '%', '+', space, empty, non-ASCII, float specials, int extremes; " +
		"each call run untunnelled, tunnelled (threshold 1), under a context path and through a ServeMux; non-trivial = distinct (method, arguments)"
	if !generatedBindings {
		r.OracleFail(hx.Case{Sig: "C02 harness built without the generated bindings (checks.d/C02.json must set gencode)", Op: "-", Impl: "-"})
		return r
	}
	if len(cfg.Replay) == 0 {
		tbl.Confirm(cfg.Driver, cfg.Module, r)
	}
	x := newRunner(cfg, r)
	defer x.close()

	if len(cfg.Replay) > 0 {
		for _, line := range cfg.Replay {
			x.replay(line)
		}
		return r
	}
	perMethod := 6
	if cfg.Tier == "thorough" {
		perMethod = 150
	}
	rs := codec.C02Resources()
	x.fixedCorpus(rs)
	n := 0
	for round := 0; round < perMethod; round++ {
		for _, res := range rs {
			if res.HasExclusions() {
				// read-only / create-only fields: property C07's resources (excl.go); the calls drawn
				// here and the Lean model of a call know nothing about field exclusion
				continue
			}
			for i := range res.Methods {
				c := x.gen.call(res, &res.Methods[i])
				cfgs := []runCfg{{"wire", 0, "plain"}, {"wire", 1, "plain"}}
				switch n % 4 {
				case 0:
					cfgs = append(cfgs, runCfg{"wire", 40, "plain"})
				case 1:
					cfgs = append(cfgs, runCfg{"wire", 0, "prefixed"}, runCfg{"wire", 1, "prefixed"})
				case 2:
					cfgs = append(cfgs, runCfg{"wire", 0, "mux"})
				case 3:
					if n%16 == 3 || cfg.Tier == "thorough" {
						cfgs = append(cfgs, runCfg{"tcp", 0, "plain"}, runCfg{"tcp", 1, "plain"})
					}
				}
				n++
				x.runCall(c, cfgs)
			}
		}
	}
	return r
}
