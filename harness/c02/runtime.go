//go:build !rootmod

package c02

import (
	"bufio"
	"bytes"
	"fmt"
	"io"
	"net/http"
	"net/http/httptest"
	"net/url"
	"reflect"
	"sort"
	"strings"
	"verif/harness/hx"

	"github.com/PapaCharlie/go-restli/v2/restli"
	"github.com/PapaCharlie/go-restli/v2/restlidata/generated/com/linkedin/restli/common"
	"verif/harness/codec"
)

// binding ties a corpus resource to the package the real generator produced for it.
type binding struct {
	newClient func(*restli.Client) any
	register  func(restli.Server, any)
	newMock   func() any // *<pkg>test.MockResource
}

// ---- recording fakes

type recorded struct {
	res  string
	fn   string
	args []reflect.Value // without the *RequestContext
	path string          // ctx.RequestPath()
}

type world struct {
	b     *bridge
	mocks map[string]any
	calls []recorded
	plan  *Call // the call in flight: its Reply is what the fake returns
	// how the server is mounted
	prefix  string
	handler http.Handler
	tcp     *httptest.Server
}

var errType = reflect.TypeOf((*error)(nil)).Elem()

// install fills every Mock<Fn> field of the generated MockResource with a recorder.
func (w *world) install(r *codec.C02Resource, mock any) {
	mv := reflect.ValueOf(mock).Elem()
	for i := range r.Methods {
		m := &r.Methods[i]
		fn := FuncName(m)
		f := mv.FieldByName("Mock" + fn)
		if !f.IsValid() {
			panic("generated MockResource of " + r.Pkg + " has no field Mock" + fn)
		}
		ft := f.Type()
		res := r
		f.Set(reflect.MakeFunc(ft, func(args []reflect.Value) []reflect.Value {
			rec := recorded{res: res.Pkg, fn: fn, args: args[1:]}
			if ctx, ok := args[0].Interface().(*restli.RequestContext); ok && ctx != nil {
				rec.path = ctx.RequestPath()
			}
			w.calls = append(w.calls, rec)
			outs := make([]reflect.Value, ft.NumOut())
			for j := range outs {
				outs[j] = reflect.Zero(ft.Out(j))
			}
			c := w.plan
			if c == nil || c.Res.Pkg != res.Pkg || FuncName(c.M) != fn {
				outs[len(outs)-1] = reflect.ValueOf(fmt.Errorf("unplanned call of %s.%s", res.Pkg, fn)).Convert(errType)
				return outs
			}
			if c.Reply.Err != nil {
				st := int32(c.Reply.Err.Status)
				msg := c.Reply.Err.Message
				outs[len(outs)-1] = reflect.ValueOf(&common.ErrorResponse{Status: &st, Message: &msg}).Convert(errType)
				return outs
			}
			if len(outs) == 2 {
				v, err := w.b.buildResult(ft.Out(0), c)
				if err != nil {
					panic("harness: cannot build the planned result: " + err.Error())
				}
				outs[0] = v
			}
			return outs
		}))
	}
}

func newWorld(bindings map[string]binding, prefix string, mux bool) *world {
	w := &world{b: newBridge(), mocks: map[string]any{}, prefix: prefix}
	var srv restli.Server
	if prefix == "" {
		srv = restli.NewServer()
	} else {
		srv = restli.NewPrefixedServer(prefix)
	}
	for _, r := range codec.C02Resources() {
		bd, ok := bindings[r.Pkg]
		if !ok {
			panic("no binding for " + r.Pkg)
		}
		mock := bd.newMock()
		w.install(r, mock)
		bd.register(srv, mock)
		w.mocks[r.Pkg] = mock
	}
	if mux {
		m := http.NewServeMux()
		srv.AddToMux(m)
		w.handler = m
	} else {
		w.handler = srv.Handler()
	}
	return w
}

func (w *world) close() {
	if w.tcp != nil {
		w.tcp.Close()
	}
}

// ---- results the fake returns, results the client returns

func (b *bridge) keyTy(c *Call) codec.Ty { return c.Res.Last().Key.Ty }

func setField(st reflect.Value, name string, v reflect.Value) { st.FieldByName(name).Set(v) }

// buildCreated fills a *CreatedEntity[K] or *CreatedAndReturnedEntity[K,V] (gt = the pointer type)
func (b *bridge) buildCreated(gt reflect.Type, c *Call, cr Created) (reflect.Value, error) {
	p := reflect.New(gt.Elem())
	st := p.Elem()
	ce := st
	if f := st.FieldByName("CreatedEntity"); f.IsValid() && f.Kind() == reflect.Struct {
		ce = f
		if cr.Entity != nil {
			if err := b.set(st.FieldByName("Entity"), codec.R(c.Res.Schema), cr.Entity); err != nil {
				return p, err
			}
		}
	}
	if err := b.set(ce.FieldByName("Id"), b.keyTy(c), cr.Id); err != nil {
		return p, err
	}
	ce.FieldByName("Status").SetInt(int64(cr.Status))
	if cr.Location != nil {
		l := *cr.Location
		ce.FieldByName("Location").Set(reflect.ValueOf(&l))
	}
	return p, nil
}

func (b *bridge) readCreated(v reflect.Value, c *Call) Created {
	st := v.Elem()
	ce := st
	out := Created{}
	if f := st.FieldByName("CreatedEntity"); f.IsValid() && f.Kind() == reflect.Struct {
		ce = f
		out.Entity = b.get(st.FieldByName("Entity"), codec.R(c.Res.Schema))
	}
	out.Id = b.get(ce.FieldByName("Id"), b.keyTy(c))
	out.Status = int(ce.FieldByName("Status").Int())
	if l := ce.FieldByName("Location"); !l.IsNil() {
		s := l.Elem().String()
		out.Location = &s
	}
	return out
}

// buildResult builds the first return value of a Resource method from the call's planned reply.
func (b *bridge) buildResult(gt reflect.Type, c *Call) (reflect.Value, error) {
	r := &c.Reply
	switch kind := c.Kind(); kind {
	case "get":
		return b.newOf(gt, codec.R(c.Res.Schema), r.Entity)
	case "partial_update": // return-entity
		return b.newOf(gt, codec.R(c.Res.Schema), r.Entity)
	case "create":
		return b.buildCreated(gt, c, r.Created[0])
	case "batch_create":
		sl := reflect.MakeSlice(gt, 0, len(r.Created))
		for _, cr := range r.Created {
			v, err := b.buildCreated(gt.Elem(), c, cr)
			if err != nil {
				return sl, err
			}
			sl = reflect.Append(sl, v)
		}
		return sl, nil
	case "get_all", "finder":
		p := reflect.New(gt.Elem())
		st := p.Elem()
		ef := st.FieldByName("Elements")
		et := codec.R(c.Res.Schema)
		if c.M.Return != nil {
			et = *c.M.Return
		}
		if r.HasElems {
			sl := reflect.MakeSlice(ef.Type(), 0, len(r.Elements))
			for _, e := range r.Elements {
				v, err := b.newOf(ef.Type().Elem(), et, e)
				if err != nil {
					return p, err
				}
				sl = reflect.Append(sl, v)
			}
			ef.Set(sl)
		}
		if r.Paging != nil {
			if err := b.set(st.FieldByName("Paging"), codec.R(tCollMeta), r.Paging); err != nil {
				return p, err
			}
		}
		if c.M.Metadata != nil && r.Metadata != nil {
			if err := b.set(st.FieldByName("Metadata"), *c.M.Metadata, r.Metadata); err != nil {
				return p, err
			}
		}
		return p, nil
	case "action":
		return b.newOf(gt, *c.M.Return, r.Action)
	case "batch_get", "batch_update", "batch_partial_update", "batch_delete":
		p := reflect.New(gt.Elem())
		st := p.Elem()
		kt := b.keyTy(c)
		results, statuses, errs := st.FieldByName("Results"), st.FieldByName("Statuses"), st.FieldByName("Errors")
		for _, e := range r.Batch {
			k, err := b.newOf(results.Type().Key(), kt, e.Key)
			if err != nil {
				return p, err
			}
			if e.Result != nil || e.Update != nil {
				if results.IsNil() {
					results.Set(reflect.MakeMap(results.Type()))
				}
				var v reflect.Value
				if kind == "batch_get" {
					v, err = b.newOf(results.Type().Elem(), codec.R(c.Res.Schema), e.Result)
					if err != nil {
						return p, err
					}
				} else {
					v = reflect.ValueOf(&common.BatchEntityUpdateResponse{Status: *e.Update})
				}
				results.SetMapIndex(k, v)
			}
			if e.Status != nil {
				if statuses.IsNil() {
					statuses.Set(reflect.MakeMap(statuses.Type()))
				}
				statuses.SetMapIndex(k, reflect.ValueOf(*e.Status))
			}
			if e.Err != nil {
				if errs.IsNil() {
					errs.Set(reflect.MakeMap(errs.Type()))
				}
				ev, err := b.newOf(errs.Type().Elem(), codec.R(tErrResp), e.Err)
				if err != nil {
					return p, err
				}
				errs.SetMapIndex(k, ev)
			}
		}
		return p, nil
	}
	return reflect.Value{}, fmt.Errorf("no result for %s", c.Kind())
}

// readResult reads what a client method returned (first return value) into a Reply; origKeys
// are the caller's key objects (for the identity check on batch responses), by canonical content.
func (b *bridge) readResult(v reflect.Value, c *Call) (*Reply, []reflect.Value) {
	r := &Reply{}
	var respKeys []reflect.Value
	switch kind := c.Kind(); kind {
	case "get", "partial_update":
		r.Entity = b.get(v, codec.R(c.Res.Schema))
	case "create":
		if !v.IsNil() {
			r.Created = []Created{b.readCreated(v, c)}
		}
	case "batch_create":
		for i := 0; i < v.Len(); i++ {
			if v.Index(i).IsNil() {
				r.Created = append(r.Created, Created{Id: &codec.V{K: "nilref"}})
				continue
			}
			r.Created = append(r.Created, b.readCreated(v.Index(i), c))
		}
	case "get_all", "finder":
		if v.IsNil() {
			return r, nil
		}
		st := v.Elem()
		et := codec.R(c.Res.Schema)
		if c.M.Return != nil {
			et = *c.M.Return
		}
		ef := st.FieldByName("Elements")
		r.HasElems = !ef.IsNil()
		for i := 0; i < ef.Len(); i++ {
			e := b.get(ef.Index(i), et)
			if e == nil {
				e = &codec.V{K: "nilref"}
			}
			r.Elements = append(r.Elements, e)
		}
		r.Paging = b.get(st.FieldByName("Paging"), codec.R(tCollMeta))
		if c.M.Metadata != nil {
			r.Metadata = b.get(st.FieldByName("Metadata"), *c.M.Metadata)
		}
	case "action":
		r.Action = b.get(v, *c.M.Return)
	case "batch_get", "batch_update", "batch_partial_update", "batch_delete":
		if v.IsNil() {
			return r, nil
		}
		st := v.Elem()
		kt := b.keyTy(c)
		byKey := map[string]*BatchEntry{}
		var order []string
		entry := func(k reflect.Value) *BatchEntry {
			kv := b.get(k, kt)
			id := "nil"
			if kv != nil {
				id = kv.Canon()
			}
			// two distinct key objects with the same content stay distinct entries
			if k.Kind() == reflect.Ptr {
				id += fmt.Sprintf("@%x", k.Pointer())
			}
			if e, ok := byKey[id]; ok {
				return e
			}
			e := &BatchEntry{Key: kv}
			byKey[id] = e
			order = append(order, id)
			respKeys = append(respKeys, k)
			return e
		}
		results, statuses, errs := st.FieldByName("Results"), st.FieldByName("Statuses"), st.FieldByName("Errors")
		for it := results.MapRange(); it.Next(); {
			e := entry(it.Key())
			if kind == "batch_get" {
				e.Result = b.get(it.Value(), codec.R(c.Res.Schema))
				if e.Result == nil {
					e.Result = &codec.V{K: "nilref"}
				}
			} else if !it.Value().IsNil() {
				s := int(it.Value().Elem().FieldByName("Status").Int())
				e.Update = &s
			}
		}
		for it := statuses.MapRange(); it.Next(); {
			s := int(it.Value().Int())
			entry(it.Key()).Status = &s
		}
		for it := errs.MapRange(); it.Next(); {
			entry(it.Key()).Err = b.get(it.Value(), codec.R(tErrResp))
		}
		sort.Strings(order)
		for _, id := range order {
			r.Batch = append(r.Batch, *byKey[id])
		}
	}
	return r, respKeys
}

// ---- calling the generated client

type clientOutcome struct {
	panicked  string
	err       error
	reply     *Reply
	callKeys  []reflect.Value // the caller's batch key objects
	respKeys  []reflect.Value // the key objects of the response maps
	buildFail string
}

// invoke calls the generated client method for c with arguments built from c.
func (w *world) invoke(client any, c *Call) (out clientOutcome) {
	b := w.b
	fn := FuncName(c.M)
	meth := reflect.ValueOf(client).MethodByName(fn)
	if !meth.IsValid() {
		out.buildFail = "generated client has no method " + fn
		return
	}
	mt := meth.Type()
	var args []reflect.Value
	next := func() reflect.Type { return mt.In(len(args)) }
	fail := func(err error) bool {
		if err != nil {
			out.buildFail = err.Error()
			return true
		}
		return false
	}
	keys := c.Res.Keys(c.M.OnEntity)
	for i, k := range keys {
		v, err := b.newOf(next(), k.Ty, c.Keys[i])
		if fail(err) {
			return
		}
		args = append(args, v)
	}
	switch c.Kind() {
	case "create", "update":
		v, err := b.newOf(next(), codec.R(c.Res.Schema), c.Entity)
		if fail(err) {
			return
		}
		args = append(args, v)
	case "partial_update":
		v, err := b.newPU(next(), c.Res.Schema, c.PU)
		if fail(err) {
			return
		}
		args = append(args, v)
	case "batch_create":
		gt := next()
		sl := reflect.MakeSlice(gt, 0, len(c.Entities))
		for _, e := range c.Entities {
			v, err := b.newOf(gt.Elem(), codec.R(c.Res.Schema), e)
			if fail(err) {
				return
			}
			sl = reflect.Append(sl, v)
		}
		args = append(args, sl)
	case "batch_get", "batch_delete":
		gt := next()
		sl := reflect.MakeSlice(gt, 0, len(c.BatchKeys))
		for _, k := range c.BatchKeys {
			v, err := b.newOf(gt.Elem(), b.keyTy(c), k)
			if fail(err) {
				return
			}
			sl = reflect.Append(sl, v)
			out.callKeys = append(out.callKeys, v)
		}
		args = append(args, sl)
	case "batch_update", "batch_partial_update":
		gt := next()
		m := reflect.MakeMap(gt)
		for i, k := range c.BatchKeys {
			kv, err := b.newOf(gt.Key(), b.keyTy(c), k)
			if fail(err) {
				return
			}
			var vv reflect.Value
			if c.Kind() == "batch_update" {
				vv, err = b.newOf(gt.Elem(), codec.R(c.Res.Schema), c.BatchVals[i])
			} else {
				vv, err = b.newPU(gt.Elem(), c.Res.Schema, c.BatchPUs[i])
			}
			if fail(err) {
				return
			}
			m.SetMapIndex(kv, vv)
			out.callKeys = append(out.callKeys, kv)
		}
		args = append(args, m)
	}
	if hasParams(c.M) {
		gt := next()
		p := reflect.New(gt.Elem())
		if fail(b.cb.Set(p.Elem(), codec.R(paramsDecl(c.Res, c.M)), c.Params)) {
			return
		}
		args = append(args, p)
	}
	if len(args) != mt.NumIn() {
		out.buildFail = fmt.Sprintf("%s.%s takes %d arguments, built %d", c.Res.Pkg, fn, mt.NumIn(), len(args))
		return
	}
	var rets []reflect.Value
	func() {
		defer func() {
			if r := recover(); r != nil {
				out.panicked = fmt.Sprint(r)
			}
		}()
		rets = meth.Call(args)
	}()
	if out.panicked != "" {
		return
	}
	if e := rets[len(rets)-1]; !e.IsNil() {
		out.err = e.Interface().(error)
		return
	}
	if len(rets) == 2 {
		out.reply, out.respKeys = b.readResult(rets[0], c)
	} else {
		out.reply = &Reply{}
	}
	return
}

// readInvocation turns what a fake recorded into the Call fields it corresponds to.
func (w *world) readInvocation(rec recorded, c *Call) (*Call, error) {
	b := w.b
	got := &Call{Res: c.Res, M: c.M}
	i := 0
	arg := func() (reflect.Value, error) {
		if i >= len(rec.args) {
			return reflect.Value{}, fmt.Errorf("fake received %d arguments, expected more", len(rec.args))
		}
		v := rec.args[i]
		i++
		return v, nil
	}
	for _, k := range c.Res.Keys(c.M.OnEntity) {
		v, err := arg()
		if err != nil {
			return nil, err
		}
		kv := b.get(v, k.Ty)
		if kv == nil {
			kv = &codec.V{K: "nilref"}
		}
		got.Keys = append(got.Keys, kv)
	}
	nilOr := func(v *codec.V) *codec.V {
		if v == nil {
			return &codec.V{K: "nilref"}
		}
		return v
	}
	switch c.Kind() {
	case "create", "update":
		v, err := arg()
		if err != nil {
			return nil, err
		}
		got.Entity = nilOr(b.get(v, codec.R(c.Res.Schema)))
	case "partial_update":
		v, err := arg()
		if err != nil {
			return nil, err
		}
		got.PU = b.getPU(v, c.Res.Schema)
	case "batch_create":
		v, err := arg()
		if err != nil {
			return nil, err
		}
		for j := 0; j < v.Len(); j++ {
			got.Entities = append(got.Entities, nilOr(b.get(v.Index(j), codec.R(c.Res.Schema))))
		}
	case "batch_get", "batch_delete":
		v, err := arg()
		if err != nil {
			return nil, err
		}
		for j := 0; j < v.Len(); j++ {
			got.BatchKeys = append(got.BatchKeys, nilOr(b.get(v.Index(j), b.keyTy(c))))
		}
	case "batch_update", "batch_partial_update":
		v, err := arg()
		if err != nil {
			return nil, err
		}
		for it := v.MapRange(); it.Next(); {
			got.BatchKeys = append(got.BatchKeys, nilOr(b.get(it.Key(), b.keyTy(c))))
			if c.Kind() == "batch_update" {
				got.BatchVals = append(got.BatchVals, nilOr(b.get(it.Value(), codec.R(c.Res.Schema))))
			} else {
				got.BatchPUs = append(got.BatchPUs, b.getPU(it.Value(), c.Res.Schema))
			}
		}
	}
	if hasParams(c.M) {
		v, err := arg()
		if err != nil {
			return nil, err
		}
		if v.IsNil() {
			got.Params = &codec.V{K: "nilref"}
		} else {
			got.Params = b.cb.Get(v.Elem(), codec.R(paramsDecl(c.Res, c.M)))
		}
	}
	if i != len(rec.args) {
		return nil, fmt.Errorf("fake received %d arguments, %d understood", len(rec.args), i)
	}
	return got, nil
}

// ---- transports

// capture is what went over the wire in one exchange.
type capture struct {
	n        int
	method   string
	escPath  string
	rawQuery string
	header   http.Header
	body     []byte
	status   int
	respHdr  http.Header
	respBody []byte
	tripErr  string
}

type transport struct {
	w    *world
	mode string // inproc | wire | tcp
	cap  *capture
	real http.RoundTripper
}

func cloneHeader(h http.Header) http.Header {
	out := http.Header{}
	for k, v := range h {
		out[k] = append([]string(nil), v...)
	}
	return out
}

func (t *transport) RoundTrip(req *http.Request) (*http.Response, error) {
	c := t.cap
	c.n++
	var body []byte
	if req.Body != nil {
		body, _ = io.ReadAll(req.Body)
		req.Body.Close()
	}
	c.method, c.escPath, c.rawQuery = req.Method, req.URL.EscapedPath(), req.URL.RawQuery
	c.header, c.body = cloneHeader(req.Header), body
	var res *http.Response
	var err error
	switch t.mode {
	case "tcp":
		r2 := req.Clone(req.Context())
		r2.Body = io.NopCloser(bytes.NewReader(body))
		r2.ContentLength = int64(len(body))
		res, err = t.real.RoundTrip(r2)
		if err == nil {
			rb, _ := io.ReadAll(res.Body)
			res.Body.Close()
			res.Body = hx.ShortReads(rb)
		}
	case "wire":
		// real net/http serialisation in both directions, no socket
		r2 := req.Clone(req.Context())
		r2.Body = io.NopCloser(bytes.NewReader(body))
		r2.ContentLength = int64(len(body))
		var buf bytes.Buffer
		if err = r2.Write(&buf); err != nil {
			break
		}
		var sreq *http.Request
		sreq, err = http.ReadRequest(bufio.NewReader(&buf))
		if err != nil {
			break
		}
		rec := httptest.NewRecorder()
		t.w.handler.ServeHTTP(rec, sreq)
		var rbuf bytes.Buffer
		if err = rec.Result().Write(&rbuf); err != nil {
			break
		}
		res, err = http.ReadResponse(bufio.NewReader(&rbuf), req)
		if err == nil {
			rb, _ := io.ReadAll(res.Body)
			res.Body.Close()
			res.Body = hx.ShortReads(rb)
		}
	default:
		sreq := req.Clone(req.Context())
		sreq.Body = hx.ShortReads(body)
		sreq.ContentLength = int64(len(body))
		sreq.RequestURI = req.URL.RequestURI()
		rec := httptest.NewRecorder()
		t.w.handler.ServeHTTP(rec, sreq)
		res = rec.Result()
		res.Request = req
	}
	if err != nil {
		c.tripErr = err.Error()
		return nil, err
	}
	rb, _ := io.ReadAll(res.Body)
	res.Body = hx.ShortReads(rb)
	c.status, c.respHdr, c.respBody = res.StatusCode, cloneHeader(res.Header), rb
	return res, nil
}

// client builds a restli.Client talking to the world through the given transport mode.
func (w *world) client(mode string, threshold int, cap *capture) *restli.Client {
	base := "http://c02.test"
	t := &transport{w: w, mode: mode, cap: cap}
	if mode == "tcp" {
		if w.tcp == nil {
			w.tcp = httptest.NewServer(w.handler)
		}
		base = w.tcp.URL
		t.real = w.tcp.Client().Transport
	}
	u, err := url.Parse(base + strings.TrimSuffix(w.prefix, "/"))
	if err != nil {
		panic(err)
	}
	return &restli.Client{
		Client:                        &http.Client{Transport: t},
		HostnameResolver:              &restli.SimpleHostnameResolver{Hostname: u},
		StrictResponseDeserialization: true,
		QueryTunnellingThreshold:      threshold,
	}
}
