//go:build !rootmod

// Package c02: end-to-end call fidelity. Calls made through the clients the REAL generator produced
// (bin/check's gencode step) travel over net/http to a real restli.Server on which recording
// fakes of the generated Resource interfaces are registered. D: the fake saw exactly what the
// caller passed, exactly one fake method ran, the client returned exactly what the fake returned,
// with and without query tunnelling. K: wire request, invocation, wire response and client result
// against the Lean model of one call (Model/EndToEnd.lean).
package c02

import (
	"fmt"
	"sort"
	"strings"

	"github.com/PapaCharlie/go-restli/v2/codegen/utils"
	"verif/harness/codec"
	"verif/harness/hx"
)

// ---- the schema environment: the codec corpus plus the records the calls need

const (
	tPaging   = "PagingContext"
	tCollMeta = "CollectionMetadata"
	tLink     = "Link"
	tErrResp  = "ErrorResponse"
)

// paramsDecl is the name of the synthetic record that stands for a method's generated params struct
func paramsDecl(r *codec.C02Resource, m *codec.C02Method) string {
	return "P." + r.Pkg + "." + FuncName(m)
}

func hasParams(m *codec.C02Method) bool {
	if m.Kind == "action" {
		return len(m.Params) > 0
	}
	return len(m.Params) > 0 || m.Paging
}

// ExtEnv is the codec corpus extended with: the paging context, the collection metadata, the error
// response (without errorDetails), the complex key (a record that includes its key record and has
// the optional field $params — exactly what the generator emits for it) and one record per
// generated params struct.
func ExtEnv() *codec.Env {
	e := codec.Corpus()
	opt := func(n string, t codec.Ty) codec.Field { return codec.Field{Name: n, Ty: t, Optional: true} }
	req := func(n string, t codec.Ty) codec.Field { return codec.Field{Name: n, Ty: t} }
	P, R, A := codec.P, codec.R, codec.A
	add := func(d *codec.Decl) { e.Decls = append(e.Decls, d) }
	add(&codec.Decl{Name: tPaging, Kind: "record", Fields: []codec.Field{opt("start", P("i32")), opt("count", P("i32"))}})
	add(&codec.Decl{Name: tLink, Kind: "record", Fields: []codec.Field{req("rel", P("str")), req("href", P("str")), req("type", P("str"))}})
	add(&codec.Decl{Name: tCollMeta, Kind: "record", Fields: []codec.Field{req("start", P("i32")), req("count", P("i32")),
		{Name: "total", Ty: P("i32"), Default: codec.VI32(0), DefJSON: "0"}, req("links", A(R(tLink)))}})
	add(&codec.Decl{Name: tErrResp, Kind: "record", Fields: []codec.Field{opt("status", P("i32")), opt("serviceErrorCode", P("i32")),
		opt("code", P("str")), opt("message", P("str")), opt("docUrl", P("str")), opt("requestId", P("str")),
		opt("exceptionClass", P("str")), opt("stackTrace", P("str")), opt("errorDetailType", P("str"))}})
	add(&codec.Decl{Name: codec.C02ComplexKey, Kind: "record", Includes: []string{codec.C02ComplexKeyKey},
		Fields: []codec.Field{opt("$params", R(codec.C02ComplexKeyParams))}})
	for _, r := range codec.C02Resources() {
		for i := range r.Methods {
			m := &r.Methods[i]
			if !hasParams(m) {
				continue
			}
			d := &codec.Decl{Name: paramsDecl(r, m), Kind: "record", Fields: m.Params}
			if m.Paging && m.Kind != "action" {
				d.Includes = []string{tPaging}
			}
			add(d)
		}
	}
	return e
}

var restFuncNames = map[string]string{
	"get": "Get", "get_all": "GetAll", "create": "Create", "delete": "Delete", "update": "Update",
	"partial_update": "PartialUpdate", "batch_get": "BatchGet", "batch_create": "BatchCreate",
	"batch_delete": "BatchDelete", "batch_update": "BatchUpdate", "batch_partial_update": "BatchPartialUpdate",
}

// FuncName is the generated method name (client and Resource interface).
func FuncName(m *codec.C02Method) string {
	switch m.Kind {
	case "rest":
		return restFuncNames[m.Name]
	case "finder":
		return "FindBy" + utils.ExportedIdentifier(m.Name)
	default:
		return utils.ExportedIdentifier(m.Name + "Action")
	}
}

// restliMethod is the value of X-RestLi-Method
func restliMethod(m *codec.C02Method) string {
	if m.Kind == "rest" {
		return m.Name
	}
	return m.Kind
}

// ---- one call

type ErrSpec struct {
	Status  int
	Message string
}

// Created is one created entity as the resource returns it.
type Created struct {
	Id       *codec.V
	Status   int
	Location *string
	Entity   *codec.V // return-entity variants
}

// BatchEntry is one key of a batch response: a result, and/or a status, and/or an error.
type BatchEntry struct {
	Key    *codec.V
	Result *codec.V // batch_get: the entity; otherwise nil
	Update *int     // batch_update/… : BatchEntityUpdateResponse.Status (in results)
	Status *int     // statuses[key]
	Err    *codec.V // errors[key]: an ErrorResponse record
}

// Reply is what the resource implementation returns.
type Reply struct {
	Err      *ErrSpec
	Entity   *codec.V
	Elements []*codec.V
	HasElems bool
	Paging   *codec.V // CollectionMetadata
	Metadata *codec.V
	Action   *codec.V
	Created  []Created // create: one; batch_create: many
	Batch    []BatchEntry
}

type Call struct {
	Res *codec.C02Resource
	M   *codec.C02Method

	Keys   []*codec.V // path keys, outermost first
	Params *codec.V   // record of the params struct (nil: the method has none)

	Entity    *codec.V   // create, update
	PU        *codec.PU  // partial_update
	Entities  []*codec.V // batch_create
	BatchKeys []*codec.V // batch_get/delete: the keys; batch_update / batch_partial_update: the map's keys
	BatchVals []*codec.V // batch_update values, parallel to BatchKeys
	BatchPUs  []*codec.PU

	Reply Reply
}

func (c *Call) Kind() string { return restliMethod(c.M) }

func vs(xs []*codec.V, canon bool) string {
	parts := make([]string, len(xs))
	for i, x := range xs {
		if canon {
			parts[i] = x.Canon()
		} else {
			parts[i] = x.Sexp()
		}
	}
	return "(" + strings.Join(parts, " ") + ")"
}

func tagged(tag string, xs []*codec.V) string {
	parts := []string{tag}
	for _, x := range xs {
		parts = append(parts, x.Sexp())
	}
	return "(" + strings.Join(parts, " ") + ")"
}

func optV(v *codec.V, canon bool) string {
	if v == nil {
		return "-"
	}
	if canon {
		return v.Canon()
	}
	return v.Sexp()
}

func optI(i *int) string {
	if i == nil {
		return "-"
	}
	return fmt.Sprint(*i)
}

func tyS(t *codec.Ty) string {
	if t == nil {
		return "-"
	}
	return t.Sexp()
}

func b01(b bool) string {
	if b {
		return "1"
	}
	return "0"
}

// specSexp describes the resource and the method to the model:
// (res (segs (NAMEHEX KEYTY|-)…) SCHEMA|- (m KIND NAMEHEX ONENTITY PARAMSDECL|- RET|- META|- RETURNENTITY))
func (c *Call) specSexp() string {
	var segs []string
	for _, s := range c.Res.Segs {
		k := "-"
		if s.Key != nil {
			k = s.Key.Ty.Sexp()
		}
		segs = append(segs, "("+hx.Hex([]byte(s.Name))+" "+k+")")
	}
	schema := "-"
	if c.Res.Schema != "" {
		schema = c.Res.Schema
	}
	pd := "-"
	if hasParams(c.M) {
		pd = paramsDecl(c.Res, c.M)
	}
	name := "-"
	if c.M.Kind != "rest" {
		name = hx.Hex([]byte(c.M.Name))
	}
	return fmt.Sprintf("(res (segs %s) %s (m %s %s %s %s %s %s %s))", strings.Join(segs, " "), schema,
		restliMethod(c.M), name, b01(c.M.OnEntity), pd, tyS(c.M.Return), tyS(c.M.Metadata), b01(c.M.ReturnEntity))
}

// callSexp: (call (keys V…) PARAMS|- BODY) with BODY one of
// - | (entity V) | (patch PU) | (entities V…) | (ids V…) | (keyed (K V)…) | (keyedpatch (K PU)…)
func (c *Call) callSexp() string {
	body := "-"
	switch c.Kind() {
	case "create", "update":
		body = "(entity " + c.Entity.Sexp() + ")"
	case "partial_update":
		body = "(patch " + c.PU.Sexp() + ")"
	case "batch_create":
		body = tagged("entities", c.Entities)
	case "batch_get", "batch_delete":
		body = tagged("ids", c.BatchKeys)
	case "batch_update":
		parts := []string{"keyed"}
		for i, k := range c.BatchKeys {
			parts = append(parts, "("+k.Sexp()+" "+c.BatchVals[i].Sexp()+")")
		}
		body = "(" + strings.Join(parts, " ") + ")"
	case "batch_partial_update":
		parts := []string{"keyedpatch"}
		for i, k := range c.BatchKeys {
			parts = append(parts, "("+k.Sexp()+" "+c.BatchPUs[i].Sexp()+")")
		}
		body = "(" + strings.Join(parts, " ") + ")"
	}
	return fmt.Sprintf("(call %s %s %s)", vs(c.Keys, false), optV(c.Params, false), body)
}

// replySexp: (reply (err STATUS MSGHEX)) | (reply (entity V|-) (elements V…|-) (paging V|-) (meta V|-) (action V|-)
//
//	(created (ID STATUS LOCHEX|- ENTITY|-)…) (batch (KEY RESULT|- UPDATE|- STATUS|- ERR|-)…))
func (r *Reply) sexp() string {
	if r.Err != nil {
		return fmt.Sprintf("(reply (err %d %s))", r.Err.Status, hx.Hex([]byte(r.Err.Message)))
	}
	el := "-"
	if r.HasElems {
		el = vs(r.Elements, false)
	}
	var cr []string
	for _, c := range r.Created {
		loc := "-"
		if c.Location != nil {
			loc = "L" + hx.Hex([]byte(*c.Location))
		}
		cr = append(cr, fmt.Sprintf("(%s %d %s %s)", c.Id.Sexp(), c.Status, loc, optV(c.Entity, false)))
	}
	var bt []string
	for _, b := range r.Batch {
		bt = append(bt, fmt.Sprintf("(%s %s %s %s %s)", b.Key.Sexp(), optV(b.Result, false), optI(b.Update), optI(b.Status), optV(b.Err, false)))
	}
	return fmt.Sprintf("(reply (entity %s) (elements %s) (paging %s) (meta %s) (action %s) (created %s) (batch %s))",
		optV(r.Entity, false), el, optV(r.Paging, false), optV(r.Metadata, false), optV(r.Action, false),
		strings.Join(cr, " "), strings.Join(bt, " "))
}

// envRoots: the named types the op's closure must contain
func (c *Call) envRoots() []string {
	set := map[string]bool{tCollMeta: true, tErrResp: true}
	addTy := func(t codec.Ty) {
		for t.Arr != nil {
			t = *t.Arr
		}
		for t.Map != nil {
			t = *t.Map
		}
		if t.Ref != "" {
			set[t.Ref] = true
		}
	}
	for _, s := range c.Res.Segs {
		if s.Key != nil {
			addTy(s.Key.Ty)
		}
	}
	if c.Res.Schema != "" {
		set[c.Res.Schema] = true
	}
	if hasParams(c.M) {
		set[paramsDecl(c.Res, c.M)] = true
	}
	if c.M.Return != nil {
		addTy(*c.M.Return)
	}
	if c.M.Metadata != nil {
		addTy(*c.M.Metadata)
	}
	var out []string
	for k := range set {
		out = append(out, k)
	}
	sort.Strings(out)
	return out
}
