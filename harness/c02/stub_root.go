//go:build rootmod

// Package c02 (root-module build): the root module's generator takes a different input format
// (cmd.GoRestliSpec, no manifests) and bin/check's generator driver cannot be built against it, so
// there are no generated clients / resources to call. The property is served for v2 only
// (bin/checks.d/C02.json lists modules ["v2"]); this stub keeps the root harness binary linking.
package c02

import "verif/harness/hx"

type Config struct {
	Module string
	Seed   int64
	Tier   string
	Driver *hx.Driver
	Replay []string
}

func Run(cfg Config) *hx.Result {
	r := hx.NewResult("C02", cfg.Module, cfg.Seed, cfg.Tier)
	r.Rule = "not served for the root module"
	r.OracleFail(hx.Case{Sig: "C02 is not served for the root module", Op: "-", Impl: "-"})
	return r
}

// RunExcluded (harness prop C07G, property C07 through the generated bindings): v2 only, as above.
func RunExcluded(cfg Config) *hx.Result {
	r := hx.NewResult("C07", cfg.Module, cfg.Seed, cfg.Tier)
	r.Rule = "not served for the root module"
	r.OracleFail(hx.Case{Sig: "C07G is not served for the root module", Op: "-", Impl: "-"})
	return r
}
