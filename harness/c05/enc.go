// Package c05: correspondence (K) and direct oracle (D) for routing and method inference
// (property C05): real servers built through the public Register* API with recording fakes,
// requests sent through httptest, outcomes compared with the Lean model (K) and with a decision
// table transcribed by hand from the property text (D, oracle.go).
package c05

import (
	"fmt"
	"strconv"
	"strings"
)

// enc is the `~`-encoding the driver uses for strings: [A-Za-z0-9_] verbatim, every other byte ~XX,
// the empty string ~0.
func enc(s string) string {
	if s == "" {
		return "~0"
	}
	var b strings.Builder
	for i := 0; i < len(s); i++ {
		c := s[i]
		if c >= '0' && c <= '9' || c >= 'A' && c <= 'Z' || c >= 'a' && c <= 'z' || c == '_' {
			b.WriteByte(c)
		} else {
			fmt.Fprintf(&b, "~%02X", c)
		}
	}
	return b.String()
}

func dec(s string) string {
	if s == "~0" {
		return ""
	}
	var b strings.Builder
	for i := 0; i < len(s); i++ {
		if s[i] == '~' && i+2 < len(s) {
			v, err := strconv.ParseUint(s[i+1:i+3], 16, 8)
			if err != nil {
				panic("c05: bad ~-encoding " + s)
			}
			b.WriteByte(byte(v))
			i += 2
		} else {
			b.WriteByte(s[i])
		}
	}
	return b.String()
}

// seg is a ResourcePathSegment as the harness knows it
type seg struct {
	name string
	coll bool
}

// facts is what a routed request carries: method, resource path, entity keys (raw text), finder or
// action name. Rendered exactly like the driver's factsStr.
type facts struct {
	method string
	rpath  []seg
	keys   []string
	finder *string
	action *string
}

func (f facts) String() string {
	var ps, ks []string
	for _, s := range f.rpath {
		x := enc(s.name)
		if s.coll {
			x += "*"
		}
		ps = append(ps, x)
	}
	for _, k := range f.keys {
		ks = append(ks, enc(k))
	}
	fn, an := "-", "-"
	if f.finder != nil {
		fn = enc(*f.finder)
	}
	if f.action != nil {
		an = enc(*f.action)
	}
	return f.method + "/" + strings.Join(ps, ".") + "/" + strings.Join(ks, ".") + "/" + fn + "/" + an
}

func seenStr(seen []int) string {
	parts := make([]string, len(seen))
	for i, s := range seen {
		parts[i] = fmt.Sprint(s)
	}
	return strings.Join(parts, ",")
}
