package c05

import (
	"context"
	"errors"
	"fmt"
	"net/http"
	"reflect"

	"github.com/PapaCharlie/go-restli/v2/restli"
	"github.com/PapaCharlie/go-restli/v2/restlicodec"
)

// recorder collects what the fakes observe while one request is served
type recorder struct {
	events   []string
	mismatch []string // D-only: a fake saw something that contradicts its own registration
}

func (r *recorder) reset() { r.events, r.mismatch = r.events[:0], r.mismatch[:0] }

// ---- resource path decoders, shaped like the generated ones: N = number of keyed segments the
// method's path has; any other number of entity keys is an error, then the keys are read by index

type rpN interface{ n() int }
type n0 struct{}
type n1 struct{}
type n2 struct{}
type n3 struct{}
type n4 struct{}
type n5 struct{}

func (n0) n() int { return 0 }
func (n1) n() int { return 1 }
func (n2) n() int { return 2 }
func (n3) n() int { return 3 }
func (n4) n() int { return 4 }
func (n5) n() int { return 5 }

type rp[T rpN] struct{ keys []string }

func (r *rp[T]) NewInstance() *rp[T] { return &rp[T]{} }
func (r *rp[T]) UnmarshalResourcePath(segments []restlicodec.Reader) error {
	var t T
	if len(segments) != t.n() {
		return fmt.Errorf("expected %d entity key(s) in the path, got %d", t.n(), len(segments))
	}
	for i := 0; i < t.n(); i++ {
		k, err := segments[i].ReadString()
		if err != nil {
			return err
		}
		r.keys = append(r.keys, k)
	}
	return nil
}

// ---- query parameter decoders: fail iff a parameter named `bad` is present

type qp struct{}

func (q *qp) NewInstance() *qp { return &qp{} }
func (q *qp) DecodeQueryParams(r restlicodec.QueryParamsReader) error {
	if _, ok := r["bad"]; ok {
		return errors.New("bad parameter")
	}
	return nil
}

type bqp struct{}

func (q *bqp) NewInstance() *bqp { return &bqp{} }
func (q *bqp) DecodeQueryParams(r restlicodec.QueryParamsReader) ([]string, error) {
	if _, ok := r["bad"]; ok {
		return nil, errors.New("bad parameter")
	}
	return nil, nil
}

// ---- entity value: any JSON object

type val struct{}

func (v *val) NewInstance() *val { return &val{} }
func (v *val) MarshalRestLi(w restlicodec.Writer) error {
	return w.WriteMap(func(func(string) restlicodec.Writer) error { return nil })
}
func (v *val) UnmarshalRestLi(r restlicodec.Reader) error {
	return r.ReadMap(func(r restlicodec.Reader, _ string) error { return r.Skip() })
}

// ---- what the context says

type ctxKey int

func safely[T any](f func() T) (t T, ok bool) {
	defer func() {
		if recover() != nil {
			ok = false
		}
	}()
	return f(), true
}

func segOf(s restli.ResourcePathSegment) seg {
	v := reflect.ValueOf(s)
	return seg{name: v.Field(0).String(), coll: v.Field(1).Bool()}
}

// factsFromCtx reads the routed facts the way a filter or a resource would: through the exported
// accessors
func factsFromCtx(c context.Context) facts {
	var f facts
	if m, ok := safely(func() restli.Method { return restli.GetMethodFromContext(c) }); ok {
		f.method = m.String()
	} else {
		f.method = "<none>"
	}
	if ss, ok := safely(func() []restli.ResourcePathSegment { return restli.GetResourcePathSegmentsFromContext(c) }); ok {
		for _, s := range ss {
			f.rpath = append(f.rpath, segOf(s))
		}
	}
	if rs, ok := safely(func() []restlicodec.Reader { return restli.GetEntitySegmentsFromContext(c) }); ok {
		for _, r := range rs {
			f.keys = append(f.keys, r.String())
			// and read it, as a filter that looks at a key does: readers are cursors, and what a
			// filter consumes must not be missing for the next filter or the method
			r := r
			safely(func() string { s, _ := r.ReadString(); return s })
		}
	}
	if n, ok := safely(func() string { return restli.GetFinderNameFromContext(c) }); ok {
		f.finder = &n
	}
	if n, ok := safely(func() string { return restli.GetActionNameFromContext(c) }); ok {
		f.action = &n
	}
	return f
}

func seenIn(c context.Context, nFilters int) []int {
	var seen []int
	for i := 0; i < nFilters; i++ {
		if c.Value(ctxKey(i)) != nil {
			seen = append(seen, i)
		}
	}
	return seen
}

// ---- filters

type filt struct {
	i    int
	n    int
	spec filterSpec
	rec  *recorder
}

func (f *filt) PreRequest(req *http.Request) (context.Context, error) {
	c := req.Context()
	f.rec.events = append(f.rec.events, fmt.Sprintf("pre%d:%s:%s", f.i, factsFromCtx(c), seenStr(seenIn(c, f.n))))
	switch f.spec.kind {
	case "ctx":
		return context.WithValue(c, ctxKey(f.i), true), nil
	case "failpre":
		return nil, errors.New("filter refuses")
	case "failer":
		return nil, newErrorResponse(f.spec.status)
	}
	return nil, nil
}

func (f *filt) PostRequest(c context.Context, _ http.Header) error {
	f.rec.events = append(f.rec.events, fmt.Sprintf("post%d:%s", f.i, seenStr(seenIn(c, f.n))))
	if f.spec.kind == "failpost" {
		return errors.New("filter refuses afterwards")
	}
	return nil
}

// ---- the resource implementation behind every registered handler

const implHeader = "X-Verif-Impl"

type impl struct {
	id       facts // what it was registered as (keys unused)
	nFilters int
	rec      *recorder
}

// run is what every fake resource method does: record the call, compare what the context says with
// what this method was registered as, then succeed or fail as the request asks.
func (im *impl) run(ctx *restli.RequestContext, decodedKeys []string) error {
	c := ctx.Request.Context()
	seen := factsFromCtx(c)
	id := im.id
	id.keys = seen.keys
	im.rec.events = append(im.rec.events, fmt.Sprintf("inv:%s:%s", id, seenStr(seenIn(c, im.nFilters))))
	if seen.String() != id.String() {
		im.rec.mismatch = append(im.rec.mismatch, fmt.Sprintf("context says %s, registered as %s", seen, id))
	}
	for i, k := range decodedKeys {
		if i >= len(seen.keys) {
			im.rec.mismatch = append(im.rec.mismatch, "decoded more keys than the context holds")
			break
		}
		want, err := decodeKey(seen.keys[i])
		if err != nil || want != k {
			im.rec.mismatch = append(im.rec.mismatch, fmt.Sprintf("key %d decoded to %q, context segment %q", i, k, seen.keys[i]))
		}
	}
	if ctx.Request.Header.Get(implHeader) == "fail" {
		return errors.New("implementation failed")
	}
	return nil
}

// decodeKey is the real codec applied to one key segment, outside any server
func decodeKey(raw string) (string, error) {
	r, err := restlicodec.NewRor2Reader(raw)
	if err != nil {
		return "", err
	}
	return r.ReadString()
}

// builtServer is a real server plus the recorder its fakes write to
type builtServer struct {
	spec    *srvSpec
	rec     *recorder
	handler http.Handler   // Handler(), obtained before the late registrations
	mux     *http.ServeMux // AddToMux, called before the late registrations
	panics  []bool         // per registration (regs then late): did the Register* call panic
}

func build(spec *srvSpec) *builtServer {
	b := &builtServer{spec: spec, rec: &recorder{}}
	var filters []restli.Filter
	for i, f := range spec.filters {
		filters = append(filters, &filt{i: i, n: len(spec.filters), spec: f, rec: b.rec})
	}
	var s restli.Server
	if spec.prefix == nil {
		s = restli.NewServer(filters...)
	} else {
		s = restli.NewPrefixedServer(*spec.prefix, filters...)
	}
	apply := func(rs []reg) {
		for _, r := range rs {
			func() {
				defer func() { b.panics = append(b.panics, recover() != nil) }()
				registerOne(s, r, len(spec.filters), b.rec)
			}()
		}
	}
	apply(spec.regs)
	b.handler = s.Handler()
	b.mux = http.NewServeMux()
	s.AddToMux(b.mux)
	apply(spec.late)
	return b
}

// registerOne makes the Register* call for r with fakes whose path decoder reads as many keys as
// generated code would: every collection among the ancestors, plus the resource's own for
// entity-level methods and entity-level actions.
func registerOne(s restli.Server, r reg, nFilters int, rec *recorder) {
	var segs []restli.ResourcePathSegment
	parents := 0
	for i, sg := range r.segs {
		segs = append(segs, restli.NewResourcePathSegment(sg.name, sg.coll))
		if sg.coll && i < len(r.segs)-1 {
			parents++
		}
	}
	own := 0
	if len(r.segs) > 0 && r.segs[len(r.segs)-1].coll {
		own = 1
	}
	im := &impl{nFilters: nFilters, rec: rec}
	im.id.method = r.method
	im.id.rpath = r.segs
	if r.kind == "f" {
		n := r.name
		im.id.finder = &n
	}
	if r.kind == "a" {
		n := r.name
		im.id.action = &n
	}
	switch parents*2 + own {
	case 0:
		regWith[n0, n0](s, segs, r, im)
	case 1:
		regWith[n1, n0](s, segs, r, im)
	case 2:
		regWith[n1, n1](s, segs, r, im)
	case 3:
		regWith[n2, n1](s, segs, r, im)
	case 4:
		regWith[n2, n2](s, segs, r, im)
	case 5:
		regWith[n3, n2](s, segs, r, im)
	case 6:
		regWith[n3, n3](s, segs, r, im)
	case 7:
		regWith[n4, n3](s, segs, r, im)
	case 8:
		regWith[n4, n4](s, segs, r, im)
	case 9:
		regWith[n5, n4](s, segs, r, im)
	default:
		panic("c05: tree too deep for the fakes")
	}
}
