package c05

// The direct oracle D: the decision table of property C05, transcribed by hand from the property
// text. It knows resource trees (as a restspec would describe them) and requests as sent on the
// wire; it does not look at the implementation, at the Lean model or at the regenerated tables.
// All names, header names and statuses in this file are the protocol's / the property's literals.

// target: the resource a path names
type target struct {
	node   *nodeSpec
	rpath  []seg
	keys   []string
	hasKey bool
}

func findNode(nodes []*nodeSpec, name string) *nodeSpec {
	for _, n := range nodes {
		if n.name == name {
			return n
		}
	}
	return nil
}

// locate: "its path names a registered resource (walking parent keys and sub-resources)":
// /r1[/k1]/r2[/k2]…: every collection-like ancestor is followed by its key, a simple one is not.
func locate(roots []*nodeSpec, path []string) *target {
	t := &target{}
	nodes := roots
	i := 0
	for {
		if i >= len(path) {
			return nil // no resource named at all
		}
		n := findNode(nodes, path[i])
		if n == nil {
			return nil // unknown resource or sub-resource
		}
		i++
		t.node = n
		t.rpath = append(t.rpath, seg{n.name, n.coll})
		t.hasKey = false
		if n.coll && i < len(path) {
			t.keys = append(t.keys, path[i])
			t.hasKey = true
			i++
		}
		if i >= len(path) {
			return t
		}
		nodes = n.subs
	}
}

var protocolVerb = map[string]string{
	"get": "GET", "batch_get": "GET", "get_all": "GET", "finder": "GET",
	"create": "POST", "batch_create": "POST", "partial_update": "POST", "batch_partial_update": "POST", "action": "POST",
	"update": "PUT", "batch_update": "PUT",
	"delete": "DELETE", "batch_delete": "DELETE",
}

func isProtocolMethod(name string) bool { _, ok := protocolVerb[name]; return ok }

// methodOf: the Rest.li method the request asks for ("" when the protocol names none)
func methodOf(t *target, r *reqSpec) string {
	_, hasQ := r.param("q")
	_, hasIds := r.param("ids")
	_, hasAction := r.param("action")
	if t.node.coll {
		if r.hdr != nil {
			if isProtocolMethod(*r.hdr) {
				return *r.hdr
			}
			return ""
		}
		switch r.verb {
		case "GET":
			switch {
			case t.hasKey:
				return "get"
			case hasQ:
				return "finder"
			case hasIds:
				return "batch_get"
			default:
				return "get_all"
			}
		case "PUT":
			if t.hasKey {
				return "update"
			}
			if hasIds {
				return "batch_update"
			}
		case "DELETE":
			if t.hasKey {
				return "delete"
			}
			if hasIds {
				return "batch_delete"
			}
		}
		return "" // POST requires the header; other verbs name nothing
	}
	switch r.verb {
	case "GET":
		return "get"
	case "PUT":
		return "update"
	case "DELETE":
		return "delete"
	case "POST":
		if hasAction {
			return "action"
		}
		return "partial_update"
	}
	return ""
}

// expectation: what the property prescribes for one request
type expectation struct {
	specified bool   // false: the text does not determine this request (reason says which shape)
	reason    string // the clause of the table that decided
	routed    bool
	status    int // when not routed
	f         facts
}

func contains(xs []string, x string) bool {
	for _, y := range xs {
		if x == y {
			return true
		}
	}
	return false
}

// unspecifiedShape names the open combination / undetermined shape the request falls into, if any
func unspecifiedShape(roots []*nodeSpec, r *reqSpec) string {
	if r.hdr != nil && !isProtocolMethod(*r.hdr) {
		return "unknown-header-value"
	}
	for _, s := range r.spec {
		if s == "" {
			return "empty-segment"
		}
	}
	for _, name := range []string{"q", "action"} {
		if v, ok := r.param(name); ok && v == "" {
			return "empty-reserved-value"
		}
	}
	for _, name := range []string{"q", "ids", "action"} {
		n := 0
		for _, kv := range r.query {
			if kv[0] == name {
				n++
			}
		}
		if n > 1 {
			return "duplicate-reserved"
		}
	}
	t := locate(roots, r.spec)
	if t == nil {
		for _, s := range r.spec {
			if !wellFormed(s) {
				return "malformed-segment-and-unknown-resource" // 400 or 404? the text gives no order
			}
		}
		return ""
	}
	_, hasQ := r.param("q")
	_, hasIds := r.param("ids")
	if t.node.coll {
		if r.hdr != nil && protocolVerb[*r.hdr] != r.verb {
			return "header-contradicts-verb"
		}
		if r.hdr == nil && (r.verb == "PUT" || r.verb == "DELETE") && t.hasKey && hasIds {
			return "key-and-ids"
		}
		if r.hdr == nil && r.verb == "GET" && !t.hasKey && hasQ && hasIds {
			return "q-and-ids"
		}
	} else if r.hdr != nil && r.verb != "GET" && r.verb != "POST" && r.verb != "PUT" && r.verb != "DELETE" {
		return "other-verb-with-header-on-simple"
	}
	return ""
}

// decide: routed iff the path names a registered resource, the method is registered on it and
// key presence matches; 404 for unknown resources and sub-resources, 400 otherwise.
func decide(roots []*nodeSpec, r *reqSpec) expectation {
	e := expectation{specified: true}
	if shape := unspecifiedShape(roots, r); shape != "" {
		e.specified = false
		e.reason = shape
	}
	reject := func(status int, why string) expectation {
		e.status = status
		if e.specified {
			e.reason = why
		}
		return e
	}
	t := locate(roots, r.spec)
	if t == nil {
		return reject(404, "unknown-resource")
	}
	for _, k := range t.keys {
		if !wellFormed(k) {
			return reject(400, "malformed-key")
		}
	}
	for _, kv := range r.query {
		if !wellFormed(kv[1]) {
			return reject(400, "malformed-query")
		}
	}
	m := methodOf(t, r)
	if m == "" {
		return reject(400, "no-method")
	}
	f := facts{method: m, rpath: t.rpath, keys: t.keys}
	switch m {
	case "finder":
		name, ok := r.param("q")
		if !ok || !contains(t.node.finders, name) {
			return reject(400, "finder-not-registered")
		}
		if t.hasKey {
			return reject(400, "key-not-allowed")
		}
		f.finder = &name
	case "action":
		name, ok := r.param("action")
		var a *actionSpec
		for i := range t.node.actions {
			if ok && t.node.actions[i].name == name && a == nil {
				a = &t.node.actions[i]
			}
		}
		if a == nil {
			return reject(400, "action-not-registered")
		}
		if a.onEntity != t.hasKey {
			return reject(400, "action-key-mismatch")
		}
		f.action = &name
	default:
		if !contains(t.node.methods, m) {
			return reject(400, "method-not-registered")
		}
		wantsKey := t.node.coll && (m == "get" || m == "update" || m == "delete" || m == "partial_update")
		if wantsKey != t.hasKey {
			if wantsKey {
				return reject(400, "key-required")
			}
			return reject(400, "key-not-allowed")
		}
	}
	e.routed = true
	e.f = f
	if e.specified {
		e.reason = "routed"
	}
	return e
}

func (e expectation) decisionString() string {
	if e.routed {
		return "routed " + e.f.String()
	}
	return "reject " + itoa(e.status)
}

func itoa(i int) string {
	if i == 0 {
		return "0"
	}
	s := ""
	for i > 0 {
		s = string(rune('0'+i%10)) + s
		i /= 10
	}
	return s
}

// expectedEvents: "the server's filters run before the method in registration order and, after it
// succeeds, in reverse order, and see exactly the routed [facts]". A filter that refuses ends the
// request there; a request whose keys/parameters/body do not decode never reaches resource code.
// Returns the events and what the property says about the status: 2 = some 2xx, 400, or 0 = not said.
func expectedEvents(filters []filterSpec, f facts, decodes, implOk bool) ([]string, int) {
	var ev []string
	var seen []int
	for i, fl := range filters {
		ev = append(ev, "pre"+itoa(i)+":"+f.String()+":"+seenStr(seen))
		switch fl.kind {
		case "failpre", "failer":
			return ev, 0
		case "ctx":
			seen = append(seen, i)
		}
	}
	if !decodes {
		return ev, 400
	}
	ev = append(ev, "inv:"+f.String()+":"+seenStr(seen))
	if !implOk {
		return ev, 0
	}
	for i := len(filters) - 1; i >= 0; i-- {
		ev = append(ev, "post"+itoa(i)+":"+seenStr(seen))
		if filters[i].kind == "failpost" {
			return ev, 0
		}
	}
	return ev, 2
}
