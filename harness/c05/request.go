package c05

import (
	"fmt"
	"io"
	"net/http"
	"net/http/httptest"
	"strings"

	"github.com/PapaCharlie/go-restli/v2/restlicodec"
	"verif/harness/hx"
)

// body classes a request can carry
const (
	bodyNone = iota
	bodyObject
	bodyElements
	bodyEntities
	nBodies
)

var bodyText = [nBodies]string{"", `{}`, `{"elements":[]}`, `{"entities":{}}`}

// bodyAccepted[b] lists the method kinds whose registered closure decodes body class b (facts about
// the codec's envelopes, observed once and frozen here; routing is not involved in them):
// no-body methods want an empty body, single-entity methods any JSON object, batch_create an
// `elements` array, the batch updates an `entities` map; actions with EmptyRecord params never read it.
var bodyAccepted = [nBodies][]string{
	bodyNone:     {"get", "delete", "batch_get", "batch_delete", "get_all", "finder", "action"},
	bodyObject:   {"create", "update", "partial_update", "action"},
	bodyElements: {"create", "update", "partial_update", "batch_create", "action"},
	bodyEntities: {"create", "update", "partial_update", "batch_update", "batch_partial_update", "action"},
}

// reqSpec is one request, as sent on the wire
type reqSpec struct {
	verb     string
	hdr      *string     // X-RestLi-Method (nil: absent)
	wire     []string    // wire path segments: the path is "/" + join(wire, "/")
	spec     []string    // the resource path the property speaks about (wire minus the mount prefix; nil if outside it)
	query    [][2]string // raw key=value pairs
	body     int
	implFail bool
	tunnel   bool // sent as POST + X-HTTP-Method-Override with the query in a form body
}

func (r *reqSpec) wirePath() string { return "/" + strings.Join(r.wire, "/") }

func (r *reqSpec) rawQuery() string {
	parts := make([]string, len(r.query))
	for i, kv := range r.query {
		parts[i] = kv[0] + "=" + kv[1]
	}
	return strings.Join(parts, "&")
}

func (r *reqSpec) param(name string) (string, bool) {
	for _, kv := range r.query {
		if kv[0] == name {
			return kv[1], true
		}
	}
	return "", false
}

// keysDecode: every key the path decoder would read decodes as a string (real codec, called directly)
func keysDecode(keys []string) bool {
	for _, k := range keys {
		if _, err := decodeKey(k); err != nil {
			return false
		}
	}
	return true
}

// decodes lists the method kinds whose closure decodes this request's keys, parameters and body.
// `keys` are the key segments as the server will see them.
func (r *reqSpec) decodes(keys []string) []string {
	if !keysDecode(keys) {
		return nil
	}
	_, badParam := r.param("bad")
	var out []string
	for _, m := range bodyAccepted[r.body] {
		if badParam && m != "action" { // actions do not decode query parameters
			continue
		}
		out = append(out, m)
	}
	return out
}

// httpRequest builds the request exactly as a client would put it on the wire
func (r *reqSpec) httpRequest() *http.Request {
	target := r.wirePath()
	var req *http.Request
	if r.tunnel {
		req = httptest.NewRequest("POST", target, hx.ShortReads([]byte(r.rawQuery())))
		req.ContentLength = int64(len(r.rawQuery()))
		req.Header.Set("X-HTTP-Method-Override", r.verb)
		req.Header.Set("Content-Type", "application/x-www-form-urlencoded")
	} else {
		if q := r.rawQuery(); q != "" {
			target += "?" + q
		}
		var body io.Reader
		if r.body != bodyNone {
			// delivered in pieces, as a connection would
			body = hx.ShortReads([]byte(bodyText[r.body]))
		}
		req = httptest.NewRequest(r.verb, target, body)
		if r.body != bodyNone {
			req.ContentLength = int64(len(bodyText[r.body]))
		}
	}
	if r.hdr != nil {
		req.Header.Set("X-RestLi-Method", *r.hdr)
	}
	if r.implFail {
		req.Header.Set(implHeader, "fail")
	}
	return req
}

// serverSegments: the path segments as a server mounted at prefix reads them: it splits what
// follows its (normalised) prefix in URL.EscapedPath(); nil when the request is not under the prefix
func serverSegments(req *http.Request, prefix *string) []string {
	p := "/"
	if prefix != nil && *prefix != "" {
		p = *prefix
	}
	if !strings.HasSuffix(p, "/") {
		p += "/"
	}
	path := req.URL.EscapedPath()
	if !strings.HasPrefix(path, p) {
		return nil
	}
	return strings.Split(strings.TrimPrefix(path, p), "/")
}

func (r *reqSpec) sexp(req *http.Request, dec []string) string {
	var b strings.Builder
	b.WriteString("(req " + enc(r.verb) + " (h")
	if r.hdr != nil {
		b.WriteString(" (" + enc("X-RestLi-Method") + " " + enc(*r.hdr) + ")")
	}
	b.WriteString(") (raw " + enc(req.URL.EscapedPath()) + " " + enc(req.URL.Path) + ") (p")
	for _, s := range r.spec {
		b.WriteString(" " + enc(s))
	}
	b.WriteString(") (q")
	for _, kv := range r.query {
		b.WriteString(" (" + enc(kv[0]) + " " + enc(kv[1]) + ")")
	}
	b.WriteString(") (dec")
	for _, m := range dec {
		b.WriteString(" " + m)
	}
	ok := "1"
	if r.implFail {
		ok = "0"
	}
	t := "0"
	if r.tunnel {
		t = "1"
	}
	var ws []string
	for _, s := range r.wire {
		ws = append(ws, enc(s))
	}
	fmt.Fprintf(&b, ") %s (x (%s) %d %s))", ok, strings.Join(ws, " "), r.body, t)
	return b.String()
}

func reqOfSexp(s *hx.Sexp) *reqSpec {
	r := &reqSpec{verb: dec(s.List[1].Atom)}
	for _, h := range s.List[2].List[1:] {
		if dec(h.List[0].Atom) == "X-RestLi-Method" {
			v := dec(h.List[1].Atom)
			r.hdr = &v
		}
	}
	r.spec = []string{}
	for _, p := range s.List[4].List[1:] {
		r.spec = append(r.spec, dec(p.Atom))
	}
	for _, q := range s.List[5].List[1:] {
		r.query = append(r.query, [2]string{dec(q.List[0].Atom), dec(q.List[1].Atom)})
	}
	r.implFail = s.List[7].Atom == "0"
	x := s.List[8].List
	for _, w := range x[1].List {
		r.wire = append(r.wire, dec(w.Atom))
	}
	fmt.Sscan(x[2].Atom, &r.body)
	r.tunnel = x[3].Atom == "1"
	return r
}

// wellFormed is the harness' own notion of a syntactically acceptable Rest.li encoded string (used
// by the oracle, never by the model): parentheses never close more than were opened. Checked
// against the real validator in selfTest.
func wellFormed(s string) bool {
	depth := 0
	for _, c := range s {
		switch c {
		case '(':
			depth++
		case ')':
			depth--
			if depth < 0 {
				return false
			}
		}
	}
	return true
}

func selfTest() {
	for _, s := range []string{"", "a", ")", "(", "()", "())(", "(a)", "a)b", "100%", "List(1,2)"} {
		if wellFormed(s) != (restlicodec.ValidateRor2Input(s) == nil) {
			panic("c05: harness notion of a well-formed value differs from ValidateRor2Input on " + s)
		}
	}
}
