package c05

import (
	"flag"
	"fmt"
	"hash/fnv"
	"io"
	"log"
	"net/http/httptest"
	"os"
	"sort"
	"strings"
	"sync"

	"verif/harness/hx"
)

type Config struct {
	Module string
	Seed   int64
	Tier   string
	Driver *hx.Driver
	Replay []string
}

// a case: one request against one server through one mount
type kase struct {
	srv   *srvSpec
	mount string // bare | mux
	req   *reqSpec
}

// shared result, guarded
type sink struct {
	mu sync.Mutex
	r  *hx.Result
}

func (s *sink) do(f func(r *hx.Result)) {
	s.mu.Lock()
	f(s.r)
	s.mu.Unlock()
}

// worker: owns its servers (the fakes' recorder is per server) and its driver
type worker struct {
	cfg     Config
	driver  *hx.Driver
	servers map[string]*builtServer
	out     *sink
}

func (w *worker) server(spec *srvSpec) *builtServer {
	key := spec.sexp()
	if b, ok := w.servers[key]; ok {
		return b
	}
	b := build(spec)
	w.servers[key] = b
	return b
}

// serve sends one request to one server through one mount and renders what happened canonically
func serve(b *builtServer, mount string, r *reqSpec) (implS string, status int, events, mismatch []string, panicked bool) {
	req := r.httpRequest()
	b.rec.reset()
	rw := httptest.NewRecorder()
	panicked, pv := hx.Recover(func() {
		if mount == "mux" {
			b.mux.ServeHTTP(rw, req)
		} else {
			b.handler.ServeHTTP(rw, req)
		}
	})
	v, e := "-", "-"
	if rw.Header().Get("X-RestLi-Protocol-Version") == "2.0.0" {
		v = "V"
	}
	if rw.Header().Get("X-RestLi-Error-Response") == "true" {
		e = "E"
	}
	events = append([]string(nil), b.rec.events...)
	mismatch = append([]string(nil), b.rec.mismatch...)
	implS = fmt.Sprintf("%d %s%s %s", rw.Code, v, e, strings.Join(events, ";"))
	if panicked {
		implS = fmt.Sprintf("panic %v", pv)
	}
	return implS, rw.Code, events, mismatch, panicked
}

// plainMount: the bare handler of a server without a path prefix — the reference every other way of
// mounting is compared with
func plainMount(k kase) bool {
	return k.mount == "bare" && (k.srv.prefix == nil || strings.Trim(*k.srv.prefix, "/") == "")
}

// runCase: (i) serve the request with the real handler, (ii) judge it with D, (iii) ask the model.
func (w *worker) runCase(k kase) {
	b := w.server(k.srv)
	req := k.req.httpRequest()
	tree := treeOfRegs(k.srv.regs)

	// which key segments will the closure read? — from the path as the server sees it
	view := serverSegments(req, k.srv.prefix)
	var dec []string
	if t := locate(tree, view); t != nil {
		keys := t.keys
		dec = k.req.decodes(keys)
	} else {
		dec = k.req.decodes(nil)
	}
	reqS := k.req.sexp(req, dec)
	srvS := k.srv.sexp()
	op := "route " + w.cfg.Module + " " + k.mount + " " + srvS + " " + reqS

	// ---- (i) the implementation
	implS, status, events, mismatch, panicked := serve(b, k.mount, k.req)

	// ---- (ii) D
	exp := decide(tree, k.req)
	var fails []hx.Case
	if plainMount(k) {
		fails = judgeRouting(k, op, implS, status, events, mismatch, exp, dec, panicked)
	} else {
		// "all of this holds however the server is mounted": the same request, addressed to the bare
		// handler of the same server built without a prefix, is the reference
		plain := *k.srv
		plain.prefix = nil
		var refS string
		if k.req.spec == nil {
			refS = "404 -- " // outside the mount point: nothing of the server is there
		} else {
			twin := *k.req
			twin.wire = k.req.spec
			refS, _, _, _, _ = serve(w.server(&plain), "bare", &twin)
		}
		fails = judgeMounting(k, op, implS, refS, exp, panicked)
	}
	w.out.do(func(r *hx.Result) {
		r.OracleCases++
		r.Count("mount:" + mountName(k))
		r.Count("verb:" + k.req.verb)
		if k.req.hdr == nil {
			r.Count("header:absent")
		} else if isProtocolMethod(*k.req.hdr) {
			r.Count("header:named")
		} else {
			r.Count("header:unknown-value")
		}
		r.Count(fmt.Sprintf("filters:%d", len(k.srv.filters)))
		if k.req.tunnel {
			r.Count("tunnelled")
		}
		if len(k.srv.late) > 0 {
			r.Count("late-registration")
		}
		if exp.specified {
			r.Count("expect:" + exp.reason)
		} else {
			r.Count("unspecified:" + exp.reason)
		}
		r.Count(fmt.Sprintf("status:%d", status))
		if len(events) > 0 {
			r.Distinctive(k.mount + " " + shortSrv(k.srv) + " " + reqS)
		}
		for _, c := range fails {
			r.OracleFail(c)
		}
	})

	// ---- (iii) K
	if w.driver != nil {
		m := w.driver.MustAsk(op)
		sp := w.driver.MustAsk("route-spec " + srvS + " " + reqS)
		w.out.do(func(r *hx.Result) {
			r.Ops += 2
			if strings.HasPrefix(m, "unmodelled") {
				r.Unmodelled[m]++
			} else if m != implS {
				r.Disagree(hx.Case{Sig: "C05 route: model and implementation differ (" + exp.reason + ")", Op: op, Impl: implS, Model: m})
			}
			spec := "0"
			if exp.specified {
				spec = "1"
			}
			if want := exp.decisionString() + " specified=" + spec; sp != want {
				r.Disagree(hx.Case{Sig: "C05 route-spec: Lean specification and Go oracle differ", Op: "route-spec " + srvS + " " + reqS, Impl: want, Model: sp})
			}
		})
	}
}

func mountName(k kase) string {
	switch {
	case k.mount == "mux":
		return "ServeMux"
	case plainMount(k):
		return "bare"
	case k.req.spec == nil:
		return "prefixed server, request outside the prefix"
	default:
		return "prefixed server"
	}
}

// judgeMounting: mounted through a ServeMux or built with a path prefix, the server answers like
// the bare handler. Judged on the requests the property text determines.
func judgeMounting(k kase, op, implS, refS string, exp expectation, panicked bool) []hx.Case {
	var fails []hx.Case
	if panicked {
		fails = append(fails, hx.Case{Sig: "C05 panic escaped ServeHTTP", Op: op, Impl: implS, Expected: "a response"})
	}
	if exp.specified && implS != refS {
		what := "differs"
		switch {
		case implS == "404 -- ":
			what = "answers a bare 404 where the bare handler serves the request"
		case refS == "404 -- ":
			what = "serves a request that is not under the mount point"
		}
		fails = append(fails, hx.Case{Sig: "C05 mounting: " + mountName(k) + " " + what, Op: op, Impl: implS, Expected: refS})
	}
	return fails
}

// judgeRouting evaluates the routing clauses of the property on what the bare handler did
func judgeRouting(k kase, op, implS string, status int, events, mismatch []string, exp expectation, dec []string, panicked bool) []hx.Case {
	var fails []hx.Case
	fail := func(sig, expected string) {
		fails = append(fails, hx.Case{Sig: sig, Op: op, Impl: implS, Expected: expected})
	}
	if panicked {
		fail("C05 panic escaped ServeHTTP", "a response")
	}
	// invariants of every request, specified or not
	inv, firstPost := 0, -1
	for i, ev := range events {
		switch {
		case strings.HasPrefix(ev, "inv:"):
			inv++
			if firstPost >= 0 {
				fail("C05 resource code ran after a post filter", "filters after the method only")
			}
		case strings.HasPrefix(ev, "pre"):
			if inv > 0 || firstPost >= 0 {
				fail("C05 pre filter ran after the method", "filters before the method")
			}
		case strings.HasPrefix(ev, "post"):
			if firstPost < 0 {
				firstPost = i
			}
			if inv == 0 {
				fail("C05 post filter ran without the method having run", "post filters only after the method succeeded")
			}
		}
	}
	if inv > 1 {
		fail("C05 more than one resource method invoked", "exactly one")
	}
	for _, m := range mismatch {
		fail("C05 invoked method saw facts that are not its own", m)
	}
	if !exp.specified {
		return fails
	}
	if !exp.routed {
		switch {
		case len(events) > 0:
			fail(fmt.Sprintf("C05 not-routed request (%s) reached filters or resource code", exp.reason), "no filter, no resource code")
		case status != exp.status:
			fail(fmt.Sprintf("C05 not-routed request (%s) answered %d instead of %d", exp.reason, status, exp.status), itoa(exp.status))
		}
		return fails
	}
	want, st := expectedEvents(k.srv.filters, exp.f, contains(dec, exp.f.method), !k.req.implFail)
	got := strings.Join(events, ";")
	switch {
	case got != strings.Join(want, ";"):
		sig := "C05 routed request: wrong filter/method sequence or facts"
		switch {
		case len(events) == 0:
			sig = fmt.Sprintf("C05 routed request answered %d without reaching filters or resource code", status)
		case inv == 1 && !strings.Contains(got, "inv:"+exp.f.String()+":") && !keysDiffer(events, exp.f):
			sig = "C05 routed request: another method invoked"
		case keysDiffer(events, exp.f):
			sig = "C05 routed request: filters or method saw entity keys that are not the request's"
		}
		fail(sig, strings.Join(want, ";"))
	case st == 2 && (status < 200 || status > 299):
		fail(fmt.Sprintf("C05 routed and served request answered %d", status), "2xx")
	case st == 400 && status != 400:
		fail(fmt.Sprintf("C05 routed request whose keys/parameters/body do not decode answered %d", status), "400")
	}
	return fails
}

// keysDiffer: some event carries facts equal to the expected ones except for the keys
func keysDiffer(events []string, f facts) bool {
	want := strings.Split(f.String(), "/")
	for _, ev := range events {
		parts := strings.SplitN(ev, ":", 3)
		if len(parts) < 2 {
			continue
		}
		got := strings.Split(parts[1], "/")
		if len(got) == 5 && got[0] == want[0] && got[1] == want[1] && got[3] == want[3] && got[4] == want[4] && got[2] != want[2] {
			return true
		}
	}
	return false
}

func shortSrv(s *srvSpec) string {
	h := fnv.New32a()
	h.Write([]byte(s.sexp()))
	return fmt.Sprintf("srv#%08x", h.Sum32())
}

func hash(seed int64, parts ...string) uint32 {
	h := fnv.New32a()
	fmt.Fprintf(h, "%d", seed)
	for _, p := range parts {
		h.Write([]byte{0})
		h.Write([]byte(p))
	}
	return h.Sum32()
}

func driverPath() string {
	if f := flag.Lookup("driver"); f != nil {
		return f.Value.String()
	}
	return ""
}

func Run(cfg Config) *hx.Result {
	r := hx.NewResult("C05", cfg.Module, cfg.Seed, cfg.Tier)
	r.Rule = "for each tree of a family (collection / simple / nested / sparse / name-collision / deep, plus per-method and seeded random trees in the thorough tier) every combination of verb {GET,POST,PUT,DELETE,PATCH} x X-RestLi-Method {absent, 13 names, bogus, empty, Unknown} x path shape (resource, key variants incl. malformed / percent-encoded / empty, sub-resource, unknown segment, trailing and doubled slash, unknown root) x q {absent, registered, unregistered, empty} x ids x action {absent, registered per level, unregistered, empty} x extras (malformed value, undecodable parameter, duplicate q), each with a body class, 0-3 filters (pass, context-adding, failing before / after), mount (bare, ServeMux, prefixed) and tunnelling chosen by seeded hash; quick tier keeps a seeded sample; non-trivial = filters or resource code were reached; distinct by mount + server + request"
	selfTest()
	// the library logs every refused registration and every recovered panic through the standard logger
	log.SetOutput(io.Discard)
	defer log.SetOutput(os.Stderr)
	out := &sink{r: r}
	if len(cfg.Replay) > 0 {
		w := &worker{cfg: cfg, driver: cfg.Driver, servers: map[string]*builtServer{}, out: out}
		for _, line := range cfg.Replay {
			xs, err := hx.ParseLine(line)
			switch {
			case err == nil && len(xs) == 5 && xs[0].Atom == "route":
				w.runCase(kase{srv: srvOfSexp(xs[3]), mount: xs[2].Atom, req: reqOfSexp(xs[4])})
			case err == nil && len(xs) == 3 && xs[0].Atom == "route-spec": // a Lean-spec / Go-oracle disagreement
				w.runCase(kase{srv: srvOfSexp(xs[1]), mount: "bare", req: reqOfSexp(xs[2])})
			case err == nil && len(xs) == 3 && xs[0].Atom == "register":
				runRegistrationSequence(cfg, out, srvOfSexp(xs[2]).regs)
			default:
				panic("c05: cannot replay " + line)
			}
		}
		return r
	}

	// registration behaviour (duplicates, inconsistent isCollection, partial effects)
	runRegistrationCases(cfg, out)

	// fixed corpus first, then the enumerated space, sharded
	cases := corpus()
	trees := treeFamily(cfg)
	path := driverPath()
	nWorkers := 16
	if cfg.Tier != "thorough" {
		nWorkers = 8
	}
	if cfg.Driver != nil && path == "" {
		nWorkers = 1 // no way to start more drivers
	}
	shards := make([][]kase, nWorkers)
	for i, c := range cases {
		shards[i%nWorkers] = append(shards[i%nWorkers], c)
	}
	var wg sync.WaitGroup
	treeCh := make(chan int, len(trees))
	for i := range trees {
		treeCh <- i
	}
	close(treeCh)
	for wi := 0; wi < nWorkers; wi++ {
		wg.Add(1)
		go func(wi int) {
			defer wg.Done()
			w := &worker{cfg: cfg, servers: map[string]*builtServer{}, out: out}
			if cfg.Driver != nil {
				if wi == 0 {
					w.driver = cfg.Driver
				} else {
					d, err := hx.StartDriver(path)
					if err != nil {
						panic(err)
					}
					defer d.Close()
					w.driver = d
				}
			}
			for _, c := range shards[wi] {
				w.runCase(c)
			}
			for ti := range treeCh {
				w.servers = map[string]*builtServer{}
				enumerate(cfg, trees[ti], ti < len(fixedTrees()), w.runCase)
			}
		}(wi)
	}
	wg.Wait()
	r.Exhaustive = cfg.Tier == "thorough"
	sort.Slice(r.OracleFailures, func(i, j int) bool { return r.OracleFailures[i].Sig < r.OracleFailures[j].Sig })
	return r
}
