//go:build !rootmod

package c05

import (
	"github.com/PapaCharlie/go-restli/v2/restli"
	rd "github.com/PapaCharlie/go-restli/v2/restlidata/generated/com/linkedin/restli/common"
)

// This file and server_root.go are identical except for the build tag and the package the Rest.li
// envelope types come from (v2: restlidata/generated/com/linkedin/restli/common, root: restlidata).

func newErrorResponse(status int) error {
	st := int32(status)
	msg := "filter says no"
	return &rd.ErrorResponse{Status: &st, Message: &msg}
}

// regWith makes the Register* call for r. E is the path decoder of entity-level methods (reads the
// resource's own key too), R the one of resource-level methods.
func regWith[E, R rpN](s restli.Server, segs []restli.ResourcePathSegment, r reg, im *impl) {
	type C = *restli.RequestContext
	switch r.kind {
	case "f":
		restli.RegisterFinder(s, segs, r.name, func(ctx C, p *rp[R], q *qp) (*rd.Elements[*val], error) {
			return &rd.Elements[*val]{}, im.run(ctx, p.keys)
		})
		return
	case "a":
		if r.onEntity {
			restli.RegisterAction(s, segs, r.name, func(ctx C, p *rp[E], _ rd.EmptyRecord) error { return im.run(ctx, p.keys) })
		} else {
			restli.RegisterAction(s, segs, r.name, func(ctx C, p *rp[R], _ rd.EmptyRecord) error { return im.run(ctx, p.keys) })
		}
		return
	}
	batch := func(ctx C, keys []string) (*rd.BatchResponse[string, *rd.BatchEntityUpdateResponse], error) {
		return &rd.BatchResponse[string, *rd.BatchEntityUpdateResponse]{}, im.run(ctx, keys)
	}
	switch r.method {
	case "get":
		restli.RegisterGet(s, segs, func(ctx C, p *rp[E], q *qp) (*val, error) { return &val{}, im.run(ctx, p.keys) })
	case "create":
		restli.RegisterCreate(s, segs, nil, func(ctx C, p *rp[R], v *val, q *qp) (*rd.CreatedEntity[string], error) {
			return &rd.CreatedEntity[string]{Id: "new"}, im.run(ctx, p.keys)
		})
	case "delete":
		restli.RegisterDelete(s, segs, func(ctx C, p *rp[E], q *qp) error { return im.run(ctx, p.keys) })
	case "update":
		restli.RegisterUpdate(s, segs, nil, func(ctx C, p *rp[E], v *val, q *qp) error { return im.run(ctx, p.keys) })
	case "partial_update":
		restli.RegisterPartialUpdate(s, segs, nil, func(ctx C, p *rp[E], v *val, q *qp) error { return im.run(ctx, p.keys) })
	case "batch_get":
		restli.RegisterBatchGet(s, segs, func(ctx C, p *rp[R], _ []string, q *bqp) (*rd.BatchResponse[string, *val], error) {
			return &rd.BatchResponse[string, *val]{}, im.run(ctx, p.keys)
		})
	case "batch_create":
		restli.RegisterBatchCreate(s, segs, nil, func(ctx C, p *rp[R], _ []*val, q *qp) ([]*rd.CreatedEntity[string], error) {
			return nil, im.run(ctx, p.keys)
		})
	case "batch_delete":
		restli.RegisterBatchDelete(s, segs, func(ctx C, p *rp[R], _ []string, q *bqp) (*rd.BatchResponse[string, *rd.BatchEntityUpdateResponse], error) {
			return batch(ctx, p.keys)
		})
	case "batch_update":
		restli.RegisterBatchUpdate(s, segs, nil, func(ctx C, p *rp[R], _ map[string]*val, q *bqp) (*rd.BatchResponse[string, *rd.BatchEntityUpdateResponse], error) {
			return batch(ctx, p.keys)
		})
	case "batch_partial_update":
		restli.RegisterBatchPartialUpdate(s, segs, nil, func(ctx C, p *rp[R], _ map[string]*val, q *bqp) (*rd.BatchResponse[string, *rd.BatchEntityUpdateResponse], error) {
			return batch(ctx, p.keys)
		})
	case "get_all":
		restli.RegisterGetAll(s, segs, func(ctx C, p *rp[R], q *qp) (*rd.Elements[*val], error) {
			return &rd.Elements[*val]{}, im.run(ctx, p.keys)
		})
	default:
		panic("c05: no Register function for method " + r.method)
	}
}
