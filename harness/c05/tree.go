package c05

import (
	"fmt"
	"strings"

	"verif/harness/hx"
)

// the thirteen Rest.li methods, by their protocol names
var allMethods = []string{"get", "create", "delete", "update", "partial_update", "batch_get", "batch_create",
	"batch_delete", "batch_update", "batch_partial_update", "get_all", "action", "finder"}

// methods that are registered through Register<Method> (action and finder have their own calls)
var restMethods = allMethods[:11]

// on a collection these address one entity
var entityLevel = map[string]bool{"get": true, "update": true, "delete": true, "partial_update": true}

type actionSpec struct {
	name     string
	onEntity bool
}

// nodeSpec is one resource of a tree, the way a restspec would describe it
type nodeSpec struct {
	name    string
	coll    bool
	methods []string
	finders []string
	actions []actionSpec
	subs    []*nodeSpec
}

// reg is one Register* call
type reg struct {
	segs     []seg
	kind     string // "m", "f", "a"
	method   string
	name     string
	onEntity bool
}

func (r reg) sexp() string {
	var ss []string
	for _, s := range r.segs {
		c := "0"
		if s.coll {
			c = "1"
		}
		ss = append(ss, "("+enc(s.name)+" "+c+")")
	}
	var what string
	switch r.kind {
	case "m":
		what = "(m " + r.method + ")"
	case "f":
		what = "(f " + enc(r.name) + ")"
	case "a":
		e := "0"
		if r.onEntity {
			e = "1"
		}
		what = "(a " + enc(r.name) + " " + e + ")"
	}
	return "(r (" + strings.Join(ss, " ") + ") " + what + ")"
}

func regOfSexp(s *hx.Sexp) reg {
	var r reg
	for _, x := range s.List[1].List {
		r.segs = append(r.segs, seg{dec(x.List[0].Atom), x.List[1].Atom == "1"})
	}
	w := s.List[2].List
	r.kind = w[0].Atom
	switch r.kind {
	case "m":
		r.method = w[1].Atom
	case "f":
		r.method = "finder"
		r.name = dec(w[1].Atom)
	case "a":
		r.method = "action"
		r.name = dec(w[1].Atom)
		r.onEntity = w[2].Atom == "1"
	}
	return r
}

// regsOf lists the Register* calls generated code would make for the tree, resource by resource
func regsOf(nodes []*nodeSpec, parents []seg) []reg {
	var out []reg
	for _, n := range nodes {
		segs := append(append([]seg(nil), parents...), seg{n.name, n.coll})
		for _, m := range n.methods {
			out = append(out, reg{segs: segs, kind: "m", method: m})
		}
		for _, f := range n.finders {
			out = append(out, reg{segs: segs, kind: "f", method: "finder", name: f})
		}
		for _, a := range n.actions {
			out = append(out, reg{segs: segs, kind: "a", method: "action", name: a.name, onEntity: a.onEntity})
		}
		out = append(out, regsOf(n.subs, segs)...)
	}
	return out
}

// treeOfRegs rebuilds the resource tree a list of registrations describes (for replay and for D)
func treeOfRegs(regs []reg) []*nodeSpec {
	var roots []*nodeSpec
	for _, r := range regs {
		level := &roots
		var n *nodeSpec
		for _, s := range r.segs {
			n = nil
			for _, c := range *level {
				if c.name == s.name {
					n = c
				}
			}
			if n == nil {
				n = &nodeSpec{name: s.name, coll: s.coll}
				*level = append(*level, n)
			}
			level = &n.subs
		}
		if n == nil {
			continue
		}
		switch r.kind {
		case "m":
			n.methods = append(n.methods, r.method)
		case "f":
			n.finders = append(n.finders, r.name)
		case "a":
			n.actions = append(n.actions, actionSpec{r.name, r.onEntity})
		}
	}
	return roots
}

type filterSpec struct {
	kind   string // pass, ctx, failpre, failer, failpost
	status int
}

func (f filterSpec) sexp() string {
	if f.kind == "failer" {
		return fmt.Sprintf("(failer %d)", f.status)
	}
	return f.kind
}

// srvSpec is one server: how it is constructed, its filters, what is registered before the handler
// (or mux) is obtained and what is registered after that
type srvSpec struct {
	prefix  *string // nil: NewServer
	filters []filterSpec
	regs    []reg
	late    []reg
}

func (s *srvSpec) sexp() string {
	p := "-"
	if s.prefix != nil {
		p = enc(*s.prefix)
	}
	var b strings.Builder
	b.WriteString("(srv " + p + " (f")
	for _, f := range s.filters {
		b.WriteString(" " + f.sexp())
	}
	b.WriteString(") (regs")
	for _, r := range s.regs {
		b.WriteString(" " + r.sexp())
	}
	b.WriteString(") (late")
	for _, r := range s.late {
		b.WriteString(" " + r.sexp())
	}
	b.WriteString("))")
	return b.String()
}

func srvOfSexp(s *hx.Sexp) *srvSpec {
	out := &srvSpec{}
	if s.List[1].Atom != "-" {
		p := dec(s.List[1].Atom)
		out.prefix = &p
	}
	for _, f := range s.List[2].List[1:] {
		if f.IsList {
			var st int
			fmt.Sscan(f.List[1].Atom, &st)
			out.filters = append(out.filters, filterSpec{"failer", st})
		} else {
			out.filters = append(out.filters, filterSpec{kind: f.Atom})
		}
	}
	for _, r := range s.List[3].List[1:] {
		out.regs = append(out.regs, regOfSexp(r))
	}
	for _, r := range s.List[4].List[1:] {
		out.late = append(out.late, regOfSexp(r))
	}
	return out
}
