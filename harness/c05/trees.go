package c05

import (
	"fmt"
	"math/rand"
	"strings"

	"verif/harness/hx"
)

type treeDef struct {
	name  string
	roots []*nodeSpec
}

func coll(name string, methods []string, finders []string, actions []actionSpec, subs ...*nodeSpec) *nodeSpec {
	return &nodeSpec{name: name, coll: true, methods: methods, finders: finders, actions: actions, subs: subs}
}

func simple(name string, methods []string, actions []actionSpec, subs ...*nodeSpec) *nodeSpec {
	return &nodeSpec{name: name, coll: false, methods: methods, actions: actions, subs: subs}
}

var simpleMethods = []string{"get", "update", "delete", "partial_update"}

// the fixed family: kinds x nesting x method / finder / action subsets
func fixedTrees() []treeDef {
	return []treeDef{
		{"full-collection", []*nodeSpec{
			coll("coll", restMethods, []string{"byName", "other"}, []actionSpec{{"resAct", false}, {"entAct", true}}),
		}},
		{"simple", []*nodeSpec{
			simple("simp", simpleMethods, []actionSpec{{"doIt", false}}),
		}},
		{"nested", []*nodeSpec{
			coll("a", []string{"get", "create", "get_all"}, []string{"f1"}, nil,
				coll("b", []string{"get", "batch_get", "update", "delete", "batch_delete"}, nil, []actionSpec{{"entB", true}},
					simple("c", []string{"get", "update"}, []actionSpec{{"actC", false}}))),
			simple("s", []string{"get"}, nil,
				coll("d", []string{"get", "get_all"}, []string{"fd"}, nil)),
		}},
		{"sparse", []*nodeSpec{
			coll("bc", []string{"batch_get", "batch_create", "batch_update", "batch_partial_update", "batch_delete"}, nil, nil),
			coll("ro", []string{"get"}, nil, nil),
			simple("acts", nil, []actionSpec{{"one", false}, {"two", false}}),
			coll("empty", nil, nil, nil),
		}},
		{"collisions", []*nodeSpec{
			coll("x", []string{"get", "get_all", "delete"}, []string{"get", "x"}, []actionSpec{{"q", false}, {"ids", true}},
				coll("x", []string{"get", "create"}, []string{"x"}, nil),
				simple("k7", []string{"get"}, nil)),
			simple("ids", []string{"get", "partial_update"}, []actionSpec{{"action", false}}),
			coll("action", []string{"create", "batch_create", "partial_update"}, nil, []actionSpec{{"action", false}}),
		}},
		{"deep", []*nodeSpec{
			coll("l1", []string{"get"}, nil, nil,
				coll("l2", []string{"get", "update"}, []string{"f2"}, nil,
					simple("l3", []string{"get", "delete"}, nil,
						coll("l4", []string{"get", "get_all", "partial_update"}, nil, []actionSpec{{"deepEnt", true}, {"deepRes", false}})))),
		}},
		// several sub-resources under one deep node (and under its children): whatever a node keeps
		// per registration — its path as shown to filters — must be its own, not a sibling's
		{"deep-siblings", []*nodeSpec{
			coll("albums", []string{"get"}, nil, nil,
				coll("photos", []string{"get"}, nil, nil,
					coll("comments", []string{"get", "get_all"}, nil, nil,
						coll("likes", []string{"get", "get_all"}, nil, []actionSpec{{"likeEnt", true}},
							simple("who", []string{"get"}, nil),
							coll("when", []string{"get"}, nil, nil)),
						coll("flags", []string{"get", "create"}, []string{"byKind"}, nil,
							simple("why", []string{"get", "update"}, nil)),
						simple("pin", []string{"get", "delete"}, []actionSpec{{"unpin", false}})))),
		}},
	}
}

// thorough tier: one collection per single method, and seeded random trees
func moreTrees(seed int64) []treeDef {
	var out []treeDef
	for _, m := range restMethods {
		out = append(out, treeDef{"only-" + m, []*nodeSpec{coll("c", []string{m}, nil, nil), simple("s", []string{m}, nil)}})
	}
	// a simple resource cannot carry collection-only methods through generated code, but the library
	// does not object: cover it
	rng := hx.Rng(seed, "c05-trees")
	for i := 0; i < 14; i++ {
		out = append(out, treeDef{fmt.Sprintf("random-%d", i), randomNodes(rng, 2, 0)})
	}
	return out
}

func subset(rng *rand.Rand, xs []string) []string {
	var out []string
	for _, x := range xs {
		if rng.Intn(2) == 0 {
			out = append(out, x)
		}
	}
	return out
}

func randomNodes(rng *rand.Rand, depth int, level int) []*nodeSpec {
	n := 1 + rng.Intn(2)
	var out []*nodeSpec
	for i := 0; i < n; i++ {
		name := fmt.Sprintf("r%d%c", level, 'a'+i)
		nd := &nodeSpec{name: name, coll: rng.Intn(3) != 0}
		if nd.coll {
			nd.methods = subset(rng, restMethods)
			if rng.Intn(2) == 0 {
				nd.finders = []string{"find" + name}
			}
		} else {
			nd.methods = subset(rng, simpleMethods)
		}
		if rng.Intn(2) == 0 {
			nd.actions = append(nd.actions, actionSpec{"res" + name, false})
		}
		if nd.coll && rng.Intn(2) == 0 {
			nd.actions = append(nd.actions, actionSpec{"ent" + name, true})
		}
		if depth > 0 && rng.Intn(3) != 0 {
			nd.subs = randomNodes(rng, depth-1, level+1)
		}
		out = append(out, nd)
	}
	return out
}

func treeFamily(cfg Config) []treeDef {
	ts := fixedTrees()
	if cfg.Tier == "thorough" {
		ts = append(ts, moreTrees(cfg.Seed)...)
	}
	return ts
}

// ---- request space of one tree

type pathShape struct {
	segs []string
	node *nodeSpec // the resource the path is about (nil: none)
}

var keyVariants = []string{"k7", "a%2Fb", "100%25", ")", "(x)"}

func pathShapes(roots []*nodeSpec) []pathShape {
	out := []pathShape{{[]string{""}, nil}, {[]string{"nosuch"}, nil}, {[]string{"nosuch", "k"}, nil}}
	if len(roots) > 0 {
		out = append(out, pathShape{[]string{"", roots[0].name}, nil})
	}
	var walk func(n *nodeSpec, base []string, depth int)
	walk = func(n *nodeSpec, base []string, depth int) {
		b := func(extra ...string) []string { return append(append([]string(nil), base...), extra...) }
		out = append(out, pathShape{b(), n}, pathShape{b(""), n}, pathShape{b("nosuch"), n})
		if n.coll {
			for _, k := range keyVariants {
				out = append(out, pathShape{b(k), n})
			}
			out = append(out, pathShape{b("k7", ""), n}, pathShape{b("k7", "nosuch"), n})
		} else {
			out = append(out, pathShape{b("nosuch", "x"), n})
		}
		for _, s := range n.subs {
			if n.coll {
				walk(s, b(fmt.Sprintf("k%d", depth), s.name), depth+1)
			} else {
				walk(s, b(s.name), depth+1)
			}
		}
	}
	for _, r := range roots {
		walk(r, []string{r.name}, 1)
	}
	return out
}

var verbs = []string{"GET", "POST", "PUT", "DELETE", "PATCH"}

func headerValues() []*string {
	out := []*string{nil}
	for _, m := range allMethods {
		m := m
		out = append(out, &m)
	}
	for _, v := range []string{"bogus", "", "Unknown"} {
		v := v
		out = append(out, &v)
	}
	return out
}

// queries: q x ids x action, with names taken from the resource the path is about. The core space
// has every reserved parameter absent or present with a plain value; the add-ons put an empty value,
// a malformed value, an undecodable parameter, a duplicate or an unrelated parameter on top.
type querySpec struct {
	kv   [][2]string
	core bool
}

func queries(n *nodeSpec) []querySpec {
	qs := []*string{nil}
	add := func(list *[]*string, v string) { *list = append(*list, &v) }
	if n != nil && len(n.finders) > 0 {
		add(&qs, n.finders[0])
	}
	add(&qs, "nope")
	as := []*string{nil}
	if n != nil {
		seen := map[bool]bool{}
		for _, a := range n.actions {
			if !seen[a.onEntity] {
				seen[a.onEntity] = true
				add(&as, a.name)
			}
		}
	}
	add(&as, "nope")
	empty := ""
	type addOn struct {
		q, a  *string
		extra [][2]string
	}
	addOns := []addOn{{}, {q: &empty}, {a: &empty}, {extra: [][2]string{{"foo", ")"}}}, {extra: [][2]string{{"bad", "1"}}},
		{extra: [][2]string{{"q", "nope"}}}, {extra: [][2]string{{"count", "10"}}}}
	var out []querySpec
	for _, q := range qs {
		for _, ids := range []bool{false, true} {
			for _, a := range as {
				for i, ao := range addOns {
					q, a := q, a
					if ao.q != nil {
						if q != nil {
							continue
						}
						q = ao.q
					}
					if ao.a != nil {
						if a != nil {
							continue
						}
						a = ao.a
					}
					var kv [][2]string
					if q != nil {
						kv = append(kv, [2]string{"q", *q})
					}
					if ids {
						kv = append(kv, [2]string{"ids", "List(1,2)"})
					}
					if a != nil {
						kv = append(kv, [2]string{"action", *a})
					}
					kv = append(kv, ao.extra...)
					out = append(out, querySpec{kv, i == 0})
				}
			}
		}
	}
	return out
}

var filterConfigs = func() [][]filterSpec {
	p, c, fp, fe, fo := filterSpec{kind: "pass"}, filterSpec{kind: "ctx"}, filterSpec{kind: "failpre"}, filterSpec{"failer", 403}, filterSpec{kind: "failpost"}
	return [][]filterSpec{
		nil, {p}, {c}, {fp}, {fe}, {fo},
		{p, c}, {c, p}, {c, c}, {p, p}, {p, fp}, {fp, p}, {c, fo}, {fo, c}, {fe, c},
		{p, c, p}, {c, p, c}, {c, c, p}, {p, p, c}, {c, fp, p}, {c, c, fo}, {fo, p, c}, {p, fe, c},
	}
}()

// allFilterConfigs: every sequence of 0..3 filters over the five kinds (thorough tier)
var allFilterConfigs = func() [][]filterSpec {
	kinds := []filterSpec{{kind: "pass"}, {kind: "ctx"}, {kind: "failpre"}, {"failer", 403}, {kind: "failpost"}}
	out := [][]filterSpec{nil}
	level := [][]filterSpec{nil}
	for d := 0; d < 3; d++ {
		var next [][]filterSpec
		for _, pre := range level {
			for _, k := range kinds {
				next = append(next, append(append([]filterSpec(nil), pre...), k))
			}
		}
		out = append(out, next...)
		level = next
	}
	return out
}()

// keepRate: per mille of the enumerated requests of one class that a tier runs. The thorough tier
// runs the whole core space of the fixed trees and a sample of everything else.
func keepRate(thorough, fixedTree, core bool, exp expectation) uint32 {
	class := 0 // unspecified
	switch {
	case exp.specified && exp.routed:
		class = 3
	case exp.specified && exp.reason != "unknown-resource":
		class = 2
	case exp.specified:
		class = 1
	}
	if thorough {
		if fixedTree && core {
			return 1000
		}
		return [4]uint32{40, 40, 150, 400}[class]
	}
	if fixedTree && core {
		return [4]uint32{40, 40, 300, 1000}[class]
	}
	return [4]uint32{10, 10, 40, 150}[class]
}

// enumerate walks the whole request space of one tree; what is kept of it is decided per class
// (keepRate) by a seeded hash, everything else about a kept request (body, filters, mount, failing
// implementation, tunnelling, late registration) by another.
func enumerate(cfg Config, t treeDef, fixedTree bool, run func(kase)) {
	regs := regsOf(t.roots, nil)
	var early, late []reg
	for i, r := range regs {
		if i%3 == 2 {
			late = append(late, r)
		} else {
			early = append(early, r)
		}
	}
	api := "/api"
	slash := "/"
	thorough := cfg.Tier == "thorough"
	fcs := filterConfigs
	if thorough {
		fcs = allFilterConfigs
	}
	tree := treeOfRegs(regs)
	earlyTree := treeOfRegs(early)
	idx := 0
	for _, ps := range pathShapes(t.roots) {
		qs := queries(ps.node)
		for _, verb := range verbs {
			for _, hdr := range headerValues() {
				for _, q := range qs {
					idx++
					r := &reqSpec{verb: verb, hdr: hdr, wire: ps.segs, spec: ps.segs, query: q.kv}
					h2 := hash(cfg.Seed+1, t.name, fmt.Sprint(idx))
					srv := &srvSpec{regs: regs}
					judged := tree
					if (h2>>24)%16 == 0 && len(late) > 0 {
						srv.regs, srv.late = early, late
						judged = earlyTree
					}
					h := hash(cfg.Seed, t.name, fmt.Sprint(idx))
					exp := decide(judged, r)
					if h%1000 >= keepRate(thorough, fixedTree, q.core, exp) {
						continue
					}
					if h2%2 == 1 {
						r.body = 1 + int(h2>>1)%3
					}
					if exp.routed && (h2>>8)%4 != 0 { // mostly the body the expected method takes
						for b := 0; b < nBodies; b++ {
							if contains(bodyAccepted[(b+int(h2>>1))%nBodies], exp.f.method) {
								r.body = (b + int(h2>>1)) % nBodies
								break
							}
						}
					}
					r.implFail = (h2>>12)%8 == 0
					r.tunnel = r.body == bodyNone && (h2>>16)%8 == 0
					srv.filters = fcs[int(h2>>4)%len(fcs)]
					if thorough && (h2>>28)%2 == 0 { // half of the thorough runs use the curated configurations
						srv.filters = filterConfigs[int(h2>>4)%len(filterConfigs)]
					}
					mount := "bare"
					switch (h2 >> 20) % 12 {
					case 0:
						mount = "mux"
					case 1: // prefixed server, request under the prefix
						srv.prefix = &api
						r.wire = append([]string{"api"}, ps.segs...)
					case 2: // prefixed server, request outside the prefix
						srv.prefix = &api
						r.spec = nil
					case 3:
						srv.prefix = &slash
					}
					run(kase{srv: srv, mount: mount, req: r})
				}
			}
		}
	}
}

// corpus: the property's named situations and the confirmed defects, always run
func corpus() []kase {
	t := fixedTrees()
	full, simp, nested := regsOf(t[0].roots, nil), regsOf(t[1].roots, nil), regsOf(t[2].roots, nil)
	str := func(s string) *string { return &s }
	split := func(p string) []string { return strings.Split(strings.TrimPrefix(p, "/"), "/") }
	two := []filterSpec{{kind: "pass"}, {kind: "ctx"}}
	mk := func(regs []reg, mount string, prefix *string, verb string, hdr *string, path string, specPath *string, query ...[2]string) kase {
		r := &reqSpec{verb: verb, hdr: hdr, wire: split(path), query: query}
		r.spec = r.wire
		if specPath != nil {
			if *specPath == "" {
				r.spec = nil
			} else {
				r.spec = split(*specPath)
			}
		}
		return kase{srv: &srvSpec{prefix: prefix, filters: two, regs: regs}, mount: mount, req: r}
	}
	var out []kase
	for _, mount := range []string{"bare", "mux"} {
		out = append(out,
			mk(full, mount, nil, "GET", nil, "/coll", nil),
			mk(full, mount, nil, "GET", nil, "/coll/1", nil),
			mk(full, mount, nil, "GET", nil, "/coll", nil, [2]string{"q", "byName"}),
			mk(full, mount, nil, "GET", nil, "/coll", nil, [2]string{"ids", "List(1,2)"}),
			mk(full, mount, nil, "POST", nil, "/coll", nil),
			mk(full, mount, nil, "POST", str("create"), "/coll", nil),
			mk(full, mount, nil, "PUT", nil, "/coll/1", nil),
			mk(full, mount, nil, "DELETE", nil, "/coll", nil, [2]string{"ids", "List(1)"}),
			mk(full, mount, nil, "GET", nil, "/coll/)", nil),                        // was F20
			mk(full, mount, nil, "GET", nil, "/coll/1", nil, [2]string{"foo", ")"}), // was F7
			mk(full, mount, nil, "GET", nil, "/coll/100%25", nil),                   // was F5
			mk(full, mount, nil, "POST", str("action"), "/coll", nil, [2]string{"action", "entAct"}),
			mk(full, mount, nil, "POST", str("action"), "/coll/1", nil, [2]string{"action", "resAct"}),
			mk(simp, mount, nil, "POST", nil, "/simp", nil, [2]string{"action", "doIt"}),
			mk(simp, mount, nil, "POST", nil, "/simp", nil),
			mk(nested, mount, nil, "GET", nil, "/a/1/b/2/c", nil),
			mk(nested, mount, nil, "GET", nil, "/s/d/5", nil),
			mk(nested, mount, nil, "GET", nil, "/a/1/nosuch", nil),
		)
	}
	api := "/api"
	empty := ""
	cl := "/coll/1"
	out = append(out,
		mk(full, "bare", &api, "GET", nil, "/api/coll/1", &cl), // was F6
		mk(full, "bare", &api, "GET", nil, "/coll/1", &empty),  // was F6, the other way round
	)
	return out
}

// runRegistrationCases: what Register* does on duplicates and inconsistent segments
func runRegistrationCases(cfg Config, out *sink) {
	c := func(name string) seg { return seg{name, true} }
	s := func(name string) seg { return seg{name, false} }
	m := func(method string, segs ...seg) reg { return reg{segs: segs, kind: "m", method: method} }
	f := func(name string, segs ...seg) reg { return reg{segs: segs, kind: "f", method: "finder", name: name} }
	a := func(name string, e bool, segs ...seg) reg {
		return reg{segs: segs, kind: "a", method: "action", name: name, onEntity: e}
	}
	seqs := [][]reg{
		{m("get", c("a")), m("get", c("a"))},
		{m("get", c("a")), m("get", s("a"))},
		{m("get", c("a")), m("get_all", c("a")), f("x", c("a")), f("x", c("a")), a("x", true, c("a")), a("x", false, c("a"))},
		{m("get", c("a"), s("b")), m("get", c("a"), c("b")), m("update", c("a"), s("b")), m("get", c("a"), s("b"), c("d"))},
		{m("get", s("a"), c("b")), m("get", c("a"), c("b")), m("get", s("a"), c("b"), s("c")), m("get", s("a"), s("b"), s("c"))},
		{m("create", c("a")), a("act", false, c("a")), m("create", c("a")), m("delete", c("a"))},
		{m("get"), m("get")}, // no segments at all: the root node's own maps
	}
	for _, seq := range seqs {
		runRegistrationSequence(cfg, out, seq)
	}
}

// runRegistrationSequence: one list of Register* calls against a fresh server — which of them panic
func runRegistrationSequence(cfg Config, out *sink, seq []reg) {
	{
		spec := &srvSpec{regs: seq}
		b := build(spec)
		var parts []string
		for _, p := range b.panics {
			if p {
				parts = append(parts, "panic")
			} else {
				parts = append(parts, "ok")
			}
		}
		implS := strings.Join(parts, " ")
		op := "register " + cfg.Module + " " + spec.sexp()
		out.do(func(r *hx.Result) {
			r.OracleCases++
			r.Count("registration-sequences")
			// D: "registered" means registered once; a second registration of the same handler, or a
			// segment whose kind contradicts an earlier registration, is refused
			want := expectedRegistration(seq)
			if implS != want {
				r.OracleFail(hx.Case{Sig: "C05 registration accepted or refused unexpectedly", Op: op, Impl: implS, Expected: want})
			}
			if cfg.Driver != nil {
				r.Ops++
				if mdl := cfg.Driver.MustAsk(op); mdl != implS {
					r.Disagree(hx.Case{Sig: "C05 register", Op: op, Impl: implS, Model: mdl})
				}
			}
		})
	}
}

// expectedRegistration: a registration is refused iff one of its segments names an existing resource
// of the other kind, or the same method / finder / action is already registered there
func expectedRegistration(seq []reg) string {
	kinds := map[string]bool{}
	have := map[string]bool{}
	var out []string
	for _, r := range seq {
		path, bad := "", false
		for _, sg := range r.segs {
			path += "/" + sg.name
			if k, ok := kinds[path]; ok && k != sg.coll {
				bad = true
				break
			}
			kinds[path] = sg.coll
		}
		key := path + " " + r.kind + " " + r.method + " " + r.name
		if !bad && have[key] {
			bad = true
		}
		if bad {
			out = append(out, "panic")
		} else {
			have[key] = true
			out = append(out, "ok")
		}
	}
	return strings.Join(out, " ")
}
