// Package c08: correspondence (K) and direct oracle (D) for error and status propagation from
// resource code to the calling client (property C08). A real server (every Register* kind, fake
// resources whose outcome the harness dictates) behind a real TCP listener, the real client's
// error classification (restli.Client.Do → IsErrorResponse), the whole outcome space per kind.
package c08

import (
	"errors"
	"fmt"
	"io"
	"log"
	"net/http"
	"net/http/httptest"
	"os"
	"strconv"
	"strings"

	"github.com/PapaCharlie/go-restli/v2/restli"
	"github.com/PapaCharlie/go-restli/v2/restlicodec"
	"verif/harness/hx"
)

type Config struct {
	Module string
	Seed   int64
	Tier   string
	Driver *hx.Driver
	Replay []string
}

func enc(s string) string {
	if s == "" {
		return "~0"
	}
	var b strings.Builder
	for i := 0; i < len(s); i++ {
		c := s[i]
		if c >= '0' && c <= '9' || c >= 'A' && c <= 'Z' || c >= 'a' && c <= 'z' || c == '_' {
			b.WriteByte(c)
		} else {
			fmt.Fprintf(&b, "~%02X", c)
		}
	}
	return b.String()
}

func dec(s string) string {
	if s == "~0" {
		return ""
	}
	var b strings.Builder
	for i := 0; i < len(s); i++ {
		if s[i] == '~' && i+2 < len(s) {
			v, _ := strconv.ParseUint(s[i+1:i+3], 16, 8)
			b.WriteByte(byte(v))
			i += 2
		} else {
			b.WriteByte(s[i])
		}
	}
	return b.String()
}

// ---- fakes

type rp struct{}

func (r *rp) NewInstance() *rp                                   { return &rp{} }
func (r *rp) UnmarshalResourcePath(_ []restlicodec.Reader) error { return nil }

type qp struct{}

func (q *qp) NewInstance() *qp                                      { return &qp{} }
func (q *qp) DecodeQueryParams(restlicodec.QueryParamsReader) error { return nil }

type bqp struct{}

func (q *bqp) NewInstance() *bqp { return &bqp{} }
func (q *bqp) DecodeQueryParams(restlicodec.QueryParamsReader) ([]string, error) {
	return nil, nil
}

// anyObj: request bodies — any JSON object
type anyObj struct{}

func (v *anyObj) NewInstance() *anyObj { return &anyObj{} }
func (v *anyObj) MarshalRestLi(w restlicodec.Writer) error {
	return w.WriteMap(func(func(string) restlicodec.Writer) error { return nil })
}
func (v *anyObj) UnmarshalRestLi(r restlicodec.Reader) error {
	return r.ReadMap(func(r restlicodec.Reader, _ string) error { return r.Skip() })
}

// outcome: what the implementation is told to do
type outcome struct {
	kind   string // value | nil | err | other | panic | override
	status *int32
	msg    *string
	rest   int
	text   string
	n      int
}

func (o outcome) sexp() string {
	switch o.kind {
	case "err":
		st, m := "-", "-"
		if o.status != nil {
			st = fmt.Sprint(*o.status)
		}
		if o.msg != nil {
			m = enc(*o.msg)
		}
		return fmt.Sprintf("(err %s %s %d)", st, m, o.rest)
	case "other", "panic":
		return "(" + o.kind + " " + enc(o.text) + ")"
	case "override":
		return fmt.Sprintf("(override %d)", o.n)
	}
	return o.kind
}

func outcomeOfSexp(s *hx.Sexp) outcome {
	if !s.IsList {
		return outcome{kind: s.Atom}
	}
	o := outcome{kind: s.List[0].Atom}
	switch o.kind {
	case "err":
		if a := s.List[1].Atom; a != "-" {
			v, _ := strconv.Atoi(a)
			x := int32(v)
			o.status = &x
		}
		if a := s.List[2].Atom; a != "-" {
			m := dec(a)
			o.msg = &m
		}
		o.rest, _ = strconv.Atoi(s.List[3].Atom)
	case "other", "panic":
		o.text = dec(s.List[1].Atom)
	case "override":
		o.n, _ = strconv.Atoi(s.List[1].Atom)
	}
	return o
}

// fake: the resource implementation behind every registered method of one server
type fake struct {
	cur     outcome
	called  []string
	lastObj *errorResponse // the error object handed to the library by the last call
}

func ptr[T any](v T) *T { return &v }

// run does what the current outcome says; isNil = "return a nil result and a nil error"
func (f *fake) run(name string, ctx *restli.RequestContext) (isNil bool, err error) {
	f.called = append(f.called, name)
	switch f.cur.kind {
	case "nil":
		return true, nil
	case "err":
		e := &errorResponse{}
		if f.cur.status != nil {
			e.Status = ptr(*f.cur.status)
		}
		if f.cur.msg != nil {
			e.Message = ptr(*f.cur.msg)
		}
		setRest(e, f.cur.rest)
		f.lastObj = e
		return false, e
	case "other":
		return false, errors.New(f.cur.text)
	case "panic":
		panic(f.cur.text)
	case "override":
		// create overrides through CreatedEntity.Status (see createdStatus), everything else through the context
		if !strings.HasPrefix(name, "RegisterCreate") {
			ctx.ResponseStatus = f.cur.n
		}
	}
	return false, nil
}

// createdStatus: create overrides through CreatedEntity.Status
func (f *fake) createdStatus() int {
	if f.cur.kind == "override" {
		return f.cur.n
	}
	return 0
}

func (f *fake) entityResult(name string, ctx *restli.RequestContext) (*entity, error) {
	isNil, err := f.run(name, ctx)
	if isNil || err != nil {
		return nil, err
	}
	return &entity{}, nil
}

// ---- the kinds and how to call them

type kindSpec struct {
	name   string // Register function
	verb   string
	path   string
	header string
	body   string
	shape  string // errorOnly | derefInWrapper | sliceWrapped | marshalledBody
	dflt   int    // the protocol's default status
}

func kinds() []kindSpec {
	ks := []kindSpec{
		{"RegisterGet", "GET", "/c/1", "", "", "marshalledBody", 200},
		{"RegisterCreate", "POST", "/c", "create", "{}", "derefInWrapper", 201},
		{"RegisterCreateWithReturnEntity", "POST", "/cr", "create", "{}", "derefInWrapper", 201},
		{"RegisterDelete", "DELETE", "/c/1", "", "", "errorOnly", 204},
		{"RegisterUpdate", "PUT", "/c/1", "", "{}", "errorOnly", 204},
		{"RegisterPartialUpdate", "POST", "/c/1", "partial_update", "{}", "errorOnly", 204},
		{"RegisterBatchGet", "GET", "/c?ids=List(1)", "", "", "marshalledBody", 200},
		{"RegisterBatchCreate", "POST", "/c", "batch_create", `{"elements":[]}`, "sliceWrapped", 200},
		{"RegisterBatchDelete", "DELETE", "/c?ids=List(1)", "", "", "marshalledBody", 200},
		{"RegisterBatchUpdate", "PUT", "/c?ids=List(1)", "", `{"entities":{}}`, "marshalledBody", 200},
		{"RegisterBatchPartialUpdate", "POST", "/c?ids=List(1)", "batch_partial_update", `{"entities":{}}`, "marshalledBody", 200},
		{"RegisterGetAll", "GET", "/c", "", "", "marshalledBody", 200},
		{"RegisterFinder", "GET", "/c?q=f", "", "", "marshalledBody", 200},
		{"RegisterAction", "POST", "/c?action=a", "action", "", "errorOnly", 200},
		{"RegisterActionWithResults", "POST", "/c?action=ar", "action", "", "marshalledBody", 200},
	}
	if hasPartialUpdateWithReturnEntity {
		ks = append(ks, kindSpec{"RegisterPartialUpdateWithReturnEntity", "POST", "/cr/1", "partial_update", "{}", "marshalledBody", 200})
	}
	return ks
}

const implText = "the implementation says no"

func outcomes() []outcome {
	out := []outcome{{kind: "value"}, {kind: "nil"}, {kind: "other", text: implText}, {kind: "panic", text: implText},
		{kind: "override", n: 202}, {kind: "override", n: 299}, {kind: "override", n: 0}}
	for _, st := range []*int32{nil, ptr(int32(400)), ptr(int32(404)), ptr(int32(409)), ptr(int32(500)), ptr(int32(503)), ptr(int32(599))} {
		for _, m := range []*string{nil, ptr(implText)} {
			for _, rest := range []int{0, 1} {
				out = append(out, outcome{kind: "err", status: st, msg: m, rest: rest})
			}
		}
	}
	return out
}

// canonMsg maps the library's composed messages to the implementation's own text
func canonMsg(m *string) string {
	if m == nil {
		return "-"
	}
	for _, marker := range []string{implText, "nil pointer dereference", "nil result"} {
		if strings.Contains(*m, marker) {
			return enc(marker)
		}
	}
	return enc(*m)
}

func errStr(e *errorResponse) string {
	st := "-"
	if e.Status != nil {
		st = fmt.Sprint(*e.Status)
	}
	return st + ":" + canonMsg(e.Message) + ":" + fmt.Sprint(restOf(e))
}

type observed struct {
	wire, client, after string
	status              int
	errHeader           bool
	clientErr           *restli.Error
	transport           bool
	before              string // the error object as the implementation built it
}

func Run(cfg Config) *hx.Result {
	r := hx.NewResult("C08", cfg.Module, cfg.Seed, cfg.Tier)
	r.Rule = "every Register* kind (get, create, create-with-return-entity, delete, update, partial update (+ with return entity, v2), the five batch kinds, get_all, finder, action, action with results) x every outcome of the implementation (value, nil result, ErrorResponse over status {unset,400,404,409,500,503,599} x message {unset,set} x other fields {unset,set}, ordinary error, panic, status override 202/299/0), each through a real TCP listener and the real client's error classification; non-trivial = every case; distinct by op line"
	r.Exhaustive = true
	log.SetOutput(io.Discard)
	defer log.SetOutput(os.Stderr)

	f := &fake{}
	s := restli.NewServer()
	c := []restli.ResourcePathSegment{restli.NewResourcePathSegment("c", true)}
	cr := []restli.ResourcePathSegment{restli.NewResourcePathSegment("cr", true)}
	registerAll(s, c, f)
	registerReturnEntityVariants(s, cr, f)
	ts := httptest.NewUnstartedServer(s.Handler())
	ts.Config.ErrorLog = log.New(io.Discard, "", 0)
	ts.Start()
	defer ts.Close()
	client := &restli.Client{Client: ts.Client()}
	// one connection per request: the transport silently retries idempotent requests whose reused
	// connection is closed under them, which would hide a dropped connection behind a second call
	client.Client.Transport.(*http.Transport).DisableKeepAlives = true

	call := func(k kindSpec, o outcome) observed {
		f.cur, f.called, f.lastObj = o, nil, nil
		var body io.Reader
		if k.body != "" {
			body = strings.NewReader(k.body)
		}
		req, err := http.NewRequest(k.verb, ts.URL+k.path, body)
		if err != nil {
			panic(err)
		}
		if k.header != "" {
			req.Header.Set("X-RestLi-Method", k.header)
		}
		var ob observed
		res, err := client.Client.Do(req)
		if err != nil {
			ob.transport = true
			ob.wire, ob.client = "dropped", "transport"
		} else {
			ob.status = res.StatusCode
			ob.errHeader = res.Header.Get("X-RestLi-Error-Response") == "true"
			cerr := restli.IsErrorResponse(res) // what Client.Do does with the response
			eh := "-"
			if ob.errHeader {
				eh = "E"
			}
			switch e := cerr.(type) {
			case nil:
				data, _ := io.ReadAll(res.Body)
				res.Body.Close()
				b := "value"
				if len(data) == 0 {
					b = "empty"
				}
				ob.wire = fmt.Sprintf("resp %d %s %s", res.StatusCode, eh, b)
				ob.client = fmt.Sprintf("ok %d", res.StatusCode)
			case *restli.Error:
				ob.clientErr = e
				// the body as it was on the wire: parse it again, without the client's status defaulting
				var onWire errorResponse
				if uerr := onWire.UnmarshalJSON(e.ResponseBody); uerr != nil {
					ob.wire = fmt.Sprintf("resp %d %s unparsable", res.StatusCode, eh)
				} else {
					ob.wire = fmt.Sprintf("resp %d %s err:%s", res.StatusCode, eh, errStr(&onWire))
				}
				ob.client = "rerr:" + errStr(&e.ErrorResponse)
			case *restli.UnexpectedStatusCodeError:
				b := "value"
				if len(e.ResponseBody) == 0 {
					b = "empty"
				}
				ob.wire = fmt.Sprintf("resp %d %s %s", res.StatusCode, eh, b)
				ob.client = fmt.Sprintf("unexpected %d", res.StatusCode)
			default:
				ob.wire, ob.client = "resp ?", "other-error "+cerr.Error()
			}
		}
		ob.after = "-"
		if f.lastObj != nil {
			ob.after = "obj:" + errStr(f.lastObj)
		}
		return ob
	}

	byName := map[string]kindSpec{}
	for _, k := range kinds() {
		byName[k.name] = k
	}
	runOne := func(k kindSpec, o outcome) {
		txt := http.StatusText(http.StatusInternalServerError) // the text of the status the server settles on
		if o.status != nil {
			txt = http.StatusText(int(*o.status))
		}
		op := fmt.Sprintf("serve %s %s %s %s", cfg.Module, k.name, o.sexp(), enc(txt))
		ob := call(k, o)
		implS := ob.wire + " | " + ob.client + " | " + ob.after
		r.OracleCases++
		r.Count("kind:" + k.name)
		r.Count("outcome:" + o.kind)
		r.Count("wire:" + strings.SplitN(ob.wire, " ", 3)[0] + " " + strings.SplitN(ob.client, ":", 2)[0])
		r.Distinctive(op)
		judge(r, k, o, ob, op, implS, len(f.called))
		if cfg.Driver != nil {
			r.Ops++
			if m := cfg.Driver.MustAsk(op); m != implS {
				r.Disagree(hx.Case{Sig: "C08 serve: model and implementation differ (" + o.kind + ")", Op: op, Impl: implS, Model: m})
			}
		}
	}
	if len(cfg.Replay) > 0 {
		for _, line := range cfg.Replay {
			if strings.HasPrefix(line, "action-result-shape") {
				resultShapes(r, cfg.Module)
				continue
			}
			xs, err := hx.ParseLine(line)
			if err != nil || len(xs) != 5 || xs[0].Atom != "serve" {
				panic("c08: cannot replay " + line)
			}
			k, ok := byName[xs[2].Atom]
			if !ok {
				panic("c08: unknown kind in " + line)
			}
			runOne(k, outcomeOfSexp(xs[3]))
		}
		return r
	}
	for _, k := range kinds() {
		for _, o := range outcomes() {
			if o.kind == "override" && o.n == 0 && k.shape != "derefInWrapper" {
				continue // only create has a "0 = keep the default" convention (CreatedEntity.Status)
			}
			runOne(k, o)
		}
	}
	resultShapes(r, cfg.Module)
	return r
}

// judge: the property, evaluated on what the wire and the client showed
func judge(r *hx.Result, k kindSpec, o outcome, ob observed, op, implS string, calls int) {
	fail := func(sig, expected string) {
		r.OracleFail(hx.Case{Sig: sig, Op: op, Impl: implS, Expected: expected})
	}
	if calls != 1 {
		fail("C08 implementation not called exactly once", "1 call")
		return
	}
	failure := func(st int) bool { return st >= 400 && st <= 599 }
	switch o.kind {
	case "err":
		want := 500
		if o.status != nil {
			want = int(*o.status)
		}
		before := outcome{kind: "err", status: o.status, msg: o.msg, rest: o.rest}
		beforeObj := &errorResponse{}
		if before.status != nil {
			beforeObj.Status = ptr(*before.status)
		}
		if before.msg != nil {
			beforeObj.Message = ptr(*before.msg)
		}
		setRest(beforeObj, before.rest)
		switch {
		case ob.transport:
			fail("C08 error response: connection dropped", fmt.Sprintf("a %d error response", want))
		case ob.clientErr == nil:
			fail("C08 error response: client did not receive a restli.Error", "*restli.Error")
		default:
			e := ob.clientErr
			if ob.status != want || !ob.errHeader {
				fail(fmt.Sprintf("C08 error response: HTTP status %d / error header %v, wanted %d with header", ob.status, ob.errHeader, want), "")
			}
			if e.Status == nil || int(*e.Status) != want {
				fail("C08 error response: client sees another status", fmt.Sprint(want))
			}
			if o.msg != nil && (e.Message == nil || *e.Message != *o.msg) {
				fail("C08 error response: client sees another message", *o.msg)
			}
			if restOf(&e.ErrorResponse) != o.rest {
				fail("C08 error response: codes / exception class / details differ", fmt.Sprint(o.rest))
			}
		}
		if ob.after != "obj:"+errStr(beforeObj) {
			fail("C08 error object modified by the server", "obj:"+errStr(beforeObj))
		}
	case "other", "panic":
		switch {
		case ob.transport:
			fail("C08 "+o.kind+": connection dropped", "an error response")
		case ob.clientErr == nil:
			fail(fmt.Sprintf("C08 %s: not an error response (HTTP %d)", o.kind, ob.status), "an error response with a failure status")
		case !failure(ob.status) || ob.clientErr.Message == nil || !strings.Contains(*ob.clientErr.Message, o.text):
			fail(fmt.Sprintf("C08 %s: error response without failure status or without the error's message (HTTP %d)", o.kind, ob.status), "failure status + message")
		}
	case "nil":
		if k.shape == "errorOnly" || k.shape == "sliceWrapped" {
			// no entity to be missing (a nil slice is an empty list): an ordinary success
			if ob.transport || ob.clientErr != nil || ob.status != k.dflt {
				fail("C08 success: wrong status or an error", fmt.Sprint(k.dflt))
			}
			return
		}
		switch {
		case ob.transport:
			fail("C08 nil entity without error: connection dropped", "an error response with a failure status")
		case ob.clientErr == nil || !failure(ob.status):
			fail(fmt.Sprintf("C08 nil entity without error: not an error response (HTTP %d)", ob.status), "an error response with a failure status")
		}
	case "value":
		if ob.transport || ob.clientErr != nil || ob.errHeader || ob.status != k.dflt {
			fail(fmt.Sprintf("C08 success: status %d / error header %v, wanted %d without header", ob.status, ob.errHeader, k.dflt), fmt.Sprint(k.dflt))
		}
	case "override":
		want := o.n
		if want == 0 {
			want = k.dflt // "unless the implementation overrides it": 0 is not an override
			if k.shape != "derefInWrapper" {
				return // ctx.ResponseStatus = 0 written by the implementation itself: its own business
			}
		}
		if ob.transport || ob.errHeader || ob.status != want {
			fail(fmt.Sprintf("C08 overridden status: got %d, wanted %d", ob.status, want), fmt.Sprint(want))
		}
	}
}
