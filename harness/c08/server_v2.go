//go:build !rootmod

package c08

import (
	"github.com/PapaCharlie/go-restli/v2/restli"
	"github.com/PapaCharlie/go-restli/v2/restlicodec"
	rd "github.com/PapaCharlie/go-restli/v2/restlidata/generated/com/linkedin/restli/common"
)

// This file and server_root.go are identical except for the build tag, the package the Rest.li
// envelope types come from and RegisterPartialUpdateWithReturnEntity (v2 only).

const hasPartialUpdateWithReturnEntity = true

// entity is the value type of the fake resources: a generated record (all fields optional) whose
// MarshalRestLi dereferences its receiver, like every generated record
type entity = rd.ErrorResponse

type errorResponse = rd.ErrorResponse

type emptyRecord = rd.EmptyRecord

// the fields of an error response besides status and message, as two classes: all unset (0) or set (1)
func setRest(e *errorResponse, rest int) {
	if rest == 1 {
		e.ServiceErrorCode = ptr(int32(7))
		e.Code = ptr("C")
		e.ExceptionClass = ptr("com.example.X")
		e.RequestId = ptr("r-1")
	}
}

func restOf(e *errorResponse) int {
	none := e.ServiceErrorCode == nil && e.Code == nil && e.DocUrl == nil && e.RequestId == nil && e.ExceptionClass == nil &&
		e.ErrorDetailType == nil && e.ErrorDetails == nil
	if none {
		return 0
	}
	if e.ServiceErrorCode != nil && *e.ServiceErrorCode == 7 && e.Code != nil && *e.Code == "C" && e.ExceptionClass != nil &&
		*e.ExceptionClass == "com.example.X" && e.RequestId != nil && *e.RequestId == "r-1" && e.DocUrl == nil &&
		e.ErrorDetailType == nil && e.ErrorDetails == nil {
		return 1
	}
	return 99
}

func registerReturnEntityVariants(s restli.Server, segs []restli.ResourcePathSegment, f *fake) {
	type C = *restli.RequestContext
	restli.RegisterCreateWithReturnEntity(s, segs, nil, func(ctx C, p *rp, v *anyObj, q *qp) (*rd.CreatedAndReturnedEntity[string, *anyObj], error) {
		isNil, err := f.run("RegisterCreateWithReturnEntity", ctx)
		if isNil || err != nil {
			return nil, err
		}
		return &rd.CreatedAndReturnedEntity[string, *anyObj]{CreatedEntity: rd.CreatedEntity[string]{Id: "new", Status: f.createdStatus()}, Entity: &anyObj{}}, nil
	})
	restli.RegisterPartialUpdateWithReturnEntity(s, segs, nil, func(ctx C, p *rp, v *anyObj, q *qp) (*entity, error) {
		return f.entityResult("RegisterPartialUpdateWithReturnEntity", ctx)
	})
}

func registerAll(s restli.Server, segs []restli.ResourcePathSegment, f *fake) {
	type C = *restli.RequestContext
	batch := func(name string, ctx C) (*rd.BatchResponse[string, *rd.BatchEntityUpdateResponse], error) {
		isNil, err := f.run(name, ctx)
		if isNil || err != nil {
			return nil, err
		}
		return &rd.BatchResponse[string, *rd.BatchEntityUpdateResponse]{}, nil
	}
	elements := func(name string, ctx C) (*rd.Elements[*entity], error) {
		isNil, err := f.run(name, ctx)
		if isNil || err != nil {
			return nil, err
		}
		return &rd.Elements[*entity]{}, nil
	}
	restli.RegisterGet(s, segs, func(ctx C, p *rp, q *qp) (*entity, error) { return f.entityResult("RegisterGet", ctx) })
	restli.RegisterCreate(s, segs, nil, func(ctx C, p *rp, v *anyObj, q *qp) (*rd.CreatedEntity[string], error) {
		isNil, err := f.run("RegisterCreate", ctx)
		if isNil || err != nil {
			return nil, err
		}
		return &rd.CreatedEntity[string]{Id: "new", Status: f.createdStatus()}, nil
	})
	restli.RegisterDelete(s, segs, func(ctx C, p *rp, q *qp) error { _, err := f.run("RegisterDelete", ctx); return err })
	restli.RegisterUpdate(s, segs, nil, func(ctx C, p *rp, v *anyObj, q *qp) error { _, err := f.run("RegisterUpdate", ctx); return err })
	restli.RegisterPartialUpdate(s, segs, nil, func(ctx C, p *rp, v *anyObj, q *qp) error {
		_, err := f.run("RegisterPartialUpdate", ctx)
		return err
	})
	restli.RegisterBatchGet(s, segs, func(ctx C, p *rp, _ []string, q *bqp) (*rd.BatchResponse[string, *entity], error) {
		isNil, err := f.run("RegisterBatchGet", ctx)
		if isNil || err != nil {
			return nil, err
		}
		return &rd.BatchResponse[string, *entity]{}, nil
	})
	restli.RegisterBatchCreate(s, segs, nil, func(ctx C, p *rp, _ []*anyObj, q *qp) ([]*rd.CreatedEntity[string], error) {
		isNil, err := f.run("RegisterBatchCreate", ctx)
		if isNil || err != nil {
			return nil, err
		}
		return []*rd.CreatedEntity[string]{}, nil
	})
	restli.RegisterBatchDelete(s, segs, func(ctx C, p *rp, _ []string, q *bqp) (*rd.BatchResponse[string, *rd.BatchEntityUpdateResponse], error) {
		return batch("RegisterBatchDelete", ctx)
	})
	restli.RegisterBatchUpdate(s, segs, nil, func(ctx C, p *rp, _ map[string]*anyObj, q *bqp) (*rd.BatchResponse[string, *rd.BatchEntityUpdateResponse], error) {
		return batch("RegisterBatchUpdate", ctx)
	})
	restli.RegisterBatchPartialUpdate(s, segs, nil, func(ctx C, p *rp, _ map[string]*anyObj, q *bqp) (*rd.BatchResponse[string, *rd.BatchEntityUpdateResponse], error) {
		return batch("RegisterBatchPartialUpdate", ctx)
	})
	restli.RegisterGetAll(s, segs, func(ctx C, p *rp, q *qp) (*rd.Elements[*entity], error) { return elements("RegisterGetAll", ctx) })
	restli.RegisterFinder(s, segs, "f", func(ctx C, p *rp, q *qp) (*rd.Elements[*entity], error) { return elements("RegisterFinder", ctx) })
	restli.RegisterAction(s, segs, "a", func(ctx C, p *rp, _ rd.EmptyRecord) error { _, err := f.run("RegisterAction", ctx); return err })
	restli.RegisterActionWithResults(s, segs, "ar", restlicodec.MarshalRestLi[*entity], func(ctx C, p *rp, _ rd.EmptyRecord) (*entity, error) {
		return f.entityResult("RegisterActionWithResults", ctx)
	})
}
