package c08

import (
	"fmt"
	"io"
	"net/http"
	"net/http/httptest"
	"strings"

	"github.com/PapaCharlie/go-restli/v2/restli"
	"github.com/PapaCharlie/go-restli/v2/restlicodec"
	"verif/harness/hx"
)

// resultShapes: actions whose result is not a pointer — a slice, a map, a string, a number — and
// which return the zero value of that type with no error. A nil slice is the empty array and a nil
// map the empty map: a legitimate result, to be answered with the default status and the value,
// never as "a nil result and no error" (that is about nil POINTERS to records).
func resultShapes(r *hx.Result, module string) {
	s := restli.NewServer()
	segs := []restli.ResourcePathSegment{restli.NewResourcePathSegment("z", true)}
	strArr := func(t []string, w restlicodec.Writer) error {
		return restlicodec.WriteArray(w, t, func(x string, w restlicodec.Writer) error { w.WriteString(x); return nil })
	}
	strMap := func(t map[string]string, w restlicodec.Writer) error {
		return restlicodec.WriteMap(w, t, func(x string, w restlicodec.Writer) error { w.WriteString(x); return nil })
	}
	restli.RegisterActionWithResults(s, segs, "nilarr", strArr, func(*restli.RequestContext, *rp, emptyRecord) ([]string, error) { return nil, nil })
	restli.RegisterActionWithResults(s, segs, "arr", strArr, func(*restli.RequestContext, *rp, emptyRecord) ([]string, error) { return []string{"a"}, nil })
	restli.RegisterActionWithResults(s, segs, "nilmap", strMap, func(*restli.RequestContext, *rp, emptyRecord) (map[string]string, error) { return nil, nil })
	restli.RegisterActionWithResults(s, segs, "str", func(t string, w restlicodec.Writer) error { w.WriteString(t); return nil },
		func(*restli.RequestContext, *rp, emptyRecord) (string, error) { return "", nil })
	restli.RegisterActionWithResults(s, segs, "int", func(t int32, w restlicodec.Writer) error { w.WriteInt32(t); return nil },
		func(*restli.RequestContext, *rp, emptyRecord) (int32, error) { return 0, nil })
	ts := httptest.NewServer(s.Handler())
	defer ts.Close()
	for _, c := range []struct{ action, body string }{
		{"nilarr", `{"value":[]}`}, {"arr", `{"value":["a"]}`}, {"nilmap", `{"value":{}}`}, {"str", `{"value":""}`}, {"int", `{"value":0}`},
	} {
		req, _ := http.NewRequest("POST", ts.URL+"/z?action="+c.action, strings.NewReader("{}"))
		req.Header.Set("X-RestLi-Method", "action")
		req.Header.Set("Content-Type", "application/json")
		op := fmt.Sprintf("action-result-shape %s %s", module, c.action)
		r.OracleCases++
		r.Count("result-shape:" + c.action)
		r.Distinctive(op)
		res, err := ts.Client().Do(req)
		if err != nil {
			r.OracleFail(hx.Case{Sig: "C08 successful action with a non-pointer result: connection dropped", Op: op, Impl: err.Error(), Expected: "200 " + c.body})
			continue
		}
		data, _ := io.ReadAll(res.Body)
		res.Body.Close()
		got := fmt.Sprintf("%d %s errHeader=%v", res.StatusCode, strings.TrimSpace(string(data)), res.Header.Get("X-RestLi-Error-Response") != "")
		if want := "200 " + c.body + " errHeader=false"; got != want {
			r.OracleFail(hx.Case{Sig: "C08 successful action with a non-pointer result is not answered with its value", Op: op, Impl: got, Expected: want})
		}
	}
}
