package c10

import (
	"fmt"
	"math"
	"math/rand"
	"strings"

	"github.com/PapaCharlie/go-restli/v2/fnv1a"
	"verif/harness/hx"
)

type Config struct {
	Module string
	Seed   int64
	Tier   string
	Driver *hx.Driver
	Replay []string
}

const (
	sigPanic     = "C10 panic in equals/hash helper"
	sigAccepts   = "C10 Equals accepts values that differ"
	sigRejects   = "C10 Equals rejects structurally equal values"
	sigSymm      = "C10 Equals not symmetric"
	sigTrans     = "C10 Equals not transitive"
	sigHash      = "C10 Equal values hash differently"
	sigImpure    = "C10 hash of one value differs between computations"
	sigMapOrder  = "C10 map hash depends on entry order"
	sigHashFuncs = "C10 HashX / Equals / String of a hash inconsistent"
)

// ------------------------------------------------------------------ K/D for the hasher

func runFnvOp(cfg Config, r *hx.Result, start string, ops []*hop) (uint32, bool) {
	op := fmt.Sprintf("fnv %s %s", cfg.Module, joinNonEmpty(start, opsSexp(ops)))
	var got uint32
	panicked, pv := hx.Recover(func() {
		h := startHash(start)
		applyOps(h, ops)
		got = uint32(h.MapKey())
	})
	r.OracleCases++
	if panicked {
		r.OracleFail(hx.Case{Sig: sigPanic, Op: op, Impl: fmt.Sprint("panic ", pv), Expected: "no panic"})
		return 0, false
	}
	// D: a hash is a pure function of the value — recompute (Go maps iterate in a fresh random order)
	var again uint32
	hx.Recover(func() {
		h := startHash(start)
		applyOps(h, ops)
		again = uint32(h.MapKey())
	})
	if again != got {
		r.OracleFail(hx.Case{Sig: sigImpure, Op: op, Impl: fmt.Sprintf("%d then %d", got, again), Expected: "the same hash"})
	}
	if cfg.Driver != nil {
		r.Ops++
		m := cfg.Driver.MustAsk(op)
		if m != fmt.Sprint(got) {
			r.Disagree(hx.Case{Sig: "C10 fnv", Op: op, Impl: fmt.Sprint(got), Model: m})
		}
	}
	return got, true
}

func countOps(r *hx.Result, ops []*hop) {
	for _, o := range ops {
		r.Count("hashop:" + o.kind)
		switch o.kind {
		case "add":
			countOps(r, o.ops)
		case "arr", "harr", "map", "hmap":
			r.Count(fmt.Sprintf("hashop:%s-size:%s", o.kind, sizeClass(len(o.elems))))
			for _, e := range o.elems {
				countOps(r, e)
			}
		case "str", "bytes":
			r.Count("bytes-len:" + sizeClass(len(o.p.s)))
		}
	}
}

func sizeClass(n int) string {
	switch {
	case n == 0:
		return "0"
	case n == 1:
		return "1"
	case n < 8:
		return "2-7"
	case n < 64:
		return "8-63"
	default:
		return "64+"
	}
}

func hasMap(ops []*hop) bool {
	for _, o := range ops {
		if (o.kind == "map" || o.kind == "hmap") && len(o.elems) > 1 {
			return true
		}
	}
	return false
}

func fnvCorpus(cfg Config, r *hx.Result, rng *rand.Rand, n int) {
	// fixed corpus: every Add* with extremes and specials, from both start values
	for _, start := range []string{"new", "zero"} {
		runFnvOp(cfg, r, start, nil)
		for _, v := range special32 {
			runFnvOp(cfg, r, start, []*hop{{kind: "i32", p: prim{kind: "i32", u: uint64(v)}}})
		}
		for _, v := range special64 {
			runFnvOp(cfg, r, start, []*hop{{kind: "i64", p: prim{kind: "i64", u: v}}})
		}
		for _, v := range specialF32 {
			runFnvOp(cfg, r, start, []*hop{{kind: "f32", p: prim{kind: "f32", u: uint64(v)}}})
		}
		for _, v := range specialF64 {
			runFnvOp(cfg, r, start, []*hop{{kind: "f64", p: prim{kind: "f64", u: v}}})
		}
		for _, v := range []uint64{0, 1} {
			runFnvOp(cfg, r, start, []*hop{{kind: "bool", p: prim{kind: "bool", u: v}}})
		}
		for _, s := range []string{"", "a", "\x00", "\xff", strings.Repeat("ab\x80", 400)} {
			runFnvOp(cfg, r, start, []*hop{{kind: "str", p: prim{kind: "str", s: []byte(s)}}})
			runFnvOp(cfg, r, start, []*hop{{kind: "bytes", p: prim{kind: "str", s: []byte(s)}}})
		}
		// empty containers, the empty key, a map whose per-entry hashes collide (two empty-key-free entries
		// with empty hashers would need equal keys — impossible; equal kv hashes arise from empty hashers
		// only with equal keys), nested maps
		runFnvOp(cfg, r, start, []*hop{{kind: "map"}})
		runFnvOp(cfg, r, start, []*hop{{kind: "arr"}})
		runFnvOp(cfg, r, start, []*hop{{kind: "harr"}})
		runFnvOp(cfg, r, start, []*hop{{kind: "hmap"}})
		runFnvOp(cfg, r, start, []*hop{{kind: "map", keys: [][]byte{nil}, elems: [][]*hop{nil}}})
	}
	// the HashX constructors, Equals and String
	for i := 0; i < 200; i++ {
		k := primKinds[rng.Intn(len(primKinds))]
		p := genPrim(rng, k)
		var h fnv1a.Hash
		switch k {
		case "i32":
			h = fnv1a.HashInt32(int32(uint32(p.u)))
		case "i64":
			h = fnv1a.HashInt64(int64(p.u))
		case "f32":
			h = fnv1a.HashFloat32(math.Float32frombits(uint32(p.u)))
		case "f64":
			h = fnv1a.HashFloat64(math.Float64frombits(p.u))
		case "bool":
			h = fnv1a.HashBool(p.u != 0)
		default:
			h = fnv1a.HashString(string(p.s))
			if hb := fnv1a.HashBytes(p.s); !hb.Equals(h) || !h.Equals(hb) {
				r.OracleFail(hx.Case{Sig: sigHashFuncs, Op: "fnv " + cfg.Module + " new " + p.sexp(), Impl: "HashBytes != HashString", Expected: "equal"})
			}
		}
		want, ok := runFnvOp(cfg, r, "new", []*hop{{kind: k, p: p}})
		r.OracleCases++
		if ok && (uint32(h.MapKey()) != want || h.String() != fmt.Sprintf("%x", want) || !h.Equals(h) ||
			h.Equals(fnv1a.ZeroHash()) != (want == 0)) {
			r.OracleFail(hx.Case{Sig: sigHashFuncs, Op: "fnv " + cfg.Module + " new " + p.sexp(),
				Impl: fmt.Sprintf("HashX=%d String=%s", h.MapKey(), h.String()), Expected: fmt.Sprintf("NewHash+AddX=%d", want)})
		}
	}
	// structured generation
	for i := 0; i < n; i++ {
		start := genStart(rng)
		ops := genOps(rng, 3, 4)
		countOps(r, ops)
		got, ok := runFnvOp(cfg, r, start, ops)
		if len(ops) > 0 {
			r.Distinctive("fnv " + start + " " + opsSexp(ops))
		}
		// D + K: the same maps listed in another order
		if ok && hasMap(ops) {
			perm := make([]*hop, len(ops))
			for j, o := range ops {
				if o.kind == "map" || o.kind == "hmap" {
					perm[j] = o.permuted(rng)
				} else {
					perm[j] = o
				}
			}
			r.Count("hashop:map-permuted-copy")
			got2, ok2 := runFnvOp(cfg, r, start, perm)
			if ok2 && got2 != got {
				r.OracleFail(hx.Case{Sig: sigMapOrder, Op: "fnv " + cfg.Module + " " + start + " " + opsSexp(perm),
					Impl: fmt.Sprint(got2), Expected: fmt.Sprint(got)})
			}
		}
	}
}

// ------------------------------------------------------------------ K/D for the equals helpers

var shapes = []string{"val", "ptr", "arr", "map", "arrp", "mapp"}

func genElem(rng *rand.Rand, fam byte, kind string) elem {
	switch fam {
	case 'c':
		return elem{p: genPrim(rng, kind)}
	case 'o':
		var e elem
		for i, n := 0, rng.Intn(4); i < n; i++ {
			e.fs = append(e.fs, genPrim(rng, []string{"i32", "f64", "str", "f32", "bool", "i64"}[i%6]))
		}
		return e
	}
	if rng.Intn(6) == 0 {
		return elem{bnil: true}
	}
	return elem{b: genBytes(rng, 300)}
}

func genCont(rng *rand.Rand, fam byte, kind, shape string, nextAddr *int) *cont {
	c := &cont{fam: fam, kind: kind, shape: shape}
	*nextAddr++
	c.addr = *nextAddr
	switch shape {
	case "val", "ptr":
		c.elems = []elem{genElem(rng, fam, kind)}
	default:
		n := rng.Intn(5)
		if rng.Intn(3) == 0 {
			n = 0
		}
		for i := 0; i < n; i++ {
			c.elems = append(c.elems, genElem(rng, fam, kind))
		}
		if shape == "map" || shape == "mapp" {
			c.keys = genKeys(rng, n)
		}
	}
	return c
}

func (c *cont) clone() *cont {
	d := *c
	d.elems = append([]elem(nil), c.elems...)
	for i := range d.elems {
		d.elems[i].fs = append([]prim(nil), c.elems[i].fs...)
	}
	d.keys = append([][]byte(nil), c.keys...)
	return &d
}

func mutateElem(rng *rand.Rand, fam byte, e elem) elem {
	switch fam {
	case 'c':
		return elem{p: mutatePrim(rng, e.p)}
	case 'o':
		if len(e.fs) == 0 {
			return elem{fs: []prim{{kind: "i32", u: 7}}}
		}
		out := elem{fs: append([]prim(nil), e.fs...)}
		i := rng.Intn(len(out.fs))
		out.fs[i] = mutatePrim(rng, out.fs[i])
		return out
	}
	b := append([]byte(nil), e.b...)
	if len(b) == 0 || rng.Intn(3) == 0 {
		return elem{b: append(b, 'x')}
	}
	b[rng.Intn(len(b))] ^= 1 << uint(rng.Intn(8))
	return elem{b: b}
}

func flipZero(p prim) (prim, bool) {
	switch p.kind {
	case "f32":
		if p.u&0x7FFFFFFF == 0 {
			return prim{kind: p.kind, u: p.u ^ 0x80000000}, true
		}
	case "f64":
		if p.u&0x7FFFFFFFFFFFFFFF == 0 {
			return prim{kind: p.kind, u: p.u ^ (1 << 63)}, true
		}
	}
	return p, false
}

// variants of one base value: the copies that must be Equal and the single mutations that must not
func variants(rng *rand.Rand, base *cont, nextAddr *int, r *hx.Result) []*cont {
	out := []*cont{base}
	add := func(class string, c *cont) {
		r.Count("variant:" + class)
		out = append(out, c)
	}
	fresh := func(c *cont) *cont { *nextAddr++; c.addr = *nextAddr; return c }
	isPtr := base.shape == "ptr" || base.shape == "arrp" || base.shape == "mapp"
	isSeq := base.shape == "arr" || base.shape == "arrp"
	isMap := base.shape == "map" || base.shape == "mapp"

	add("copy", fresh(base.clone()))
	if isPtr {
		add("same-pointer", base.clone())
		n := fresh(base.clone())
		n.isNil = true
		add("nil-pointer", n)
	}
	if (isSeq || isMap) && len(base.elems) == 0 {
		// nil versus empty
		c := fresh(base.clone())
		if isPtr {
			c.innerNil = !base.innerNil
		} else {
			c.isNil = !base.isNil
		}
		add("nil-vs-empty", c)
	}
	if len(base.elems) > 1 {
		c := fresh(base.clone())
		perm := rng.Perm(len(c.elems))
		for i, j := range perm {
			c.elems[i] = base.elems[j]
			if isMap {
				c.keys[i] = base.keys[j]
			}
		}
		add("permuted", c)
	}
	if len(base.elems) > 0 {
		c := fresh(base.clone())
		i := rng.Intn(len(c.elems))
		c.elems[i] = mutateElem(rng, base.fam, c.elems[i])
		add("one-element-changed", c)
		if isSeq || isMap {
			d := fresh(base.clone())
			d.elems = d.elems[:len(d.elems)-1]
			if isMap {
				d.keys = d.keys[:len(d.keys)-1]
			}
			add("one-element-removed", d)
		}
		if isMap {
			d := fresh(base.clone())
			d.keys[rng.Intn(len(d.keys))] = append([]byte("renamed-"), byte('0'+rng.Intn(10)))
			add("one-key-renamed", d)
		}
		// flip the sign of a zero: Equal, and (since `fix: hash -0.0 like +0.0`) the same hash
		z := fresh(base.clone())
		flipped := false
		for i := range z.elems {
			if base.fam == 'c' {
				if q, ok := flipZero(z.elems[i].p); ok {
					z.elems[i].p, flipped = q, true
					break
				}
			} else if base.fam == 'o' {
				for j := range z.elems[i].fs {
					if q, ok := flipZero(z.elems[i].fs[j]); ok {
						z.elems[i].fs[j], flipped = q, true
						break
					}
				}
			}
		}
		if flipped {
			add("zero-sign-flipped", z)
		}
	}
	if isSeq || isMap {
		c := fresh(base.clone())
		c.elems = append(c.elems, genElem(rng, base.fam, base.kind))
		if isMap {
			c.keys = append(c.keys, []byte("extra-key"))
		}
		add("one-element-added", c)
	}
	return out
}

func kindTag(c *cont) string { return string(c.fam) + c.shape }

type pairOutcome struct {
	eq       bool
	panicked bool
}

func evalPair(run runner, a, b *cont, rng *rand.Rand) (res pairOutcome, pv any) {
	res.panicked, pv = hx.Recover(func() { res.eq = run.eq(a, b, heap{}, rng) })
	return
}

// checkPair: K on the verdict, D on verdict-vs-structure, symmetry and Equal ⇒ same hash
func checkPair(cfg Config, r *hx.Result, run runner, a, b *cont, rng *rand.Rand) (verdict bool) {
	op := fmt.Sprintf("eqh %s %s %s", kindTag(a), a.sexp(), b.sexp())
	res, pv := evalPair(run, a, b, rng)
	r.OracleCases++
	if res.panicked {
		r.OracleFail(hx.Case{Sig: sigPanic, Op: op, Impl: fmt.Sprint("panic ", pv), Expected: "no panic"})
		return false
	}
	impl := fmt.Sprint(res.eq)
	want := specEq(a, b)
	if res.eq {
		r.Count("verdict:equal")
	} else {
		r.Count("verdict:different")
	}
	if res.eq && !want {
		r.OracleFail(hx.Case{Sig: sigAccepts, Op: op, Impl: impl, Expected: "false"})
	}
	if !res.eq && want {
		r.OracleFail(hx.Case{Sig: sigRejects, Op: op, Impl: impl, Expected: "true"})
	}
	back, _ := evalPair(run, b, a, rng)
	if back.eq != res.eq {
		r.OracleFail(hx.Case{Sig: sigSymm, Op: op, Impl: fmt.Sprintf("%v but reversed %v", res.eq, back.eq), Expected: "same verdict both ways"})
	}
	if res.eq {
		ha, hb := run.hash(a, rng), run.hash(b, rng)
		if ha != hb {
			r.OracleFail(hx.Case{Sig: sigHash, Op: op, Impl: fmt.Sprintf("Equal, hashes %d and %d", ha, hb), Expected: "equal hashes"})
		}
	}
	if cfg.Driver != nil {
		r.Ops++
		m := cfg.Driver.MustAsk(op)
		if m != impl {
			r.Disagree(hx.Case{Sig: "C10 eqh", Op: op, Impl: impl, Model: m})
		}
	}
	return res.eq
}

// checkValueHash: D purity (two builds, shuffled map insertion) and K on the hash value
func checkValueHash(cfg Config, r *hx.Result, run runner, c *cont, rng *rand.Rand) {
	op := fmt.Sprintf("fnv %s %s", cfg.Module, joinNonEmpty("new", c.hashOps()))
	var h1, h2 uint32
	panicked, pv := hx.Recover(func() { h1, h2 = run.hash(c, rng), run.hash(c, rng) })
	r.OracleCases++
	if panicked {
		r.OracleFail(hx.Case{Sig: sigPanic, Op: op, Impl: fmt.Sprint("panic ", pv), Expected: "no panic"})
		return
	}
	if h1 != h2 {
		r.OracleFail(hx.Case{Sig: sigImpure, Op: op, Impl: fmt.Sprintf("%d then %d", h1, h2), Expected: "the same hash"})
	}
	if cfg.Driver != nil {
		r.Ops++
		m := cfg.Driver.MustAsk(op)
		if m != fmt.Sprint(h1) {
			r.Disagree(hx.Case{Sig: "C10 fnv of value", Op: op, Impl: fmt.Sprint(h1), Model: m})
		}
	}
}

func runPool(cfg Config, r *hx.Result, rng *rand.Rand, fam byte, kind, shape string, bases int) {
	nextAddr := 0
	var pool []*cont
	for i := 0; i < bases; i++ {
		pool = append(pool, variants(rng, genCont(rng, fam, kind, shape, &nextAddr), &nextAddr, r)...)
	}
	r.Count("pool:" + string(fam) + "-" + shape)
	withHelpers(pool[0], func(run runner) {
		n := len(pool)
		verdict := make([][]bool, n)
		for i := range pool {
			checkValueHash(cfg, r, run, pool[i], rng)
			verdict[i] = make([]bool, n)
			for j := range pool {
				verdict[i][j] = checkPair(cfg, r, run, pool[i], pool[j], rng)
				if i != j && verdict[i][j] {
					r.Distinctive(fmt.Sprintf("eqh %s %s %s", kindTag(pool[i]), pool[i].sexp(), pool[j].sexp()))
				}
			}
		}
		for i := 0; i < n; i++ {
			for j := 0; j < n; j++ {
				if !verdict[i][j] {
					continue
				}
				for k := 0; k < n; k++ {
					r.OracleCases++
					if verdict[j][k] && !verdict[i][k] {
						r.OracleFail(hx.Case{Sig: sigTrans,
							Op:   fmt.Sprintf("eqh3 %s %s %s %s", kindTag(pool[i]), pool[i].sexp(), pool[j].sexp(), pool[k].sexp()),
							Impl: "a=b, b=c, a≠c", Expected: "a=c"})
					}
				}
			}
		}
	})
}

type famKind struct {
	fam  byte
	kind string
}

var famKinds = []famKind{{'c', "i32"}, {'c', "i64"}, {'c', "f32"}, {'c', "f64"}, {'c', "bool"}, {'c', "str"}, {'o', ""}, {'b', ""}}

// fixedEqCorpus: the situations the property names, and the former F15 witnesses (+0/-0)
func fixedEqCorpus(cfg Config, r *hx.Result, rng *rand.Rand) {
	f := func(kind string, u uint64) elem { return elem{p: prim{kind: kind, u: u}} }
	pz, nz, nan := f("f64", 0), f("f64", 1<<63), f("f64", 0x7FF8000000000001)
	cases := [][2]*cont{
		{{fam: 'c', kind: "f64", shape: "val", elems: []elem{pz}}, {fam: 'c', kind: "f64", shape: "val", elems: []elem{nz}}},
		{{fam: 'c', kind: "f64", shape: "ptr", addr: 1, elems: []elem{pz}}, {fam: 'c', kind: "f64", shape: "ptr", addr: 2, elems: []elem{nz}}},
		{{fam: 'c', kind: "f64", shape: "arr", elems: []elem{pz}}, {fam: 'c', kind: "f64", shape: "arr", elems: []elem{nz}}},
		{{fam: 'c', kind: "f32", shape: "map", keys: [][]byte{[]byte("k")}, elems: []elem{f("f32", 0)}}, {fam: 'c', kind: "f32", shape: "map", keys: [][]byte{[]byte("k")}, elems: []elem{f("f32", 0x80000000)}}},
		{{fam: 'c', kind: "f64", shape: "ptr", addr: 1, elems: []elem{nan}}, {fam: 'c', kind: "f64", shape: "ptr", addr: 1, elems: []elem{nan}}},
		{{fam: 'c', kind: "f64", shape: "ptr", addr: 1, elems: []elem{nan}}, {fam: 'c', kind: "f64", shape: "ptr", addr: 2, elems: []elem{nan}}},
		{{fam: 'c', kind: "f64", shape: "arr", elems: []elem{nan}}, {fam: 'c', kind: "f64", shape: "arr", elems: []elem{nan}}},
		{{fam: 'c', kind: "i32", shape: "arr", isNil: true}, {fam: 'c', kind: "i32", shape: "arr"}},
		{{fam: 'c', kind: "i32", shape: "map", isNil: true}, {fam: 'c', kind: "i32", shape: "map"}},
		{{fam: 'b', shape: "val", elems: []elem{{bnil: true}}}, {fam: 'b', shape: "val", elems: []elem{{}}}},
		{{fam: 'c', kind: "i32", shape: "arrp", isNil: true}, {fam: 'c', kind: "i32", shape: "arrp", addr: 1}},
		{{fam: 'c', kind: "i32", shape: "mapp", isNil: true}, {fam: 'c', kind: "i32", shape: "mapp", addr: 1, innerNil: true}},
		{{fam: 'c', kind: "i32", shape: "arrp", addr: 1, innerNil: true}, {fam: 'c', kind: "i32", shape: "arrp", addr: 2}},
	}
	for _, c := range cases {
		r.Count("corpus:fixed-eq")
		withHelpers(c[0], func(run runner) {
			checkPair(cfg, r, run, c[0], c[1], rng)
			checkPair(cfg, r, run, c[1], c[0], rng)
			checkValueHash(cfg, r, run, c[0], rng)
			checkValueHash(cfg, r, run, c[1], rng)
		})
	}
}

// ------------------------------------------------------------------ replay

func replayLine(cfg Config, r *hx.Result, line string, rng *rand.Rand) {
	xs, err := hx.ParseLine(line)
	if err != nil || len(xs) < 2 {
		panic("c10: cannot replay " + line)
	}
	switch xs[0].Atom {
	case "fnv":
		ops, err := opsOfSexps(xs[3:])
		if err != nil {
			panic("c10: cannot replay " + line)
		}
		runFnvOp(cfg, r, xs[2].Atom, ops)
	case "eqh", "eqh3":
		tag := xs[1].Atom
		var cs []*cont
		kind := "i32"
		for _, x := range xs[2:] {
			c, err := contOfSexp(tag[0], tag[1:], x)
			if err != nil {
				panic("c10: cannot replay " + line)
			}
			if len(c.elems) > 0 {
				kind = c.kind
			}
			cs = append(cs, c)
		}
		for _, c := range cs {
			c.kind = kind
		}
		withHelpers(cs[0], func(run runner) {
			if xs[0].Atom == "eqh" {
				checkPair(cfg, r, run, cs[0], cs[1], rng)
				return
			}
			ab := checkPair(cfg, r, run, cs[0], cs[1], rng)
			bc := checkPair(cfg, r, run, cs[1], cs[2], rng)
			ac := checkPair(cfg, r, run, cs[0], cs[2], rng)
			if ab && bc && !ac {
				r.OracleFail(hx.Case{Sig: sigTrans, Op: line, Impl: "a=b, b=c, a≠c", Expected: "a=c"})
			}
		})
	default:
		panic("c10: cannot replay " + line)
	}
}

func Run(cfg Config) *hx.Result {
	r := hx.NewResult("C10", cfg.Module, cfg.Seed, cfg.Tier)
	r.Rule = "hasher: random trees of Add* operations (int/float extremes and specials, strings up to 1200 bytes, nested Add, AddArray, AddHashableArray, AddMap/AddHashableMap up to 40 entries, every map also in a permuted order) run against the real fnv1a.Hash and the model, hash VALUES compared; " +
		"equals: per helper family (Comparable* at each primitive type, Object* over a hand-written record type, Bytes*) and shape (value, pointer, array, map, pointer-to-array, pointer-to-map) pools of base values with their copies, same-pointer aliases, permutations, nil/empty twins, single mutations and zero-sign flips; all ordered pairs (verdict vs structural equality, symmetry, Equal implies same hash), all triples (transitivity); a pair is non-trivial when two distinct pool members are Equal"
	rng := hx.Rng(cfg.Seed, "c10")
	if len(cfg.Replay) > 0 {
		for _, line := range cfg.Replay {
			replayLine(cfg, r, line, rng)
		}
		return r
	}
	nFnv, rounds, bases := 6000, 2, 3
	if cfg.Tier == "thorough" {
		nFnv, rounds, bases = 40000, 10, 4
	}
	fnvCorpus(cfg, r, rng, nFnv)
	fixedEqCorpus(cfg, r, rng)
	for round := 0; round < rounds; round++ {
		for _, fk := range famKinds {
			for _, sh := range shapes {
				runPool(cfg, r, rng, fk.fam, fk.kind, sh, bases)
			}
		}
	}
	return r
}
