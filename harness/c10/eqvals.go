package c10

import (
	"math"
	"math/rand"
	"strconv"
	"strings"

	"github.com/PapaCharlie/go-restli/v2/fnv1a"
	"github.com/PapaCharlie/go-restli/v2/restli/equals"
	"verif/harness/hx"
)

// elem is one element of one of the three helper families:
//
//	c  comparable primitive            (Comparable* helpers, == on T)
//	o  object = tuple of primitives    (Object* helpers, T = *obj with Equals / ComputeHash)
//	b  []byte                          (Bytes* helpers)
type elem struct {
	p    prim   // c
	fs   []prim // o
	b    []byte // b
	bnil bool   // b: nil slice
}

// cont is a value of a given shape (val ptr arr map arrp mapp) over elements of one family.
type cont struct {
	fam      byte   // 'c' 'o' 'b'
	kind     string // family c: the primitive kind (Go's static type T)
	shape    string
	isNil    bool // nil slice / nil map / nil pointer
	addr     int  // pointer shapes: identity of the pointer
	innerNil bool // arrp/mapp: the pointee is a nil slice / nil map
	elems    []elem
	keys     [][]byte
}

func (e elem) sexp(fam byte) string {
	switch fam {
	case 'c':
		return e.p.sexp()
	case 'o':
		parts := []string{"o"}
		for _, f := range e.fs {
			parts = append(parts, f.sexp())
		}
		return "(" + strings.Join(parts, " ") + ")"
	}
	if e.bnil {
		return "nil"
	}
	return hx.Hex(e.b)
}

func (c *cont) sliceSexp(isNil bool) string {
	if isNil {
		return "nil"
	}
	parts := []string{"s"}
	for _, e := range c.elems {
		parts = append(parts, e.sexp(c.fam))
	}
	return "(" + strings.Join(parts, " ") + ")"
}

func (c *cont) mapSexp(isNil bool) string {
	if isNil {
		return "nil"
	}
	parts := []string{"m"}
	for i, e := range c.elems {
		parts = append(parts, "("+hx.Hex(c.keys[i])+" "+e.sexp(c.fam)+")")
	}
	return "(" + strings.Join(parts, " ") + ")"
}

func (c *cont) sexp() string {
	switch c.shape {
	case "val":
		return c.elems[0].sexp(c.fam)
	case "ptr":
		if c.isNil {
			return "nil"
		}
		return "(p " + itoa(c.addr) + " " + c.elems[0].sexp(c.fam) + ")"
	case "arr":
		return c.sliceSexp(c.isNil)
	case "map":
		return c.mapSexp(c.isNil)
	case "arrp":
		if c.isNil {
			return "nil"
		}
		return "(p " + itoa(c.addr) + " " + c.sliceSexp(c.innerNil) + ")"
	default: // mapp
		if c.isNil {
			return "nil"
		}
		return "(p " + itoa(c.addr) + " " + c.mapSexp(c.innerNil) + ")"
	}
}

func itoa(i int) string { return strconv.Itoa(i) }

// hashOps is the `fnv` op list that hashes this value the way generated code would
// (AddX per primitive, Add(ComputeHash()) per object, AddArray/AddMap per container, optional
// pointers skipped when nil).
func (c *cont) hashOps() string {
	one := func(e elem) string {
		switch c.fam {
		case 'c':
			return e.p.sexp()
		case 'o':
			parts := []string{"add", "new"}
			for _, f := range e.fs {
				parts = append(parts, f.sexp())
			}
			return "(" + strings.Join(parts, " ") + ")"
		}
		return "(bytes " + hx.Hex(e.b) + ")"
	}
	arr := func() string {
		parts := []string{"arr"}
		for _, e := range c.elems {
			parts = append(parts, "("+one(e)+")")
		}
		return "(" + strings.Join(parts, " ") + ")"
	}
	mp := func() string {
		parts := []string{"map"}
		for i, e := range c.elems {
			parts = append(parts, "("+hx.Hex(c.keys[i])+" "+one(e)+")")
		}
		return "(" + strings.Join(parts, " ") + ")"
	}
	switch c.shape {
	case "val":
		return one(c.elems[0])
	case "ptr":
		if c.isNil {
			return ""
		}
		return one(c.elems[0])
	case "arr":
		return arr()
	case "map":
		return mp()
	case "arrp":
		if c.isNil {
			return ""
		}
		return arr()
	default:
		if c.isNil {
			return ""
		}
		return mp()
	}
}

// ------------------------------------------------------------------ the object type (family o)

// obj is a hand-written stand-in for a generated record: Equals compares every field with ==,
// ComputeHash is NewHash + one AddX per field, nil receiver hashes to ZeroHash (as generated).
type obj struct{ fs []prim }

func (o *obj) Equals(other *obj) bool {
	if o == other {
		return true
	}
	if o == nil || other == nil || len(o.fs) != len(other.fs) {
		return false
	}
	for i := range o.fs {
		if !o.fs[i].goEq(other.fs[i]) {
			return false
		}
	}
	return true
}

func (o *obj) ComputeHash() fnv1a.Hash {
	if o == nil {
		return fnv1a.ZeroHash()
	}
	h := fnv1a.NewHash()
	for _, f := range o.fs {
		f.addTo(h)
	}
	return h
}

// ------------------------------------------------------------------ calling the real helpers

type helpers[T any] struct {
	val    func(l, r T) bool
	ptr    func(l, r *T) bool
	arr    func(l, r []T) bool
	mp     func(l, r map[string]T) bool
	arrp   func(l, r *[]T) bool
	mapp   func(l, r *map[string]T) bool
	hasher func(h fnv1a.Hash, v T)
	conv   func(e elem) T
}

func cmpHelpers[T comparable](conv func(p prim) T, hasher func(fnv1a.Hash, T)) helpers[T] {
	return helpers[T]{
		val:    func(l, r T) bool { return l == r },
		ptr:    equals.ComparablePointer[T],
		arr:    equals.ComparableArray[T],
		mp:     equals.ComparableMap[T],
		arrp:   equals.ComparableArrayPointer[T],
		mapp:   equals.ComparableMapPointer[T],
		hasher: hasher,
		conv:   func(e elem) T { return conv(e.p) },
	}
}

var objHelpers = helpers[*obj]{
	val:    func(l, r *obj) bool { return l.Equals(r) },
	ptr:    equals.ObjectPointer[*obj],
	arr:    equals.ObjectArray[*obj],
	mp:     equals.ObjectMap[*obj],
	arrp:   equals.ObjectArrayPointer[*obj],
	mapp:   equals.ObjectMapPointer[*obj],
	hasher: func(h fnv1a.Hash, v *obj) { h.Add(v.ComputeHash()) },
	conv:   func(e elem) *obj { return &obj{fs: e.fs} },
}

var bytesHelpers = helpers[[]byte]{
	val:    equals.Bytes,
	ptr:    equals.BytesPointer,
	arr:    equals.BytesArray,
	mp:     equals.BytesMap,
	arrp:   equals.BytesArrayPointer,
	mapp:   equals.BytesMapPointer,
	hasher: func(h fnv1a.Hash, v []byte) { h.AddBytes(v) },
	conv: func(e elem) []byte {
		if e.bnil {
			return nil
		}
		return append(make([]byte, 0, len(e.b)), e.b...)
	},
}

// heap gives every pointer address of one case a single Go pointer, so that equal addresses in
// the op text are identical pointers in the real call.
type heap map[int]any

func buildSlice[T any](hp helpers[T], c *cont, isNil bool) []T {
	if isNil {
		return nil
	}
	out := make([]T, 0, len(c.elems))
	for _, e := range c.elems {
		out = append(out, hp.conv(e))
	}
	return out
}

func buildMap[T any](hp helpers[T], c *cont, isNil bool, rng *rand.Rand) map[string]T {
	if isNil {
		return nil
	}
	out := make(map[string]T)
	// insertion order is shuffled: the property says it must not matter
	order := make([]int, len(c.elems))
	for i := range order {
		order[i] = i
	}
	if rng != nil {
		rng.Shuffle(len(order), func(i, j int) { order[i], order[j] = order[j], order[i] })
	}
	for _, i := range order {
		out[string(c.keys[i])] = hp.conv(c.elems[i])
	}
	return out
}

func ptrFor[X any](hpn heap, c *cont, mk func() X) *X {
	if c.isNil {
		return nil
	}
	if p, ok := hpn[c.addr]; ok {
		return p.(*X)
	}
	v := mk()
	hpn[c.addr] = &v
	return &v
}

func evalEq[T any](hp helpers[T], l, r *cont, hpn heap, rng *rand.Rand) bool {
	switch l.shape {
	case "val":
		return hp.val(hp.conv(l.elems[0]), hp.conv(r.elems[0]))
	case "ptr":
		return hp.ptr(ptrFor(hpn, l, func() T { return hp.conv(l.elems[0]) }), ptrFor(hpn, r, func() T { return hp.conv(r.elems[0]) }))
	case "arr":
		return hp.arr(buildSlice(hp, l, l.isNil), buildSlice(hp, r, r.isNil))
	case "map":
		return hp.mp(buildMap(hp, l, l.isNil, rng), buildMap(hp, r, r.isNil, rng))
	case "arrp":
		return hp.arrp(ptrFor(hpn, l, func() []T { return buildSlice(hp, l, l.innerNil) }), ptrFor(hpn, r, func() []T { return buildSlice(hp, r, r.innerNil) }))
	default:
		return hp.mapp(ptrFor(hpn, l, func() map[string]T { return buildMap(hp, l, l.innerNil, rng) }), ptrFor(hpn, r, func() map[string]T { return buildMap(hp, r, r.innerNil, rng) }))
	}
}

// hashOf hashes the value with the real library the way generated code does.
func hashOf[T any](hp helpers[T], c *cont, rng *rand.Rand) uint32 {
	h := fnv1a.NewHash()
	switch c.shape {
	case "val":
		hp.hasher(h, hp.conv(c.elems[0]))
	case "ptr":
		if !c.isNil {
			hp.hasher(h, hp.conv(c.elems[0]))
		}
	case "arr":
		fnv1a.AddArray(h, buildSlice(hp, c, c.isNil), hp.hasher)
	case "map":
		fnv1a.AddMap(h, buildMap(hp, c, c.isNil, rng), hp.hasher)
	case "arrp":
		if !c.isNil {
			fnv1a.AddArray(h, buildSlice(hp, c, c.innerNil), hp.hasher)
		}
	default:
		if !c.isNil {
			fnv1a.AddMap(h, buildMap(hp, c, c.innerNil, rng), hp.hasher)
		}
	}
	return uint32(h.MapKey())
}

// dispatch on the family / static type
func withHelpers(c *cont, fc func(run runner)) {
	switch c.fam {
	case 'o':
		fc(mkRunner(objHelpers))
	case 'b':
		fc(mkRunner(bytesHelpers))
	default:
		switch c.kind {
		case "i32":
			fc(mkRunner(cmpHelpers(func(p prim) int32 { return int32(uint32(p.u)) }, func(h fnv1a.Hash, v int32) { h.AddInt32(v) })))
		case "i64":
			fc(mkRunner(cmpHelpers(func(p prim) int64 { return int64(p.u) }, func(h fnv1a.Hash, v int64) { h.AddInt64(v) })))
		case "f32":
			fc(mkRunner(cmpHelpers(func(p prim) float32 { return math.Float32frombits(uint32(p.u)) }, func(h fnv1a.Hash, v float32) { h.AddFloat32(v) })))
		case "f64":
			fc(mkRunner(cmpHelpers(func(p prim) float64 { return math.Float64frombits(p.u) }, func(h fnv1a.Hash, v float64) { h.AddFloat64(v) })))
		case "bool":
			fc(mkRunner(cmpHelpers(func(p prim) bool { return p.u != 0 }, func(h fnv1a.Hash, v bool) { h.AddBool(v) })))
		default:
			fc(mkRunner(cmpHelpers(func(p prim) string { return string(p.s) }, func(h fnv1a.Hash, v string) { h.AddString(v) })))
		}
	}
}

type runner struct {
	eq   func(l, r *cont, hpn heap, rng *rand.Rand) bool
	hash func(c *cont, rng *rand.Rand) uint32
}

func mkRunner[T any](hp helpers[T]) runner {
	return runner{
		eq:   func(l, r *cont, hpn heap, rng *rand.Rand) bool { return evalEq(hp, l, r, hpn, rng) },
		hash: func(c *cont, rng *rand.Rand) uint32 { return hashOf(hp, c, rng) },
	}
}

// ------------------------------------------------------------------ the specification (D side)

func elemSpecEq(fam byte, a, b elem) bool {
	switch fam {
	case 'c':
		return a.p.goEq(b.p)
	case 'o':
		if len(a.fs) != len(b.fs) {
			return false
		}
		for i := range a.fs {
			if !a.fs[i].goEq(b.fs[i]) {
				return false
			}
		}
		return true
	}
	return string(a.b) == string(b.b) // nil and empty byte strings are Equal
}

func seqSpecEq(fam byte, a, b *cont) bool {
	if len(a.elems) != len(b.elems) {
		return false
	}
	for i := range a.elems {
		if !elemSpecEq(fam, a.elems[i], b.elems[i]) {
			return false
		}
	}
	return true
}

func mapSpecEq(fam byte, a, b *cont) bool {
	if len(a.elems) != len(b.elems) {
		return false
	}
	for i, k := range a.keys {
		found := false
		for j, k2 := range b.keys {
			if string(k) == string(k2) {
				found = elemSpecEq(fam, a.elems[i], b.elems[j])
				break
			}
		}
		if !found {
			return false
		}
	}
	return true
}

// specEq is the property's reading of "Equal": same presence, same length / key set, Equal
// elements; nil and empty collections are Equal; one object is Equal to itself (same pointer).
func specEq(a, b *cont) bool {
	ptrShape := a.shape == "ptr" || a.shape == "arrp" || a.shape == "mapp"
	if ptrShape {
		if a.isNil || b.isNil {
			return a.isNil && b.isNil
		}
		if a.addr == b.addr {
			return true
		}
	}
	switch a.shape {
	case "val", "ptr":
		return elemSpecEq(a.fam, a.elems[0], b.elems[0])
	case "arr", "arrp":
		return seqSpecEq(a.fam, a, b)
	default:
		return mapSpecEq(a.fam, a, b)
	}
}

func elemHasNaN(fam byte, e elem) bool {
	if fam == 'c' {
		return e.p.isNaN()
	}
	for _, f := range e.fs {
		if f.isNaN() {
			return true
		}
	}
	return false
}

func (c *cont) hasNaN() bool {
	for _, e := range c.elems {
		if elemHasNaN(c.fam, e) {
			return true
		}
	}
	return false
}
