package c10

import (
	"fmt"
	"strconv"

	"verif/harness/hx"
)

// Parsers from op text back to harness values (replay of a recorded case).

func primOfSexp(s *hx.Sexp) (prim, error) {
	if !s.IsList || len(s.List) != 2 || s.List[0].IsList || s.List[1].IsList {
		return prim{}, fmt.Errorf("not a primitive: %s", s)
	}
	k := s.List[0].Atom
	if k == "str" {
		return prim{kind: k, s: hx.UnHex(s.List[1].Atom)}, nil
	}
	for _, pk := range primKinds {
		if pk == k {
			u, err := strconv.ParseUint(s.List[1].Atom, 10, 64)
			return prim{kind: k, u: u}, err
		}
	}
	return prim{}, fmt.Errorf("not a primitive: %s", s)
}

func opsOfSexps(xs []*hx.Sexp) ([]*hop, error) {
	out := make([]*hop, 0, len(xs))
	for _, x := range xs {
		o, err := hopOfSexp(x)
		if err != nil {
			return nil, err
		}
		out = append(out, o)
	}
	return out, nil
}

func hopOfSexp(s *hx.Sexp) (*hop, error) {
	if !s.IsList || len(s.List) == 0 || s.List[0].IsList {
		return nil, fmt.Errorf("not an op: %s", s)
	}
	head, rest := s.List[0].Atom, s.List[1:]
	switch head {
	case "bytes":
		return &hop{kind: "bytes", p: prim{kind: "str", s: hx.UnHex(rest[0].Atom)}}, nil
	case "add":
		ops, err := opsOfSexps(rest[1:])
		return &hop{kind: "add", start: rest[0].Atom, ops: ops}, err
	case "arr", "harr", "map", "hmap":
		o := &hop{kind: head}
		for _, e := range rest {
			xs := e.List
			if head == "map" || head == "hmap" {
				o.keys = append(o.keys, hx.UnHex(xs[0].Atom))
				xs = xs[1:]
			}
			if head == "harr" || head == "hmap" {
				o.estart = append(o.estart, xs[0].Atom)
				xs = xs[1:]
			}
			ops, err := opsOfSexps(xs)
			if err != nil {
				return nil, err
			}
			o.elems = append(o.elems, ops)
		}
		return o, nil
	}
	p, err := primOfSexp(s)
	return &hop{kind: p.kind, p: p}, err
}

func elemOfSexp(fam byte, s *hx.Sexp, kind *string) (elem, error) {
	switch fam {
	case 'c':
		p, err := primOfSexp(s)
		*kind = p.kind
		return elem{p: p}, err
	case 'o':
		var e elem
		for _, f := range s.List[1:] {
			p, err := primOfSexp(f)
			if err != nil {
				return e, err
			}
			e.fs = append(e.fs, p)
		}
		return e, nil
	}
	if s.Atom == "nil" {
		return elem{bnil: true}, nil
	}
	return elem{b: hx.UnHex(s.Atom)}, nil
}

func contOfSexp(fam byte, shape string, s *hx.Sexp) (*cont, error) {
	c := &cont{fam: fam, shape: shape, kind: "i32"}
	isNilAtom := !s.IsList && s.Atom == "nil"
	readSeq := func(x *hx.Sexp) error {
		for _, e := range x.List[1:] {
			if shape == "map" || shape == "mapp" {
				c.keys = append(c.keys, hx.UnHex(e.List[0].Atom))
				e = e.List[1]
			}
			el, err := elemOfSexp(fam, e, &c.kind)
			if err != nil {
				return err
			}
			c.elems = append(c.elems, el)
		}
		return nil
	}
	switch shape {
	case "val":
		el, err := elemOfSexp(fam, s, &c.kind)
		c.elems = []elem{el}
		return c, err
	case "ptr":
		if isNilAtom {
			c.isNil = true
			return c, nil
		}
		c.addr, _ = strconv.Atoi(s.List[1].Atom)
		el, err := elemOfSexp(fam, s.List[2], &c.kind)
		c.elems = []elem{el}
		return c, err
	case "arr", "map":
		if isNilAtom {
			c.isNil = true
			return c, nil
		}
		return c, readSeq(s)
	default: // arrp, mapp
		if isNilAtom {
			c.isNil = true
			return c, nil
		}
		c.addr, _ = strconv.Atoi(s.List[1].Atom)
		inner := s.List[2]
		if !inner.IsList && inner.Atom == "nil" {
			c.innerNil = true
			return c, nil
		}
		return c, readSeq(inner)
	}
}
