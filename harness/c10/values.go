// Package c10: correspondence (K) and direct oracle (D) for the library level of property C10 —
// fnv1a/hasher.go and restli/equals/*.go.
package c10

import (
	"fmt"
	"math"
	"math/rand"
	"strings"

	"github.com/PapaCharlie/go-restli/v2/fnv1a"
	"verif/harness/hx"
)

// prim is one comparable primitive; ints are kept as the unsigned value of their two's-complement
// bit pattern, floats as IEEE bit patterns — the same encoding the Lean driver reads.
type prim struct {
	kind string // i32 i64 f32 f64 bool str
	u    uint64
	s    []byte
}

var primKinds = []string{"i32", "i64", "f32", "f64", "bool", "str"}

func (p prim) sexp() string {
	if p.kind == "str" {
		return "(str " + hx.Hex(p.s) + ")"
	}
	return fmt.Sprintf("(%s %d)", p.kind, p.u)
}

// goEq is Go's == at the primitive's static type (the reference the D oracle uses to decide
// what "differ" means; it never involves the equals package or the model).
func (p prim) goEq(q prim) bool {
	if p.kind != q.kind {
		return false
	}
	switch p.kind {
	case "f32":
		return math.Float32frombits(uint32(p.u)) == math.Float32frombits(uint32(q.u))
	case "f64":
		return math.Float64frombits(p.u) == math.Float64frombits(q.u)
	case "str":
		return string(p.s) == string(q.s)
	}
	return p.u == q.u
}

func (p prim) isNaN() bool {
	switch p.kind {
	case "f32":
		f := math.Float32frombits(uint32(p.u))
		return f != f
	case "f64":
		f := math.Float64frombits(p.u)
		return f != f
	}
	return false
}

func (p prim) addTo(h fnv1a.Hash) {
	switch p.kind {
	case "i32":
		h.AddInt32(int32(uint32(p.u)))
	case "i64":
		h.AddInt64(int64(p.u))
	case "f32":
		h.AddFloat32(math.Float32frombits(uint32(p.u)))
	case "f64":
		h.AddFloat64(math.Float64frombits(p.u))
	case "bool":
		h.AddBool(p.u != 0)
	case "str":
		h.AddString(string(p.s))
	}
}

var special32 = []uint32{0, 1, 0xFFFFFFFF, 0x80000000, 0x7FFFFFFF, 0xFF, 0x100, 0xFFFF, 0x10000, 0xFF000000, 0x00FF00FF}
var special64 = []uint64{0, 1, ^uint64(0), 1 << 63, 1<<63 - 1, 0xFF, 0x100, 1 << 32, 1<<32 - 1, 0xFF00000000000000, 0x00FF00FF00FF00FF}
var specialF32 = []uint32{0, 0x80000000, 0x7FC00000, 0x7FC00001, 0xFFC00000, 0x7F800000, 0xFF800000, 0x3F800000, 0xBF800000, 1, 0x7F7FFFFF, 0x00800000, 0x7F800001}
var specialF64 = []uint64{0, 1 << 63, 0x7FF8000000000000, 0x7FF8000000000001, 0xFFF8000000000000, 0x7FF0000000000000, 0xFFF0000000000000,
	0x3FF0000000000000, 0xBFF0000000000000, 1, 0x7FEFFFFFFFFFFFFF, 0x0010000000000000, 0x7FF0000000000001}

var dangerBytes = []byte("(),:'%+ \"\\/?#&=;.\x00\x7f\x80\xff\xc3\xa9\xe2\x80\xa8")

func genBytes(rng *rand.Rand, maxLen int) []byte {
	var n int
	switch rng.Intn(10) {
	case 0:
		n = 0
	case 1:
		n = maxLen
	default:
		n = rng.Intn(6)
	}
	b := make([]byte, n)
	for i := range b {
		switch rng.Intn(3) {
		case 0:
			b[i] = dangerBytes[rng.Intn(len(dangerBytes))]
		case 1:
			b[i] = byte('a' + rng.Intn(3))
		default:
			b[i] = byte(rng.Intn(256))
		}
	}
	return b
}

func genPrim(rng *rand.Rand, kind string) prim {
	sp := rng.Intn(3) != 0
	switch kind {
	case "i32":
		if sp {
			return prim{kind: kind, u: uint64(special32[rng.Intn(len(special32))])}
		}
		return prim{kind: kind, u: uint64(rng.Uint32())}
	case "i64":
		if sp {
			return prim{kind: kind, u: special64[rng.Intn(len(special64))]}
		}
		return prim{kind: kind, u: rng.Uint64()}
	case "f32":
		if sp {
			return prim{kind: kind, u: uint64(specialF32[rng.Intn(len(specialF32))])}
		}
		return prim{kind: kind, u: uint64(rng.Uint32())}
	case "f64":
		if sp {
			return prim{kind: kind, u: specialF64[rng.Intn(len(specialF64))]}
		}
		return prim{kind: kind, u: rng.Uint64()}
	case "bool":
		return prim{kind: kind, u: uint64(rng.Intn(2))}
	default:
		return prim{kind: "str", s: genBytes(rng, 300)}
	}
}

// mutate returns a primitive of the same kind that is different under Go's == (and not NaN).
func mutatePrim(rng *rand.Rand, p prim) prim {
	for {
		q := genPrim(rng, p.kind)
		if p.kind == "bool" {
			q.u = 1 - p.u
		}
		if !q.isNaN() && !p.goEq(q) {
			return q
		}
	}
}

// ---------------------------------------------------------------- hash op trees (K for hasher.go)

// hop is one operation applied to a running hash; see lean/Restli/Driver/Fnv.lean for the grammar.
type hop struct {
	kind   string // a prim kind, "bytes", "add", "arr", "harr", "map", "hmap"
	p      prim
	start  string   // add / harr / hmap elements: "new" | "zero"
	ops    []*hop   // add: sub ops
	elems  [][]*hop // arr: per element ops; harr: per element (start in estart) ops
	estart []string
	keys   [][]byte // map / hmap keys, parallel to elems
}

func opsSexp(ops []*hop) string {
	parts := make([]string, len(ops))
	for i, o := range ops {
		parts[i] = o.sexp()
	}
	return strings.Join(parts, " ")
}

func joinNonEmpty(parts ...string) string {
	var out []string
	for _, p := range parts {
		if p != "" {
			out = append(out, p)
		}
	}
	return strings.Join(out, " ")
}

func (o *hop) sexp() string {
	switch o.kind {
	case "bytes":
		return "(bytes " + hx.Hex(o.p.s) + ")"
	case "add":
		return "(" + joinNonEmpty("add", o.start, opsSexp(o.ops)) + ")"
	case "arr":
		parts := []string{"arr"}
		for _, e := range o.elems {
			parts = append(parts, "("+opsSexp(e)+")")
		}
		return "(" + strings.Join(parts, " ") + ")"
	case "harr":
		parts := []string{"harr"}
		for i, e := range o.elems {
			parts = append(parts, "("+joinNonEmpty(o.estart[i], opsSexp(e))+")")
		}
		return "(" + strings.Join(parts, " ") + ")"
	case "map":
		parts := []string{"map"}
		for i, e := range o.elems {
			parts = append(parts, "("+joinNonEmpty(hx.Hex(o.keys[i]), opsSexp(e))+")")
		}
		return "(" + strings.Join(parts, " ") + ")"
	case "hmap":
		parts := []string{"hmap"}
		for i, e := range o.elems {
			parts = append(parts, "("+joinNonEmpty(hx.Hex(o.keys[i]), o.estart[i], opsSexp(e))+")")
		}
		return "(" + strings.Join(parts, " ") + ")"
	}
	return o.p.sexp()
}

func startHash(s string) fnv1a.Hash {
	if s == "zero" {
		return fnv1a.ZeroHash()
	}
	return fnv1a.NewHash()
}

// hashable wraps an op list as a fnv1a.Hashable
type hashable struct {
	start string
	ops   []*hop
}

func (x hashable) ComputeHash() fnv1a.Hash {
	h := startHash(x.start)
	applyOps(h, x.ops)
	return h
}

func applyOps(h fnv1a.Hash, ops []*hop) {
	for _, o := range ops {
		o.apply(h)
	}
}

// apply runs the op against the REAL hasher
func (o *hop) apply(h fnv1a.Hash) {
	switch o.kind {
	case "bytes":
		h.AddBytes(o.p.s)
	case "add":
		sub := startHash(o.start)
		applyOps(sub, o.ops)
		h.Add(sub)
	case "arr":
		fnv1a.AddArray(h, o.elems, func(h fnv1a.Hash, e []*hop) { applyOps(h, e) })
	case "harr":
		hs := make([]hashable, len(o.elems))
		for i := range o.elems {
			hs[i] = hashable{o.estart[i], o.elems[i]}
		}
		fnv1a.AddHashableArray(h, hs)
	case "map":
		m := make(map[string][]*hop, len(o.elems))
		for i := range o.elems {
			m[string(o.keys[i])] = o.elems[i]
		}
		fnv1a.AddMap(h, m, func(h fnv1a.Hash, e []*hop) { applyOps(h, e) })
	case "hmap":
		m := make(map[string]hashable, len(o.elems))
		for i := range o.elems {
			m[string(o.keys[i])] = hashable{o.estart[i], o.elems[i]}
		}
		fnv1a.AddHashableMap(h, m)
	default:
		o.p.addTo(h)
	}
}

func genStart(rng *rand.Rand) string {
	if rng.Intn(3) == 0 {
		return "zero"
	}
	return "new"
}

func genKeys(rng *rand.Rand, n int) [][]byte {
	seen := map[string]bool{}
	var out [][]byte
	for len(out) < n {
		k := genBytes(rng, 40)
		if seen[string(k)] {
			continue
		}
		seen[string(k)] = true
		out = append(out, k)
	}
	return out
}

func genOps(rng *rand.Rand, depth, maxN int) []*hop {
	n := rng.Intn(maxN + 1)
	out := make([]*hop, n)
	for i := range out {
		out[i] = genOp(rng, depth)
	}
	return out
}

func genOp(rng *rand.Rand, depth int) *hop {
	c := rng.Intn(12)
	if depth <= 0 && c >= 7 {
		c = rng.Intn(7)
	}
	switch {
	case c < 6:
		return &hop{kind: primKinds[c], p: genPrim(rng, primKinds[c])}
	case c == 6:
		return &hop{kind: "bytes", p: prim{kind: "str", s: genBytes(rng, 300)}}
	case c == 7:
		return &hop{kind: "add", start: genStart(rng), ops: genOps(rng, depth-1, 3)}
	case c == 8:
		o := &hop{kind: "arr"}
		for i, n := 0, rng.Intn(5); i < n; i++ {
			o.elems = append(o.elems, genOps(rng, depth-1, 2))
		}
		return o
	case c == 9:
		o := &hop{kind: "harr"}
		for i, n := 0, rng.Intn(5); i < n; i++ {
			o.elems = append(o.elems, genOps(rng, depth-1, 2))
			o.estart = append(o.estart, genStart(rng))
		}
		return o
	case c == 10:
		n := rng.Intn(7)
		if rng.Intn(8) == 0 {
			n = 20 + rng.Intn(20)
		}
		o := &hop{kind: "map", keys: genKeys(rng, n)}
		for i := 0; i < n; i++ {
			o.elems = append(o.elems, genOps(rng, depth-1, 2))
		}
		return o
	default:
		n := rng.Intn(6)
		o := &hop{kind: "hmap", keys: genKeys(rng, n)}
		for i := 0; i < n; i++ {
			o.elems = append(o.elems, genOps(rng, depth-1, 2))
			o.estart = append(o.estart, genStart(rng))
		}
		return o
	}
}

// permuted returns a copy of a map/hmap op with its entries in another order
func (o *hop) permuted(rng *rand.Rand) *hop {
	c := *o
	perm := rng.Perm(len(o.elems))
	c.elems = make([][]*hop, len(perm))
	c.keys = make([][]byte, len(perm))
	if o.estart != nil {
		c.estart = make([]string, len(perm))
	}
	for i, j := range perm {
		c.elems[i], c.keys[i] = o.elems[j], o.keys[j]
		if o.estart != nil {
			c.estart[i] = o.estart[j]
		}
	}
	return &c
}
