package c12

import (
	"fmt"
	"go/ast"
	"go/token"
	"io"
	"log"
	"math/rand"
	"os"
	"path/filepath"
	"runtime"
	"sort"
	"strings"
	"sync"

	"verif/harness/hx"
)

type Config struct {
	Module string
	Seed   int64
	Tier   string
	Driver *hx.Driver
	Replay []string
}

const (
	sigGenFail  = "C12 generator failed on a well-formed manifest"
	sigDiffSet  = "C12 output differs between processes: the set of generated files differs"
	sigDiffData = "C12 output differs between processes: file contents differ"
	sigCompile  = "C12 generated code does not compile"
	sigVet      = "C12 generated code fails go vet"
	sigChecked  = "C12 checked-in bindings differ from what the generator produces from the checked-in manifest"
	sigIdent    = "C12 ExportedIdentifier does not yield an exported Go identifier for a legal name"
	sigIdentP   = "C12 ExportedIdentifier panics on a legal name or accepts an illegal character"
)

func outDir() string {
	if o := os.Getenv("VERIF_OUT"); o != "" {
		return o
	}
	return "/verif"
}

type job struct {
	m    *Manifest
	json []byte
	hash string
	out  *outcome
}

func opOf(j *job, path string) string {
	s := "gen " + j.hash + " tags=" + strings.Join(j.m.tagList(), ",")
	if j.m.Probe != "" {
		s += " probe=" + j.m.Probe
	}
	return s + " " + path
}

// saveManifest writes the failing manifest below the replay directory and returns its path.
func saveManifest(j *job) string {
	dir := filepath.Join(outDir(), "replays", "C12", "manifests")
	p := filepath.Join(dir, j.hash+".json")
	if err := os.MkdirAll(dir, 0o755); err == nil {
		if err = os.WriteFile(p, j.json, 0o644); err == nil {
			return p
		}
	}
	// the replay directory is not writable: keep the manifest where it can still be found
	p = filepath.Join(os.TempDir(), "verif-c12-replay-"+j.hash+".json")
	_ = os.WriteFile(p, j.json, 0o644)
	return p
}

func record(r *hx.Result, j *job) {
	o := j.out
	probe := j.m.Probe != ""
	r.OracleCases += 1 + o.Compared + 2*o.Built // generation, tree comparisons, build + vet of every distinct tree
	fail := func(sig, impl, expected string) {
		// hx keeps three cases per signature: only those get their manifest written next to the replays
		kept, path := 0, "(not kept: more than three cases with this signature)"
		for _, c := range r.OracleFailures {
			if c.Sig == sig {
				kept++
			}
		}
		if kept < 3 {
			path = saveManifest(j)
		}
		r.OracleFail(hx.Case{Sig: sig, Op: opOf(j, path), Impl: head(impl, 900), Expected: expected,
			Note: j.m.Summary()})
	}
	for _, f := range failures(o) {
		sig := f.Sig
		if probe {
			sig += " (known-defect probe " + j.m.Probe + ")"
		}
		fail(sig, f.Impl, f.Expected)
	}
	if probe {
		if o.ok() {
			r.Count("probe-pass:" + j.m.Probe)
		} else {
			r.Count("probe-fail:" + j.m.Probe)
		}
		return
	}
	r.Count("manifests")
	if o.ok() {
		r.Count("programs") // generated in every process, identical, compiled, vetted
	}
	r.Dist["disagreements_checked"] += o.Compared
	r.Dist["generated-files"] += o.Files
	r.Dist["generated-packages"] += o.Packages
	for _, t := range j.m.tagList() {
		r.Count("feature:" + t)
	}
	for _, d := range j.m.Decls {
		r.Count("decl:" + d.Kind)
	}
	r.Distinctive("manifest " + j.hash + " " + j.m.Summary())
}

func runJobs(e *env, jobs []*job) {
	workers := runtime.NumCPU()
	if workers > 16 {
		workers = 16
	}
	if workers < 2 {
		workers = 2
	}
	ch := make(chan *job)
	var wg sync.WaitGroup
	for w := 0; w < workers; w++ {
		wg.Add(1)
		go func() {
			defer wg.Done()
			for j := range ch {
				j.out = e.runManifest(j.hash, j.json)
			}
		}()
	}
	for _, j := range jobs {
		ch <- j
	}
	close(ch)
	wg.Wait()
}

func newJob(m *Manifest) *job {
	b := m.JSON()
	return &job{m: m, json: b, hash: shortHash(b)}
}

// alphabet: records named by every initial letter (receiver names are the lower-cased first letter), each with
// a required, an optional and a defaulted field and an include, used as a finder's metadata and an action's result.
func alphabet() *Manifest {
	m := &Manifest{PackageRoot: packageRoot, Tags: map[string]bool{"alphabet": true}}
	base := rec("alpha", "Base0", fld("base", prim("string")))
	m.Decls = append(m.Decls, base)
	for c := 'A'; c <= 'Z'; c++ {
		d := rec("alpha", string(c)+"rec", fld("req", prim("int64")), Field{Name: "opt", Ty: arr(ref(base.ID)), Optional: true},
			Field{Name: "dflt", Ty: prim("string"), Default: strp(`"d"`)})
		d.Includes = []Ident{base.ID}
		m.Decls = append(m.Decls, d)
		u := &Decl{Kind: "union", ID: Ident{"alpha", string(c) + "uni"}, Members: []Member{{Ty: prim("int32"), Alias: "int"}, {Ty: ref(d.ID), Alias: d.ID.Full()}}}
		e := &Decl{Kind: "enum", ID: Ident{"alpha", string(c) + "enu"}, Symbols: []string{"ONE", "TWO"}}
		t := &Decl{Kind: "typeref", ID: Ident{"alpha", string(c) + "ref"}, Prim: prims[int(c)%7]}
		f := &Decl{Kind: "fixed", ID: Ident{"alpha", string(c) + "fix"}, Size: 1 + int(c)%5}
		m.Decls = append(m.Decls, u, e, t, f)
	}
	return m
}

func family(seed int64, tier string) []*job {
	var jobs []*job
	jobs = append(jobs, newJob(Generate(hx.Rng(seed, "c12-full"), true)))
	jobs = append(jobs, newJob(alphabet()))
	n := 16
	if tier == "thorough" {
		n = 450
	}
	for i := 0; i < n; i++ {
		jobs = append(jobs, newJob(Generate(hx.Rng(seed, fmt.Sprintf("c12-m%d", i)), false)))
	}
	// namespace cycles closed through a third type: the fixed shapes, then grammar-made ones (streams of their own,
	// so that the manifests above stay what they were)
	for _, m := range thirdTypeCorpus() {
		jobs = append(jobs, newJob(m))
	}
	n = 8
	if tier == "thorough" {
		n = 60
	}
	for i := 0; i < n; i++ {
		jobs = append(jobs, newJob(GenerateThird(hx.Rng(seed, fmt.Sprintf("c12-third%d", i)))))
	}
	return jobs
}

// ---- ExportedIdentifier: direct oracle + correspondence with the Lean model

func identCase(cfg Config, r *hx.Result, name []byte) {
	var got string
	panicked, _ := hx.Recover(func() { got = exportedIdentifier(string(name)) })
	legal, ascii := len(name) > 0, true
	for _, c := range name {
		if c >= 0x80 {
			ascii = false
		}
		if !(c >= 'a' && c <= 'z' || c >= 'A' && c <= 'Z' || c >= '0' && c <= '9' || c == '_' || c == '$') {
			legal = false
		}
	}
	op := "exportid " + cfg.Module + " " + hx.Hex(name)
	impl := "ok " + hx.Hex([]byte(got))
	if panicked {
		impl = "panic"
	}
	// D: the property's own predicate, evaluated with go/token — never the model
	r.OracleCases++
	if legal {
		if panicked {
			r.OracleFail(hx.Case{Sig: sigIdentP, Op: op, Impl: impl, Expected: "no panic on [A-Za-z0-9_$]+"})
		} else if !token.IsIdentifier(got) || !ast.IsExported(got) {
			r.OracleFail(hx.Case{Sig: sigIdent, Op: op, Impl: impl, Expected: "an exported Go identifier"})
		}
		r.Count("ident:legal")
	} else if ascii && len(name) > 0 {
		if !panicked {
			r.OracleFail(hx.Case{Sig: sigIdentP, Op: op, Impl: impl, Expected: "panic on a character outside [A-Za-z0-9_$]"})
		}
		r.Count("ident:illegal-ascii")
	}
	// K
	if cfg.Driver == nil {
		return
	}
	ans := cfg.Driver.MustAsk(op)
	if strings.HasPrefix(ans, "unmodelled") {
		r.Unmodelled[ans]++
		return
	}
	r.Ops++
	if ans != impl {
		r.Disagree(hx.Case{Sig: "C12 ExportedIdentifier: model and implementation disagree", Op: op, Impl: impl, Model: ans})
	}
	if len(name) > 1 && got != string(name) {
		r.Distinctive(op)
	}
}

func identLeg(cfg Config, r *hx.Result, rng *rand.Rand, names []string) {
	old := log.Writer()
	log.SetOutput(io.Discard)
	defer log.SetOutput(old)
	for _, n := range names {
		identCase(cfg, r, []byte(n))
	}
	// every single byte, first and later position
	for c := 0; c < 256; c++ {
		identCase(cfg, r, []byte{byte(c)})
		identCase(cfg, r, []byte{'a', byte(c)})
	}
	identCase(cfg, r, nil)
	// exhaustive short names over a representative alphabet
	alpha := []byte("azAZ09_$ -.\x7f")
	maxLen := 3
	if cfg.Tier == "thorough" {
		maxLen = 4
	}
	var rec func(prefix []byte)
	rec = func(prefix []byte) {
		if len(prefix) > 0 {
			identCase(cfg, r, prefix)
		}
		if len(prefix) == maxLen {
			return
		}
		for _, c := range alpha {
			rec(append(append([]byte{}, prefix...), c))
		}
	}
	rec(nil)
	// random longer names around the mangling prefixes
	pieces := []string{"Exported", "exported", "_", "DOLLAR", "_DOLLAR_", "$", "1", "a", "B", "x9", "__", "$$", "é", "Exported_", "dOLLAR_"}
	n := 2000
	if cfg.Tier == "thorough" {
		n = 20000
	}
	for i := 0; i < n; i++ {
		var b []byte
		for k := 1 + rng.Intn(4); k > 0; k-- {
			b = append(b, pieces[rng.Intn(len(pieces))]...)
		}
		identCase(cfg, r, b)
	}
}

func namesOf(jobs []*job) []string {
	seen := map[string]bool{}
	add := func(s string) { seen[s] = true }
	for _, j := range jobs {
		for _, d := range j.m.Decls {
			add(d.ID.Name)
			for _, f := range d.Fields {
				add(f.Name)
			}
			for _, s := range d.Symbols {
				add(d.ID.Name + "_" + s)
			}
			for _, m := range d.Members {
				add(m.Alias[strings.LastIndex(m.Alias, ".")+1:])
			}
			for _, p := range strings.Split(d.ID.NS, ".") {
				add(p)
			}
		}
		for _, res := range j.m.Resources {
			for _, m := range res.Methods {
				add(m.Name)
				add(m.Name + "Action")
				for _, p := range m.Params {
					add(p.Name)
				}
			}
		}
	}
	out := make([]string, 0, len(seen))
	for s := range seen {
		out = append(out, s)
	}
	sort.Strings(out)
	return out
}

// ---- entry point

func Run(cfg Config) *hx.Result {
	r := hx.NewResult("C12", cfg.Module, cfg.Seed, cfg.Tier)
	r.Rule = "manifests derived from the seed by a schema/resource grammar (records with required/optional/defaulted fields of every type, include chains, enums with mangled symbols, fixed, typerefs over every primitive incl. custom ones, unions, complex keys; 2-4 namespaces forming a DAG, a DAG plus one closed two-namespace cycle reaching repeated type names, or (20%) references in any direction; a family of namespace cycles closed through a third type (ns1.A -> ns2.B -> ns1.C, no back reference: entered from a record field, array/map element, union member, include or complex key, through two or three namespaces, fixed shapes plus grammar-made ones); collection/simple/action-set resources with sub-resources, every REST method, finders, actions, readOnly/createOnly) plus a full-coverage manifest, an every-initial-letter manifest and the known-defect probes; each manifest goes through the real generator in N fresh processes (different GOMAXPROCS/GOGC/locale), the output trees are compared byte for byte, and every process' output (each distinct tree) is built and vetted against the repository module; a manifest is counted as a program when all of that succeeds; distinct by manifest hash. ExportedIdentifier: all names used by the family, every single byte, all strings up to length 3 (4 thorough) over [azAZ09_$ -.DEL], random concatenations of the mangling prefixes; non-trivial = output differs from input"

	if len(cfg.Replay) > 0 {
		replay(cfg, r)
		return r
	}

	jobs := family(cfg.Seed, cfg.Tier)
	if servesGenerator {
		e, err := newEnv()
		if e != nil {
			defer e.close()
		}
		if err != nil {
			r.OracleCases++
			r.OracleFail(hx.Case{Sig: "C12 generator driver cannot be built against the repository", Op: "setup", Impl: head(err.Error(), 1500), Expected: "cmd.ReadManifest / cmd.GenerateCode build and link"})
			return r
		}
		e.runs = 3
		if cfg.Tier == "thorough" {
			e.runs = 5
		}
		var probes []*job
		for _, p := range Probes() {
			probes = append(probes, newJob(p))
		}
		all := append(append([]*job{}, jobs...), probes...)
		runJobs(e, all)
		// hx keeps three cases per signature, and the recorded generator defects are matched by signature on
		// `wild-references` manifests: those are recorded after the others, so that a failure of a well-behaved
		// manifest is never crowded out by three wild ones showing the same class
		sort.SliceStable(all, func(a, b int) bool {
			return !all[a].m.Tags["wild-references"] && all[b].m.Tags["wild-references"]
		})
		for _, j := range all {
			record(r, j)
		}
		checkedInCase(e, r)
	}
	identLeg(cfg, r, hx.Rng(cfg.Seed, "c12-ident"), namesOf(jobs))
	return r
}

func checkedInCase(e *env, r *hx.Result) {
	res := e.checkedIn()
	r.OracleCases++
	r.Dist["checked-in-files-compared"] += res.Compared
	r.Dist["disagreements_checked"] += res.Compared
	switch {
	case res.Err != "":
		r.OracleFail(hx.Case{Sig: sigGenFail, Op: "checkedin", Impl: res.Err, Expected: "the checked-in manifest generates"})
	case len(res.Different) > 0:
		api := "exported API equal"
		if !res.APIEqual {
			api = "exported API differs: " + strings.Join(res.APIDetails, "; ")
		}
		r.OracleFail(hx.Case{Sig: sigChecked, Op: "checkedin", Impl: head(strings.Join(res.Different, " ")+" ["+api+"]", 900),
			Expected: "byte-identical *" + generatedSuffix + " and manifest files"})
	default:
		r.Count("checked-in-identical")
	}
}

func replay(cfg Config, r *hx.Result) {
	var e *env
	defer func() {
		if e != nil {
			e.close()
		}
	}()
	for _, line := range cfg.Replay {
		f := strings.Fields(line)
		switch {
		case len(f) == 3 && f[0] == "exportid":
			old := log.Writer()
			log.SetOutput(io.Discard)
			identCase(cfg, r, hx.UnHex(f[2]))
			log.SetOutput(old)
		case len(f) >= 1 && (f[0] == "gen" || f[0] == "shrink" || f[0] == "checkedin") && servesGenerator:
			if e == nil {
				var err error
				e, err = newEnv()
				if err != nil {
					r.OracleCases++
					r.OracleFail(hx.Case{Sig: "C12 generator driver cannot be built against the repository", Op: "setup", Impl: head(err.Error(), 1500)})
					return
				}
				e.runs = 5
			}
			if f[0] == "checkedin" {
				checkedInCase(e, r)
				continue
			}
			b, err := os.ReadFile(f[len(f)-1])
			if err != nil {
				panic("c12: cannot read the replay manifest: " + err.Error())
			}
			if f[0] == "shrink" {
				sig, _ := e.sigOf(b)
				if sig == "" {
					r.Count("shrink:nothing-fails")
					continue
				}
				small, tests := e.shrink(b, sig)
				r.Dist["shrink:pipeline-runs"] += tests
				b = small
			}
			j := &job{m: &Manifest{Tags: map[string]bool{}}, json: b, hash: shortHash(b)}
			for _, t := range f {
				if strings.HasPrefix(t, "tags=") {
					for _, x := range strings.Split(t[5:], ",") {
						if x != "" {
							j.m.Tags[x] = true
						}
					}
				}
				if strings.HasPrefix(t, "probe=") {
					j.m.Probe = t[6:]
				}
			}
			j.out = e.runManifest(j.hash, j.json)
			record(r, j)
		default:
			panic("c12: cannot replay " + line)
		}
	}
}
