package c12

import (
	"bytes"
	"fmt"
	"go/ast"
	"go/parser"
	"go/printer"
	"go/token"
	"os"
	"path/filepath"
	"sort"
	"strings"
	"time"
)

// checkedIn regenerates the bindings from the checked-in manifest into scratch and compares them with the
// checked-in files: byte for byte (a differing "Source file:" header line is the only thing ignored); on a
// difference, the exported API of both sides is compared with go/ast.
type checkedInResult struct {
	Err        string   // machinery or generator failure
	Compared   int      // files compared
	Different  []string // relative paths that differ, are missing or are extra
	APIEqual   bool     // only meaningful when Different is non-empty
	APIDetails []string
}

func stripSourceLine(b []byte) []byte {
	lines := bytes.Split(b, []byte("\n"))
	out := lines[:0]
	for _, l := range lines {
		if bytes.HasPrefix(bytes.TrimSpace(l), []byte("Source file:")) {
			continue
		}
		out = append(out, l)
	}
	return bytes.Join(out, []byte("\n"))
}

func isGenerated(name string) bool {
	return strings.HasSuffix(name, generatedSuffix) || name == manifestFileName
}

func listGenerated(root string) (map[string][]byte, error) {
	out := map[string][]byte{}
	err := filepath.Walk(root, func(p string, info os.FileInfo, err error) error {
		if err != nil {
			return err
		}
		if info.IsDir() || !isGenerated(info.Name()) {
			return nil
		}
		b, err := os.ReadFile(p)
		if err != nil {
			return err
		}
		rel, _ := filepath.Rel(root, p)
		out[rel] = b
		return nil
	})
	return out, err
}

func (e *env) checkedIn() *checkedInResult {
	res := &checkedInResult{}
	out := filepath.Join(e.scratch, "checkedin", "gen")
	defer os.RemoveAll(filepath.Join(e.scratch, "checkedin"))
	txt, err := e.run(e.scratch, 90*time.Second, nil, e.genBin, out, e.dep)
	if err != nil {
		res.Err = fmt.Sprintf("generator failed on the checked-in manifest: %v: %s", err, head(strings.TrimSpace(txt), 500))
		return res
	}
	want, err := listGenerated(filepath.Join(e.repoMod, checkedInDir))
	if err != nil {
		res.Err = err.Error()
		return res
	}
	got, err := listGenerated(out)
	if err != nil {
		res.Err = err.Error()
		return res
	}
	names := map[string]bool{}
	for k := range want {
		names[k] = true
	}
	for k := range got {
		names[k] = true
	}
	var all []string
	for k := range names {
		all = append(all, k)
	}
	sort.Strings(all)
	for _, k := range all {
		res.Compared++
		w, okw := want[k]
		g, okg := got[k]
		switch {
		case !okw:
			res.Different = append(res.Different, "not-checked-in:"+k)
		case !okg:
			res.Different = append(res.Different, "no-longer-generated:"+k)
		case !bytes.Equal(w, g) && !bytes.Equal(stripSourceLine(w), stripSourceLine(g)):
			res.Different = append(res.Different, "content:"+k)
		}
	}
	if len(res.Different) > 0 {
		a, b := exportedAPI(want), exportedAPI(got)
		res.APIEqual = true
		for _, k := range sortedKeys(a) {
			if b[k] != a[k] {
				res.APIEqual = false
				res.APIDetails = append(res.APIDetails, "checked-in only or changed: "+k)
			}
		}
		for _, k := range sortedKeys(b) {
			if _, ok := a[k]; !ok {
				res.APIEqual = false
				res.APIDetails = append(res.APIDetails, "regenerated only: "+k)
			}
		}
	}
	return res
}

// exportedAPI maps "dir.Name" (or "dir.Recv.Method") to the printed declaration without bodies.
func exportedAPI(files map[string][]byte) map[string]string {
	api := map[string]string{}
	fset := token.NewFileSet()
	show := func(n any) string {
		var b bytes.Buffer
		printer.Fprint(&b, fset, n)
		return strings.Join(strings.Fields(b.String()), " ")
	}
	for rel, src := range files {
		if !strings.HasSuffix(rel, ".go") {
			continue
		}
		f, err := parser.ParseFile(fset, rel, src, 0)
		if err != nil {
			api[rel+":parse-error"] = err.Error()
			continue
		}
		dir := filepath.Dir(rel)
		for _, d := range f.Decls {
			switch d := d.(type) {
			case *ast.FuncDecl:
				recv := ""
				if d.Recv != nil && len(d.Recv.List) > 0 {
					recv = show(d.Recv.List[0].Type) + "."
				}
				if !d.Name.IsExported() {
					continue
				}
				api[dir+"."+recv+d.Name.Name] = show(d.Type)
			case *ast.GenDecl:
				for _, s := range d.Specs {
					switch s := s.(type) {
					case *ast.TypeSpec:
						if s.Name.IsExported() {
							api[dir+".type "+s.Name.Name] = show(s.Type)
						}
					case *ast.ValueSpec:
						for i, n := range s.Names {
							if !n.IsExported() {
								continue
							}
							v := ""
							if s.Type != nil {
								v = show(s.Type)
							}
							if i < len(s.Values) {
								v += " = " + show(s.Values[i])
							}
							api[dir+"."+d.Tok.String()+" "+n.Name] = v
						}
					}
				}
			}
		}
	}
	return api
}
