package c12

import (
	"fmt"
	"math/rand"
	"sort"
	"strconv"
	"strings"
)

// The manifest grammar.
//
//	manifest  ::= namespaces{2..4} × decl* × resource*            packageRoot fixed
//	namespace graph ::= DAG | DAG + one closed two-namespace cycle (two records nothing else refers to, reaching
//	              equally named types of both namespaces) | DAG + one cycle closed through a THIRD type (thirdtype.go:
//	              ns1.A -> ns2.B -> ns1.C, nothing refers back to A; no two types refer to each other, yet the
//	              packages import each other) | wild (references in any direction; reaches the recorded
//	              defects C12-cyclic-flagging-order / C12-package-cycle-undetected, tagged wild-references)
//	decl      ::= record | enum | fixed | typeref | union | complexKey
//	record    ::= includes (none | one | two, chains allowed; no diamonds: see probe include-diamond) × field{1..5}
//	field     ::= name × type × (required | optional | default(json value of the type) | optional+default)
//	type      ::= prim(7) | ref(any named type, any namespace) | array(type) | map(type)     depth ≤ 3
//	enum      ::= symbol{1..5}   symbols incl. leading digit, '_' and '$'
//	typeref   ::= prim(7) × custom?
//	union     ::= nullable? × member{2..4} (pegasus member keys `int`, `ns.Name`, `array`, `map`, or explicit aliases)
//	resource  ::= collection(prim | typeref | complex key) | simple | actionSet, each with sub-resources
//	              (collection or simple below a collection or simple parent)
//	method    ::= get | get_all(paging?) | create(returnEntity?) | update | partial_update(returnEntity?) | delete
//	            | batch_get | batch_create(returnEntity?) | batch_update | batch_partial_update | batch_delete   (+ query params)
//	            | finder(params, paging?, metadata?) | action(entity-level?, params, return type?)
//	annotations ::= readOnly / createOnly field paths (disjoint)
//
// Well-formedness kept by construction (what Pegasus / rest.li guarantee, plus the recorded generator
// limitations the family stays away from — those are the `probes`): names are identifiers; field names are
// distinct in a record after include flattening (hence no diamonds and no ancestor next to its descendant);
// no field's Go name equals an included record's name (F19); required record-typed fields and includes only
// point to earlier records (no infinite values); member Go names distinct inside a union; path key names
// distinct along a resource path; default literals are values of the field's type.

const packageRoot = "c12.test/gen"

var (
	nsPool     = []string{"alpha", "alpha.beta", "gamma", "delta.internal.xtra", "com.example.eps", "zetaCase"}
	typePool   = []string{"Foo", "Bar", "Baz", "Item", "Node", "Kind", "Status", "Data", "Entry", "Point", "Foo_Bar", "X1", "URL", "Shape"}
	fieldPool  = []string{"id", "name", "value", "count2", "flag", "payload", "items", "attrs", "owner", "next", "created_at", "_hidden", "x", "URLValue", "typ", "ref", "extra", "amount", "ratio", "blob", "tags", "child", "u", "m", "more", "a1", "zeta", "with_underscore_", "camelCaseName"}
	symbolPool = []string{"A", "FOO", "BAR_BAZ", "_X", "$Y", "1ST", "lower", "Mixed_Case", "A$B", "__", "Z9", "unknown"}
	prims      = []string{"int32", "int64", "float32", "float64", "bool", "string", "bytes"}
	pegasusKey = map[string]string{"int32": "int", "int64": "long", "float32": "float", "float64": "double", "bool": "boolean", "string": "string", "bytes": "bytes"}
	docPool    = []string{"", "", "A plain doc.", "Two lines\nof documentation.", "quotes \" and ` and ' and a */ inside", "unicode é — ok", "  leading spaces and a trailing one "}
	paramPool  = []string{"p", "limit", "filter", "since", "names", "opts", "mode", "key2", "payloadIn", "flagged"}
	resPool    = []string{"items", "fooBars", "things", "widgets2", "entries", "points"}
	actionPool = []string{"doIt", "compute", "reset_all", "get", "touch"}
	finderPool = []string{"search", "byOwner", "q2", "all"}
)

type gen struct {
	rng      *rand.Rand
	m        *Manifest
	rank     map[Ident]int
	nss      []string
	wild     bool // references between namespaces in any direction (reaches recorded generator defects)
	clean    bool // namespace DAG plus one closed two-namespace cycle added at the end
	third    bool // namespace DAG plus one cycle closed through a third type added at the end (thirdtype.go)
	core     map[Ident]bool
	full     bool // the coverage manifest: every alternative taken at least once
	nCustom  int
	diamonds bool // allow include diamonds (off in the family: see probe include-diamond)
}

func (g *gen) chance(p float64) bool  { return g.full || g.rng.Float64() < p }
func (g *gen) coin(p float64) bool    { return g.rng.Float64() < p }
func (g *gen) pick(s []string) string { return s[g.rng.Intn(len(s))] }

func (g *gen) nsIndex(ns string) int {
	for i, n := range g.nss {
		if n == ns {
			return i
		}
	}
	return len(g.nss)
}

// exported mirrors what a Go name derived from a schema name looks like for the purpose of keeping names
// apart; it deliberately does not call the implementation.
func exported(s string) string {
	if s == "" {
		return s
	}
	c := s[0]
	switch {
	case c >= 'a' && c <= 'z':
		return string(c-32) + s[1:]
	case c >= '0' && c <= '9':
		return "Exported_" + s
	case c == '_':
		return "Exported" + s
	}
	return s
}

func (g *gen) shell(kind, ns, name string) *Decl {
	d := &Decl{Kind: kind, ID: Ident{ns, name}, Doc: g.pick(docPool)}
	g.rank[d.ID] = len(g.m.Decls)
	g.m.Decls = append(g.m.Decls, d)
	return d
}

func (g *gen) declsOf(kind string) []*Decl {
	var out []*Decl
	for _, d := range g.m.Decls {
		if d.Kind == kind {
			out = append(out, d)
		}
	}
	return out
}

// refCandidates: named types a position may refer to. cur is the record being defined (nil outside records),
// direct says the position is held by value (a required field not below an array, map or pointer).
func (g *gen) refCandidates(curNS string, curRank int, direct bool) []*Decl {
	var out []*Decl
	ci := g.nsIndex(curNS)
	for _, d := range g.m.Decls {
		if d.Kind == "complexKey" {
			continue
		}
		if g.core[d.ID] || (!g.wild && g.nsIndex(d.ID.NS) > ci) {
			continue
		}
		if direct && d.Kind == "record" && g.rank[d.ID] >= curRank {
			continue
		}
		out = append(out, d)
	}
	return out
}

func (g *gen) randTy(depth int, curNS string, curRank int, direct bool) Ty {
	x := g.rng.Intn(100)
	switch {
	case depth > 0 && x < 13:
		g.m.tag("array")
		return arr(g.randTy(depth-1, curNS, curRank, false))
	case depth > 0 && x < 26:
		g.m.tag("map")
		return mapOf(g.randTy(depth-1, curNS, curRank, false))
	case x < 29 && !direct:
		g.m.tag("ref-into-dependency-manifest")
		return ref(Ident{"com.linkedin.restli.common", "Link"})
	case x < 62:
		c := g.refCandidates(curNS, curRank, direct)
		if len(c) > 0 {
			d := c[g.rng.Intn(len(c))]
			if d.ID.NS != curNS {
				g.m.tag("cross-namespace-ref")
			}
			return ref(d.ID)
		}
	}
	return prim(g.pick(prims))
}

// allFields: the record's fields after include flattening (a diamond's base appears once).
func (g *gen) allFields(id Ident, seen map[Ident]bool) []Field {
	if seen[id] {
		return nil
	}
	seen[id] = true
	d := g.m.find(id)
	var out []Field
	for _, i := range d.Includes {
		out = append(out, g.allFields(i, seen)...)
	}
	return append(out, d.Fields...)
}

func (g *gen) includeClosure(id Ident, into map[Ident]bool) {
	if into[id] {
		return
	}
	into[id] = true
	for _, i := range g.m.find(id).Includes {
		g.includeClosure(i, into)
	}
}

func (g *gen) fillRecord(d *Decl, nFields int) {
	r := g.rank[d.ID]
	used := map[string]bool{}   // schema field names in the flattened record
	goUsed := map[string]bool{} // Go names taken in the struct: embedded type names and fields
	// includes: earlier records, reachable under the namespace discipline, with distinct type names
	var earlier []*Decl
	for _, c := range g.refCandidates(d.ID.NS, r, true) {
		if c.Kind == "record" {
			earlier = append(earlier, c)
		}
	}
	if len(earlier) > 0 && g.coin(0.5) {
		n := 1
		if len(earlier) > 1 && g.coin(0.5) {
			n = 2
		}
		closure := map[Ident]bool{} // everything embedded so far, transitively
		for _, k := range g.rng.Perm(len(earlier)) {
			if len(d.Includes) == n {
				break
			}
			c := earlier[k]
			cc := map[Ident]bool{}
			g.includeClosure(c.ID, cc)
			ok, diamond := true, false
			// never an ancestor next to its descendant (Pegasus rejects the doubled fields); a diamond is two
			// branches sharing a base that is not itself listed
			if closure[c.ID] {
				continue
			}
			for _, prev := range d.Includes {
				if cc[prev] {
					ok = false
				}
			}
			var fresh []Ident
			for id := range cc {
				if closure[id] {
					diamond = true
					continue
				}
				fresh = append(fresh, id)
			}
			if diamond && !g.diamonds {
				// the shared base's fields would be defined twice: Pegasus rejects that; see probe include-diamond
				continue
			}
			for _, id := range fresh {
				// embedded type names are Go field names: distinct from each other, from the fields and from the record
				if goUsed[id.Name] || id.Name == d.ID.Name {
					ok = false
				}
				for _, other := range fresh {
					if other != id && other.Name == id.Name {
						ok = false
					}
				}
				for _, f := range g.m.find(id).Fields {
					if used[f.Name] || goUsed[exported(f.Name)] {
						ok = false
					}
				}
			}
			if !ok {
				continue
			}
			for _, id := range fresh {
				closure[id] = true
				goUsed[id.Name] = true
				for _, f := range g.m.find(id).Fields {
					used[f.Name] = true
					goUsed[exported(f.Name)] = true
				}
			}
			if diamond {
				g.m.tag("include-diamond")
			}
			if len(c.Includes) > 0 {
				g.m.tag("include-chain")
			}
			d.Includes = append(d.Includes, c.ID)
			g.m.tag("include")
		}
	}
	for i := 0; i < nFields; i++ {
		name := ""
		for try := 0; try < 50; try++ {
			n := g.pick(fieldPool)
			if !used[n] && !goUsed[exported(n)] {
				name = n
				break
			}
		}
		if name == "" {
			break
		}
		used[name] = true
		goUsed[exported(name)] = true
		f := Field{Name: name, Doc: g.pick(docPool)}
		mode := g.rng.Intn(10)
		if g.full {
			mode = []int{0, 6, 8, 9, 1}[i%5]
		}
		switch {
		case mode < 5: // required
			f.Ty = g.randTy(3, d.ID.NS, r, true)
			g.m.tag("field-required")
		case mode < 8:
			f.Optional = true
			f.Ty = g.randTy(3, d.ID.NS, r, false)
			g.m.tag("field-optional")
		case mode < 9:
			f.Ty = g.randTy(3, d.ID.NS, r, true)
			f.Default = new(string) // filled by fillDefaults
			g.m.tag("field-default")
		default:
			f.Optional = true
			f.Ty = g.randTy(3, d.ID.NS, r, false)
			f.Default = new(string)
			g.m.tag("field-optional-default")
		}
		d.Fields = append(d.Fields, f)
	}
}

func (g *gen) fillUnion(d *Decl) {
	d.HasNull = g.coin(0.4)
	if d.HasNull {
		g.m.tag("union-nullable")
	}
	explicit := g.coin(0.3)
	if explicit {
		g.m.tag("union-explicit-aliases")
	}
	n := 2 + g.rng.Intn(3)
	goNames := map[string]bool{}
	aliasPool := []string{"first", "second_one", "third", "x4", "Fifth"}
	for i := 0; i < n*4 && len(d.Members) < n; i++ {
		var t Ty
		if len(d.Members) == 0 {
			t = prim(g.pick(prims)) // at least one member a value can be built for without recursion
		} else {
			t = g.randTy(2, d.ID.NS, 1<<30, false)
		}
		alias := ""
		switch {
		case explicit:
			alias = aliasPool[len(d.Members)]
		case t.Prim != "":
			alias = pegasusKey[t.Prim]
		case t.Ref != nil:
			alias = t.Ref.Full()
			g.m.tag("union-alias-with-dots")
		case t.Arr != nil:
			alias = "array"
		default:
			alias = "map"
		}
		gn := exported(alias[strings.LastIndex(alias, ".")+1:])
		if goNames[gn] {
			continue
		}
		goNames[gn] = true
		d.Members = append(d.Members, Member{Ty: t, Alias: alias})
	}
}

// ---- values (default literals)

func jsonString(s string) string { return strconv.Quote(s) }

func (g *gen) value(t Ty, depth int) string {
	switch {
	case t.Prim != "":
		return g.primValue(t.Prim)
	case t.Arr != nil:
		if depth <= 0 || g.coin(0.3) {
			return []string{"[]", "[ ]"}[g.rng.Intn(2)]
		}
		n := 1 + g.rng.Intn(2)
		var xs []string
		for i := 0; i < n; i++ {
			xs = append(xs, g.value(*t.Arr, depth-1))
		}
		return "[" + strings.Join(xs, ",") + "]"
	case t.Map != nil:
		if depth <= 0 || g.coin(0.3) {
			return []string{"{}", "{ }"}[g.rng.Intn(2)]
		}
		return "{" + jsonString("k 1") + ":" + g.value(*t.Map, depth-1) + "}"
	}
	d := g.m.find(*t.Ref)
	if d == nil { // a type from the dependency manifest
		return "{\"rel\":\"self\",\"href\":\"h\",\"type\":\"t\"}"
	}
	switch d.Kind {
	case "enum":
		return jsonString(g.pick(d.Symbols))
	case "fixed":
		return jsonString(strings.Repeat("z", d.Size))
	case "typeref":
		return g.primValue(d.Prim)
	case "union":
		for _, m := range d.Members {
			if m.Ty.Prim != "" {
				return "{" + jsonString(m.Alias) + ":" + g.primValue(m.Ty.Prim) + "}"
			}
		}
		panic("c12: union without a primitive member")
	case "record":
		var kv []string
		for _, f := range g.allFields(d.ID, map[Ident]bool{}) {
			if f.Optional || f.Default != nil {
				if !(depth > 0 && g.coin(0.3)) {
					continue
				}
			}
			kv = append(kv, jsonString(f.Name)+":"+g.value(f.Ty, depth-1))
		}
		return "{" + strings.Join(kv, ",") + "}"
	}
	panic("c12: no value for " + d.Kind)
}

func (g *gen) primValue(p string) string {
	switch p {
	case "int32":
		return g.pick([]string{"0", "-1", "2147483647", "42"})
	case "int64":
		return g.pick([]string{"0", "9007199254740993", "-5"})
	case "float32":
		return g.pick([]string{"0.5", "1", "-2.25"})
	case "float64":
		return g.pick([]string{"3.14", "1e10", "-0.0"})
	case "bool":
		return g.pick([]string{"true", "false"})
	case "string":
		return g.pick([]string{`""`, `"a\"b"`, `"x y"`, `"é\n"`, "\"`\""})
	case "bytes":
		return g.pick([]string{`""`, `"ab"`, `"\u0001ÿ"`})
	}
	panic("c12: prim " + p)
}

func (g *gen) fillDefaults() {
	for _, d := range g.m.Decls {
		for i := range d.Fields {
			if d.Fields[i].Default != nil {
				v := g.value(d.Fields[i].Ty, 2)
				d.Fields[i].Default = &v
			}
		}
	}
	for _, r := range g.m.Resources {
		for mi := range r.Methods {
			for i := range r.Methods[mi].Params {
				p := &r.Methods[mi].Params[i]
				if p.Default != nil {
					v := g.value(p.Ty, 2)
					p.Default = &v
				}
			}
		}
	}
}

// ---- resources

func (g *gen) params(n int, allowDefault bool) []Field {
	var out []Field
	used := map[string]bool{}
	for len(out) < n {
		name := g.pick(paramPool)
		if used[name] {
			continue
		}
		used[name] = true
		f := Field{Name: name, Doc: g.pick(docPool), Ty: g.randTy(2, "", 1<<30, false)}
		switch x := g.rng.Intn(10); {
		case x < 4:
		case x < 8 || !allowDefault:
			f.Optional = true
		default:
			f.Default = new(string)
			g.m.tag("param-default")
		}
		out = append(out, f)
	}
	return out
}

// recordVisibleFrom: a record the namespace may refer to under the manifest's namespace discipline.
func (g *gen) recordVisibleFrom(ns string) *Decl {
	var rs []*Decl
	for _, d := range g.refCandidates(ns, 1<<30, false) {
		if d.Kind == "record" {
			rs = append(rs, d)
		}
	}
	if len(rs) == 0 {
		return g.someRecord()
	}
	return rs[g.rng.Intn(len(rs))]
}

func (g *gen) someRecord() *Decl {
	rs := g.declsOf("record")
	return rs[g.rng.Intn(len(rs))]
}

func (g *gen) keyTyperef(ns string) Ident {
	var c []*Decl
	for _, d := range g.declsOf("typeref") {
		if !d.Custom && (d.Prim == "int32" || d.Prim == "int64" || d.Prim == "string") {
			c = append(c, d)
		}
	}
	if len(c) > 0 {
		return c[g.rng.Intn(len(c))].ID
	}
	d := g.shell("typeref", ns, "KeyRef")
	d.Prim = g.pick([]string{"int32", "int64", "string"})
	return d.ID
}

func (g *gen) restMethods(r *Resource, collection bool) {
	add := func(name string, onEntity bool, mut func(*Method)) {
		if !g.chance(0.6) {
			return
		}
		m := Method{Type: "REST_METHOD", Name: name, OnEntity: onEntity}
		if g.coin(0.3) {
			m.Params = g.params(1+g.rng.Intn(2), true)
			g.m.tag("rest-method-query-params")
		}
		if mut != nil {
			mut(&m)
		}
		g.m.tag("method:" + name)
		r.Methods = append(r.Methods, m)
	}
	retEnt := func(tag string) func(*Method) {
		return func(m *Method) {
			if g.coin(0.5) {
				m.ReturnEntity = true
				g.m.tag(tag + "+returnEntity")
			}
		}
	}
	add("get", collection, nil)
	add("update", collection, nil)
	add("partial_update", collection, retEnt("partial_update"))
	add("delete", collection, nil)
	if !collection {
		return
	}
	add("create", false, retEnt("create"))
	add("get_all", false, func(m *Method) {
		if g.coin(0.5) {
			m.Paging = true
			g.m.tag("get_all+paging")
		}
	})
	add("batch_get", false, nil)
	add("batch_create", false, retEnt("batch_create"))
	add("batch_update", false, nil)
	add("batch_partial_update", false, nil)
	add("batch_delete", false, nil)
}

func (g *gen) actions(r *Resource, entityLevel bool) {
	n := g.rng.Intn(3)
	if g.full {
		n = 4
	}
	if r.Schema == nil && n == 0 {
		n = 1
	}
	used := map[string]bool{}
	for i := 0; i < n; i++ {
		name := g.pick(actionPool)
		if used[name] {
			continue
		}
		used[name] = true
		m := Method{Type: "ACTION", Name: name, Doc: g.pick(docPool), OnEntity: entityLevel && g.coin(0.5)}
		if g.coin(0.6) {
			// action parameters never carry defaults in the family: see probe action-param-default
			m.Params = g.params(1+g.rng.Intn(3), false)
			g.m.tag("action-params")
		}
		if g.coin(0.75) {
			t := g.randTy(2, "", 1<<30, false)
			m.Return = &t
			g.m.tag("action-return:" + tyClass(g.m, t))
		} else {
			g.m.tag("action-return:void")
		}
		if m.OnEntity {
			g.m.tag("action-on-entity")
		}
		r.Methods = append(r.Methods, m)
	}
}

func (g *gen) finders(r *Resource) {
	n := g.rng.Intn(3)
	if g.full {
		n = 3
	}
	used := map[string]bool{}
	for i := 0; i < n; i++ {
		name := g.pick(finderPool)
		if used[name] {
			continue
		}
		used[name] = true
		m := Method{Type: "FINDER", Name: name, Doc: g.pick(docPool), Return: r.Schema}
		if g.coin(0.6) {
			m.Params = g.params(1+g.rng.Intn(2), true)
			g.m.tag("finder-params")
		}
		if g.coin(0.5) {
			m.Paging = true
			g.m.tag("finder-paging")
		}
		if g.coin(0.4) {
			t := ref(g.someRecord().ID)
			m.Metadata = &t
			g.m.tag("finder-metadata")
		}
		r.Methods = append(r.Methods, m)
	}
}

func (g *gen) annotations(r *Resource) {
	if r.Schema == nil || !g.chance(0.5) {
		return
	}
	d := g.m.find(*r.Schema.Ref)
	var paths []string
	for _, f := range d.Fields {
		paths = append(paths, f.Name)
		if f.Ty.Ref != nil {
			if fd := g.m.find(*f.Ty.Ref); fd != nil && fd.Kind == "record" && len(fd.Fields) > 0 {
				paths = append(paths, f.Name+"/"+fd.Fields[0].Name)
			}
		}
	}
	g.rng.Shuffle(len(paths), func(i, j int) { paths[i], paths[j] = paths[j], paths[i] })
	for i, p := range paths {
		if i >= 3 {
			break
		}
		// a directive and one of its prefixes are never both listed
		clash := false
		for _, q := range append(append([]string{}, r.ReadOnly...), r.CreateOnly...) {
			if strings.HasPrefix(p, q+"/") || strings.HasPrefix(q, p+"/") || p == q {
				clash = true
			}
		}
		if clash {
			continue
		}
		if i%2 == 0 {
			r.ReadOnly = append(r.ReadOnly, p)
			g.m.tag("readOnly")
		} else {
			r.CreateOnly = append(r.CreateOnly, p)
			g.m.tag("createOnly")
		}
	}
}

// resource builds one resource of the given kind below the parent segments.
func (g *gen) resource(kind, dataNS, parentNS string, parent []Segment, name string, depth int) {
	r := &Resource{NS: parentNS + "." + name, Doc: g.pick(docPool)}
	seg := Segment{Name: name}
	keyName := name + "Id"
	switch kind {
	case "collection-prim":
		seg.Key = &PathKey{Name: keyName, Ty: prim(g.pick([]string{"int32", "int64", "string"}))}
	case "collection-typeref":
		seg.Key = &PathKey{Name: keyName, Ty: ref(g.keyTyperef(dataNS))}
	case "collection-complex":
		ck := g.shell("complexKey", dataNS, exported(name)+"ComplexKey")
		ck.Key, ck.Params = g.recordVisibleFrom(dataNS).ID, g.recordVisibleFrom(dataNS).ID
		seg.Key = &PathKey{Name: keyName, Ty: ref(ck.ID)}
	}
	g.m.tag("resource:" + kind)
	if len(parent) > 0 {
		pk := "simple"
		if parent[len(parent)-1].Key != nil {
			pk = "collection"
		}
		g.m.tag("sub-resource-under-" + pk)
	}
	r.Segments = append(append([]Segment{}, parent...), seg)
	if kind != "actionSet" {
		t := ref(g.someRecord().ID)
		r.Schema = &t
		g.restMethods(r, seg.Key != nil)
		if seg.Key != nil {
			g.finders(r)
		}
		g.annotations(r)
	}
	g.actions(r, seg.Key != nil)
	if len(r.Methods) == 0 {
		r.Methods = append(r.Methods, Method{Type: "REST_METHOD", Name: "get", OnEntity: seg.Key != nil})
	}
	g.m.Resources = append(g.m.Resources, r)
	if kind != "actionSet" && depth < 2 && g.chance(0.45) {
		sub := []string{"collection-prim", "simple", "collection-typeref"}[g.rng.Intn(3)]
		if g.full {
			sub = []string{"collection-prim", "simple"}[depth%2]
		}
		g.resource(sub, dataNS, r.NS, r.Segments, "sub"+exported(g.pick(resPool))+strconv.Itoa(depth), depth+1)
		if g.full && depth == 0 {
			g.resource("simple", dataNS, r.NS, r.Segments, "subSimple", depth+1)
		}
	}
}

func tyClass(m *Manifest, t Ty) string {
	switch {
	case t.Prim != "":
		return "prim"
	case t.Arr != nil:
		return "array"
	case t.Map != nil:
		return "map"
	}
	if d := m.find(*t.Ref); d != nil {
		return d.Kind
	}
	return "external"
}

// ---- whole manifests

// Generate builds one manifest. full: the coverage manifest (every alternative at least once).
func Generate(rng *rand.Rand, full bool) *Manifest { return generate(rng, full, false) }

// GenerateThird builds one manifest of the same grammar whose namespace graph is a DAG plus one cycle that is
// closed through a third type (see thirdtype.go).
func GenerateThird(rng *rand.Rand) *Manifest { return generate(rng, false, true) }

func generate(rng *rand.Rand, full, third bool) *Manifest {
	g := &gen{rng: rng, m: &Manifest{PackageRoot: packageRoot}, rank: map[Ident]int{}, full: full}
	nNS := 2 + rng.Intn(3)
	if full {
		nNS = 4
	}
	for _, k := range rng.Perm(len(nsPool))[:nNS] {
		g.nss = append(g.nss, nsPool[k])
	}
	if full {
		g.nss = []string{"alpha", "alpha.beta", "delta.internal.xtra", "zetaCase"}
	}
	switch x := rng.Intn(100); {
	case third:
		g.third = true
	case full || x < 45:
		g.clean = true
	case x < 65:
		g.wild = true
		g.m.tag("wild-references")
	}
	clash := full || rng.Intn(100) < 60
	// shells
	for ni, ns := range g.nss {
		kinds := []string{"record", "record", "enum", "typeref"}
		for _, k := range []string{"record", "record", "fixed", "typeref", "union", "union", "enum"} {
			if g.chance(0.5) {
				kinds = append(kinds, k)
			}
		}
		rng.Shuffle(len(kinds), func(i, j int) { kinds[i], kinds[j] = kinds[j], kinds[i] })
		names := map[string]bool{}
		for ki, k := range kinds {
			name := ""
			if clash && ni < 2 && ki == 0 {
				name = "Item" // the same type name in two namespaces
				kinds[0], k = "record", "record"
				g.m.tag("same-name-two-namespaces")
			}
			for name == "" || names[name] {
				name = g.pick(typePool)
			}
			names[name] = true
			d := g.shell(k, ns, name)
			switch k {
			case "enum":
				n := 1 + rng.Intn(5)
				seen := map[string]bool{}
				for len(d.Symbols) < n {
					s := g.pick(symbolPool)
					if !seen[s] {
						seen[s] = true
						d.Symbols = append(d.Symbols, s)
					}
				}
				if full {
					d.Symbols = append([]string{}, symbolPool...)
				}
				g.m.tag("enum")
			case "fixed":
				d.Size = 1 + rng.Intn(16)
				g.m.tag("fixed")
			case "typeref":
				d.Prim = prims[(ni*3+ki+rng.Intn(7))%7]
				if full {
					d.Prim = prims[(len(g.m.Decls))%7]
				}
				if g.coin(0.15) || (full && ni == 0) {
					g.nCustom++
					d.Custom = true
					d.ID.Name = "Custom" + exported(d.Prim) + strconv.Itoa(g.nCustom)
					g.rank[d.ID] = len(g.m.Decls) - 1
					g.m.tag("custom-typeref")
				}
				g.m.tag("typeref:" + d.Prim)
			}
		}
	}
	if full { // a typeref over every primitive
		for _, p := range prims {
			d := g.shell("typeref", g.nss[1], "Ref"+exported(p))
			d.Prim = p
			g.m.tag("typeref:" + p)
		}
		// … and a custom typeref over every primitive, all in ONE namespace: whatever the generator
		// emits once per package for them (init_custom_typerefs) must not depend on map order
		for _, p := range prims {
			g.nCustom++
			d := g.shell("typeref", g.nss[1], "Custom"+exported(p)+strconv.Itoa(g.nCustom))
			d.Prim = p
			d.Custom = true
			g.m.tag("custom-typeref")
		}
	}
	// bodies
	for _, d := range g.m.Decls {
		switch d.Kind {
		case "record":
			n := rng.Intn(6) // 0: an empty record
			if full {
				n = 5
			}
			if n == 0 {
				g.m.tag("empty-record")
			}
			g.fillRecord(d, n)
		case "union":
			g.fillUnion(d)
		}
	}
	if g.wild {
		g.forceCycle()
	}
	if full { // one field of every type constructor in every mode
		d := g.shell("record", g.nss[len(g.nss)-1], "Everything")
		i := 0
		add := func(t Ty) {
			for mode := 0; mode < 3; mode++ {
				f := Field{Name: fmt.Sprintf("f%d", i), Ty: t}
				i++
				switch mode {
				case 1:
					f.Optional = true
				case 2:
					f.Default = new(string)
				}
				d.Fields = append(d.Fields, f)
			}
		}
		for _, p := range prims {
			add(prim(p))
			add(arr(prim(p)))
			add(mapOf(prim(p)))
		}
		for _, o := range g.m.Decls[:len(g.m.Decls)-1] {
			if o.Kind == "complexKey" {
				continue
			}
			add(ref(o.ID))
			add(arr(ref(o.ID)))
			add(mapOf(arr(ref(o.ID))))
		}
		g.m.tag("every-constructor-in-every-mode")
	}
	if g.clean {
		g.cleanCycle()
	}
	if g.third {
		g.thirdCycle()
	}
	// resources
	kinds := []string{"collection-prim", "collection-typeref", "collection-complex", "simple", "actionSet"}
	nRes := 2 + rng.Intn(3)
	if full {
		nRes = len(kinds)
	}
	off := rng.Intn(len(kinds))
	usedNames := map[string]bool{}
	for i := 0; i < nRes; i++ {
		name := g.pick(resPool)
		for usedNames[name] {
			name = g.pick(resPool)
		}
		usedNames[name] = true
		ns := g.nss[rng.Intn(len(g.nss))]
		g.resource(kinds[(off+i)%len(kinds)], ns, ns, nil, name, 0)
	}
	g.fillDefaults()
	g.noteCycles()
	return g.m
}

// cleanCycle adds, to a manifest whose namespaces otherwise form a DAG, two records that refer to each other
// across the first two namespaces and to existing types, and that nothing else refers to: the generator has
// to move them and everything they reach into the conflict-resolution package (renaming equal names), and
// which types those are does not depend on the order in which it walks its registry.
func (g *gen) cleanCycle() {
	lo, hi := g.nss[0], g.nss[1]
	a, b := g.shell("record", lo, "CycA"), g.shell("record", hi, "CycB")
	g.core = map[Ident]bool{a.ID: true, b.ID: true}
	for _, d := range []*Decl{a, b} {
		n := 1 + g.rng.Intn(3)
		for i := 0; i < n; i++ {
			opt := g.coin(0.5)
			d.Fields = append(d.Fields, Field{Name: fmt.Sprintf("reach%d", i), Optional: opt,
				Ty: g.randTy(2, d.ID.NS, g.rank[d.ID], !opt)})
		}
		// reach the equally named types of both namespaces, so that the renaming is exercised
		if it := g.m.find(Ident{d.ID.NS, "Item"}); it != nil {
			d.Fields = append(d.Fields, Field{Name: "mine", Ty: arr(ref(it.ID))})
			g.m.tag("name-clash-reached-by-cycle")
		}
	}
	a.Fields = append(a.Fields, Field{Name: "cycOut", Ty: ref(b.ID), Optional: true})
	b.Fields = append(b.Fields, Field{Name: "cycBack", Ty: mapOf(ref(a.ID))})
	g.m.tag("closed-two-namespace-cycle")
}

// forceCycle adds a reference cycle between the first two namespaces (through optional fields), so
// that cyclic manifests really contain a package cycle to be remediated.
func (g *gen) forceCycle() {
	var a, b *Decl
	for _, d := range g.declsOf("record") {
		if d.ID.NS == g.nss[0] && a == nil {
			a = d
		}
		if d.ID.NS == g.nss[1] && b == nil {
			b = d
		}
	}
	if a == nil || b == nil {
		return
	}
	a.Fields = append(a.Fields, Field{Name: "cycOut", Ty: ref(b.ID), Optional: true})
	b.Fields = append(b.Fields, Field{Name: "cycBack", Ty: arr(ref(a.ID))})
}

// noteCycles tags the manifest when its namespace graph has a cycle (computed here, independently).
func (g *gen) noteCycles() {
	edges := map[string]map[string]bool{}
	var walk func(from string, t Ty)
	walk = func(from string, t Ty) {
		switch {
		case t.Ref != nil:
			if t.Ref.NS != from && g.m.find(*t.Ref) != nil {
				if edges[from] == nil {
					edges[from] = map[string]bool{}
				}
				edges[from][t.Ref.NS] = true
			}
		case t.Arr != nil:
			walk(from, *t.Arr)
		case t.Map != nil:
			walk(from, *t.Map)
		}
	}
	for _, d := range g.m.Decls {
		for _, i := range d.Includes {
			walk(d.ID.NS, ref(i))
		}
		for _, f := range d.Fields {
			walk(d.ID.NS, f.Ty)
		}
		for _, m := range d.Members {
			walk(d.ID.NS, m.Ty)
		}
		if d.Kind == "complexKey" {
			walk(d.ID.NS, ref(d.Key))
			walk(d.ID.NS, ref(d.Params))
		}
	}
	// cycle detection by repeated removal of sink-free nodes
	nodes := map[string]bool{}
	for a, bs := range edges {
		nodes[a] = true
		for b := range bs {
			nodes[b] = true
		}
	}
	for changed := true; changed; {
		changed = false
		for n := range nodes {
			out := 0
			for b := range edges[n] {
				if nodes[b] {
					out++
				}
			}
			if out == 0 {
				delete(nodes, n)
				changed = true
			}
		}
	}
	if len(nodes) > 0 {
		g.m.tag("namespace-cycle")
		names := map[string][]string{}
		for _, d := range g.m.Decls {
			if nodes[d.ID.NS] {
				names[strings.ToLower(d.ID.Name)] = append(names[strings.ToLower(d.ID.Name)], d.ID.NS)
			}
		}
		for _, nss := range names {
			sort.Strings(nss)
			if len(nss) > 1 {
				g.m.tag("name-clash-inside-cycle")
			}
		}
	}
}
