// Package c12: translation validation of the go-restli code generator (property C12).
//
// A grammar-based generator derives a family of well-formed manifests from VERIF_SEED; each is fed
// to the REAL generator (a small binary built from the repository's current tree) in several fresh
// processes; the output trees are compared byte for byte, then compiled and vetted in a scratch
// module that `replace`s the repository module. The bindings checked into the repository are
// regenerated from the checked-in manifest and compared. utils.ExportedIdentifier is compared with
// its Lean model (op `exportid`).
package c12

import (
	"encoding/json"
	"fmt"
	"sort"
	"strings"
)

// ---- the schema/resource model the grammar produces (independent of the generator's own types)

type Ident struct{ NS, Name string }

func (i Ident) Full() string { return i.NS + "." + i.Name }

type Ty struct {
	Prim string // int32 int64 float32 float64 bool string bytes
	Ref  *Ident
	Arr  *Ty
	Map  *Ty
}

func prim(p string) Ty    { return Ty{Prim: p} }
func ref(i Ident) Ty      { return Ty{Ref: &i} }
func arr(t Ty) Ty         { return Ty{Arr: &t} }
func mapOf(t Ty) Ty       { return Ty{Map: &t} }
func (t Ty) isZero() bool { return t.Prim == "" && t.Ref == nil && t.Arr == nil && t.Map == nil }

type Field struct {
	Name     string
	Doc      string
	Ty       Ty
	Optional bool
	Default  *string // raw JSON
}

type Member struct {
	Ty    Ty
	Alias string
}

type Decl struct {
	Kind string // record enum fixed typeref union complexKey
	ID   Ident
	Doc  string

	Includes []Ident // record
	Fields   []Field // record
	Symbols  []string
	Size     int
	Prim     string // typeref
	Custom   bool   // typeref
	HasNull  bool   // union
	Members  []Member
	Key      Ident // complexKey
	Params   Ident // complexKey
}

type PathKey struct {
	Name string
	Ty   Ty
}

type Segment struct {
	Name string
	Key  *PathKey
}

type Method struct {
	Type         string // REST_METHOD ACTION FINDER
	Name         string
	Doc          string
	OnEntity     bool
	Params       []Field
	Paging       bool
	Return       *Ty
	Metadata     *Ty
	ReturnEntity bool
}

type Resource struct {
	NS         string
	Doc        string
	Segments   []Segment
	Schema     *Ty
	Methods    []Method
	ReadOnly   []string
	CreateOnly []string
}

type Manifest struct {
	PackageRoot string
	Decls       []*Decl
	Resources   []*Resource
	Tags        map[string]bool // features present (for the evidence distribution and the op line)
	Probe       string          // non-empty: a known-defect probe, not part of the well-behaved family
}

func (m *Manifest) find(id Ident) *Decl {
	for _, d := range m.Decls {
		if d.ID == id {
			return d
		}
	}
	return nil
}

func (m *Manifest) tag(t string) {
	if m.Tags == nil {
		m.Tags = map[string]bool{}
	}
	m.Tags[t] = true
}

func (m *Manifest) tagList() []string {
	ts := make([]string, 0, len(m.Tags))
	for t := range m.Tags {
		ts = append(ts, t)
	}
	sort.Strings(ts)
	return ts
}

// ---- emission in the v2 generator's input format (cmd.GoRestliManifest)

func tyJSON(t Ty) map[string]any {
	switch {
	case t.Prim != "":
		return map[string]any{"primitive": t.Prim}
	case t.Ref != nil:
		return map[string]any{"reference": map[string]any{"name": t.Ref.Name, "namespace": t.Ref.NS}}
	case t.Arr != nil:
		return map[string]any{"array": tyJSON(*t.Arr)}
	case t.Map != nil:
		return map[string]any{"map": tyJSON(*t.Map)}
	}
	panic("c12: empty type")
}

func fieldJSON(f Field) map[string]any {
	fj := map[string]any{"name": f.Name, "doc": f.Doc, "type": tyJSON(f.Ty), "isOptional": f.Optional}
	if f.Default != nil {
		fj["defaultValue"] = *f.Default
	}
	return fj
}

func identJSON(i Ident) map[string]any { return map[string]any{"name": i.Name, "namespace": i.NS} }

func sourceFile(ns, name string) string {
	return "c12/" + strings.ReplaceAll(ns, ".", "/") + "/" + name + ".pdl"
}

func declJSON(d *Decl) map[string]any {
	base := map[string]any{"name": d.ID.Name, "namespace": d.ID.NS, "sourceFile": sourceFile(d.ID.NS, d.ID.Name), "doc": d.Doc}
	switch d.Kind {
	case "enum":
		base["Symbols"] = d.Symbols
		docs := map[string]string{}
		if len(d.Symbols) > 0 && d.Doc != "" {
			docs[d.Symbols[0]] = "first symbol of " + d.ID.Name
		}
		base["SymbolToDoc"] = docs
		return map[string]any{"enum": base}
	case "fixed":
		base["Size"] = d.Size
		return map[string]any{"fixed": base}
	case "typeref":
		base["type"] = d.Prim
		base["isCustom"] = d.Custom
		return map[string]any{"typeref": base}
	case "record":
		incs := []any{}
		for _, i := range d.Includes {
			incs = append(incs, identJSON(i))
		}
		base["includes"] = incs
		fs := []any{}
		for _, f := range d.Fields {
			fs = append(fs, fieldJSON(f))
		}
		base["fields"] = fs
		return map[string]any{"record": base}
	case "union":
		ms := []any{}
		for _, m := range d.Members {
			ms = append(ms, map[string]any{"Type": tyJSON(m.Ty), "Alias": m.Alias})
		}
		base["Union"] = map[string]any{"HasNull": d.HasNull, "Members": ms}
		return map[string]any{"standaloneUnion": base}
	case "complexKey":
		base["Key"] = identJSON(d.Key)
		base["Params"] = identJSON(d.Params)
		return map[string]any{"complexKey": base}
	}
	panic("c12: unknown decl kind " + d.Kind)
}

func resourceJSON(r *Resource) map[string]any {
	segs := []any{}
	for _, s := range r.Segments {
		sj := map[string]any{"resourceName": s.Name, "pathKey": nil}
		if s.Key != nil {
			sj["pathKey"] = map[string]any{"name": s.Key.Name, "type": tyJSON(s.Key.Ty)}
		}
		segs = append(segs, sj)
	}
	ms := []any{}
	for _, m := range r.Methods {
		ps := []any{}
		for _, p := range m.Params {
			ps = append(ps, fieldJSON(p))
		}
		mj := map[string]any{"methodType": m.Type, "name": m.Name, "doc": m.Doc, "onEntity": m.OnEntity, "params": ps,
			"isPagingSupported": m.Paging, "returnEntity": m.ReturnEntity, "return": nil, "metadata": nil}
		if m.Return != nil {
			mj["return"] = tyJSON(*m.Return)
		}
		if m.Metadata != nil {
			mj["metadata"] = tyJSON(*m.Metadata)
		}
		ms = append(ms, mj)
	}
	last := r.Segments[len(r.Segments)-1].Name
	rj := map[string]any{"namespace": r.NS, "doc": r.Doc, "sourceFile": sourceFile(r.NS, last+".restspec"),
		"resourcePathSegments": segs, "resourceSchema": nil, "methods": ms,
		"readOnlyFields": orEmpty(r.ReadOnly), "createOnlyFields": orEmpty(r.CreateOnly)}
	if r.Schema != nil {
		rj["resourceSchema"] = tyJSON(*r.Schema)
	}
	return rj
}

func orEmpty(s []string) []string {
	if s == nil {
		return []string{}
	}
	return s
}

// JSON renders the manifest; encoding/json sorts map keys, so the bytes are a function of the model.
func (m *Manifest) JSON() []byte {
	dts := []any{}
	for _, d := range m.Decls {
		dts = append(dts, declJSON(d))
	}
	rs := []any{}
	for _, r := range m.Resources {
		rs = append(rs, resourceJSON(r))
	}
	b, err := json.MarshalIndent(map[string]any{"packageRoot": m.PackageRoot, "inputDataTypes": dts,
		"dependencyDataTypes": []any{}, "resources": rs}, "", " ")
	if err != nil {
		panic(err)
	}
	return b
}

// Summary is a one-line description used for evidence samples.
func (m *Manifest) Summary() string {
	kinds := map[string]int{}
	nss := map[string]bool{}
	for _, d := range m.Decls {
		kinds[d.Kind]++
		nss[d.ID.NS] = true
	}
	methods := 0
	for _, r := range m.Resources {
		methods += len(r.Methods)
	}
	ks := []string{}
	for _, k := range []string{"record", "enum", "fixed", "typeref", "union", "complexKey"} {
		ks = append(ks, fmt.Sprintf("%s=%d", k, kinds[k]))
	}
	return fmt.Sprintf("namespaces=%d %s resources=%d methods=%d tags=%s", len(nss), strings.Join(ks, " "),
		len(m.Resources), methods, strings.Join(m.tagList(), ","))
}
