//go:build rootmod

package c12

import "github.com/PapaCharlie/go-restli/v2/codegen/utils"

// The root module's generator (cmd.GenerateCode(specBytes, dir)) consumes the Java parser's
// parsed-specs document, a different input language (flattened includes with `includedFrom`, no
// manifests, no package roots); the manifest family is not translated to it. Only the
// ExportedIdentifier correspondence is served for the root module.
const (
	repoSubdir       = ""
	modulePath       = "github.com/PapaCharlie/go-restli/v2"
	moduleVersion    = "v2.0.0"
	checkedInDir     = "restlidata"
	manifestFileName = "parsed-specs.gr.json"
	generatedSuffix  = utils.GeneratedFileSuffix
	servesGenerator  = false
	genMainSrc       = ""
	warmSrc          = ""
	customStub       = ""
)

func exportedIdentifier(s string) string { return utils.ExportedIdentifier(s) }
