//go:build !rootmod

package c12

import "github.com/PapaCharlie/go-restli/v2/codegen/utils"

const (
	repoSubdir       = "v2"
	modulePath       = "github.com/PapaCharlie/go-restli/v2"
	moduleVersion    = "v2.0.0"
	checkedInDir     = "restlidata/generated"
	manifestFileName = utils.ManifestFile
	generatedSuffix  = utils.GeneratedFileSuffix
	servesGenerator  = true
)

// exportedIdentifier is the implementation under test for the correspondence leg.
func exportedIdentifier(s string) string { return utils.ExportedIdentifier(s) }

// genMainSrc: the generator driver, compiled against the repository's current tree at run time.
// usage: c12gen <out-dir> <manifest.json> [dependency-manifest.json ...]
const genMainSrc = `package main

import (
	"fmt"
	"io"
	"log"
	"os"

	"github.com/PapaCharlie/go-restli/v2/cmd"
)

func main() {
	if len(os.Args) < 3 {
		fmt.Fprintln(os.Stderr, "usage: c12gen <out-dir> <manifest> [dependency manifests...]")
		os.Exit(2)
	}
	log.SetOutput(io.Discard)
	var ms []*cmd.GoRestliManifest
	for _, p := range append(append([]string{}, os.Args[3:]...), os.Args[2]) {
		b, err := os.ReadFile(p)
		check(err)
		m, err := cmd.ReadManifest(b)
		check(err)
		ms = append(ms, m)
	}
	check(os.MkdirAll(os.Args[1], 0o755))
	check(cmd.GenerateCode(os.Args[1], ms, false))
}

func check(err error) {
	if err != nil {
		fmt.Fprintln(os.Stderr, "c12gen:", err)
		os.Exit(1)
	}
}
`

const warmSrc = `package warm

import (
	_ "github.com/PapaCharlie/go-restli/v2/fnv1a"
	_ "github.com/PapaCharlie/go-restli/v2/restli"
	_ "github.com/PapaCharlie/go-restli/v2/restli/batchkeyset"
	_ "github.com/PapaCharlie/go-restli/v2/restli/equals"
	_ "github.com/PapaCharlie/go-restli/v2/restli/patch"
	_ "github.com/PapaCharlie/go-restli/v2/restlicodec"
	_ "github.com/PapaCharlie/go-restli/v2/restlidata"
	_ "github.com/PapaCharlie/go-restli/v2/restlidata/generated/com/linkedin/restli/common"
)
`

// customStub: package, type name, Go type of the underlying primitive, equality expression
const customStub = `package %[1]s

import "github.com/PapaCharlie/go-restli/v2/fnv1a"

// hand-written custom type for the custom typeref %[2]s
type %[2]s struct{ V %[3]s }

func Marshal%[2]s(in %[2]s) (out %[3]s, err error)   { return in.V, nil }
func Unmarshal%[2]s(in %[3]s) (out %[2]s, err error) { return %[2]s{V: in}, nil }
func ComputeHash%[2]s(in %[2]s) fnv1a.Hash           { return fnv1a.NewHash() }
func Equals%[2]s(left, right %[2]s) bool             { return %[4]s }
`
