package c12

import (
	"bytes"
	"context"
	"crypto/sha256"
	"encoding/hex"
	"encoding/json"
	"fmt"
	"io/fs"
	"os"
	"os/exec"
	"path/filepath"
	"regexp"
	"sort"
	"strings"
	"time"
)

// env is the per-run scratch set-up: one generator binary built from the repository's CURRENT tree.
type env struct {
	repo     string // VERIF_REPO (default /repo)
	repoMod  string // directory of the module under test
	scratch  string
	genBin   string
	dep      string // the checked-in manifest, given to the generator as a dependency manifest
	goEnv    []string
	goCache  string // the Go build cache in use (failures that mention it are not about the generated code)
	goRoot   string
	goSum    []byte
	runs     int
	setupErr string
}

func repoDir() string {
	if r := os.Getenv("VERIF_REPO"); r != "" {
		return r
	}
	return "/repo"
}

func goModText(module string, repoMod string) string {
	return "module " + module + "\n\ngo 1.21\n\nrequire " + modulePath + " " + moduleVersion + "\n\nreplace " + modulePath + " => " + repoMod + "\n"
}

func (e *env) run(dir string, timeout time.Duration, extraEnv []string, name string, args ...string) (string, error) {
	ctx, cancel := context.WithTimeout(context.Background(), timeout)
	defer cancel()
	c := exec.CommandContext(ctx, name, args...)
	c.Dir = dir
	c.Env = append(append([]string{}, e.goEnv...), extraEnv...)
	var out bytes.Buffer
	c.Stdout, c.Stderr = &out, &out
	err := c.Run()
	if ctx.Err() != nil {
		return out.String(), fmt.Errorf("timeout after %s", timeout)
	}
	return out.String(), err
}

// goTool runs the go command in dir. A failure whose output names the build cache directory or places an error in
// the standard library (entries vanish when the cache is dropped or trimmed by somebody else while we build) or in a
// source file of the repository module itself (someone is rewriting the shared tree at this moment) says nothing
// about the generated code: such a run is
// repeated a few times before its verdict is taken. A compile error of generated code names neither.
func (e *env) goTool(dir string, args ...string) (string, error) {
	for attempt := 0; ; attempt++ {
		txt, err := e.run(dir, 10*time.Minute, nil, "go", args...)
		if err == nil || attempt == 5 || !e.environmental(txt) {
			return txt, err
		}
		time.Sleep([]time.Duration{5, 10, 20, 30, 30}[attempt] * time.Second) // dropping a 12 GB cache takes a while
	}
}

func (e *env) environmental(out string) bool {
	if e.goCache != "" && strings.Contains(out, e.goCache+"/") || strings.Contains(out, " is not in std") {
		return true
	}
	for _, l := range strings.Split(out, "\n") {
		l = strings.TrimSpace(l)
		if strings.HasPrefix(l, e.repoMod+"/") || e.goRoot != "" && strings.HasPrefix(l, e.goRoot+"/") {
			return true
		}
	}
	return false
}

func newEnv() (*env, error) {
	e := &env{repo: repoDir()}
	e.repoMod = filepath.Join(e.repo, repoSubdir)
	e.dep = filepath.Join(e.repoMod, checkedInDir, manifestFileName)
	var err error
	e.scratch, err = os.MkdirTemp("", "verif-c12-")
	if err != nil {
		return nil, err
	}
	for _, kv := range os.Environ() {
		k := kv[:strings.Index(kv+"=", "=")]
		switch k {
		case "GOFLAGS", "GOPROXY", "GOSUMDB", "GOTOOLCHAIN", "GOMAXPROCS", "GOMEMLIMIT", "GOGC", "GODEBUG":
			continue
		}
		e.goEnv = append(e.goEnv, kv)
	}
	// -trimpath: the scratch modules live under a new temporary directory on every run; without it
	// every run would add its own copy of every generated package to the build cache
	e.goEnv = append(e.goEnv, "GOFLAGS=-mod=mod -trimpath", "GOPROXY=off", "GOSUMDB=off", "GOTOOLCHAIN=local", "CGO_ENABLED=0")
	if out, err := e.run(e.scratch, time.Minute, nil, "go", "env", "GOCACHE"); err == nil {
		e.goCache = strings.TrimRight(strings.TrimSpace(out), "/")
	}
	if out, err := e.run(e.scratch, time.Minute, nil, "go", "env", "GOROOT"); err == nil {
		e.goRoot = strings.TrimRight(strings.TrimSpace(out), "/")
	}
	e.goSum, err = os.ReadFile(filepath.Join(e.repoMod, "go.sum"))
	if err != nil {
		return e, err
	}
	// the generator driver: reads a manifest path, writes into an output directory
	gb := filepath.Join(e.scratch, "genbin")
	if err = os.MkdirAll(gb, 0o755); err != nil {
		return e, err
	}
	must(os.WriteFile(filepath.Join(gb, "go.mod"), []byte(goModText("c12gen", e.repoMod)), 0o644))
	must(os.WriteFile(filepath.Join(gb, "go.sum"), e.goSum, 0o644))
	must(os.WriteFile(filepath.Join(gb, "main.go"), []byte(genMainSrc), 0o644))
	e.genBin = filepath.Join(e.scratch, "c12gen")
	if out, err := e.goTool(gb, "build", "-o", e.genBin, "."); err != nil {
		return e, fmt.Errorf("the generator driver does not build against the repository: %v\n%s", err, tail(out, 1500))
	}
	// warm the build cache with the runtime packages every generated package imports
	w := filepath.Join(e.scratch, "warm")
	must(os.MkdirAll(w, 0o755))
	must(os.WriteFile(filepath.Join(w, "go.mod"), []byte(goModText("c12warm", e.repoMod)), 0o644))
	must(os.WriteFile(filepath.Join(w, "go.sum"), e.goSum, 0o644))
	must(os.WriteFile(filepath.Join(w, "w.go"), []byte(warmSrc), 0o644))
	if out, err := e.goTool(w, "vet", "."); err != nil {
		return e, fmt.Errorf("the runtime packages do not build: %v\n%s", err, tail(out, 1500))
	}
	return e, nil
}

func (e *env) close() {
	if e.scratch != "" {
		// generated files are read-only; directories are not, so RemoveAll works
		os.RemoveAll(e.scratch)
	}
}

func must(err error) {
	if err != nil {
		panic(err)
	}
}

func tail(s string, n int) string {
	if len(s) > n {
		return "…" + s[len(s)-n:]
	}
	return s
}

func head(s string, n int) string {
	if len(s) > n {
		return s[:n] + "…"
	}
	return s
}

// ---- one manifest through the generator

type outcome struct {
	GenErr    string   // generator failure (class + message)
	Diffs     []string // differences between the first process' tree and a later one
	SetDiff   bool     // the set of generated files differs (not only contents)
	BuildErr  string   // first compile failure among the processes' outputs (every distinct tree is built)
	BuildProc int      // the process whose output it is
	VetErr    string
	Built     int // distinct output trees built and vetted
	Files     int
	Packages  int
	Compared  int // tree comparisons made
	GenMillis int64
}

func (o *outcome) ok() bool {
	return o.GenErr == "" && len(o.Diffs) == 0 && o.BuildErr == "" && o.VetErr == ""
}

var procEnvs = [][]string{
	{"GOMAXPROCS=1"},
	{"GOMAXPROCS=4", "GOGC=1"},
	{"GOMAXPROCS=16", "TZ=Asia/Kolkata", "LC_ALL=C"},
	{"GOMAXPROCS=2", "GOGC=off", "HOME=/nonexistent"},
	{"GOMAXPROCS=8", "LANG=tr_TR.UTF-8"},
	{"GOMAXPROCS=3", "TMPDIR=/tmp"},
}

func readTree(root string) (map[string]string, error) {
	out := map[string]string{}
	err := filepath.WalkDir(root, func(p string, d fs.DirEntry, err error) error {
		if err != nil {
			return err
		}
		if d.IsDir() {
			return nil
		}
		b, err := os.ReadFile(p)
		if err != nil {
			return err
		}
		rel, _ := filepath.Rel(root, p)
		h := sha256.Sum256(b)
		out[rel] = hex.EncodeToString(h[:])
		return nil
	})
	return out, err
}

func diffTrees(a, b map[string]string) (diffs []string, setDiff bool) {
	for _, k := range sortedKeys(a) {
		if _, ok := b[k]; !ok {
			diffs = append(diffs, "only-in-first:"+k)
			setDiff = true
		} else if a[k] != b[k] {
			diffs = append(diffs, "content:"+k)
		}
	}
	for _, k := range sortedKeys(b) {
		if _, ok := a[k]; !ok {
			diffs = append(diffs, "only-in-later:"+k)
			setDiff = true
		}
	}
	return
}

func sortedKeys(m map[string]string) []string {
	ks := make([]string, 0, len(m))
	for k := range m {
		ks = append(ks, k)
	}
	sort.Strings(ks)
	return ks
}

var (
	customInitRe = regexp.MustCompile(`(?m)^\s*Marshal(\w+),\s*$`)
	packageRe    = regexp.MustCompile(`(?m)^package (\w+)`)
)

// writeCustomTyperefs writes, next to every generated init_custom_typerefs file, the hand-written type the
// generator expects its user to supply (that is what "custom typeref" means): derived from the generator's
// own output, so it lands wherever the generator placed the package.
func writeCustomTyperefs(genDir string, manifest []byte) error {
	var m struct {
		InputDataTypes []struct {
			Typeref *struct {
				Name string `json:"name"`
				Type string `json:"type"`
			} `json:"typeref"`
		} `json:"inputDataTypes"`
	}
	if err := json.Unmarshal(manifest, &m); err != nil {
		return err
	}
	primOf := map[string]string{}
	for _, d := range m.InputDataTypes {
		if d.Typeref != nil {
			primOf[d.Typeref.Name] = d.Typeref.Type
		}
	}
	return filepath.WalkDir(genDir, func(p string, d fs.DirEntry, err error) error {
		if err != nil || d.IsDir() || d.Name() != "init_custom_typerefs"+generatedSuffix {
			return err
		}
		src, err := os.ReadFile(p)
		if err != nil {
			return err
		}
		pm := packageRe.FindSubmatch(src)
		if pm == nil {
			return fmt.Errorf("no package clause in %s", p)
		}
		for _, mm := range customInitRe.FindAllSubmatch(src, -1) {
			name := string(mm[1])
			pt, ok := primOf[name]
			if !ok {
				for n, t := range primOf { // a renamed (conflict-resolved) type keeps its name as a suffix
					if strings.HasSuffix(name, n) {
						pt, ok = t, true
					}
				}
			}
			if !ok {
				return fmt.Errorf("custom typeref %s not in the manifest", name)
			}
			gt, eq := pt, "left.V == right.V"
			if pt == "bytes" {
				gt, eq = "[]byte", "string(left.V) == string(right.V)"
			}
			body := fmt.Sprintf(customStub, string(pm[1]), name, gt, eq)
			if err := os.WriteFile(filepath.Join(filepath.Dir(p), name+".go"), []byte(body), 0o644); err != nil {
				return err
			}
		}
		return nil
	})
}

func goPackageDirs(root string) ([]string, error) {
	seen := map[string]bool{}
	err := filepath.WalkDir(root, func(p string, d fs.DirEntry, err error) error {
		if err != nil {
			return err
		}
		if !d.IsDir() && strings.HasSuffix(p, ".go") && filepath.Dir(p) != root {
			seen[filepath.Dir(p)] = true
		}
		return nil
	})
	var out []string
	for d := range seen {
		out = append(out, d)
	}
	sort.Strings(out)
	return out, err
}

// compileErrClass reduces compiler output to its first distinct messages with positions stripped of scratch paths.
func compileErrClass(out, modDir string) string {
	var lines []string
	seen := map[string]bool{}
	for _, l := range strings.Split(out, "\n") {
		l = strings.TrimSpace(strings.ReplaceAll(l, modDir+"/", ""))
		if l == "" || strings.HasPrefix(l, "#") || seen[l] {
			continue
		}
		seen[l] = true
		lines = append(lines, l)
		if len(lines) == 6 {
			break
		}
	}
	return strings.Join(lines, " | ")
}

// treeDigest names an output tree: equal digests mean byte-identical trees.
func treeDigest(t map[string]string) string {
	h := sha256.New()
	for _, k := range sortedKeys(t) {
		fmt.Fprintf(h, "%s\x00%s\n", k, t[k])
	}
	return hex.EncodeToString(h.Sum(nil))
}

// buildTree builds and vets the generated packages below mod/gen (mod is a scratch module replacing the
// repository module).
func (e *env) buildTree(mod string, manifest []byte) (buildErr, vetErr string, packages int) {
	if err := writeCustomTyperefs(filepath.Join(mod, "gen"), manifest); err != nil {
		return "custom typeref support files: " + err.Error(), "", 0
	}
	dirs, err := goPackageDirs(filepath.Join(mod, "gen"))
	if err != nil || len(dirs) == 0 {
		return fmt.Sprintf("no generated packages (%v)", err), "", 0
	}
	var pkgs []string
	for _, d := range dirs {
		rel, _ := filepath.Rel(mod, d)
		pkgs = append(pkgs, "./"+rel)
	}
	if txt, err := e.goTool(mod, append([]string{"build"}, pkgs...)...); err != nil {
		buildErr = compileErrClass(txt, mod)
		if buildErr == "" {
			buildErr = err.Error()
		}
		return buildErr, "", len(dirs)
	}
	if txt, err := e.goTool(mod, append([]string{"vet"}, pkgs...)...); err != nil {
		vetErr = compileErrClass(txt, mod)
		if vetErr == "" {
			vetErr = err.Error()
		}
	}
	return "", vetErr, len(dirs)
}

// runManifest: N fresh generator processes, each writing into a scratch module of its own; byte comparison
// of every later tree with the first; then EVERY process' output is built and vetted (byte-identical trees
// once: the compiler's verdict is a function of the bytes). A generator whose output depends on the process
// may emit a tree that compiles in one process and one that does not in the next: looking at the first
// process alone, or stopping at the first difference, would not see that.
func (e *env) runManifest(id string, manifest []byte) *outcome {
	o := &outcome{}
	base := filepath.Join(e.scratch, "m-"+id)
	must(os.MkdirAll(base, 0o755))
	defer os.RemoveAll(base)
	mpath := filepath.Join(base, "manifest.json")
	must(os.WriteFile(mpath, manifest, 0o644))

	var mods, digests []string
	var first map[string]string
	for i := 0; i < e.runs; i++ {
		mod := filepath.Join(base, fmt.Sprintf("p%d", i))
		must(os.MkdirAll(mod, 0o755))
		must(os.WriteFile(filepath.Join(mod, "go.mod"), []byte(goModText("c12.test", e.repoMod)), 0o644))
		must(os.WriteFile(filepath.Join(mod, "go.sum"), e.goSum, 0o644))
		out := filepath.Join(mod, "gen")
		t0 := time.Now()
		txt, err := e.run(base, 90*time.Second, procEnvs[i%len(procEnvs)], e.genBin, out, mpath, e.dep)
		o.GenMillis += time.Since(t0).Milliseconds()
		if err != nil {
			o.GenErr = fmt.Sprintf("process %d: %v: %s", i, err, head(strings.TrimSpace(strings.ReplaceAll(txt, base, "")), 600))
			return o
		}
		tree, err := readTree(out)
		if err != nil {
			o.GenErr = "cannot read the output tree: " + err.Error()
			return o
		}
		mods, digests = append(mods, mod), append(digests, treeDigest(tree))
		if i == 0 {
			first = tree
			o.Files = len(tree)
			continue
		}
		o.Compared++
		d, sd := diffTrees(first, tree)
		if len(d) > 0 && len(o.Diffs) == 0 {
			o.Diffs, o.SetDiff = d, sd
		}
	}
	built := map[string]bool{}
	for i, mod := range mods {
		if built[digests[i]] {
			continue
		}
		built[digests[i]] = true
		o.Built++
		be, ve, n := e.buildTree(mod, manifest)
		if i == 0 {
			o.Packages = n
		}
		which := ""
		if len(built) > 1 || len(o.Diffs) > 0 {
			which = fmt.Sprintf("[output of process %d of %d] ", i, e.runs)
		}
		if be != "" && o.BuildErr == "" {
			o.BuildErr, o.BuildProc = which+be, i
		}
		if ve != "" && o.VetErr == "" {
			o.VetErr = which + ve
		}
	}
	return o
}

func shortHash(b []byte) string {
	h := sha256.Sum256(b)
	return hex.EncodeToString(h[:])[:12]
}
