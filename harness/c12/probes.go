package c12

// Known-defect probes: minimal manifests, each legal for Pegasus / rest.li, on which the generator is
// suspected or known to produce bindings that do not compile (or to fail). They are NOT part of the
// well-behaved family (the grammar keeps away from them by construction); each is run on every check so that
// a recorded finding stays witnessed and a repaired one is noticed (counted `probe-pass:<name>`).

func rec(ns, name string, fields ...Field) *Decl {
	return &Decl{Kind: "record", ID: Ident{ns, name}, Fields: fields}
}

func fld(name string, t Ty) Field { return Field{Name: name, Ty: t} }

func strp(s string) *string { return &s }

func collection(ns, name string, key Ty, schema Ident, methods ...Method) *Resource {
	t := ref(schema)
	return &Resource{NS: ns + "." + name, Segments: []Segment{{Name: name, Key: &PathKey{Name: name + "Id", Ty: key}}}, Schema: &t, Methods: methods}
}

func Probes() []*Manifest {
	mk := func(name string, decls []*Decl, res ...*Resource) *Manifest {
		return &Manifest{PackageRoot: packageRoot, Decls: decls, Resources: res, Probe: name, Tags: map[string]bool{"probe": true}}
	}
	get := Method{Type: "REST_METHOD", Name: "get", OnEntity: true}
	var ps []*Manifest

	// F19
	inner := rec("alpha", "Inner", fld("x", prim("int32")))
	outer := rec("alpha", "Outer", fld("inner", prim("string")))
	outer.Includes = []Ident{inner.ID}
	ps = append(ps, mk("field-named-like-include", []*Decl{inner, outer}))

	// an action parameter with a default value
	ps = append(ps, mk("action-param-default", []*Decl{rec("alpha", "Foo", fld("x", prim("int32")))},
		&Resource{NS: "alpha.acts", Segments: []Segment{{Name: "acts"}}, Methods: []Method{{Type: "ACTION", Name: "doIt",
			Params: []Field{{Name: "limit", Ty: prim("int32"), Default: strp("10")}}}}}))

	// a union over two types with the same simple name (member keys are the fully qualified names)
	u := &Decl{Kind: "union", ID: Ident{"alpha", "Either"}, Members: []Member{
		{Ty: ref(Ident{"alpha", "Foo"}), Alias: "alpha.Foo"}, {Ty: ref(Ident{"gamma", "Foo"}), Alias: "gamma.Foo"}}}
	ps = append(ps, mk("union-members-same-simple-name", []*Decl{rec("alpha", "Foo", fld("x", prim("int32"))), rec("gamma", "Foo", fld("y", prim("int32"))), u}))

	// a type whose name starts with a lower-case letter, used from another namespace
	ps = append(ps, mk("lowercase-type-name", []*Decl{rec("alpha", "item", fld("x", prim("int32"))), rec("gamma", "User", fld("it", ref(Ident{"alpha", "item"})))}))

	// two fields differing in the case of the first letter (ExportedIdentifier collision class 1)
	ps = append(ps, mk("fields-differ-in-first-letter-case", []*Decl{rec("alpha", "Foo", fld("foo", prim("int32")), fld("Foo", prim("int32")))}))

	// a field whose Go name is a generated method's name
	ps = append(ps, mk("field-named-like-method", []*Decl{rec("alpha", "Foo", fld("equals", prim("bool")))}))

	// a path key named like a Go keyword
	foo := rec("alpha", "Foo", fld("x", prim("int32")))
	r := collection("alpha", "items", prim("int64"), foo.ID, get)
	r.Segments[0].Key.Name = "type"
	ps = append(ps, mk("path-key-go-keyword", []*Decl{foo}, r))

	// a path key named like a generated parameter
	foo = rec("alpha", "Foo", fld("x", prim("int32")))
	r = collection("alpha", "items", prim("int64"), foo.ID, Method{Type: "REST_METHOD", Name: "update", OnEntity: true})
	r.Segments[0].Key.Name = "entity"
	ps = append(ps, mk("path-key-named-like-parameter", []*Decl{foo}, r))

	// a doc line that starts like a block comment
	d := rec("alpha", "Foo", fld("x", prim("int32")))
	d.Doc = "/* see the wiki"
	ps = append(ps, mk("doc-line-opens-comment", []*Decl{d}))

	// includes of two records with the same simple name
	c := rec("delta", "Both", fld("z", prim("int32")))
	c.Includes = []Ident{{"alpha", "Foo"}, {"gamma", "Foo"}}
	ps = append(ps, mk("includes-same-name-two-namespaces", []*Decl{rec("alpha", "Foo", fld("x", prim("int32"))), rec("gamma", "Foo", fld("y", prim("int32"))), c}))

	// batch_partial_update with returnEntity
	foo = rec("alpha", "Foo", fld("x", prim("int32")))
	ps = append(ps, mk("batch_partial_update-returnEntity", []*Decl{foo},
		collection("alpha", "items", prim("int64"), foo.ID, Method{Type: "REST_METHOD", Name: "batch_partial_update", ReturnEntity: true})))

	// a collection keyed by an enum
	foo = rec("alpha", "Foo", fld("x", prim("int32")))
	en := &Decl{Kind: "enum", ID: Ident{"alpha", "Color"}, Symbols: []string{"RED", "GREEN"}}
	ps = append(ps, mk("enum-key", []*Decl{foo, en}, collection("alpha", "items", ref(en.ID), foo.ID, get,
		Method{Type: "REST_METHOD", Name: "batch_get"})))

	// enum symbols that collide after mangling (ExportedIdentifier collision class `$`)
	ps = append(ps, mk("symbols-collide-after-mangling", []*Decl{{Kind: "enum", ID: Ident{"alpha", "Sym"}, Symbols: []string{"A$B", "A_DOLLAR_B"}}}))

	// a diamond of includes whose base carries a record-typed field (Pegasus itself rejects the doubled fields)
	leaf := rec("alpha", "Leaf", fld("v", prim("int32")))
	base := rec("alpha", "Base", fld("b", prim("int32")), Field{Name: "o", Ty: ref(leaf.ID), Optional: true})
	l, rr := rec("alpha", "Left", fld("l", prim("int32"))), rec("alpha", "Right", fld("r", prim("int32")))
	l.Includes, rr.Includes = []Ident{base.ID}, []Ident{base.ID}
	top := rec("alpha", "Top", fld("t", prim("int32")))
	top.Includes = []Ident{l.ID, rr.ID}
	ps = append(ps, mk("include-diamond", []*Decl{leaf, base, l, rr, top}))

	// a namespace whose package name equals the receiver name of a type that refers into it
	ps = append(ps, mk("receiver-shadows-package", []*Decl{rec("delta.x", "Kind", fld("v", prim("int32"))),
		rec("eps", "X1", fld("k", ref(Ident{"delta.x", "Kind"})))}))

	// a namespace whose package name equals a variable the generated code declares
	ps = append(ps, mk("package-named-like-generated-variable", []*Decl{rec("alpha.reader", "Kind", fld("v", prim("int32"))),
		rec("eps", "Holder", fld("k", ref(Ident{"alpha.reader", "Kind"})), Field{Name: "o", Ty: ref(Ident{"alpha.reader", "Kind"}), Optional: true})}))

	return ps
}
