package c12

import (
	"encoding/json"
	"strings"
	"sync"
)

// Shrinking works on the manifest document itself (so it also serves replayed manifests): remove resources,
// methods, parameters, data types, fields, union members, includes and annotations while the SAME failure
// signature persists. A removal that leaves a dangling reference changes the signature (the generator rejects
// the manifest) and is therefore never kept.

type jsonPath []any // string keys and int indices

func getAt(doc any, p jsonPath) any {
	cur := doc
	for _, k := range p {
		switch kk := k.(type) {
		case string:
			m, ok := cur.(map[string]any)
			if !ok {
				return nil
			}
			cur = m[kk]
		case int:
			a, ok := cur.([]any)
			if !ok || kk >= len(a) {
				return nil
			}
			cur = a[kk]
		}
	}
	return cur
}

func deepCopy(v any) any {
	b, _ := json.Marshal(v)
	var out any
	_ = json.Unmarshal(b, &out)
	return out
}

// removeAt returns a copy of doc without the array element at path p (whose last component is an index).
func removeAt(doc any, ps ...jsonPath) any {
	c := deepCopy(doc)
	// remove higher indices first so that earlier removals do not shift later ones within one array
	order := append([]jsonPath{}, ps...)
	for i := 0; i < len(order); i++ {
		for j := i + 1; j < len(order); j++ {
			if pathLess(order[i], order[j]) {
				order[i], order[j] = order[j], order[i]
			}
		}
	}
	for _, p := range order {
		parent := getAt(c, p[:len(p)-1])
		idx := p[len(p)-1].(int)
		arr, ok := parent.([]any)
		if !ok || idx >= len(arr) {
			continue
		}
		narr := append(append([]any{}, arr[:idx]...), arr[idx+1:]...)
		setAt(c, p[:len(p)-1], narr)
	}
	return c
}

func pathLess(a, b jsonPath) bool {
	for i := 0; i < len(a) && i < len(b); i++ {
		ai, aok := a[i].(int)
		bi, bok := b[i].(int)
		if aok && bok && ai != bi {
			return ai < bi
		}
		as, _ := a[i].(string)
		bs, _ := b[i].(string)
		if as != bs {
			return as < bs
		}
	}
	return len(a) < len(b)
}

func setAt(doc any, p jsonPath, v any) {
	parent := getAt(doc, p[:len(p)-1])
	switch k := p[len(p)-1].(type) {
	case string:
		parent.(map[string]any)[k] = v
	case int:
		parent.([]any)[k] = v
	}
}

func arrayLen(doc any, p jsonPath) int {
	a, _ := getAt(doc, p).([]any)
	return len(a)
}

func elems(doc any, p jsonPath, min int) []jsonPath {
	n := arrayLen(doc, p)
	if n <= min {
		return nil
	}
	var out []jsonPath
	for i := 0; i < n; i++ {
		out = append(out, append(append(jsonPath{}, p...), i))
	}
	return out
}

// candidate removals, coarse levels first
func shrinkLevels(doc any) [][]jsonPath {
	var resources, methods, types, inner, params []jsonPath
	resources = elems(doc, jsonPath{"resources"}, 0)
	for i := 0; i < arrayLen(doc, jsonPath{"resources"}); i++ {
		methods = append(methods, elems(doc, jsonPath{"resources", i, "methods"}, 1)...)
		inner = append(inner, elems(doc, jsonPath{"resources", i, "readOnlyFields"}, 0)...)
		inner = append(inner, elems(doc, jsonPath{"resources", i, "createOnlyFields"}, 0)...)
		for k := 0; k < arrayLen(doc, jsonPath{"resources", i, "methods"}); k++ {
			params = append(params, elems(doc, jsonPath{"resources", i, "methods", k, "params"}, 0)...)
		}
	}
	types = elems(doc, jsonPath{"inputDataTypes"}, 0)
	for i := 0; i < arrayLen(doc, jsonPath{"inputDataTypes"}); i++ {
		inner = append(inner, elems(doc, jsonPath{"inputDataTypes", i, "record", "fields"}, 0)...)
		inner = append(inner, elems(doc, jsonPath{"inputDataTypes", i, "record", "includes"}, 0)...)
		inner = append(inner, elems(doc, jsonPath{"inputDataTypes", i, "standaloneUnion", "Union", "Members"}, 1)...)
		inner = append(inner, elems(doc, jsonPath{"inputDataTypes", i, "enum", "Symbols"}, 1)...)
	}
	return [][]jsonPath{resources, methods, types, inner, params}
}

// sigOf runs the pipeline and names the failure class ("" when everything succeeds).
func (e *env) sigOf(manifest []byte) (string, *outcome) {
	o := e.runManifest("s"+shortHash(manifest), manifest)
	return failureSig(o), o
}

func render(doc any) []byte {
	b, _ := json.MarshalIndent(doc, "", " ")
	return b
}

// shrink returns a smaller manifest with the same failure signature, and the number of pipeline runs used.
func (e *env) shrink(manifest []byte, sig string) ([]byte, int) {
	var doc any
	if err := json.Unmarshal(manifest, &doc); err != nil {
		return manifest, 0
	}
	tests := 0
	holds := func(d any) bool {
		s, _ := e.sigOf(render(d))
		return s == sig
	}
	for level := 0; level < 5; {
		cands := shrinkLevels(doc)[level]
		if len(cands) == 0 {
			level++
			continue
		}
		ok := make([]bool, len(cands))
		var wg sync.WaitGroup
		sem := make(chan struct{}, 12)
		for i := range cands {
			wg.Add(1)
			go func(i int) {
				defer wg.Done()
				sem <- struct{}{}
				defer func() { <-sem }()
				ok[i] = holds(removeAt(doc, cands[i]))
			}(i)
		}
		wg.Wait()
		tests += len(cands)
		var good []jsonPath
		for i, c := range cands {
			if ok[i] {
				good = append(good, c)
			}
		}
		if len(good) == 0 {
			level++
			continue
		}
		if len(good) > 1 {
			tests++
			if all := removeAt(doc, good...); holds(all) {
				doc = all
				continue
			}
		}
		doc = removeAt(doc, good[0])
	}
	// cosmetic: drop docs
	stripped := deepCopy(doc)
	stripDocs(stripped)
	tests++
	if holds(stripped) {
		doc = stripped
	}
	return render(doc), tests
}

func stripDocs(v any) {
	switch x := v.(type) {
	case map[string]any:
		for k, c := range x {
			if k == "doc" {
				x[k] = ""
			} else {
				stripDocs(c)
			}
		}
	case []any:
		for _, c := range x {
			stripDocs(c)
		}
	}
}

// failure is one way in which an outcome violates the property.
type failure struct{ Sig, Impl, Expected string }

// failures lists what is wrong with an outcome, most severe first. An output that does not compile — the
// output of ANY of the processes — is a failure of its own, reported next to (and before) the fact that the
// processes' outputs differ: a generator that finds a package cycle only when its map-ordered walk starts at
// the right type shows both, and the first must not hide behind the second.
func failures(o *outcome) []failure {
	if o.GenErr != "" {
		return []failure{{sigGenFail, o.GenErr, "generation succeeds"}}
	}
	var fs []failure
	if o.BuildErr != "" {
		fs = append(fs, failure{sigCompile + ": " + errClass(o.BuildErr), o.BuildErr,
			"go build of every generated package succeeds, for the output of every process"})
	}
	if len(o.Diffs) > 0 {
		sig := sigDiffData
		if o.SetDiff {
			sig = sigDiffSet
		}
		fs = append(fs, failure{sig, strings.Join(o.Diffs, " "), "byte-identical output trees in every process"})
	}
	if o.BuildErr == "" && o.VetErr != "" {
		fs = append(fs, failure{sigVet, o.VetErr, "go vet of every generated package is clean, for the output of every process"})
	}
	return fs
}

// failureSig: the signature a failing outcome is first reported under ("" = no failure).
func failureSig(o *outcome) string {
	if fs := failures(o); len(fs) > 0 {
		return fs[0].Sig
	}
	return ""
}

// errClass maps compiler output to a coarse, input-independent class.
func errClass(msg string) string {
	best, at := "", 0
	for _, c := range []string{"import cycle not allowed", "redeclared", "already declared", "duplicate", "undefined", "ambiguous selector",
		"imported and not used", "declared and not used", "field and method with the same name", "missing return",
		"cannot use", "is not a type", "invalid recursive type", "not exported", "syntax error", "custom typeref support files"} {
		if i := strings.Index(msg, c); i >= 0 && (best == "" || i < at) {
			best, at = c, i
		}
	}
	if best != "" {
		return best
	}
	return "other"
}
