package c12

import (
	"fmt"
	"strings"
)

// Namespace cycles closed through a THIRD type.
//
//	ns1.A -> ns2.B -> ns1.C          A and C are different types, nothing refers back to A
//
// No two types refer to each other — there is no cycle in the graph of types — and yet package ns1 imports
// ns2 and ns2 imports ns1. The generator has to find that by looking at the PATH that leads to a type (a path
// that leaves a package and comes back to it), not at the type alone: whether C closes a cycle depends on
// where the walk came from. A search that remembers "this type was explored and led to no cycle" across walks
// (or that only looks for types reaching themselves) finds the cycle when it happens to start at A and misses
// it when it starts at B or C first; the generator then exits 0 and emits two packages importing each other,
// in some processes and not in others. Hence: every manifest of this family goes through several fresh
// processes and the output of EVERY process is built (pipeline.go).
//
// Why the expected outcome is well defined on these manifests (they are not `wild-references`): all
// references respect the namespace DAG except those of ONE type, the entry (A, or the union the cycle is
// entered through), to which nothing of another namespace refers. Every path that leaves a package and returns
// to it therefore contains the entry, the entry is the first type of the returned package on it, and what has
// to move to the conflict-resolution package is the entry and everything it reaches — whatever the order in
// which the registry is walked. (The recorded defect C12-cyclic-flagging-order needs a second way into the
// cycle; there is none here.)

type thirdShape struct {
	entry    string // how the entry refers up: required optional array map map-of-array union-member include complex-key
	hop      string // B: record record-array union
	closer   string // kind of the third type C: record enum fixed typeref union
	middle   bool   // B -> M (a third namespace) -> C
	wrapper  bool   // a record of ns1 above the entry (the walk reaches the entry with a non-empty path)
	sameName bool   // B and C have the same simple name (renaming inside the conflict-resolution package)
	long     bool   // two types per step inside each namespace: A -> A2 -> B -> B2 -> C -> C2
}

func (s thirdShape) name() string {
	n := s.entry + "/" + s.hop + "/" + s.closer
	for _, f := range []struct {
		on bool
		s  string
	}{{s.middle, "middle"}, {s.wrapper, "wrapper"}, {s.sameName, "same-name"}, {s.long, "long"}} {
		if f.on {
			n += "+" + f.s
		}
	}
	return n
}

// wrapRef puts the reference to id into the position the shape names.
func entryField(name, how string, id Ident) Field {
	switch how {
	case "required":
		return Field{Name: name, Ty: ref(id)}
	case "optional":
		return Field{Name: name, Ty: ref(id), Optional: true}
	case "array":
		return Field{Name: name, Ty: arr(ref(id))}
	case "map":
		return Field{Name: name, Ty: mapOf(ref(id)), Optional: true}
	case "map-of-array":
		return Field{Name: name, Ty: mapOf(arr(ref(id)))}
	}
	panic("c12: entry " + how)
}

func unionOf(ns, name string, first string, id Ident) *Decl {
	return &Decl{Kind: "union", ID: Ident{ns, name}, Members: []Member{
		{Ty: prim(first), Alias: pegasusKey[first]}, {Ty: ref(id), Alias: id.Full()}}}
}

// thirdManifest builds the minimal manifest of one shape, by hand (no randomness).
func thirdManifest(s thirdShape) *Manifest {
	const lo, hi, mid = "alpha", "gamma", "com.example.eps"
	m := &Manifest{PackageRoot: packageRoot, Tags: map[string]bool{}}
	add := func(d *Decl) *Decl { m.Decls = append(m.Decls, d); return d }
	m.tag("cycle-through-third-type")
	m.tag("namespace-cycle")
	m.tag("third-entry:" + s.entry)
	m.tag("third-hop:" + s.hop)
	m.tag("third-closer:" + s.closer)

	// C, the third type, in the entry's namespace
	cName := "Target"
	if s.sameName {
		cName = "Hop"
		m.tag("name-clash-inside-cycle")
	}
	var c *Decl
	switch s.closer {
	case "record":
		c = rec(lo, cName, fld("v", prim("int32")), Field{Name: "note", Ty: prim("string"), Optional: true})
	case "enum":
		c = &Decl{Kind: "enum", ID: Ident{lo, cName}, Symbols: []string{"EUR", "USD"}}
	case "fixed":
		c = &Decl{Kind: "fixed", ID: Ident{lo, cName}, Size: 4}
	case "typeref":
		c = &Decl{Kind: "typeref", ID: Ident{lo, cName}, Prim: "string"}
	case "union":
		c = &Decl{Kind: "union", ID: Ident{lo, cName}, Members: []Member{{Ty: prim("int32"), Alias: "int"}, {Ty: prim("string"), Alias: "string"}}}
	default:
		panic("c12: closer " + s.closer)
	}
	add(c)
	down := c.ID
	if s.long {
		c2 := add(rec(lo, "TargetTail", fld("w", prim("int64"))))
		if c.Kind != "record" {
			panic("c12: long chains close on a record")
		}
		c.Fields = append(c.Fields, Field{Name: "tail", Ty: ref(c2.ID), Optional: true})
		m.tag("third-long-chain")
	}
	if s.middle {
		md := add(rec(mid, "Relay", fld("weight", prim("float64")), fld("onward", ref(down))))
		down = md.ID
		m.tag("third-middle-namespace")
	}

	// B, in the other namespace
	var b *Decl
	switch s.hop {
	case "record":
		b = rec(hi, "Hop", fld("amount", prim("int64")), fld("down", ref(down)))
	case "record-array":
		b = rec(hi, "Hop", fld("amount", prim("int64")), Field{Name: "down", Ty: arr(ref(down))})
	case "union":
		b = unionOf(hi, "Hop", "int64", down)
	default:
		panic("c12: hop " + s.hop)
	}
	if s.long {
		b2 := add(rec(hi, "HopTail", fld("amount", prim("int64")), fld("down", ref(down))))
		b = rec(hi, "Hop", fld("label", prim("string")), Field{Name: "more", Ty: ref(b2.ID), Optional: true})
	}
	add(b)

	// the entry, in C's namespace; nothing refers back to it from another namespace
	var entry *Decl
	switch s.entry {
	case "required", "optional", "array", "map", "map-of-array":
		entry = add(rec(lo, "Start", fld("id", prim("int64")), entryField("hop", s.entry, b.ID)))
	case "union-member":
		entry = add(unionOf(lo, "Start", "int32", b.ID))
	case "include":
		if b.Kind != "record" {
			panic("c12: only records are included")
		}
		entry = add(rec(lo, "Start", fld("id", prim("int64"))))
		entry.Includes = []Ident{b.ID}
	case "complex-key":
		if b.Kind != "record" {
			panic("c12: a complex key's key is a record")
		}
		params := add(rec(lo, "KeyParams", Field{Name: "hint", Ty: prim("string"), Optional: true}))
		entry = add(&Decl{Kind: "complexKey", ID: Ident{lo, "StartKey"}, Key: b.ID, Params: params.ID})
		schema := add(rec(lo, "Thing", fld("label", prim("string"))))
		m.Resources = append(m.Resources, collection(lo, "things", ref(entry.ID), schema.ID,
			Method{Type: "REST_METHOD", Name: "get", OnEntity: true}, Method{Type: "REST_METHOD", Name: "batch_get"}))
	default:
		panic("c12: entry " + s.entry)
	}
	if s.long {
		if entry.Kind != "record" {
			panic("c12: long chains start at a record")
		}
		add(rec(lo, "Origin", fld("n", prim("int32")), Field{Name: "start", Ty: ref(entry.ID), Optional: true}))
	}
	if s.wrapper {
		add(rec(lo, "Outer", fld("n", prim("int32")), Field{Name: "inner", Ty: arr(ref(entry.ID)), Optional: true}))
		m.tag("third-wrapper-above-entry")
	}
	return m
}

// thirdTypeCorpus: the named situation first (Order -> Payment -> Currency), then every way in, every kind of
// hop and of third type, a third namespace in the middle, longer chains, equal simple names.
func thirdTypeCorpus() []*Manifest {
	// the named situation, with its own names
	order := rec("seed.shop", "Order", fld("id", prim("int64")), Field{Name: "payment", Ty: ref(Ident{"seed.billing", "Payment"}), Optional: true})
	payment := rec("seed.billing", "Payment", fld("amount", prim("int64")), fld("currency", ref(Ident{"seed.shop", "Currency"})))
	currency := &Decl{Kind: "enum", ID: Ident{"seed.shop", "Currency"}, Symbols: []string{"EUR", "USD"}}
	named := &Manifest{PackageRoot: packageRoot, Decls: []*Decl{order, payment, currency}, Tags: map[string]bool{
		"cycle-through-third-type": true, "namespace-cycle": true, "third-entry:optional": true, "third-hop:record": true,
		"third-closer:enum": true, "third-named-situation": true}}
	out := []*Manifest{named}
	for _, s := range []thirdShape{
		{entry: "required", hop: "record", closer: "record"},
		{entry: "array", hop: "record", closer: "fixed"},
		{entry: "map", hop: "record", closer: "typeref"},
		{entry: "map-of-array", hop: "record-array", closer: "union"},
		{entry: "union-member", hop: "record", closer: "enum"},
		{entry: "union-member", hop: "union", closer: "record", wrapper: true},
		{entry: "include", hop: "record", closer: "record"},
		{entry: "complex-key", hop: "record", closer: "record"},
		{entry: "optional", hop: "record", closer: "record", middle: true},
		{entry: "array", hop: "union", closer: "enum", middle: true, wrapper: true},
		{entry: "required", hop: "record", closer: "record", sameName: true},
		{entry: "optional", hop: "record", closer: "record", long: true},
	} {
		out = append(out, thirdManifest(s))
	}
	return out
}

// thirdCycle adds, to a manifest whose namespaces otherwise form a DAG, one cycle closed through a third type:
// an entry type in namespace e that nothing refers to (a record referring up from a required / optional /
// array / map position or by an include, or a union with such a member, possibly below a wrapper record of
// the same namespace), a hop in a higher namespace t (a new record or union, or an EXISTING record of t given
// one more field), possibly a relay record in a namespace between the two, and a third type in namespace e
// again (an existing type of any kind, or a new one).
func (g *gen) thirdCycle() {
	n := len(g.nss)
	e := g.rng.Intn(n - 1)
	t := e + 1 + g.rng.Intn(n-1-e)
	lo, hi := g.nss[e], g.nss[t]
	g.core = map[Ident]bool{}
	g.m.tag("cycle-through-third-type")

	// C: the third type
	var c *Decl
	var existing []*Decl
	for _, d := range g.m.Decls {
		if d.ID.NS == lo && d.Kind != "complexKey" {
			existing = append(existing, d)
		}
	}
	if len(existing) > 0 && g.coin(0.5) {
		c = existing[g.rng.Intn(len(existing))]
		g.m.tag("third-closer-existing")
	} else {
		kind := g.pick([]string{"record", "enum", "fixed", "typeref", "union"})
		c = g.shell(kind, lo, "CycC")
		switch kind {
		case "record":
			g.fillRecord(c, 1+g.rng.Intn(3))
		case "enum":
			c.Symbols = []string{"ONE", g.pick(symbolPool[:8])}
		case "fixed":
			c.Size = 1 + g.rng.Intn(8)
		case "typeref":
			c.Prim = g.pick(prims)
		case "union":
			g.fillUnion(c)
		}
	}
	g.m.tag("third-closer:" + c.Kind)
	g.core[c.ID] = c.ID.Name == "CycC"
	down := c.ID

	wrapTy := func(id Ident) Ty {
		switch g.rng.Intn(4) {
		case 0:
			return arr(ref(id))
		case 1:
			return mapOf(ref(id))
		case 2:
			return mapOf(arr(ref(id)))
		}
		return ref(id)
	}
	reach := func(d *Decl, max int) {
		for i, k := 0, g.rng.Intn(max+1); i < k; i++ {
			opt := g.coin(0.5)
			d.Fields = append(d.Fields, Field{Name: fmt.Sprintf("reach%d", i), Optional: opt,
				Ty: g.randTy(2, d.ID.NS, g.rank[d.ID], !opt)})
		}
	}

	// M: a relay in a namespace strictly between the two
	if t-e >= 2 && g.coin(0.6) {
		md := g.shell("record", g.nss[e+1+g.rng.Intn(t-e-1)], "CycM")
		g.core[md.ID] = true
		reach(md, 2)
		md.Fields = append(md.Fields, Field{Name: "onward", Ty: wrapTy(down), Optional: g.coin(0.5)})
		down = md.ID
		g.m.tag("third-middle-namespace")
	}

	// B: the hop
	var b *Decl
	var hiRecords []*Decl
	for _, d := range g.declsOf("record") {
		if d.ID.NS == hi {
			hiRecords = append(hiRecords, d)
		}
	}
	switch x := g.rng.Intn(10); {
	case x < 4 && len(hiRecords) > 0:
		b = hiRecords[g.rng.Intn(len(hiRecords))]
		b.Fields = append(b.Fields, Field{Name: "cycDown", Ty: wrapTy(down), Optional: g.coin(0.5)})
		g.m.tag("third-hop:existing-record")
	case x < 8:
		b = g.shell("record", hi, "CycB")
		g.core[b.ID] = true
		reach(b, 2)
		b.Fields = append(b.Fields, Field{Name: "cycDown", Ty: wrapTy(down), Optional: g.coin(0.5)})
		if it := g.m.find(Ident{hi, "Item"}); it != nil && it.Kind == "record" {
			b.Fields = append(b.Fields, Field{Name: "mine", Ty: arr(ref(it.ID))})
			g.m.tag("name-clash-reached-by-cycle")
		}
		g.m.tag("third-hop:record")
	default:
		b = g.shell("union", hi, "CycB")
		g.core[b.ID] = true
		p := g.pick(prims)
		b.Members = []Member{{Ty: prim(p), Alias: pegasusKey[p]}, {Ty: ref(down), Alias: down.Full()}}
		g.m.tag("third-hop:union")
	}

	// the entry
	var entry *Decl
	how := g.pick([]string{"required", "optional", "array", "map", "map-of-array", "union-member", "union-member", "include"})
	if how == "include" && (b.Kind != "record" || !g.includable(b)) {
		how = "optional"
	}
	switch how {
	case "union-member":
		entry = g.shell("union", lo, "CycU")
		p := g.pick(prims)
		entry.Members = []Member{{Ty: prim(p), Alias: pegasusKey[p]}, {Ty: ref(b.ID), Alias: b.ID.Full()}}
	case "include":
		entry = g.shell("record", lo, "CycA")
		entry.Includes = []Ident{b.ID}
		entry.Fields = append(entry.Fields, Field{Name: "cycOwn", Ty: prim("int64")})
		g.m.tag("include")
	default:
		entry = g.shell("record", lo, "CycA")
		reach(entry, 2)
		entry.Fields = append(entry.Fields, entryField("cycUp", how, b.ID))
		if it := g.m.find(Ident{lo, "Item"}); it != nil && it.Kind == "record" {
			entry.Fields = append(entry.Fields, Field{Name: "mine", Ty: arr(ref(it.ID))})
			g.m.tag("name-clash-reached-by-cycle")
		}
	}
	g.core[entry.ID] = true
	g.m.tag("third-entry:" + how)
	if g.coin(0.4) {
		w := g.shell("record", lo, "CycW")
		g.core[w.ID] = true
		reach(w, 1)
		w.Fields = append(w.Fields, Field{Name: "inner", Ty: wrapTy(entry.ID), Optional: true})
		g.m.tag("third-wrapper-above-entry")
	}
}

// includable: the record can be embedded into a fresh record whose own fields are cycOwn only — the Go names
// of its flattened fields and of the types it embeds are distinct (they are, inside a record the grammar made)
// and none of them is the embedding record's name or field.
func (g *gen) includable(b *Decl) bool {
	cl := map[Ident]bool{}
	g.includeClosure(b.ID, cl)
	for id := range cl {
		if id.Name == "CycA" || strings.EqualFold(id.Name, "cycOwn") {
			return false
		}
	}
	for _, f := range g.allFields(b.ID, map[Ident]bool{}) {
		if exported(f.Name) == "CycOwn" {
			return false
		}
	}
	return true
}
