package c14

import (
	"bytes"
	"fmt"
	"io"
	"net/http"
	"net/url"
	"strings"

	"github.com/PapaCharlie/go-restli/v2/restli"
	"verif/harness/hx"
)

// D never asks the Lean model anything: it is the property's own predicate on the real code.

func isVerbToken(s string) bool {
	if s == "" {
		return false
	}
	for i := 0; i < len(s); i++ {
		c := s[i]
		if !('a' <= c && c <= 'z' || 'A' <= c && c <= 'Z' || c == '-') {
			return false
		}
	}
	return true
}

// dDirect: DecodeTunnelledQuery(EncodeTunnelledQuery(req)) compared field by field with the
// request that would have been sent untunnelled, on real *http.Request values.
func (x *runner) dDirect(verb, query string, body []byte) {
	if !isVerbToken(verb) || query == "" {
		x.r.Count("D:direct-skipped-outside-quantifier")
		return
	}
	x.r.OracleCases++
	op := fmt.Sprintf("tunenc %s %s %s %s %s", x.cfg.Module, hb(fixedBoundary), hb(verb), hb(query), bodyArg(body))
	x.r.Distinctive(op)
	switch {
	case body == nil:
		x.r.Count("D:direct-body-absent")
	case len(body) == 0:
		x.r.Count("D:direct-body-empty")
	default:
		x.r.Count("D:direct-body-present")
	}
	if strings.ContainsAny(query, "\r\n") {
		x.r.Count("D:direct-query-with-CRLF")
	}
	if strings.Contains(query, "--"+fixedBoundary) || bytes.Contains(body, []byte("--"+fixedBoundary)) {
		x.r.Count("D:direct-boundary-like-text")
	}
	fail := func(sig, impl, expected string) {
		x.r.OracleFail(hx.Case{Sig: sig, Op: op, Impl: impl, Expected: expected})
	}
	const path = "/coll/a%2Fb"
	// what would have been sent untunnelled (server-side view)
	wantCT := ""
	if body != nil {
		wantCT = restli.ApplicationJsonContentType
	}
	wantURI := path + "?" + query

	var tunnelledReq *http.Request
	var decErr error
	p, pv := hx.Recover(func() {
		nb, th := restli.EncodeTunnelledQuery(verb, query, body)
		h := baseHeaders("get")
		for k, v := range th {
			h[k] = v
		}
		u := &url.URL{Path: "/coll/a/b", RawPath: path}
		tunnelledReq = &http.Request{Method: http.MethodPost, URL: u, Header: h, Body: shortReads(nb), RequestURI: path}
		decErr = restli.DecodeTunnelledQuery(tunnelledReq)
	})
	if p {
		fail("C14 round trip panicked", fmt.Sprint(pv), "no panic")
		return
	}
	if decErr != nil {
		fail("C14 a correctly tunnelled request is rejected", decErr.Error(), "decoded request")
		return
	}
	r := tunnelledReq
	got := renderBody(r.Body)
	want := "nobody"
	if len(body) > 0 {
		want = hx.Hex(body)
	}
	if r.Method != verb {
		fail("C14 verb not restored", r.Method, verb)
	}
	if r.URL.EscapedPath() != path {
		fail("C14 path changed", r.URL.EscapedPath(), path)
	}
	if r.URL.RawQuery != query {
		fail("C14 raw query not restored", hb(r.URL.RawQuery), hb(query))
	}
	if got != want {
		fail("C14 body bytes not restored", got, want)
	}
	if ct := r.Header.Get(restli.ContentTypeHeader); ct != wantCT {
		if body != nil && len(body) == 0 && ct == "" {
			fail("C14 Content-Type lost: a present-but-empty body is tunnelled as form-urlencoded and comes back without Content-Type", ct, wantCT)
		} else {
			fail("C14 Content-Type not restored", ct, wantCT)
		}
	}
	if r.Header.Get(restli.MethodHeader) != "get" || r.Header.Get(restli.ProtocolVersionHeader) != restli.ProtocolVersion {
		fail("C14 Rest.li headers changed", renderHdr(r.Header), "unchanged")
	}
	if r.Header.Get(restli.MethodOverrideHeader) != "" {
		fail("C14 override header still present after de-tunnelling", renderHdr(r.Header), "removed")
	}
	if r.RequestURI != wantURI {
		fail("C14 RequestURI not restored", r.RequestURI, wantURI)
	}
}

type e2e struct {
	status   int
	invoked  bool
	seen     seen
	wire     string // method + request target + restricted headers + body of the request on the wire
	wirePost bool
	override string
	err      string
}

func (x *runner) runE2E(threshold int, path string, query *string, httpMethod, restliMethod string, contents []byte) e2e {
	var out e2e
	p, pv := hx.Recover(func() {
		req, err := buildClientRequest(threshold, path, query, httpMethod, restliMethod, contents)
		if err != nil {
			out.err = "build: " + err.Error()
			return
		}
		sr, err := overWire(req)
		if err != nil {
			out.err = "wire: " + err.Error()
			return
		}
		data, _ := io.ReadAll(sr.Body)
		out.wirePost = sr.Method == http.MethodPost
		out.override = sr.Header.Get(restli.MethodOverrideHeader)
		out.wire = sr.Method + " " + sr.RequestURI + " " + renderHdr(restrictHeaders(sr.Header)) + " " + hx.Hex(data)
		if len(data) == 0 {
			sr.Body = http.NoBody
		} else {
			sr.Body = shortReads(data)
		}
		res := x.srv.serve(sr)
		out.status, out.invoked, out.seen = res.status, res.invoked, res.seen
	})
	if p {
		out.err = fmt.Sprint("panic: ", pv)
	}
	return out
}

func seenSummary(s seen) string {
	if !s.invoked {
		return "not-invoked"
	}
	return strings.Join([]string{s.what, s.method, hb(s.rawQuery), hb(s.uri), hb(s.body),
		"ct=" + s.header.Get(restli.ContentTypeHeader), "m=" + s.header.Get(restli.MethodHeader), "v=" + s.header.Get(restli.ProtocolVersionHeader),
		"o=" + s.header.Get(restli.MethodOverrideHeader)}, " ")
}

// dEndToEnd: the same call with tunnelling threshold t and with tunnelling off, through the public
// client constructors, a real wire round trip and a real server with a recording resource.
func (x *runner) dEndToEnd(t int, path string, query *string, httpMethod, restliMethod string, contents []byte) {
	q, fq := "", false
	if query != nil {
		q, fq = *query, *query == ""
	}
	op := fmt.Sprintf("tunreq %s %s %d %s %s %s %s %s %s", x.cfg.Module, hb(fixedBoundary), t, hb(path), b01(fq), hb(q),
		hb(httpMethod), hb(restliMethod), bodyArg(contents))
	x.r.OracleCases++
	fail := func(sig, impl, expected string) {
		x.r.OracleFail(hx.Case{Sig: sig, Op: op, Impl: impl, Expected: expected})
	}
	on := x.runE2E(t, path, query, httpMethod, restliMethod, contents)
	off := x.runE2E(0, path, query, httpMethod, restliMethod, contents)
	if on.err != "" || off.err != "" {
		if on.err != off.err {
			fail("C14 request construction fails differently with tunnelling on and off", on.err, off.err)
		}
		x.r.Count("D:e2e-construction-error")
		return
	}
	shouldTunnel := t > 0 && len(q) > t
	isTunnelled := on.wirePost && on.override != ""
	switch {
	case t == 0:
		x.r.Count("D:e2e-threshold-0")
	case len(q) == t:
		x.r.Count("D:e2e-len=threshold")
	case len(q) == t+1:
		x.r.Count("D:e2e-len=threshold+1")
	case len(q) == t-1:
		x.r.Count("D:e2e-len=threshold-1")
	}
	if isTunnelled != shouldTunnel {
		fail("C14 threshold: tunnelled iff 0 < threshold < len(query) violated", fmt.Sprintf("tunnelled=%v threshold=%d len=%d", isTunnelled, t, len(q)), fmt.Sprint(shouldTunnel))
	}
	if !shouldTunnel {
		if on.wire != off.wire {
			fail("C14 a request at or below the threshold was touched", on.wire, off.wire)
		}
	} else {
		x.r.Count("D:e2e-tunnelled")
		x.r.Distinctive(op)
		if on.override != httpMethod {
			fail("C14 override header does not carry the verb", on.override, httpMethod)
		}
	}
	if on.status != off.status || on.invoked != off.invoked {
		fail("C14 call behaves differently with tunnelling on and off", fmt.Sprintf("status %d invoked %v", on.status, on.invoked), fmt.Sprintf("status %d invoked %v", off.status, off.invoked))
		return
	}
	if on.invoked {
		x.r.Count("D:e2e-resource-invoked:" + on.seen.what)
		a, b := seenSummary(on.seen), seenSummary(off.seen)
		if a != b {
			if contents != nil && len(contents) == 0 && shouldTunnel && strings.Replace(b, "ct="+restli.ApplicationJsonContentType, "ct=", 1) == a {
				fail("C14 Content-Type lost: a present-but-empty body is tunnelled as form-urlencoded and comes back without Content-Type", a, b)
			} else {
				fail("C14 resource sees a different request with tunnelling on", a, b)
			}
		}
	} else {
		x.r.Count(fmt.Sprintf("D:e2e-not-invoked-status-%d", on.status))
	}
}

// dMalformed: a malformed tunnelled request must be answered 400 without the resource being invoked.
func (x *runner) dMalformed(s sreq, name string) {
	x.r.OracleCases++
	op := s.op("tunsite", x.cfg.Module)
	x.r.Distinctive(op)
	x.r.Count("D:malformed:" + name)
	res := x.srv.serve(s.build())
	impl := fmt.Sprintf("status %d invoked %v panicked %v body %q", res.status, res.invoked, res.panicked, res.bodyExcerpt)
	if res.status == http.StatusBadRequest && !res.invoked && !res.panicked {
		return
	}
	sig := "C14 malformed tunnelled request not rejected with 400: " + name
	x.r.OracleFail(hx.Case{Sig: sig, Op: op, Impl: impl, Expected: "400, resource not invoked"})
}

// dPending: several requests are built before any of them is sent (requests prepared up front,
// retries, concurrent callers); each must still carry its own query and body when it is finally
// sent — i.e. behave exactly like the same request built and sent alone.
func (x *runner) dPending(t int, path string, queries []string, httpMethod, restliMethod string, bodies [][]byte) {
	type built struct {
		req *http.Request
		err error
	}
	reqs := make([]built, len(queries))
	p, pv := hx.Recover(func() {
		for i := range queries {
			q := queries[i]
			reqs[i].req, reqs[i].err = buildClientRequest(t, path, &q, httpMethod, restliMethod, bodies[i])
		}
	})
	op := fmt.Sprintf("pending %s %d %s %s %s n=%d", x.cfg.Module, t, hb(path), hb(httpMethod), hb(restliMethod), len(queries))
	for i := range queries {
		op += " " + hb(queries[i]) + "/" + bodyArg(bodies[i])
	}
	x.r.OracleCases++
	x.r.Distinctive(op)
	if p {
		x.r.OracleFail(hx.Case{Sig: "C14 building several requests up front panicked", Op: op, Impl: fmt.Sprint(pv)})
		return
	}
	for i := range queries {
		q := queries[i]
		alone := x.runE2E(t, path, &q, httpMethod, restliMethod, bodies[i])
		if reqs[i].err != nil || alone.err != "" {
			continue
		}
		var got e2e
		pp, ppv := hx.Recover(func() {
			sr, err := overWire(reqs[i].req)
			if err != nil {
				got.err = "wire: " + err.Error()
				return
			}
			data, _ := io.ReadAll(sr.Body)
			got.wire = sr.Method + " " + sr.RequestURI + " " + renderHdr(restrictHeaders(sr.Header)) + " " + hx.Hex(data)
			if len(data) == 0 {
				sr.Body = http.NoBody
			} else {
				sr.Body = shortReads(data)
			}
			res := x.srv.serve(sr)
			got.status, got.invoked, got.seen = res.status, res.invoked, res.seen
		})
		if pp {
			got.err = fmt.Sprint("panic: ", ppv)
		}
		gotS := fmt.Sprintf("%s %d %v %s", got.err, got.status, got.invoked, seenSummary(got.seen))
		wantS := fmt.Sprintf("%s %d %v %s", alone.err, alone.status, alone.invoked, seenSummary(alone.seen))
		// multipart boundaries are random: compare what the server saw, not the raw wire bytes
		if gotS != wantS {
			x.r.OracleFail(hx.Case{Sig: "C14 a request built while others were pending differs from the same request built and sent alone", Op: op, Impl: fmt.Sprintf("#%d: %s", i, gotS), Expected: wantS})
			return
		}
	}
	x.r.Count("D:pending-batch")
}
