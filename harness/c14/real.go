// Package c14: correspondence (K) and direct oracle (D) for query tunnelling (property C14).
//
//	K1  Lib.Multipart vs the real mime / mime/multipart / net/textproto : ops mediatype, fmtmediatype, canonkey, mpwrite, mpread
//	K2  Model.Tunnel vs the real code : tunenc (EncodeTunnelledQuery, boundary canonicalised), tundec
//	    (DecodeTunnelledQuery on real *http.Request values), tunsite (a real server's ServeHTTP:
//	    400-by-http.Error vs routed), tunreq (the request the public client constructors build, after a
//	    real wire round trip Request.Write -> http.ReadRequest)
//	D   the property, computed here without the model (see oracle.go)
package c14

import (
	"bufio"
	"bytes"
	"context"
	"fmt"
	"io"
	"mime"
	"mime/multipart"
	"net/http"
	"net/http/httptest"
	"net/textproto"
	"net/url"
	"sort"
	"strings"

	"github.com/PapaCharlie/go-restli/v2/restli"
	"github.com/PapaCharlie/go-restli/v2/restlicodec"
	"verif/harness/hx"
)

const fixedBoundary = "BOUNDARY"

func hb(s string) string { return hx.Hex([]byte(s)) }

// ---------------------------------------------------------------- rendering shared with the driver

func renderPairsSorted(m map[string]string) string {
	ks := make([]string, 0, len(m))
	for k := range m {
		ks = append(ks, k)
	}
	sort.Strings(ks)
	parts := make([]string, len(ks))
	for i, k := range ks {
		parts[i] = "(" + hb(k) + " " + hb(m[k]) + ")"
	}
	return "(" + strings.Join(parts, " ") + ")"
}

func renderHdr(h http.Header) string {
	ks := make([]string, 0, len(h))
	for k := range h {
		ks = append(ks, k)
	}
	sort.Strings(ks)
	parts := make([]string, len(ks))
	for i, k := range ks {
		vs := make([]string, len(h[k]))
		for j, v := range h[k] {
			vs[j] = hb(v)
		}
		parts[i] = "(" + hb(k) + " (" + strings.Join(vs, " ") + "))"
	}
	return "(" + strings.Join(parts, " ") + ")"
}

func renderBody(b io.ReadCloser) string {
	if b == nil {
		return "nil"
	}
	if b == http.NoBody {
		return "nobody"
	}
	data, err := io.ReadAll(b)
	if err != nil {
		return "read-error"
	}
	if len(data) == 0 {
		return "nobody"
	}
	return hx.Hex(data)
}

func b01(b bool) string {
	if b {
		return "1"
	}
	return "0"
}

// ---------------------------------------------------------------- Lib ops on the real packages

func realMediaType(v string) string {
	mt, params, _ := mime.ParseMediaType(v)
	return "ok " + hb(mt) + " " + renderPairsSorted(params)
}

func realFmtMediaType(t, attr, value string) string {
	return "ok " + hb(mime.FormatMediaType(t, map[string]string{attr: value}))
}

type wpart struct{ key, value, content string }

func realMpWrite(boundary string, parts []wpart) (string, bool) {
	var buf bytes.Buffer
	w := multipart.NewWriter(&buf)
	if err := w.SetBoundary(boundary); err != nil {
		return "", false
	}
	for _, p := range parts {
		pw, _ := w.CreatePart(textproto.MIMEHeader{p.key: {p.value}})
		pw.Write([]byte(p.content))
	}
	w.Close()
	return "ok " + hx.Hex(buf.Bytes()), true
}

func renderMIMEHeader(h textproto.MIMEHeader, raw []byte) string {
	// the model lists header lines in input order; Go keeps a map. Order by first occurrence of
	// the key's canonical text in the raw header block is not recoverable in general, so both
	// sides are compared sorted by key (values of one key stay in order).
	ks := make([]string, 0, len(h))
	for k := range h {
		ks = append(ks, k)
	}
	sort.Strings(ks)
	var parts []string
	for _, k := range ks {
		for _, v := range h[k] {
			parts = append(parts, "("+hb(k)+" "+hb(v)+")")
		}
	}
	return "(" + strings.Join(parts, " ") + ")"
}

func realMpRead(boundary string, data []byte) string {
	var out []string
	p, v := hx.Recover(func() {
		r := multipart.NewReader(bytes.NewReader(data), boundary)
		for i := 0; i < 10000; i++ {
			part, err := r.NextPart()
			if err == io.EOF {
				out = append(out, "eof")
				return
			}
			if err != nil {
				out = append(out, "err")
				return
			}
			content, rerr := io.ReadAll(part)
			if rerr != nil {
				out = append(out, "(trunc "+renderMIMEHeader(part.Header, data)+")")
				continue
			}
			out = append(out, "(part "+renderMIMEHeader(part.Header, data)+" "+hx.Hex(content)+")")
		}
		out = append(out, "too-many-parts")
	})
	if p {
		return fmt.Sprintf("panic %v", v)
	}
	return strings.Join(out, " ")
}

// ---------------------------------------------------------------- Model ops on the real code

// canonBoundary replaces the random boundary of a tunnelled multipart request by fixedBoundary
func canonBoundary(h http.Header, body []byte) (http.Header, []byte, bool) {
	ct := h.Get(restli.ContentTypeHeader)
	mt, params, err := mime.ParseMediaType(ct)
	if err != nil || mt != restli.MultipartMixedContentType {
		return h, body, true
	}
	b := params[restli.MultipartBoundary]
	if len(b) != 60 {
		return h, body, false
	}
	h2 := h.Clone()
	h2.Set(restli.ContentTypeHeader, strings.ReplaceAll(ct, b, fixedBoundary))
	return h2, bytes.ReplaceAll(body, []byte(b), []byte(fixedBoundary)), true
}

func realTunEnc(method, query string, body []byte) string {
	var out string
	p, v := hx.Recover(func() {
		nb, h := restli.EncodeTunnelledQuery(method, query, body)
		h2, nb2, ok := canonBoundary(h, nb)
		if !ok {
			out = "boundary-not-60-hex"
			return
		}
		out = "ok " + hx.Hex(nb2) + " " + renderHdr(h2)
	})
	if p {
		return fmt.Sprintf("panic %v", v)
	}
	return out
}

// sreq is a server-side request in the shape of the tundec / tunsite ops
type sreq struct {
	method, path string
	fq           bool
	rawQuery     string
	header       http.Header
	body         string // "nil", "nobody" or the bytes (prefixed with "=")
}

func (s sreq) op(name, module string) string {
	body := s.body
	if strings.HasPrefix(body, "=") {
		body = hx.Hex([]byte(body[1:]))
	}
	return fmt.Sprintf("%s %s %s %s %s %s %s %s", name, module, hb(s.method), hb(s.path), b01(s.fq), hb(s.rawQuery), renderHdr(s.header), body)
}

func (s sreq) build() *http.Request {
	u := &url.URL{Path: s.path, ForceQuery: s.fq, RawQuery: s.rawQuery}
	if p, err := url.PathUnescape(s.path); err == nil {
		u.Path, u.RawPath = p, s.path
	}
	r := &http.Request{Method: s.method, URL: u, Header: s.header.Clone(), Proto: "HTTP/1.1", ProtoMajor: 1, ProtoMinor: 1, Host: "host"}
	if r.Header == nil {
		r.Header = http.Header{}
	}
	r.RequestURI = u.RequestURI()
	switch {
	case s.body == "nil":
	case s.body == "nobody":
		r.Body = http.NoBody
	default:
		r.Body = shortReads([]byte(s.body[1:]))
		r.ContentLength = int64(len(s.body) - 1)
	}
	return r.WithContext(context.Background())
}

func renderReq(r *http.Request) string {
	return strings.Join([]string{hb(r.Method), hb(r.URL.EscapedPath()), b01(r.URL.ForceQuery), hb(r.URL.RawQuery), renderHdr(r.Header),
		renderBody(r.Body), hb(r.RequestURI)}, " ")
}

func realTunDec(s sreq) string {
	var out string
	p, _ := hx.Recover(func() {
		r := s.build()
		if err := restli.DecodeTunnelledQuery(r); err != nil {
			out = "err"
			return
		}
		out = "ok " + renderReq(r)
	})
	if p {
		return "panic"
	}
	return out
}

// ---- a real server with one collection resource that records what it is handed

type seen struct {
	invoked  bool
	what     string
	method   string
	rawQuery string
	uri      string
	header   http.Header
	body     string
}

type rp1 struct{ key string }

func (r *rp1) NewInstance() *rp1 { return &rp1{} }
func (r *rp1) UnmarshalResourcePath(segments []restlicodec.Reader) (err error) {
	r.key, err = segments[0].ReadString()
	return err
}

type qpAny struct{}

func (q *qpAny) NewInstance() *qpAny                                   { return &qpAny{} }
func (q *qpAny) DecodeQueryParams(restlicodec.QueryParamsReader) error { return nil }

type rawVal struct{ raw []byte }

func (v *rawVal) NewInstance() *rawVal { return &rawVal{} }
func (v *rawVal) MarshalRestLi(w restlicodec.Writer) error {
	w.WriteRawBytes([]byte("{}"))
	return nil
}
func (v *rawVal) UnmarshalRestLi(r restlicodec.Reader) (err error) {
	v.raw, err = r.ReadRawBytes()
	return err
}

const rootName = "coll"

type server struct {
	h    http.Handler
	last *seen
}

func newServer() *server {
	s := &server{last: &seen{}}
	srv := restli.NewServer()
	segs := []restli.ResourcePathSegment{restli.NewResourcePathSegment(rootName, true)}
	note := func(ctx *restli.RequestContext, what string, body []byte) {
		r := ctx.Request
		*s.last = seen{invoked: true, what: what, method: r.Method, rawQuery: r.URL.RawQuery, uri: r.RequestURI, header: r.Header.Clone(), body: string(body)}
	}
	restli.RegisterGet(srv, segs, func(ctx *restli.RequestContext, p *rp1, q *qpAny) (*rawVal, error) {
		note(ctx, "get", nil)
		return &rawVal{}, nil
	})
	restli.RegisterDelete(srv, segs, func(ctx *restli.RequestContext, p *rp1, q *qpAny) error {
		note(ctx, "delete", nil)
		return nil
	})
	restli.RegisterUpdate(srv, segs, nil, func(ctx *restli.RequestContext, p *rp1, v *rawVal, q *qpAny) error {
		note(ctx, "update", v.raw)
		return nil
	})
	restli.RegisterPartialUpdate(srv, segs, nil, func(ctx *restli.RequestContext, p *rp1, v *rawVal, q *qpAny) error {
		note(ctx, "partial_update", v.raw)
		return nil
	})
	s.h = srv.Handler()
	return s
}

type response struct {
	status      int
	plainError  bool // written by http.Error: text/plain, no Rest.li error header
	invoked     bool
	seen        seen
	panicked    bool
	bodyExcerpt string
}

func (s *server) serve(r *http.Request) response {
	*s.last = seen{}
	rec := httptest.NewRecorder()
	var res response
	p, _ := hx.Recover(func() { s.h.ServeHTTP(rec, r) })
	res.panicked = p
	res.status = rec.Code
	res.plainError = strings.HasPrefix(rec.Header().Get("Content-Type"), "text/plain") && rec.Header().Get(restli.ErrorResponseHeader) == ""
	res.invoked = s.last.invoked
	res.seen = *s.last
	b := rec.Body.String()
	if len(b) > 120 {
		b = b[:120]
	}
	res.bodyExcerpt = b
	return res
}

func (s *server) realTunSite(q sreq) string {
	res := s.serve(q.build())
	switch {
	case res.panicked:
		return "panic"
	case res.status == http.StatusNotFound && res.plainError && !res.invoked:
		return "not-reached" // http.NotFound before the de-tunnelling call site
	case res.status == http.StatusBadRequest && res.plainError && !res.invoked:
		return "respond 400"
	default:
		return "routed"
	}
}

// ---- the client constructors, through a real wire round trip

type rpath struct{ root, path string }

func (r rpath) RootResource() string          { return r.root }
func (r rpath) ResourcePath() (string, error) { return r.path, nil }

func rawMarshaler(body []byte) restlicodec.Marshaler {
	return restlicodec.MarshalerFunc(func(w restlicodec.Writer) error { w.WriteRawBytes(body); return nil })
}

var restliMethods = map[string]restli.Method{"get": restli.Method_get, "delete": restli.Method_delete, "update": restli.Method_update,
	"partial_update": restli.Method_partial_update, "create": restli.Method_create, "action": restli.Method_action, "finder": restli.Method_finder,
	"batch_get": restli.Method_batch_get}

// buildClientRequest: contents == nil means a constructor without a body (GET/DELETE); otherwise NewJsonRequest
func buildClientRequest(threshold int, path string, query *string, httpMethod, restliMethod string, contents []byte) (*http.Request, error) {
	base, _ := url.Parse("http://host")
	c := &restli.Client{HostnameResolver: &restli.SimpleHostnameResolver{Hostname: base}, QueryTunnellingThreshold: threshold}
	var q restli.QueryParamsEncoder
	if query != nil {
		q = restli.QueryParamsString(*query)
	}
	rp := rpath{rootName, path}
	m := restliMethods[restliMethod]
	switch {
	case contents == nil && httpMethod == http.MethodGet:
		return restli.NewGetRequest(c, context.Background(), rp, q, m)
	case contents == nil && httpMethod == http.MethodDelete:
		return restli.NewDeleteRequest(c, context.Background(), rp, q, m)
	case contents == nil:
		return nil, fmt.Errorf("no body-less constructor for %s", httpMethod)
	default:
		return restli.NewJsonRequest(c, context.Background(), rp, q, httpMethod, m, rawMarshaler(contents), nil)
	}
}

// overWire writes the client request and reads it back the way a server does
func overWire(req *http.Request) (*http.Request, error) {
	var buf bytes.Buffer
	if err := req.Write(&buf); err != nil {
		return nil, err
	}
	sr, err := http.ReadRequest(bufio.NewReader(&buf))
	if err != nil {
		return nil, err
	}
	// the body must be read before buf goes away
	data, err := io.ReadAll(sr.Body)
	if err != nil {
		return nil, err
	}
	if len(data) == 0 {
		sr.Body = http.NoBody
	} else {
		sr.Body = shortReads(data)
	}
	return sr, nil
}

var comparedHeaders = []string{restli.ContentTypeHeader, restli.MethodOverrideHeader, restli.MethodHeader, restli.ProtocolVersionHeader, "Accept"}

// restrictHeaders keeps the headers the model of newRequest speaks about (net/http adds Host,
// User-Agent, Content-Length, … on the wire)
func restrictHeaders(h http.Header) http.Header {
	out := http.Header{}
	for _, k := range comparedHeaders {
		ck := http.CanonicalHeaderKey(k)
		if v, ok := h[ck]; ok {
			out[ck] = v
		}
	}
	return out
}

func realTunReq(threshold int, path string, query *string, httpMethod, restliMethod string, contents []byte) string {
	var out string
	p, v := hx.Recover(func() {
		req, err := buildClientRequest(threshold, path, query, httpMethod, restliMethod, contents)
		if err != nil {
			out = "err"
			return
		}
		sr, err := overWire(req)
		if err != nil {
			out = "wire-error"
			return
		}
		data, _ := io.ReadAll(sr.Body)
		h, data, ok := canonBoundary(restrictHeaders(sr.Header), data)
		if !ok {
			out = "boundary-not-60-hex"
			return
		}
		sr.Header = h
		if len(data) == 0 {
			sr.Body = http.NoBody
		} else {
			sr.Body = shortReads(data)
		}
		out = "ok " + renderReq(sr)
	})
	if p {
		return fmt.Sprintf("panic %v", v)
	}
	return out
}

// shortReads: a request body as a connection delivers it — in pieces, each Read returning what has
// arrived rather than what was asked for. The piece size varies with the content (1 byte, a few
// bytes, half, everything), deterministically, so that code that assumes one Read fills its buffer
// is met with the same input on every run.
type chunkedBody struct {
	data []byte
	step int
}

func (c *chunkedBody) Read(p []byte) (int, error) {
	if len(c.data) == 0 {
		return 0, io.EOF
	}
	n := c.step
	if n > len(p) {
		n = len(p)
	}
	if n > len(c.data) {
		n = len(c.data)
	}
	copy(p, c.data[:n])
	c.data = c.data[n:]
	return n, nil
}

func (c *chunkedBody) Close() error { return nil }

func shortReads(data []byte) io.ReadCloser {
	steps := []int{1, 3, 64, len(data)/2 + 1, len(data) + 1}
	h := len(data) * 7
	for _, b := range data {
		h = h*31 + int(b)
	}
	if h < 0 {
		h = -h
	}
	return &chunkedBody{data: append([]byte(nil), data...), step: steps[h%len(steps)]}
}
