package c14

import (
	"bytes"
	"encoding/json"
	"fmt"
	"io"
	"log"
	"math/rand"
	"mime/multipart"
	"net/http"
	"net/textproto"
	"strconv"
	"strings"

	"github.com/PapaCharlie/go-restli/v2/restli"
	"verif/harness/hx"
)

type Config struct {
	Module string
	Seed   int64
	Tier   string
	Driver *hx.Driver
	Replay []string
}

type runner struct {
	cfg Config
	r   *hx.Result
	srv *server
}

// ask sends a K op and compares; `same` may relax the comparison (class-only ops)
func (x *runner) ask(sig, op, impl string, same func(model, impl string) bool) {
	if x.cfg.Driver == nil {
		return
	}
	x.r.Ops++
	m := x.cfg.Driver.MustAsk(op)
	if strings.HasPrefix(m, "unmodelled") {
		x.r.Unmodelled[m]++
		return
	}
	ok := m == impl
	if same != nil {
		ok = same(m, impl)
	}
	if !ok {
		x.r.Disagree(hx.Case{Sig: sig, Op: op, Impl: impl, Model: m})
	}
}

// ---------------------------------------------------------------- K runners

func (x *runner) kMediaType(v string) {
	x.ask("C14 mediatype", "mediatype "+hb(v), realMediaType(v), nil)
}

func (x *runner) kFmtMediaType(t, a, v string) {
	x.ask("C14 fmtmediatype", fmt.Sprintf("fmtmediatype %s %s %s", hb(t), hb(a), hb(v)), realFmtMediaType(t, a, v), nil)
}

func (x *runner) kCanonKey(k string) {
	x.ask("C14 canonkey", "canonkey "+hb(k), "ok "+hb(http.CanonicalHeaderKey(k)), nil)
}

func partsSexp(parts []wpart) string {
	ps := make([]string, len(parts))
	for i, p := range parts {
		ps[i] = "(" + hb(p.key) + " " + hb(p.value) + " " + hb(p.content) + ")"
	}
	return "(" + strings.Join(ps, " ") + ")"
}

func (x *runner) kMpWrite(boundary string, parts []wpart) {
	impl, ok := realMpWrite(boundary, parts)
	if !ok {
		x.r.Count("mpwrite:boundary-rejected-by-SetBoundary")
		return
	}
	x.ask("C14 mpwrite", "mpwrite "+hb(boundary)+" "+partsSexp(parts), impl, nil)
}

func (x *runner) kMpRead(boundary string, data []byte) {
	impl := realMpRead(boundary, data)
	x.r.Count("mpread:" + lastWord(impl))
	x.ask("C14 mpread", "mpread "+hb(boundary)+" "+hx.Hex(data), impl, nil)
}

func lastWord(s string) string {
	f := strings.Fields(s)
	if len(f) == 0 {
		return ""
	}
	return f[len(f)-1]
}

func bodyArg(b []byte) string {
	if b == nil {
		return "nil"
	}
	return hx.Hex(b)
}

func (x *runner) kTunEnc(method, query string, body []byte) {
	op := fmt.Sprintf("tunenc %s %s %s %s %s", x.cfg.Module, hb(fixedBoundary), hb(method), hb(query), bodyArg(body))
	x.ask("C14 tunenc", op, realTunEnc(method, query, body), nil)
}

func (x *runner) kTunDec(s sreq) {
	impl := realTunDec(s)
	x.r.Count("tundec:" + strings.Fields(impl)[0])
	x.ask("C14 tundec", s.op("tundec", x.cfg.Module), impl, nil)
}

func (x *runner) kTunSite(s sreq) {
	impl := x.srv.realTunSite(s)
	x.r.Count("tunsite:" + strings.Fields(impl)[0])
	if impl == "not-reached" {
		return
	}
	x.ask("C14 tunsite", s.op("tunsite", x.cfg.Module), impl, func(m, impl string) bool {
		return strings.Fields(m)[0] == strings.Fields(impl)[0] && (strings.Fields(m)[0] != "respond" || m == impl)
	})
}

func (x *runner) kTunReq(threshold int, path string, query *string, httpMethod, restliMethod string, contents []byte) {
	q, fq := "", false
	if query != nil {
		q, fq = *query, *query == ""
	}
	op := fmt.Sprintf("tunreq %s %s %d %s %s %s %s %s %s", x.cfg.Module, hb(fixedBoundary), threshold, hb(path), b01(fq), hb(q),
		hb(httpMethod), hb(restliMethod), bodyArg(contents))
	x.ask("C14 tunreq", op, realTunReq(threshold, path, query, httpMethod, restliMethod, contents), nil)
}

// ---------------------------------------------------------------- generators

var verbs = []string{"GET", "DELETE", "PUT", "POST", "PATCH", "get", "OPTIONS"}

var queryAtoms = []string{"a", "=", "&", "%", "%0D%0A", "\r\n", "\n", "\r", "--", "--" + fixedBoundary, "\r\n--" + fixedBoundary + "\r\n", "\r\n--" + fixedBoundary + "--\r\n",
	"q=find", "ids=List(1,2)", "x=(a:1,b:'')", "Content-Type: application/json\r\n\r\n", " ", "\t", "+", "?", "é", "\x00", "fields=a,b"}

func genQuery(rng *rand.Rand, wire bool) string {
	n := 1 + rng.Intn(5)
	var b strings.Builder
	for i := 0; i < n; i++ {
		a := queryAtoms[rng.Intn(len(queryAtoms))]
		if wire && strings.ContainsAny(a, "\r\n\t \x00#é") {
			a = "%0D%0A--x"
		}
		b.WriteString(a)
	}
	if rng.Intn(12) == 0 {
		b.WriteString("&long=" + strings.Repeat("y", 3000+rng.Intn(6000)))
	}
	return b.String()
}

// genWireQuery: a Rest.li query string the server's ParseQueryParams accepts (so that the call
// reaches the resource), with encoded CR/LF, '&', '=', '%' and boundary-like text in the values
func genWireQuery(rng *rand.Rand) string {
	vals := []string{"1", "find", "List(1,2)", "(a:1,b:'')", "%0D%0A--" + fixedBoundary + "--%0D%0A", "x%26y%3Dz%25", "--" + fixedBoundary, "''", "a%20b", "%C3%A9", "(k:List((x:1)))"}
	n := 1 + rng.Intn(4)
	parts := make([]string, n)
	for i := range parts {
		parts[i] = fmt.Sprintf("p%d=%s", i, vals[rng.Intn(len(vals))])
	}
	q := strings.Join(parts, "&")
	if rng.Intn(10) == 0 {
		q += "&long=" + strings.Repeat("y", 3000+rng.Intn(6000))
	}
	return q
}

var bodyAtoms = []string{"{}", `{"a":1}`, "\r\n", "\n", "--" + fixedBoundary, "\r\n--" + fixedBoundary + "\r\n", "\r\n--" + fixedBoundary + "--\r\n", "--" + fixedBoundary + "--",
	`{"s":"\r\n--x"}`, "Content-Type: application/x-www-form-urlencoded\r\n\r\nq=1", "\r", "-", "--", " ", "\x00\xff"}

// genBody: nil (absent), empty, or JSON-ish bytes with boundary-like lines
func genBody(rng *rand.Rand) []byte {
	switch rng.Intn(8) {
	case 0, 1:
		return nil
	case 2:
		return []byte{}
	}
	n := 1 + rng.Intn(4)
	var b strings.Builder
	for i := 0; i < n; i++ {
		b.WriteString(bodyAtoms[rng.Intn(len(bodyAtoms))])
	}
	if rng.Intn(12) == 0 {
		b.WriteString(strings.Repeat("z", 4000+rng.Intn(9000)))
	}
	return []byte(b.String())
}

var mediaTypes = []string{"application/json", "application/x-www-form-urlencoded", "multipart/mixed; boundary=abc", "multipart/mixed;boundary=abc", "Multipart/Mixed; Boundary=AbC",
	`multipart/mixed; boundary="a b"`, `multipart/mixed; boundary="a\"b"`, `multipart/mixed; boundary="a\\b"`, `multipart/mixed; boundary="a\qb"`, "multipart/mixed; boundary=abc;", "multipart/mixed; boundary=abc ; ",
	"multipart/mixed; boundary", "multipart/mixed; boundary=", "multipart/mixed; =x", "multipart/mixed; boundary=a; boundary=a", "multipart/mixed; boundary=a; boundary=b",
	"multipart/mixed; boundary*=utf-8''a", "multipart/mixed; boundary*0=a; boundary*1=b", "multipart/mixed; a=b; boundary=c", " application/json ", "application/json; charset=utf-8",
	"application", "application/", "/json", "application/json/x", "application/json x", "", ";", " ; ", "text/plain", "a/b;c=d;e=\"f", "a/b; c=\"d\r\ne\"", "a/b; c=é", "é/b", "a/b;\tc = d", "a/b ;c=d",
	"multipart/mixed; boundary=" + fixedBoundary, "multipart/mixed; boundary=(x)", "multipart/mixed; boundary=a:b", "APPLICATION/JSON", "application/x-www-form-urlencoded; charset=UTF-8"}

func genMediaType(rng *rand.Rand) string {
	if rng.Intn(3) != 0 {
		return mediaTypes[rng.Intn(len(mediaTypes))]
	}
	atoms := []string{"a", "/", ";", "=", " ", "\"", "\\", "b", "boundary", "*", ",", "multipart/mixed", "\t", "B", "0", "é", "\r", "\n", "(", "."}
	n := 1 + rng.Intn(8)
	var b strings.Builder
	for i := 0; i < n; i++ {
		b.WriteString(atoms[rng.Intn(len(atoms))])
	}
	return b.String()
}

var boundaries = []string{fixedBoundary, "b", "abc", "a'()+_,-./:=?b", "a b", "0123456789abcdef0123456789abcdef0123456789abcdef0123456789ab", "--", "-", "x--"}

var partTypes = []string{restli.FormUrlEncodedContentType, restli.ApplicationJsonContentType, "text/plain", "application/json; charset=utf-8", "APPLICATION/JSON", ""}

func genContent(rng *rand.Rand, boundary string) string {
	atoms := []string{"a", "", "\r\n", "\n", "\r", "--", "--" + boundary, "\r\n--" + boundary, "\r\n--" + boundary + "x", "\r\n--" + boundary + "-", "\r\n--" + boundary + "--", "\r\n--" + boundary + " ",
		"\n--" + boundary + "\n", "{}", "q=1&r=2", "-", "\r\n-", "\r\n--", boundary}
	n := rng.Intn(4)
	var b strings.Builder
	for i := 0; i < n; i++ {
		b.WriteString(atoms[rng.Intn(len(atoms))])
	}
	if rng.Intn(15) == 0 {
		b.WriteString(strings.Repeat("w", 3000+rng.Intn(9000)))
		b.WriteString(atoms[rng.Intn(len(atoms))])
	}
	return b.String()
}

func genParts(rng *rand.Rand, boundary string) []wpart {
	n := rng.Intn(4)
	ps := make([]wpart, n)
	for i := range ps {
		key := restli.ContentTypeHeader
		if rng.Intn(6) == 0 {
			key = []string{"content-type", "X-Other", "Content-Transfer-Encoding", "Content-Disposition", "x y", "A"}[rng.Intn(6)]
		}
		ps[i] = wpart{key, partTypes[rng.Intn(len(partTypes))], genContent(rng, boundary)}
	}
	return ps
}

// writeRaw is this harness's own multipart writer (used to build malformed and unusual messages)
func writeRaw(boundary, nl string, parts []wpart, preamble, epilogue string, close bool) []byte {
	var b bytes.Buffer
	b.WriteString(preamble)
	for i, p := range parts {
		if i > 0 || preamble != "" {
			b.WriteString(nl)
		}
		b.WriteString("--" + boundary + nl)
		if p.key != "" {
			b.WriteString(p.key + ": " + p.value + nl)
		}
		b.WriteString(nl)
		b.WriteString(p.content)
	}
	if close {
		b.WriteString(nl + "--" + boundary + "--" + nl)
	}
	b.WriteString(epilogue)
	return b.Bytes()
}

func mutate(rng *rand.Rand, data []byte) []byte {
	if len(data) == 0 {
		return data
	}
	out := append([]byte(nil), data...)
	switch rng.Intn(6) {
	case 0: // truncate
		return out[:rng.Intn(len(out))]
	case 1: // byte edit
		out[rng.Intn(len(out))] = []byte("\r\n- :ax\t")[rng.Intn(8)]
	case 2: // delete a byte
		i := rng.Intn(len(out))
		return append(out[:i], out[i+1:]...)
	case 3: // insert
		i := rng.Intn(len(out) + 1)
		ins := []string{" ", "\t", "\r\n", "\n", "-", "--", "x", " \t"}[rng.Intn(8)]
		return append(out[:i], append([]byte(ins), out[i:]...)...)
	case 4: // CRLF -> LF everywhere
		return bytes.ReplaceAll(out, []byte("\r\n"), []byte("\n"))
	}
	return out
}

func baseHeaders(method string) http.Header {
	h := http.Header{}
	h.Set(restli.ProtocolVersionHeader, restli.ProtocolVersion)
	h.Set(restli.MethodHeader, method)
	h.Set("Accept", restli.ApplicationJsonContentType)
	return h
}

// tunnelled builds the server-side view of a correctly tunnelled request using the real encoder,
// with the boundary canonicalised
func tunnelled(verb, restliMethod, path, query string, body []byte) sreq {
	nb, th := restli.EncodeTunnelledQuery(verb, query, body)
	th, nb, _ = canonBoundary(th, nb)
	h := baseHeaders(restliMethod)
	for k, v := range th {
		h[k] = v
	}
	return sreq{method: http.MethodPost, path: path, header: h, body: "=" + string(nb)}
}

func (x *runner) genSreq(rng *rand.Rand) sreq {
	verb := verbs[rng.Intn(len(verbs))]
	path := []string{"/coll/1", "/coll/a%2Fb", "/coll", "", "/other/1"}[rng.Intn(5)]
	s := tunnelled(verb, "get", path, genQuery(rng, false), genBody(rng))
	for k := rng.Intn(3); k > 0; k-- {
		switch rng.Intn(14) {
		case 0:
			s.header.Del(restli.MethodOverrideHeader)
		case 1:
			s.method = verbs[rng.Intn(len(verbs))]
		case 2:
			s.rawQuery = []string{"x=1", "", "a"}[rng.Intn(3)]
			s.fq = rng.Intn(4) == 0
		case 3:
			s.header.Set(restli.ContentTypeHeader, genMediaType(rng))
		case 4:
			s.header.Del(restli.ContentTypeHeader)
		case 5:
			if strings.HasPrefix(s.body, "=") {
				s.body = "=" + string(mutate(rng, []byte(s.body[1:])))
			}
		case 6:
			s.body = []string{"nil", "nobody", "="}[rng.Intn(3)]
		case 7:
			b := boundaries[rng.Intn(len(boundaries))]
			nl := []string{"\r\n", "\n"}[rng.Intn(4)/3]
			pre := []string{"", "", "preamble", "pre\r\n--x"}[rng.Intn(4)]
			epi := []string{"", "", "epilogue", "\r\n--" + b + "\r\n"}[rng.Intn(4)]
			s.body = "=" + string(writeRaw(b, nl, genParts(rng, b), pre, epi, rng.Intn(5) != 0))
			s.header.Set(restli.ContentTypeHeader, "multipart/mixed; boundary="+quoteIfNeeded(b))
		case 8:
			s.header[http.CanonicalHeaderKey(restli.MethodOverrideHeader)] = []string{[]string{"", "get", "PUT", "a b"}[rng.Intn(4)]}
		case 9:
			s.header["x-http-method-override"] = []string{"DELETE"} // non-canonical map key: invisible to Header.Get
		case 10:
			s.header.Add(restli.ContentTypeHeader, "text/plain")
		case 11:
			s.header.Add(restli.MethodOverrideHeader, "PUT")
		}
	}
	return s
}

func quoteIfNeeded(b string) string {
	if strings.ContainsAny(b, `()<>@,;:\"/[]?= `) {
		return `"` + b + `"`
	}
	return b
}

func sp(s string) *string { return &s }

// ---------------------------------------------------------------- replay

func unhexArg(s *hx.Sexp) string { return string(hx.UnHex(s.Atom)) }

func hdrOfSexp(s *hx.Sexp) http.Header {
	h := http.Header{}
	for _, kv := range s.List {
		var vs []string
		for _, v := range kv.List[1].List {
			vs = append(vs, unhexArg(v))
		}
		h[unhexArg(kv.List[0])] = vs
	}
	return h
}

func optArg(s *hx.Sexp) []byte {
	if s.Atom == "nil" {
		return nil
	}
	b := hx.UnHex(s.Atom)
	if b == nil {
		b = []byte{}
	}
	return b
}

func (x *runner) replay(line string) {
	xs, err := hx.ParseLine(line)
	if err != nil || len(xs) < 2 {
		panic("c14: cannot replay " + line)
	}
	switch xs[0].Atom {
	case "mediatype":
		x.kMediaType(unhexArg(xs[1]))
	case "fmtmediatype":
		x.kFmtMediaType(unhexArg(xs[1]), unhexArg(xs[2]), unhexArg(xs[3]))
	case "canonkey":
		x.kCanonKey(unhexArg(xs[1]))
	case "mpwrite":
		var ps []wpart
		for _, p := range xs[2].List {
			ps = append(ps, wpart{unhexArg(p.List[0]), unhexArg(p.List[1]), unhexArg(p.List[2])})
		}
		x.kMpWrite(unhexArg(xs[1]), ps)
	case "mpread":
		x.kMpRead(unhexArg(xs[1]), hx.UnHex(xs[2].Atom))
	case "tunenc":
		x.kTunEnc(unhexArg(xs[3]), unhexArg(xs[4]), optArg(xs[5]))
		x.dDirect(unhexArg(xs[3]), unhexArg(xs[4]), optArg(xs[5]))
	case "tundec", "tunsite":
		s := sreq{method: unhexArg(xs[2]), path: unhexArg(xs[3]), fq: xs[4].Atom == "1", rawQuery: unhexArg(xs[5]), header: hdrOfSexp(xs[6])}
		switch xs[7].Atom {
		case "nil", "nobody":
			s.body = xs[7].Atom
		default:
			s.body = "=" + unhexArg(xs[7])
		}
		if xs[0].Atom == "tundec" {
			x.kTunDec(s)
		} else {
			x.kTunSite(s)
			x.dMalformed(s, "replayed")
		}
	case "tunreq":
		t, _ := strconv.Atoi(xs[3].Atom)
		q := unhexArg(xs[6])
		var qp *string
		if q != "" || xs[5].Atom == "1" {
			qp = &q
		}
		x.kTunReq(t, unhexArg(xs[4]), qp, unhexArg(xs[7]), unhexArg(xs[8]), optArg(xs[9]))
		x.dEndToEnd(t, unhexArg(xs[4]), qp, unhexArg(xs[7]), unhexArg(xs[8]), optArg(xs[9]))
	default:
		panic("c14: cannot replay " + line)
	}
}

// ---------------------------------------------------------------- Run

func Run(cfg Config) *hx.Result {
	r := hx.NewResult("C14", cfg.Module, cfg.Seed, cfg.Tier)
	r.Rule = "verbs {GET,DELETE,PUT,POST,PATCH,get,OPTIONS} x queries built from {'=','&','%','%0D%0A',CR,LF,'--BOUNDARY' lines, header-like text, 3-9 kB runs} x bodies {absent, empty, JSON with multipart-boundary-like lines, 4-13 kB} x thresholds {0,1,len-1,len,len+1}; " +
		"tunnelled requests produced by the real encoder, then a malformed stream (dropped/duplicated headers, foreign verbs, URL query added, outer Content-Type variants, hand-written multipart bodies with LF line ends, preamble/epilogue, unknown part types, truncations and single-byte edits); " +
		"a case is non-trivial when the request is tunnelled (D evaluated on it); distinct by op line"
	log.SetOutput(io.Discard) // the server logs the stack of every recovered panic
	x := &runner{cfg: cfg, r: r, srv: newServer()}
	rng := hx.Rng(cfg.Seed, "c14")

	if len(cfg.Replay) > 0 {
		for _, line := range cfg.Replay {
			x.replay(line)
		}
		return r
	}

	// ---- fixed corpus
	for _, v := range mediaTypes {
		x.kMediaType(v)
	}
	for _, k := range []string{restli.MethodOverrideHeader, restli.ContentTypeHeader, restli.MethodHeader, restli.ProtocolVersionHeader, "accept", "x-http-method-override", "a b", "", "é", "x--y-z", "-a", "A_b-c"} {
		x.kCanonKey(k)
	}
	for _, b := range boundaries {
		x.kFmtMediaType(restli.MultipartMixedContentType, restli.MultipartBoundary, b)
	}
	x.kFmtMediaType("multipart mixed", "boundary", "b")
	x.kFmtMediaType("multipart/mixed", "bound ary", "b")
	two := func(q, body string) []wpart {
		return []wpart{{restli.ContentTypeHeader, restli.FormUrlEncodedContentType, q}, {restli.ContentTypeHeader, restli.ApplicationJsonContentType, body}}
	}
	for _, ps := range [][]wpart{nil, two("q=1", "{}"), two("", ""), two("--b", "\r\n--b"), {{restli.ContentTypeHeader, "text/plain", "x"}}} {
		x.kMpWrite("b", ps)
		if d, ok := realMpWrite("b", ps); ok {
			x.kMpRead("b", hx.UnHex(strings.Fields(d)[1]))
		}
	}
	for _, verb := range []string{"GET", "PUT"} {
		for _, body := range [][]byte{nil, {}, []byte("{}"), []byte("{\"a\":\"\r\n--" + fixedBoundary + "--\r\n\"}")} {
			for _, q := range []string{"a=b", "q=find&x=%0D%0A", "a=\r\n--" + fixedBoundary + "\r\n"} {
				x.kTunEnc(verb, q, body)
				x.dDirect(verb, q, body)
				s := tunnelled(verb, "get", "/coll/1", q, body)
				x.kTunDec(s)
				x.kTunSite(s)
			}
		}
	}
	x.malformedCorpus()
	for _, verb := range []string{"GET", "DELETE", "PUT", "POST"} {
		rm := map[string]string{"GET": "get", "DELETE": "delete", "PUT": "update", "POST": "partial_update"}[verb]
		var contents []byte
		if verb == "PUT" || verb == "POST" {
			contents = []byte(`{"a":"--` + fixedBoundary + `"}`)
		}
		for _, q := range []*string{nil, sp(""), sp("a=b"), sp("q=find&x=%0D%0A--" + fixedBoundary + "--&y=(a:1)")} {
			n := 0
			if q != nil {
				n = len(*q)
			}
			for _, t := range []int{0, 1, n - 1, n, n + 1} {
				if t < 0 {
					continue
				}
				x.kTunReq(t, "/coll/1", q, verb, rm, contents)
				x.dEndToEnd(t, "/coll/1", q, verb, rm, contents)
			}
		}
	}

	// ---- generation
	n := 1500
	if cfg.Tier == "thorough" {
		n = 30000
	}
	for i := 0; i < n; i++ {
		// Lib ops
		x.kMediaType(genMediaType(rng))
		b := boundaries[rng.Intn(len(boundaries))]
		parts := genParts(rng, b)
		x.kMpWrite(b, parts)
		nl := []string{"\r\n", "\n"}[rng.Intn(5)/4]
		pre := []string{"", "", "", "preamble", "pre\r\n--" + b + "x\r\nmore", strings.Repeat("p", 5000)}[rng.Intn(6)]
		epi := []string{"", "", "epilogue", "\r\n--" + b + "\r\n\r\nx"}[rng.Intn(4)]
		data := writeRaw(b, nl, parts, pre, epi, rng.Intn(6) != 0)
		if rng.Intn(2) == 0 {
			data = mutate(rng, data)
		}
		rb := b
		if rng.Intn(10) == 0 {
			rb = boundaries[rng.Intn(len(boundaries))]
		}
		x.kMpRead(rb, data)

		// model ops + D on the direct functions
		verb := verbs[rng.Intn(len(verbs))]
		q := genQuery(rng, false)
		body := genBody(rng)
		x.kTunEnc(verb, q, body)
		x.dDirect(verb, q, body)
		s := x.genSreq(rng)
		x.kTunDec(s)
		if i%3 == 0 {
			x.kTunSite(s)
		}
		if i%4 == 0 {
			x.genMalformed(rng)
		}

		// the client constructors and the end-to-end behaviour
		if i%2 == 0 {
			wverb := []string{"GET", "DELETE", "PUT", "POST"}[rng.Intn(4)]
			rm := map[string]string{"GET": "get", "DELETE": "delete", "PUT": "update", "POST": "partial_update"}[wverb]
			var contents []byte
			if wverb == "PUT" || wverb == "POST" {
				contents = genBody(rng)
				if rng.Intn(4) != 0 && len(contents) > 0 {
					// valid JSON (so that the resource is reached) whose text still carries the dangerous lines
					js, _ := json.Marshal(map[string]string{"s": string(contents)})
					contents = bytes.ReplaceAll(js, []byte(`\r\n`), []byte("\r\n")) // raw CR LF are legal JSON whitespace only outside strings; keep them escaped in strings
					contents = append([]byte("{\r\n--"+fixedBoundary+"x\r\n \"t\":"), append(js, '}')...)
				}
				if len(contents) == 0 {
					// a Marshaler that writes nothing still yields "null": the client API cannot
					// produce a present-but-empty body (only the direct ops can)
					contents = []byte("{}")
				}
			}
			wq := genWireQuery(rng)
			if rng.Intn(4) == 0 {
				wq = genQuery(rng, true)
			}
			ts := []int{0, 1, len(wq) - 1, len(wq), len(wq) + 1, 1 + rng.Intn(len(wq)+2)}
			t := ts[rng.Intn(len(ts))]
			key := []string{"1", "a%2Fb", "x.y"}[rng.Intn(3)]
			x.kTunReq(t, "/coll/"+key, &wq, wverb, rm, contents)
			x.dEndToEnd(t, "/coll/"+key, &wq, wverb, rm, contents)
			if i%8 == 0 {
				// the same call shape, 2-4 instances with their own queries and bodies, all built first
				k := 2 + rng.Intn(3)
				qs := make([]string, k)
				bs := make([][]byte, k)
				for j := range qs {
					qs[j] = genWireQuery(rng)
					if contents != nil {
						bs[j] = genBody(rng)
						if len(bs[j]) == 0 {
							bs[j] = []byte(`{"n":` + fmt.Sprint(j) + `}`)
						}
					}
				}
				x.dPending(1, "/coll/"+key, qs, wverb, rm, bs)
			}
		}
	}
	return r
}

// genMalformed: one of the property's four malformed shapes with random well-formed parts
func (x *runner) genMalformed(rng *rand.Rand) {
	ctk := restli.ContentTypeHeader
	fresh := func() string {
		atoms := []string{"a=b", "{}", "\r\n", "--", "--x", "\r\n--" + fixedBoundary + "x", "q", strings.Repeat("k", 50)}
		var b strings.Builder
		for i := rng.Intn(3); i >= 0; i-- {
			b.WriteString(atoms[rng.Intn(len(atoms))])
		}
		return b.String()
	}
	form := func() wpart { return wpart{ctk, restli.FormUrlEncodedContentType, fresh()} }
	js := func() wpart { return wpart{ctk, restli.ApplicationJsonContentType, fresh()} }
	unknown := func() wpart {
		return wpart{ctk, []string{"text/plain", "application/json; charset=utf-8", "APPLICATION/JSON", "application/xml"}[rng.Intn(4)], fresh()}
	}
	var parts []wpart
	name, rawQuery := "", ""
	switch rng.Intn(4) {
	case 0:
		name = "missing query part"
		for i := rng.Intn(3); i > 0; i-- {
			parts = append(parts, js())
		}
	case 1:
		name = "missing body part"
		for i := 1 + rng.Intn(2); i > 0; i-- {
			parts = append(parts, form())
		}
	case 2:
		name = "unknown part type"
		for i := rng.Intn(3); i > 0; i-- {
			if rng.Intn(2) == 0 {
				parts = append(parts, form())
			} else {
				parts = append(parts, js())
			}
		}
		parts = append(parts, unknown())
		if rng.Intn(2) == 0 {
			parts = append(parts, form(), js())
		}
	default:
		name = "override header with a URL query"
		parts = []wpart{form(), js()}
		rawQuery = []string{"x=1", "a", "q=find&y=2"}[rng.Intn(3)]
	}
	body, _ := realMpWrite(fixedBoundary, parts)
	h := baseHeaders("get")
	h.Set(restli.MethodOverrideHeader, verbs[rng.Intn(4)])
	h.Set(restli.ContentTypeHeader, "multipart/mixed; boundary="+fixedBoundary)
	s := sreq{method: http.MethodPost, path: "/coll/1", rawQuery: rawQuery, header: h, body: "=" + string(hx.UnHex(strings.Fields(body)[1]))}
	x.kTunSite(s)
	x.dMalformed(s, name)
}

// malformedCorpus: the property's four named malformed shapes and their neighbours, through the
// real server (D) and through the model of the call site (K)
func (x *runner) malformedCorpus() {
	mk := func(ct string, body []byte, rawQuery string) sreq {
		h := baseHeaders("get")
		h.Set(restli.MethodOverrideHeader, "GET")
		if ct != "" {
			h.Set(restli.ContentTypeHeader, ct)
		}
		return sreq{method: http.MethodPost, path: "/coll/1", rawQuery: rawQuery, header: h, body: "=" + string(body)}
	}
	mp := func(parts ...wpart) (string, []byte) {
		var buf bytes.Buffer
		w := multipart.NewWriter(&buf)
		w.SetBoundary(fixedBoundary)
		for _, p := range parts {
			pw, _ := w.CreatePart(textproto.MIMEHeader{p.key: {p.value}})
			io.WriteString(pw, p.content)
		}
		w.Close()
		return "multipart/mixed; boundary=" + fixedBoundary, buf.Bytes()
	}
	ctk := restli.ContentTypeHeader
	form := wpart{ctk, restli.FormUrlEncodedContentType, "a=b"}
	js := wpart{ctk, restli.ApplicationJsonContentType, "{}"}
	type mc struct {
		name string
		s    sreq
	}
	var cases []mc
	add := func(name string, s sreq) { cases = append(cases, mc{name, s}) }
	ct, b := mp(js)
	add("missing query part", mk(ct, b, ""))
	ct, b = mp(form)
	add("missing body part", mk(ct, b, ""))
	ct, b = mp(form, js, wpart{ctk, "text/plain", "x"})
	add("unknown part type", mk(ct, b, ""))
	ct, b = mp(wpart{ctk, "text/plain", "x"}, form, js)
	add("unknown part type", mk(ct, b, ""))
	ct, b = mp(wpart{"X-Other", "y", "x"}, form, js)
	add("unknown part type", mk(ct, b, ""))
	ct, b = mp(form, js)
	add("override header with a URL query", mk(ct, b, "x=1"))
	add("override header with a URL query", mk(restli.FormUrlEncodedContentType, []byte("a=b"), "x=1"))
	ct, b = mp()
	add("missing query part", mk(ct, b, ""))
	ct, b = mp(form, js)
	add("truncated multipart body", mk(ct, b[:len(b)-12], ""))
	add("multipart without boundary parameter", mk("multipart/mixed", b, ""))
	add("outer Content-Type neither form nor multipart", mk("text/plain", []byte("a=b"), ""))
	add("outer Content-Type neither form nor multipart", mk("", []byte("a=b"), ""))
	add("outer Content-Type neither form nor multipart", mk("application/json", []byte("{}"), ""))
	for _, c := range cases {
		x.kTunDec(c.s)
		x.kTunSite(c.s)
		x.dMalformed(c.s, c.name)
	}
}
