// Package c15: correspondence (K) and direct oracle (D) for request URL construction (property C15).
//
//	K1  Lib.Url vs the real net/url          : ops urlparse, urlresolve
//	K2  Model.HttpUrl vs the real client API : op fmtquery — restli.NewGetRequest with a
//	    SimpleHostnameResolver (the narrowest public entry that runs formatQueryUrl and the
//	    re-parse in http.NewRequestWithContext), observing req.URL
//	D   the property itself, computed here by string functions that share nothing with the model
package c15

import (
	"bytes"
	"context"
	"fmt"
	"math/rand"
	"net/url"
	"strings"

	"github.com/PapaCharlie/go-restli/v2/restli"
	"github.com/PapaCharlie/go-restli/v2/restlicodec"
	"verif/harness/hx"
	"verif/harness/tbl"
)

type Config struct {
	Module string
	Seed   int64
	Tier   string
	Driver *hx.Driver
	Replay []string
}

// ---------------------------------------------------------------- real code

func b01(b bool) string {
	if b {
		return "1"
	}
	return "0"
}

func renderURL(u *url.URL) string {
	s := strings.Join([]string{"ok", hx.Hex([]byte(u.Scheme)), hx.Hex([]byte(u.Host)), hx.Hex([]byte(u.Path)),
		hx.Hex([]byte(u.RawPath)), b01(u.OmitHost), b01(u.ForceQuery), hx.Hex([]byte(u.RawQuery)),
		hx.Hex([]byte(u.EscapedPath())), hx.Hex([]byte(u.String())), hx.Hex([]byte(u.RequestURI()))}, " ")
	if u.Opaque != "" || u.User != nil || u.Fragment != "" || u.RawFragment != "" {
		s += " +opaque/user/fragment"
	}
	return s
}

func realParse(raw string) string {
	var out string
	p, v := hx.Recover(func() {
		u, err := url.Parse(raw)
		if err != nil {
			out = "err"
			return
		}
		out = renderURL(u)
	})
	if p {
		return fmt.Sprintf("panic %v", v)
	}
	return out
}

func realResolve(base, ref string) string {
	var out string
	p, v := hx.Recover(func() {
		b, err := url.Parse(base)
		if err != nil {
			out = "err"
			return
		}
		r, err := url.Parse(ref)
		if err != nil {
			out = "err"
			return
		}
		out = renderURL(b.ResolveReference(r))
	})
	if p {
		return fmt.Sprintf("panic %v", v)
	}
	return out
}

// rpath is a ResourcePath whose root and path are chosen independently (generated bindings return
// a constant root and a path starting with "/"+root; ResourcePathString derives the root from the path)
type rpath struct{ root, path string }

func (r rpath) RootResource() string          { return r.root }
func (r rpath) ResourcePath() (string, error) { return r.path, nil }

type built struct {
	status string // ok | err | err-base | panic
	url    *url.URL
	wire   string // request line written by req.Write ("" when not written)
}

func realBuild(base, root, rp string, query *string) built {
	var out built
	p, v := hx.Recover(func() {
		b, err := url.Parse(base)
		if err != nil {
			out.status = "err-base"
			return
		}
		c := &restli.Client{HostnameResolver: &restli.SimpleHostnameResolver{Hostname: b}}
		var q restli.QueryParamsEncoder
		if query != nil {
			q = restli.QueryParamsString(*query)
		}
		req, err := restli.NewGetRequest(c, context.Background(), rpath{root, rp}, q, restli.Method_get)
		if err != nil {
			out.status = "err"
			return
		}
		out.status = "ok"
		out.url = req.URL
		if req.URL.Host != "" {
			var buf bytes.Buffer
			if err := req.Write(&buf); err == nil {
				line, _, _ := strings.Cut(buf.String(), "\r\n")
				out.wire = line
			} else {
				out.wire = "write-error"
			}
		}
	})
	if p {
		return built{status: fmt.Sprintf("panic %v", v)}
	}
	return out
}

// otherConstructors builds the same request through NewDeleteRequest and NewJsonRequest (all go
// through newRequest) and reports whether their URLs equal the GET request's.
func otherConstructors(base, root, rp string, query *string, want string) string {
	out := ""
	hx.Recover(func() {
		b, err := url.Parse(base)
		if err != nil {
			return
		}
		c := &restli.Client{HostnameResolver: &restli.SimpleHostnameResolver{Hostname: b}}
		var q restli.QueryParamsEncoder
		if query != nil {
			q = restli.QueryParamsString(*query)
		}
		del, err := restli.NewDeleteRequest(c, context.Background(), rpath{root, rp}, q, restli.Method_delete)
		if err != nil || del.URL.String() != want {
			out = "NewDeleteRequest"
			return
		}
		body := restlicodec.MarshalerFunc(func(w restlicodec.Writer) error { w.WriteRawBytes([]byte("{}")); return nil })
		js, err := restli.NewJsonRequest(c, context.Background(), rpath{root, rp}, q, "PUT", restli.Method_update, body, nil)
		if err != nil || js.URL.String() != want {
			out = "NewJsonRequest"
		}
	})
	return out
}

func (b built) render() string {
	if b.status == "ok" {
		return renderURL(b.url)
	}
	return b.status
}

// ---------------------------------------------------------------- D: the property, on strings

func isHexB(c byte) bool {
	return '0' <= c && c <= '9' || 'a' <= c && c <= 'f' || 'A' <= c && c <= 'F'
}

// wirePathBytes: s is text an encoder may put into a URL path: unreserved characters, the
// sub-delimiters, ':' '@' '[' ']' and well-formed %XX triples; '/' allowed iff slashOK.
func wirePathBytes(s string, slashOK bool) bool {
	for i := 0; i < len(s); i++ {
		c := s[i]
		switch {
		case 'a' <= c && c <= 'z', 'A' <= c && c <= 'Z', '0' <= c && c <= '9':
		case strings.IndexByte("-_.~!$&'()*+,;=:@[]", c) >= 0:
		case c == '/':
			if !slashOK {
				return false
			}
		case c == '%':
			if i+2 >= len(s) || !isHexB(s[i+1]) || !isHexB(s[i+2]) {
				return false
			}
			i += 2
		default:
			return false
		}
	}
	return true
}

type domain struct {
	in          bool
	why         string // reason for being outside the property's quantifier
	scheme      string
	host        string
	segs        []string
	unspecified bool // root name as a complete non-final context segment: left unspecified by the property
}

func splitBase(base string) (scheme, host, ctx string, ok bool) {
	if i := strings.Index(base, "://"); i >= 0 {
		scheme = base[:i]
		rest := base[i+3:]
		j := strings.IndexByte(rest, '/')
		if j < 0 {
			host, ctx = rest, ""
		} else {
			host, ctx = rest[:j], rest[j:]
		}
		if scheme == "" || host == "" {
			return "", "", "", false
		}
		for k := 0; k < len(scheme); k++ {
			c := scheme[k]
			alpha := 'a' <= c && c <= 'z' || 'A' <= c && c <= 'Z'
			if !(alpha || k > 0 && ('0' <= c && c <= '9' || c == '+' || c == '-' || c == '.')) {
				return "", "", "", false
			}
		}
		name, port, hasPort := strings.Cut(host, ":")
		if name == "" || hasPort && port == "" {
			return "", "", "", false
		}
		for k := 0; k < len(name); k++ {
			c := name[k]
			if !('a' <= c && c <= 'z' || 'A' <= c && c <= 'Z' || '0' <= c && c <= '9' || strings.IndexByte("-_.~!$&'()*+,;=", c) >= 0) {
				return "", "", "", false
			}
		}
		for k := 0; k < len(port); k++ {
			if port[k] < '0' || port[k] > '9' {
				return "", "", "", false
			}
		}
		return scheme, host, ctx, true
	}
	return "", "", base, true
}

func classify(base, root, rp string, query *string) domain {
	d := domain{}
	scheme, host, ctx, ok := splitBase(base)
	if !ok {
		d.why = "base"
		return d
	}
	d.scheme, d.host = scheme, host
	if ctx != "" {
		if ctx[0] != '/' {
			d.why = "base"
			return d
		}
		body := strings.TrimSuffix(ctx[1:], "/")
		if body != "" || ctx == "//" {
			d.segs = strings.Split(body, "/")
		}
		for _, s := range d.segs {
			if s == "" || !wirePathBytes(s, false) {
				d.why = "context"
				return d
			}
		}
	}
	if root == "" || !wirePathBytes(root, false) {
		d.why = "root"
		return d
	}
	if !strings.HasPrefix(rp, "/"+root) || !wirePathBytes(rp, true) {
		d.why = "resource-path"
		return d
	}
	if t := rp[len(root)+1:]; t != "" && t[0] != '/' {
		d.why = "resource-path"
		return d
	}
	if query != nil {
		for i := 0; i < len(*query); i++ {
			c := (*query)[i]
			if c < 0x20 || c == 0x7f || c == '#' {
				d.why = "query"
				return d
			}
		}
	}
	for i, s := range d.segs {
		if s == root && i != len(d.segs)-1 {
			d.unspecified = true
		}
	}
	d.in = true
	return d
}

func expectedPath(d domain, root, rp string) string {
	segs := d.segs
	if n := len(segs); n > 0 && segs[n-1] == root {
		segs = segs[:n-1]
	}
	var b strings.Builder
	for _, s := range segs {
		b.WriteByte('/')
		b.WriteString(s)
	}
	b.WriteString(rp)
	return b.String()
}

// removeDots is RFC 3986 §5.2.4 remove_dot_segments, written directly from the RFC text.
func removeDots(p string) string {
	var out []string
	in := p
	for in != "" {
		switch {
		case strings.HasPrefix(in, "../"):
			in = in[3:]
		case strings.HasPrefix(in, "./"):
			in = in[2:]
		case strings.HasPrefix(in, "/./"):
			in = in[2:]
		case in == "/.":
			in = "/"
		case strings.HasPrefix(in, "/../"):
			in = in[3:]
			if len(out) > 0 {
				out = out[:len(out)-1]
			}
		case in == "/..":
			in = "/"
			if len(out) > 0 {
				out = out[:len(out)-1]
			}
		case in == "." || in == "..":
			in = ""
		default:
			i := strings.IndexByte(in[1:], '/')
			if in[0] != '/' {
				i = strings.IndexByte(in, '/') - 1
				if i < -1 {
					i = -2
				}
			}
			if i < 0 && !(in[0] != '/' && i == -1) {
				out = append(out, in)
				in = ""
			} else {
				out = append(out, in[:i+1])
				in = in[i+1:]
			}
		}
	}
	return strings.Join(out, "")
}

func hasDotSegment(p string) bool {
	for _, s := range strings.Split(p, "/") {
		if s == "." || s == ".." {
			return true
		}
	}
	return false
}

func fmtOp(base, root, rp string, query *string) string {
	q := "nil"
	if query != nil {
		q = hx.Hex([]byte(*query))
	}
	return fmt.Sprintf("fmtquery %s %s %s %s", hx.Hex([]byte(base)), hx.Hex([]byte(root)), hx.Hex([]byte(rp)), q)
}

func runFmt(cfg Config, r *hx.Result, base, root, rp string, query *string) {
	op := fmtOp(base, root, rp, query)
	b := realBuild(base, root, rp, query)
	implS := b.render()
	d := classify(base, root, rp, query)

	// ---- D
	if d.in && !d.unspecified {
		r.OracleCases++
		r.Count(fmt.Sprintf("D:ctx-segments=%d", len(d.segs)))
		if d.scheme == "" {
			r.Count("D:base-without-host")
		}
		if n := len(d.segs); n > 0 && d.segs[n-1] == root {
			r.Count("D:ctx-ends-in-root")
		}
		for _, s := range d.segs {
			if s != root && strings.HasPrefix(s, root) {
				r.Count("D:ctx-seg-root-with-suffix")
			} else if s != root && strings.HasPrefix(root, s) {
				r.Count("D:ctx-seg-prefix-of-root")
			}
		}
		want := expectedPath(d, root, rp)
		q := ""
		if query != nil {
			q = *query
		}
		dots := hasDotSegment(want)
		if dots {
			r.Count("D:dot-segment")
		}
		if strings.Contains(rp, "%") {
			r.Count("D:percent-in-path")
		}
		if strings.Contains(rp, "//") {
			r.Count("D:double-slash")
		}
		fail := func(sig, expected string) {
			r.OracleFail(hx.Case{Sig: sig, Op: op, Impl: implS + " wire=" + b.wire, Expected: expected})
		}
		if b.status != "ok" {
			fail("C15 request construction failed: "+strings.Fields(b.status)[0], "a request for "+want)
		} else {
			u := b.url
			got := u.EscapedPath()
			endsInRoot := len(d.segs) > 0 && d.segs[len(d.segs)-1] == root
			unstripped := "/" + strings.Join(d.segs, "/") + rp
			switch {
			case got == want:
			case dots && got == removeDots(want):
				fail("C15 dot segments removed from the path (rest intact)", "path "+want)
			case !dots && endsInRoot && got == unstripped:
				fail("C15 root segment twice: context ending in the root not stripped (an earlier segment starts with the root name)", "path "+want)
			case dots && endsInRoot && got == removeDots(unstripped):
				fail("C15 dot segments removed from the path and root segment twice (both known defects at once)", "path "+want)
			default:
				fail("C15 path not preserved", "path "+want)
			}
			if u.Scheme != strings.ToLower(d.scheme) || u.Host != d.host {
				fail("C15 scheme or host not kept", d.scheme+"://"+d.host)
			}
			if u.RawQuery != q {
				fail("C15 query not preserved", "query "+q)
			}
			if got == want && u.RawQuery == q {
				full := want
				if query != nil {
					full += "?" + q
				}
				wantS := full
				if d.scheme != "" {
					wantS = strings.ToLower(d.scheme) + "://" + d.host + full
				}
				if s := u.String(); s != wantS && s != strings.TrimSuffix(wantS, "?") {
					fail("C15 URL text differs", wantS)
				}
				if r.OracleCases%16 == 0 {
					if bad := otherConstructors(base, root, rp, query, u.String()); bad != "" {
						fail("C15 request constructors disagree: "+bad, u.String())
					}
					r.Count("D:other-constructors-checked")
				}
				if b.wire != "" {
					wl := "GET " + full + " HTTP/1.1"
					if b.wire != wl && b.wire != "GET "+strings.TrimSuffix(full, "?")+" HTTP/1.1" {
						fail("C15 request line differs", wl)
					}
				}
			}
		}
		r.Distinctive(op)
	} else if d.in {
		r.Count("D:skipped-unspecified-root-as-inner-context-segment")
	} else {
		r.Count("D:outside-quantifier:" + d.why)
	}

	// ---- K
	if cfg.Driver != nil {
		r.Ops++
		m := cfg.Driver.MustAsk(op)
		if strings.HasPrefix(m, "unmodelled") {
			r.Unmodelled[m]++
		} else if m != implS && !(strings.HasPrefix(implS, "panic") && m == "panic") {
			r.Disagree(hx.Case{Sig: "C15 fmtquery", Op: op, Impl: implS, Model: m})
		}
	}
}

func runParse(cfg Config, r *hx.Result, raw string) {
	if cfg.Driver == nil {
		return
	}
	op := "urlparse " + hx.Hex([]byte(raw))
	impl := realParse(raw)
	r.Ops++
	m := cfg.Driver.MustAsk(op)
	r.Count("parse:" + strings.Fields(impl)[0])
	if strings.HasPrefix(m, "unmodelled") {
		r.Unmodelled[m]++
	} else if m != impl {
		r.Disagree(hx.Case{Sig: "C15 urlparse", Op: op, Impl: impl, Model: m})
	}
}

func runResolve(cfg Config, r *hx.Result, base, ref string) {
	if cfg.Driver == nil {
		return
	}
	op := "urlresolve " + hx.Hex([]byte(base)) + " " + hx.Hex([]byte(ref))
	impl := realResolve(base, ref)
	r.Ops++
	m := cfg.Driver.MustAsk(op)
	r.Count("resolve:" + strings.Fields(impl)[0])
	if strings.HasPrefix(m, "unmodelled") {
		r.Unmodelled[m]++
	} else if m != impl {
		r.Disagree(hx.Case{Sig: "C15 urlresolve", Op: op, Impl: impl, Model: m})
	}
}

// ---------------------------------------------------------------- generators

var dangerous = []string{"%", "%41", "%2F", "%2f", "%2E", "%2E%2E", ".", "..", "...", "/", "//", ";", "?", "#", ":", "@", " ", "+",
	"&", "=", "(", ")", ",", "'", "*", "!", "~", "$", "[", "]", "\"", "<", "\\", "^", "`", "{", "|", "\x00", "\x7f", "\x80", "é", "a", "b", "1", "x"}

func pick(rng *rand.Rand, xs []string) string { return xs[rng.Intn(len(xs))] }

func rawKey(rng *rand.Rand) string {
	n := 1 + rng.Intn(4)
	var b strings.Builder
	for i := 0; i < n; i++ {
		b.WriteString(pick(rng, dangerous))
	}
	return b.String()
}

// tail after "/root": entity keys encoded by the real path encoder, structural ROR2 text,
// sub-resource names, and literal dot / empty segments
func genTail(rng *rand.Rand) string {
	n := rng.Intn(4)
	var b strings.Builder
	for i := 0; i < n; i++ {
		b.WriteByte('/')
		switch rng.Intn(10) {
		case 0:
			b.WriteString(pick(rng, []string{".", "..", "...", ".a", "%2E", "%2E%2E", "%2e.", ".%2E"}))
		case 1:
			b.WriteString(pick(rng, []string{"", "sub", "x", "(a:1,b:2)", "''", "List(1,2)", "(k:(x:1),$params:(p:''))", "a;b", "a:b@c"}))
		default:
			b.WriteString(restlicodec.Ror2PathEscape(rawKey(rng)))
		}
	}
	if rng.Intn(8) == 0 {
		b.WriteByte('/')
	}
	return b.String()
}

var roots = []string{"coll", "a", "root", "greetings", "x_1", "co.ll"}

func genCtxSeg(rng *rand.Rand, root string, last bool) string {
	switch k := rng.Intn(8); {
	case k == 0 && last:
		return root
	case k == 0:
		return pick(rng, []string{"api", root}) // root as inner segment: the unspecified region
	case k == 1 || k == 2:
		return root + pick(rng, []string{"X", "s", "-1", ".v2", "%41", "_", root})
	case k == 3:
		if len(root) > 1 {
			return root[:1+rng.Intn(len(root)-1)]
		}
		return "b"
	case k == 4:
		return pick(rng, []string{".", "..", "a%2Fb", "x;y", "~u", "%7Eu", "a:b", "(1)"})
	default:
		return pick(rng, []string{"api", "v1", "ctx", "rest.li", "b"})
	}
}

var schemeHosts = []string{"http://host", "https://example.com:8080", "HTTP://Host.Example", "d2://svc", "h2c+x.y-1://127.0.0.1:1",
	"http://a-b.c_d~e", "http://h!$&'()*+,;=x:80", "", "", ""}

func genBase(rng *rand.Rand, root string) string {
	sh := pick(rng, schemeHosts)
	n := rng.Intn(4)
	var b strings.Builder
	b.WriteString(sh)
	for i := 0; i < n; i++ {
		b.WriteByte('/')
		seg := genCtxSeg(rng, root, i == n-1)
		if i == n-1 && rng.Intn(3) == 0 {
			seg = root
		}
		b.WriteString(seg)
	}
	if rng.Intn(3) == 0 {
		b.WriteByte('/')
	}
	return b.String()
}

var queries = []string{"", "a=b", "q=find&x=(a:1,b:List(2,3))", "ids=List(1,2)", "k=%25%2F%3F%23", "a=b?c=d", "q=a+b&e=''", "fields=a,b:(c)",
	"x=%C3%A9", "a=1&a=2&&=", "??", "p=/../.", "v=é"}

func genQuery(rng *rand.Rand) *string {
	if rng.Intn(6) == 0 {
		return nil
	}
	q := pick(rng, queries)
	if rng.Intn(4) == 0 {
		q = "k=" + restlicodec.Ror2QueryEscape(rawKey(rng))
	}
	if rng.Intn(30) == 0 {
		q += "&long=" + strings.Repeat("x", 3000)
	}
	return &q
}

func sp(s string) *string { return &s }

// malformed / out-of-grammar URL text for the Lib ops
func genRawURL(rng *rand.Rand) string {
	var b strings.Builder
	switch rng.Intn(6) {
	case 0:
		b.WriteString(pick(rng, []string{"http:", "HTTP:", "h+t.p-1:", "1http:", ":", "ht tp:", "http", "a_b:", "mailto:", "-x:"}))
	case 1, 2:
		b.WriteString(pick(rng, []string{"http:", "https:", "", ""}))
	}
	switch rng.Intn(6) {
	case 0, 1, 2:
		b.WriteString("//")
		b.WriteString(pick(rng, []string{"host", "host:80", "host:", "host:8x", "[::1]:80", "[::1", "user@host", "u:p@host", "h%41", "h%C3%A9", "hé", "a b", "", "h:1:2", "a[b", "h<>", "x/", "A.B"}))
	case 3:
		b.WriteString("/")
	case 4:
		b.WriteString("///")
	}
	n := rng.Intn(5)
	for i := 0; i < n; i++ {
		if rng.Intn(4) != 0 {
			b.WriteByte('/')
		}
		b.WriteString(pick(rng, dangerous))
		if rng.Intn(2) == 0 {
			b.WriteString(pick(rng, dangerous))
		}
	}
	if rng.Intn(3) == 0 {
		b.WriteByte('?')
		b.WriteString(pick(rng, append(queries, "#", "%", "\n", "?")))
	}
	return b.String()
}

func genRef(rng *rand.Rand) string {
	switch rng.Intn(8) {
	case 0:
		return ""
	case 1:
		return "?" + pick(rng, queries)
	case 2:
		return pick(rng, []string{".", "..", "./", "../", "../..", "a/./b/../c", "a", "a/b", "../a//b/.", "x:y", "./x:y", "%2E%2E/a", "a/%2e"})
	default:
		return genRawURL(rng)
	}
}

func Run(cfg Config) *hx.Result {
	r := hx.NewResult("C15", cfg.Module, cfg.Seed, cfg.Tier)
	r.Rule = "base URLs = {scheme://host[:port] | none} + 0..3 context segments from {root (last or inner), root+suffix, prefix of root, dot segment, encoded, other} + optional '/'; " +
		"resource paths = /root + 0..3 segments (keys over a dangerous alphabet encoded by the real Ror2PathEscape, ROR2 structure text, literal '.', '..', '%2E%2E', empty segments); " +
		"queries nil/empty/encoded/with '?'/long; plus a malformed stream (raw URL text with bad schemes, userinfo, IPv6, bad escapes, control bytes, fragments) for the net/url model ops; " +
		"a fmtquery case is non-trivial when it lies in the property's quantifier (D evaluated); distinct by op line"
	rng := hx.Rng(cfg.Seed, "c15")
	if len(cfg.Replay) == 0 {
		tbl.Confirm(cfg.Driver, cfg.Module, r)
	}

	if len(cfg.Replay) > 0 {
		for _, line := range cfg.Replay {
			xs, err := hx.ParseLine(line)
			if err != nil || len(xs) < 2 {
				panic("c15: cannot replay " + line)
			}
			arg := func(i int) string { return string(hx.UnHex(xs[i].Atom)) }
			switch xs[0].Atom {
			case "urlparse":
				runParse(cfg, r, arg(1))
			case "urlresolve":
				runResolve(cfg, r, arg(1), arg(2))
			case "fmtquery":
				var q *string
				if xs[4].Atom != "nil" {
					q = sp(arg(4))
				}
				runFmt(cfg, r, arg(1), arg(2), arg(3), q)
			default:
				panic("c15: cannot replay " + line)
			}
		}
		return r
	}

	// ---- fixed corpus: the property's named situations and the known witnesses
	type fc struct {
		base, root, rp string
		q              *string
	}
	corpus := []fc{
		{"http://host", "coll", "/coll/1", sp("a=b")},
		{"http://host/", "coll", "/coll/1", nil},
		{"http://host/api", "coll", "/coll/1", sp("")},
		{"http://host/api/", "coll", "/coll/1", sp("q=f")},
		{"http://host/api/coll", "coll", "/coll/1", sp("q=f")},
		{"http://host/api/coll/", "coll", "/coll/1", sp("q=f")},
		{"http://host/coll", "coll", "/coll", nil},
		{"http://host/api/collX", "coll", "/coll/1", sp("q=f")},
		{"http://host/api/co", "coll", "/coll/1", sp("q=f")},
		{"http://host/collX/coll", "coll", "/coll/1", sp("q=f")}, // witness: root twice
		{"http://host/coll/api", "coll", "/coll/1", sp("q=f")},   // unspecified
		{"http://host/a/b/c", "coll", "/coll/1", sp("q=f")},
		{"/api", "coll", "/coll/1", sp("q=f")},
		{"", "coll", "/coll/1", sp("q=f")},
		{"/", "coll", "/coll/1", nil},
		{"http://host/api", "coll", "/coll/..", sp("q=f")},     // witness: dot segment
		{"http://host/api", "coll", "/coll/.", nil},            // witness: dot segment
		{"http://host", "coll", "/coll/../x", nil},             // witness: dot segment, empty context
		{"http://host/api", "coll", "/coll/%2E%2E", sp("q=f")}, // encoded dots survive
		{"http://host/api", "coll", "/coll/a%2Fb%3F%23%3B%25", sp("k=%25%23")},
		{"http://host/api", "coll", "/coll//x", nil},
		{"http://host/api", "coll", "/coll/(a:1,b:'')", sp("a=b?c")},
		{"http://host/api/..", "coll", "/coll/1", nil},
		{"HTTP://Host:80/api", "coll", "/coll/1", nil},
		{"http://host:/api", "coll", "/coll/1", nil},
		{"http://host/api", "coll", "/coll/1?x", nil},
		{"http://host/api", "coll", "/coll/1#x", sp("a")},
		{"http://host/api", "coll", "/coll/1", sp("a#b")},
		{"http://host/api", "coll", "//coll/1", nil},
		{"http://host/api", "coll", "coll/1", nil},
		{"http://host/api", "", "/coll/1", nil},
		{"http://host//", "coll", "/coll/1", nil},
		{"http://host/api//", "coll", "/coll/1", nil},
		{"http://host/a%2Fcoll", "coll", "/coll/1", nil},
		{"http://host/api?x=1", "coll", "/coll/1", nil},
		{"//host/api", "coll", "/coll/1", nil},
		{"http:/api", "coll", "/coll/1", nil},
	}
	for _, c := range corpus {
		runFmt(cfg, r, c.base, c.root, c.rp, c.q)
	}
	for _, raw := range []string{"", "*", "/", "//", "///", "////a", "http://", "http:///a", "http:/a", "http:a", "a:b", "/a:b", "a/b:c", ":", "::",
		"http://h/%", "http://h/%4", "http://h/%4g", "http://h/%41", "http://h/a%2fb", "http://h/a b", "http://h/\"", "http://h/é", "http://h?", "http://h??", "http://h/?a?",
		"http://h/a?b#c", "http://h#", "http://h:80", "http://h:", "http://h:x", "http://[::1]", "http://u@h", "http://h%41", "/%2A", "%2A", "/*", "x/../y", "HTTP://H/A"} {
		runParse(cfg, r, raw)
	}
	for _, br := range [][2]string{{"http://h/a/b", "c"}, {"http://h/a/b", "../c"}, {"http://h/a/b", "/c/./d/.."}, {"http://h/a/b", ""}, {"http://h/a/b?q", ""},
		{"http://h/a/b?q", "?r"}, {"http://h/a/b", "//g/x/.."}, {"http://h/a/b", "s://g/x/../y"}, {"http://h", "a"}, {"http://h", "/a//b"}, {"/a/b", "../../../c"},
		{"http://h/a%2Fb/c", "d%2E"}, {"http://h/a/b", "x:y"}, {"http://h/a/b/", ".."}, {"http://h/a/b/", "."}, {"a/b", "c"}, {"", "c"}, {"http://h/a/b", "/.."}, {"http://h/a", "/%2E%2E/x"}} {
		runResolve(cfg, r, br[0], br[1])
	}

	// ---- structured generation
	nFmt, nLib := 6000, 6000
	if cfg.Tier == "thorough" {
		nFmt, nLib = 150000, 150000
	}
	for i := 0; i < nFmt; i++ {
		root := pick(rng, roots)
		rp := "/" + root + genTail(rng)
		base := genBase(rng, root)
		q := genQuery(rng)
		switch rng.Intn(40) { // malformed stream for the request op
		case 0:
			rp = genRawURL(rng)
		case 1:
			base = genRawURL(rng)
		case 2:
			root = pick(rng, []string{"", "/", "co/ll", "%", "c"})
		case 3:
			q = sp(pick(rng, []string{"#", "a#b", "\n", "%", " ", "\x7f"}))
		}
		runFmt(cfg, r, base, root, rp, q)
	}
	// ---- one client, several calls: the URL of a call is a function of the call (and the resolver's
	// answer), not of what the same client was asked before
	nSeq := 300
	if cfg.Tier == "thorough" {
		nSeq = 6000
	}
	for i := 0; i < nSeq; i++ {
		runSequence(r, rng)
	}
	for i := 0; i < nLib; i++ {
		if i%2 == 0 {
			runParse(cfg, r, genRawURL(rng))
		} else {
			root := pick(rng, roots)
			base := genBase(rng, root)
			if rng.Intn(3) == 0 {
				base = genRawURL(rng)
			}
			runResolve(cfg, r, base, genRef(rng))
		}
	}
	return r
}

// runSequence: 2-4 calls with different roots (one of them usually a segment of the base's context
// path) through ONE client, each compared with the same call through a fresh client.
func runSequence(r *hx.Result, rng *rand.Rand) {
	rootA := pick(rng, roots)
	base := genBase(rng, rootA)
	b, err := url.Parse(base)
	if err != nil {
		return
	}
	shared := &restli.Client{HostnameResolver: &restli.SimpleHostnameResolver{Hostname: b}}
	n := 2 + rng.Intn(3)
	var trail []string
	for i := 0; i < n; i++ {
		root := rootA
		if i > 0 && rng.Intn(3) != 0 {
			root = pick(rng, roots)
		}
		rp := "/" + root + genTail(rng)
		q := genQuery(rng)
		var qe restli.QueryParamsEncoder
		if q != nil {
			qe = restli.QueryParamsString(*q)
		}
		got := ""
		hx.Recover(func() {
			req, err := restli.NewGetRequest(shared, context.Background(), rpath{root, rp}, qe, restli.Method_get)
			if err != nil {
				got = "err"
				return
			}
			got = req.URL.String()
		})
		fresh := realBuild(base, root, rp, q)
		want := "err"
		if fresh.status == "ok" {
			want = fresh.url.String()
		} else if strings.HasPrefix(fresh.status, "panic") {
			want = got // judged elsewhere
		}
		trail = append(trail, fmtOp(base, root, rp, q))
		r.OracleCases++
		r.Count("sequence:call-" + fmt.Sprint(i+1))
		if i > 0 {
			r.Distinctive(strings.Join(trail, " ; "))
		}
		if got != want {
			r.OracleFail(hx.Case{Sig: "C15 the URL of a call depends on earlier calls through the same client", Op: strings.Join(trail, " ; "), Impl: got, Expected: want})
			return
		}
	}
}
