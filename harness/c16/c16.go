package c16

import (
	"context"
	"encoding/hex"
	"encoding/json"
	"fmt"
	"io"
	"math/rand"
	"net/http"
	"net/url"
	"regexp"
	"sort"
	"strings"

	"github.com/PapaCharlie/go-restli/v2/restli"
	"github.com/PapaCharlie/go-restli/v2/restli/batchkeyset"
	"github.com/PapaCharlie/go-restli/v2/restlicodec"
	"verif/harness/hx"
)

type Config struct {
	Module string
	Seed   int64
	Tier   string
	Driver *hx.Driver
	Replay []string
}

const (
	sigPanic         = "C16 panic"
	sigDupAccepted   = "C16 duplicate key accepted"
	sigDistinctRej   = "C16 distinct key rejected as duplicate"
	sigSentOnDup     = "C16 request sent despite duplicate keys"
	sigNotSent       = "C16 no (or more than one) request sent for a valid key set"
	sigIds           = "C16 ids parameter is not each key's encoding exactly once in ascending order"
	sigLocate        = "C16 LocateOriginalKey does not return the caller's key"
	sigUnknownOK     = "C16 response naming an unrequested or undecodable key did not produce an error"
	sigSpuriousErr   = "C16 well-formed response about requested keys produced an error"
	sigLost          = "C16 response entry lost, duplicated or filed under another key"
	sigRepeated      = "C16 response naming one key (or field) twice was accepted: an entry is lost"
	sigCopy          = "C16 entry filed under a key value that is not the caller's"
	sigCodec         = "C16 key does not survive the header-encoding round trip (codec leg)"
	sigMethodsDiffer = "C16 batch methods disagree on the same keys and reply"
)

type entrySpec struct {
	Key  keySpec `json:"k"`
	Idx  int     `json:"i"`           // caller key it is meant to equal; -1 unknown key; -2 undecodable raw
	Raw  string  `json:"r,omitempty"` // explicit raw member name (undecodable text, alternative spelling)
	Val  int     `json:"v"`
	BadV bool    `json:"b,omitempty"`
}

type fieldSpec struct {
	Name    string      `json:"n"`
	Entries []entrySpec `json:"e"`
}

type scenario struct {
	Kind   string      `json:"kind"`
	Keys   []keySpec   `json:"keys"`
	Probes []keySpec   `json:"probes"`
	Doc    []fieldSpec `json:"doc"`
	Method int         `json:"m"` // 0 get 1 delete 2 update 3 partial update
}

// ---------------------------------------------------------------- plumbing around the real client

type fakeTransport struct {
	calls    int
	rawQuery string
	method   string
	body     []byte
	reply    []byte
}

func (t *fakeTransport) RoundTrip(req *http.Request) (*http.Response, error) {
	t.calls++
	t.rawQuery = req.URL.RawQuery
	t.method = req.Method
	if req.Body != nil {
		t.body, _ = io.ReadAll(req.Body)
	}
	h := http.Header{}
	h.Set(restli.ProtocolVersionHeader, restli.ProtocolVersion)
	h.Set("Content-Type", "application/json")
	return &http.Response{StatusCode: 200, Status: "200 OK", Header: h, Body: hx.ShortReads(t.reply),
		Request: req, Proto: "HTTP/1.1", ProtoMajor: 1, ProtoMinor: 1}, nil
}

type collPath struct{}

func (collPath) RootResource() string          { return "coll" }
func (collPath) ResourcePath() (string, error) { return "/coll", nil }

func encodeWith[K any](w restlicodec.Writer, k K) (string, error) {
	if err := restlicodec.MarshalRestLi(k, w); err != nil {
		return "", err
	}
	return w.Finalize(), nil
}

// splitIds parses `ids=List(a,b,…)` into its items (commas at parenthesis depth 0; everything
// inside an item is percent-escaped except its own structural parentheses)
func splitIds(q string) ([]string, bool) {
	const pre, post = "ids=List(", ")"
	if !strings.HasPrefix(q, pre) || !strings.HasSuffix(q, post) {
		return nil, false
	}
	body := q[len(pre) : len(q)-len(post)]
	if body == "" {
		return nil, true
	}
	var out []string
	depth, start := 0, 0
	for i := 0; i < len(body); i++ {
		switch body[i] {
		case '(':
			depth++
		case ')':
			depth--
		case ',':
			if depth == 0 {
				out = append(out, body[start:i])
				start = i + 1
			}
		}
	}
	return append(out, body[start:]), true
}

func hexList(items []string) string {
	if len(items) == 0 {
		return "none"
	}
	parts := make([]string, len(items))
	for i, s := range items {
		parts[i] = hx.Hex([]byte(s))
	}
	return strings.Join(parts, ",")
}

func jsonString(s string) string {
	b, _ := json.Marshal(s)
	// encoding/json escapes <,>,& as \u00XX: still the same JSON string
	return string(b)
}

var stripErrClass = regexp.MustCompile(`resp=err:\S+`)

// ---------------------------------------------------------------- one scenario

func runScenario[K comparable](cfg Config, r *hx.Result, ops kindOps[K], sc scenario) {
	keys := make([]K, len(sc.Keys))
	for i, s := range sc.Keys {
		keys[i] = ops.fromSpec(s)
	}
	probes := make([]K, len(sc.Probes))
	for i, s := range sc.Probes {
		probes[i] = ops.fromSpec(s)
	}
	idOf := func(k K) string { // canonical name of a key found in a result
		if ops.generic {
			for i, c := range keys {
				if ops.same(c, k) {
					return fmt.Sprint(i + 1)
				}
			}
			return "foreign:" + ops.bits(k)
		}
		return strings.NewReplacer("(", "", ")", "", " ", ":").Replace(ops.prim(k))
	}
	keySexp := func(id int, k K) string {
		enc, err := encodeWith(restlicodec.NewRestLiQueryParamsWriter(), k)
		encTok := hx.Hex([]byte(enc))
		if err != nil {
			encTok = "!"
		}
		if !ops.generic {
			return fmt.Sprintf("(k %d %s %s)", id, ops.prim(k), encTok)
		}
		nan := 0
		if ops.hasNaN(k) {
			nan = 1
		}
		return fmt.Sprintf("(k %d %d %s %d %s)", id, ops.hash(k), hx.Hex(ops.cls(k)), nan, encTok)
	}

	// ---- the reply document and the op line
	var opKeys, opProbes, opDoc []string
	for i, k := range keys {
		opKeys = append(opKeys, keySexp(i+1, k))
	}
	for i, k := range probes {
		opProbes = append(opProbes, keySexp(500+i, k))
	}
	var js strings.Builder
	js.WriteString("{")
	n := 0
	type sent struct {
		field string
		idx   int
		val   int
	}
	codecBroken := false
	for fi, f := range sc.Doc {
		if fi > 0 {
			js.WriteString(",")
		}
		js.WriteString(jsonString(f.Name) + ":{")
		part := []string{hx.Hex([]byte(f.Name))}
		for ei, e := range f.Entries {
			n++
			raw, dec := e.Raw, "bad"
			if e.Idx != -2 {
				k := ops.fromSpec(e.Key)
				if raw == "" {
					raw, _ = encodeWith(restlicodec.NewRor2HeaderWriter(), k)
				}
				dec = keySexp(1000+n, k)
				// the codec leg, checked on its own: the raw text must decode to an Equal key
				rd, err := restlicodec.NewRor2Reader(raw)
				var back K
				if err == nil {
					back, err = restlicodec.UnmarshalRestLi[K](rd)
				}
				if err != nil || (!ops.hasNaN(k) && !ops.specEq(back, k)) {
					codecBroken = true
					r.Count("codec:key-does-not-round-trip")
					r.OracleFail(hx.Case{Sig: sigCodec, Op: "raw=" + hx.Hex([]byte(raw)) + " kind=" + ops.name,
						Impl: fmt.Sprintf("decode error %v / unequal key", err), Expected: "an Equal key"})
				}
			}
			if ei > 0 {
				js.WriteString(",")
			}
			js.WriteString(jsonString(raw) + ":")
			val := fmt.Sprintf("v%d", e.Val)
			switch {
			case e.BadV:
				js.WriteString(`"not-a-value"`)
				val = "badv"
			case f.Name == statusesField:
				fmt.Fprintf(&js, "%d", e.Val)
			default:
				fmt.Fprintf(&js, `{"status":%d}`, e.Val)
			}
			part = append(part, fmt.Sprintf("(%s %s %s)", hx.Hex([]byte(raw)), dec, val))
		}
		js.WriteString("}")
		opDoc = append(opDoc, "("+strings.Join(part, " ")+")")
	}
	js.WriteString("}")
	specJSON, _ := json.Marshal(sc)
	kindWord := "prim"
	if ops.generic {
		kindWord = "gen"
	}
	op := fmt.Sprintf("keyset %s %s (%s) (%s) (%s) (go %s)", cfg.Module, kindWord,
		strings.Join(append([]string{"keys"}, opKeys...), " "),
		strings.Join(append([]string{"probes"}, opProbes...), " "),
		strings.Join(append([]string{"doc"}, opDoc...), " "), hex.EncodeToString(specJSON))
	fail := func(sig, impl, expected string) {
		r.OracleFail(hx.Case{Sig: sig, Op: op, Impl: impl, Expected: expected})
	}

	// ---- the real key set: AddKey one by one, AddAllKeys, ids, LocateOriginalKey
	addIdx := -1
	var q string
	var locs []string
	var set batchkeyset.BatchKeySet[K]
	panicked, pv := hx.Recover(func() {
		set = batchkeyset.NewBatchKeySet[K]()
		for i, k := range keys {
			if err := set.AddKey(k); err != nil {
				addIdx = i
				break
			}
		}
		set2 := batchkeyset.NewBatchKeySet[K]()
		if err := batchkeyset.AddAllKeys(set2, keys...); (err != nil) != (addIdx >= 0) {
			fail("C16 AddAllKeys and AddKey disagree", fmt.Sprint(err), fmt.Sprint(addIdx))
		}
	})
	r.OracleCases++
	if panicked {
		fail(sigPanic, fmt.Sprint("panic ", pv), "no panic")
		return
	}

	// D1: rejected iff the multiset holds two Equal keys (the property's key equality)
	wantDup := -1
	for j := 0; j < len(keys) && wantDup < 0; j++ {
		for i := 0; i < j; i++ {
			if ops.specEq(keys[j], keys[i]) {
				wantDup = j
				break
			}
		}
	}
	if wantDup >= 0 {
		r.Count("keys:with-duplicate")
	} else {
		r.Count("keys:distinct")
	}
	if addIdx != wantDup {
		switch {
		case wantDup >= 0 && (addIdx < 0 || addIdx > wantDup):
			fail(sigDupAccepted, fmt.Sprintf("first rejected index %d", addIdx), fmt.Sprintf("key %d rejected", wantDup))
		default:
			fail(sigDistinctRej, fmt.Sprintf("key %d rejected", addIdx), fmt.Sprintf("first duplicate %d", wantDup))
		}
	}

	impl := ""
	if addIdx >= 0 {
		impl = fmt.Sprintf("add=dup@%d", addIdx)
	} else {
		var qerr error
		hx.Recover(func() { q, qerr = set.EncodeQueryParams() })
		idsTok := "err"
		if qerr == nil {
			items, ok := splitIds(q)
			if !ok {
				fail(sigIds, q, "ids=List(…)")
			}
			idsTok = hexList(items)
			// D3: every key's own encoding exactly once, ascending
			var want []string
			for _, k := range keys {
				e, _ := encodeWith(restlicodec.NewRestLiQueryParamsWriter(), k)
				want = append(want, e)
			}
			sort.Strings(want)
			if wantQ := "ids=List(" + strings.Join(want, ",") + ")"; q != wantQ {
				fail(sigIds, q, wantQ)
			}
		}
		// D5: probes
		for _, p := range probes {
			var got K
			var found bool
			hx.Recover(func() { got, found = set.LocateOriginalKey(p) })
			want := -1
			for i, k := range keys {
				if ops.specEq(k, p) {
					want = i
					break
				}
			}
			r.OracleCases++
			switch {
			case want < 0 && !found:
				locs = append(locs, "none")
				r.Count("probe:unknown")
			case want >= 0 && found && ops.same(got, keys[want]):
				locs = append(locs, idOf(got))
				r.Count("probe:found-original")
			default:
				if found {
					locs = append(locs, idOf(got))
				} else {
					locs = append(locs, "none")
				}
				fail(sigLocate, fmt.Sprintf("found=%v %s", found, locs[len(locs)-1]), fmt.Sprintf("caller key index %d", want))
			}
		}
		locTok := "none"
		if len(locs) > 0 {
			locTok = strings.Join(locs, ",")
		}
		impl = "add=ok ids=" + idsTok + " loc=" + locTok
	}

	// ---- the same keys through the real client entry points
	callMethod := func(m int) (resp string, tr *fakeTransport, mapKeys [3][]K, err error) {
		tr = &fakeTransport{reply: []byte(js.String())}
		u, _ := url.Parse("http://example.invalid/")
		c := &restli.Client{Client: &http.Client{Transport: tr}, HostnameResolver: &restli.SimpleHostnameResolver{Hostname: u}}
		ctx := context.Background()
		collect := func(results map[K]*updResp, statuses map[K]int, errs map[K]*errResp) {
			render := func(i int, name string, keysOf []K, val func(K) int, isNil bool) string {
				if isNil {
					return name + "=nil"
				}
				var parts []string
				for _, k := range keysOf {
					mapKeys[i] = append(mapKeys[i], k)
					parts = append(parts, fmt.Sprintf("%s:v%d", idOf(k), val(k)))
				}
				sort.Strings(parts)
				return name + "=[" + strings.Join(parts, ",") + "]"
			}
			var rk, sk, ek []K
			for k := range results {
				rk = append(rk, k)
			}
			for k := range statuses {
				sk = append(sk, k)
			}
			for k := range errs {
				ek = append(ek, k)
			}
			resp = "ok " + render(0, "results", rk, func(k K) int {
				if results[k] == nil {
					return -1
				}
				return results[k].Status
			}, results == nil) + " " +
				render(1, "statuses", sk, func(k K) int { return statuses[k] }, statuses == nil) + " " +
				render(2, "errors", ek, func(k K) int {
					if errs[k] == nil || errs[k].Status == nil {
						return -1
					}
					return int(*errs[k].Status)
				}, errs == nil)
		}
		entities := map[K]*updResp{}
		for _, k := range keys {
			entities[k] = &updResp{Status: 200}
		}
		switch m {
		case 1:
			res, e := restli.BatchDelete[K](c, ctx, collPath{}, keys, nil)
			if err = e; e == nil {
				collect(res.Results, res.Statuses, res.Errors)
			}
		case 2:
			res, e := restli.BatchUpdate[K, *updResp](c, ctx, collPath{}, entities, nil, restlicodec.NoExcludedFields)
			if err = e; e == nil {
				collect(res.Results, res.Statuses, res.Errors)
			}
		case 3:
			res, e := restli.BatchPartialUpdate[K, *updResp](c, ctx, collPath{}, entities, nil, restlicodec.NoExcludedFields)
			if err = e; e == nil {
				collect(res.Results, res.Statuses, res.Errors)
			}
		default:
			res, e := restli.BatchGet[K, *updResp](c, ctx, collPath{}, keys, nil)
			if err = e; e == nil {
				collect(res.Results, res.Statuses, res.Errors)
			}
		}
		if err != nil {
			resp = "err"
		}
		return
	}
	method := sc.Method
	if method >= 2 {
		// update methods take a Go map: it cannot hold two ==-equal primitive keys, so the
		// duplicate never reaches the key set; use them only when the map keeps every key
		m := map[K]bool{}
		for _, k := range keys {
			m[k] = true
		}
		if len(m) != len(keys) {
			method = 0
		}
	}
	r.Count(fmt.Sprintf("method:%d", method))
	var resp string
	var tr *fakeTransport
	var mapKeys [3][]K
	var callErr error
	panicked, pv = hx.Recover(func() { resp, tr, mapKeys, callErr = callMethod(method) })
	if panicked {
		fail(sigPanic, fmt.Sprint("panic ", pv), "no panic")
		return
	}
	if addIdx >= 0 {
		// D2: nothing is sent
		r.OracleCases++
		if callErr == nil || tr.calls != 0 {
			fail(sigSentOnDup, fmt.Sprintf("err=%v requests=%d", callErr, tr.calls), "an error before any request")
		}
	} else {
		r.OracleCases++
		if tr.calls != 1 {
			fail(sigNotSent, fmt.Sprintf("requests=%d err=%v", tr.calls, callErr), "exactly one request")
		} else if tr.rawQuery != q {
			fail(sigIds, "client sent "+tr.rawQuery, q)
		}
		impl += " resp=" + resp

		// D4: the response
		bad, repeated, hasResults, extra := false, false, false, false
		last := map[string]int{}
		for fi, f := range sc.Doc {
			known := f.Name == resultsField || f.Name == statusesField || f.Name == errorsField
			if f.Name == resultsField {
				hasResults = true
			}
			if !known {
				extra = true
				continue
			}
			if _, dup := last[f.Name]; dup {
				repeated = true
			}
			last[f.Name] = fi
			seen := map[int]bool{}
			for _, e := range f.Entries {
				if e.Idx < 0 || e.BadV {
					bad = true
				} else if seen[e.Idx] {
					repeated = true
				}
				seen[e.Idx] = true
			}
		}
		r.OracleCases++
		switch {
		case codecBroken:
			r.Count("reply:codec-leg-broken (D on the response skipped)")
		case bad:
			r.Count("reply:unknown-or-undecodable-key-or-bad-value")
			if callErr == nil {
				fail(sigUnknownOK, resp, "an error")
			}
		case !hasResults:
			r.Count("reply:no-results-field")
		case extra:
			// a member besides the three maps: v2 rejects the whole response (NoSuchFieldErr), the root
			// module skips it. Whether envelopes must tolerate unknown members is C03's question; C16's
			// oracle does not judge these replies (K still compares them with the model).
			r.Count("reply:extra-member (judged by K only)")
		default:
			if repeated {
				r.Count("reply:repeated-key-or-field")
			} else {
				r.Count("reply:well-formed")
			}
			if repeated {
				// a reply that names a key or a field twice cannot be filed without losing an entry:
				// it must be rejected (fix: a batch response naming a key or a map twice is an error)
				if callErr == nil {
					fail(sigRepeated, resp, "an error")
				}
				break
			}
			if callErr != nil {
				fail(sigSpuriousErr, fmt.Sprint(callErr), "the three maps")
				break
			}
			for i, name := range []string{resultsField, statusesField, errorsField} {
				fi, ok := last[name]
				if !ok {
					continue
				}
				entries := sc.Doc[fi].Entries
				if len(mapKeys[i]) != len(entries) {
					fail(sigLost, fmt.Sprintf("%s has %d entries, reply had %d", name, len(mapKeys[i]), len(entries)), "one entry per reply entry")
					continue
				}
				for _, e := range entries {
					caller := keys[e.Idx]
					hit := false
					for _, k := range mapKeys[i] {
						if ops.same(k, caller) {
							hit = true
						}
					}
					if hit {
						continue
					}
					// not under the caller's own key value (pointer identity / identical bits): under an
					// Equal copy, or nowhere
					sig := sigLost
					for _, k := range mapKeys[i] {
						if ops.specEq(k, caller) {
							sig = sigCopy
						}
					}
					fail(sig, resp, fmt.Sprintf("%s entry for caller key %d filed under that key", name, e.Idx+1))
				}
			}
		}
	}

	// ---- K
	if cfg.Driver != nil {
		r.Ops++
		m := stripErrClass.ReplaceAllString(cfg.Driver.MustAsk(op), "resp=err")
		if m != impl {
			r.Disagree(hx.Case{Sig: "C16 keyset", Op: op, Impl: impl, Model: m})
		}
	}
	if addIdx < 0 && len(sc.Doc) > 0 {
		r.Distinctive(op[:strings.Index(op, " (go ")])
	}
}

func dispatch(cfg Config, r *hx.Result, sc scenario) {
	r.Count("kind:" + sc.Kind)
	switch sc.Kind {
	case "i32":
		runScenario(cfg, r, i32Ops, sc)
	case "i64":
		runScenario(cfg, r, i64Ops, sc)
	case "f32":
		runScenario(cfg, r, f32Ops, sc)
	case "f64":
		runScenario(cfg, r, f64Ops, sc)
	case "bool":
		runScenario(cfg, r, boolOps, sc)
	case "str":
		runScenario(cfg, r, strOps, sc)
	case "coll":
		runScenario(cfg, r, collOps, sc)
	case "cplx":
		runScenario(cfg, r, cplxOps, sc)
	default:
		panic("c16: unknown kind " + sc.Kind)
	}
}

// ---------------------------------------------------------------- generation

var kinds = []string{"i32", "i64", "f32", "f64", "bool", "str", "coll", "cplx"}

func echoSpec(kind string, s keySpec) keySpec {
	if kind == "cplx" {
		s.P, s.HasP = nil, false
	}
	return s
}

func genScenario(rng *rand.Rand, kind string, r *hx.Result) scenario {
	sc := scenario{Kind: kind, Method: rng.Intn(4)}
	n := rng.Intn(6)
	if kind == "bool" && n > 2 {
		n = rng.Intn(3)
	}
	for len(sc.Keys) < n {
		s := genSpec(rng, kind)
		sc.Keys = append(sc.Keys, s)
	}
	// one scenario in three carries a deliberate duplicate (an Equal but different key value)
	if n > 0 && rng.Intn(3) == 0 {
		src := sc.Keys[rng.Intn(len(sc.Keys))]
		dup := variantSpec(rng, kind, src)
		at := rng.Intn(len(sc.Keys) + 1)
		sc.Keys = append(sc.Keys[:at], append([]keySpec{dup}, sc.Keys[at:]...)...)
		r.Count("gen:deliberate-duplicate")
	}
	for i, m := 0, rng.Intn(3); i < m; i++ {
		if len(sc.Keys) > 0 && rng.Intn(3) != 0 {
			sc.Probes = append(sc.Probes, echoSpec(kind, variantSpec(rng, kind, sc.Keys[rng.Intn(len(sc.Keys))])))
		} else {
			sc.Probes = append(sc.Probes, genSpec(rng, kind))
		}
	}
	// the reply: a permutation of a subset of the keys spread over the three maps, plus defects
	fields := []string{resultsField, statusesField, errorsField}
	rng.Shuffle(len(fields), func(i, j int) { fields[i], fields[j] = fields[j], fields[i] })
	if rng.Intn(10) == 0 {
		fields = fields[:2] // may drop `results`
	}
	defect := rng.Intn(10)
	val := 200
	for _, name := range fields {
		f := fieldSpec{Name: name}
		for _, i := range rng.Perm(len(sc.Keys)) {
			if rng.Intn(3) == 0 {
				continue
			}
			val++
			f.Entries = append(f.Entries, entrySpec{Key: echoSpec(kind, sc.Keys[i]), Idx: i, Val: val})
		}
		sc.Doc = append(sc.Doc, f)
	}
	target := &sc.Doc[rng.Intn(len(sc.Doc))]
	switch defect {
	case 0: // superset: a key that was never requested
		r.Count("gen:reply-unknown-key")
		target.Entries = append(target.Entries, entrySpec{Key: echoSpec(kind, genSpec(rng, kind)), Idx: -1, Val: 999})
		// (the generated key may happen to equal a requested one: recomputed below)
	case 1: // undecodable member name
		r.Count("gen:reply-undecodable-key")
		target.Entries = append(target.Entries, entrySpec{Idx: -2, Raw: []string{"(", "(a:1", "List(", "abc)", "((", "(zz:1)"}[rng.Intn(6)], Val: 998})
	case 2: // the same key twice (literally, or as an Equal variant / alternative spelling)
		if len(target.Entries) > 0 {
			r.Count("gen:reply-repeated-key")
			e := target.Entries[rng.Intn(len(target.Entries))]
			e.Val = 997
			e.Key = echoSpec(kind, variantSpec(rng, kind, e.Key))
			if (kind == "i32" || kind == "i64") && rng.Intn(2) == 0 && int64(e.Key.U) >= 0 && (kind == "i64" || e.Key.U < 1<<31) {
				e.Raw = "0" + fmt.Sprint(e.Key.U)
			}
			target.Entries = append(target.Entries, e)
		}
	case 3: // a field twice
		r.Count("gen:reply-repeated-field")
		sc.Doc = append(sc.Doc, fieldSpec{Name: target.Name, Entries: append([]entrySpec(nil), target.Entries...)})
		if len(sc.Doc[len(sc.Doc)-1].Entries) > 0 {
			sc.Doc[len(sc.Doc)-1].Entries = sc.Doc[len(sc.Doc)-1].Entries[1:]
		}
	case 4: // a value of the wrong shape
		if len(target.Entries) > 0 {
			r.Count("gen:reply-bad-value")
			target.Entries[rng.Intn(len(target.Entries))].BadV = true
		}
	case 5: // an unknown top-level field
		r.Count("gen:reply-extra-field")
		sc.Doc = append(sc.Doc, fieldSpec{Name: "metadata", Entries: []entrySpec{{Idx: -2, Raw: "whatever", Val: 1}}})
	case 6: // the server answers with an Equal variant of the key (other zero sign)
		if len(target.Entries) > 0 {
			r.Count("gen:reply-equal-variant-key")
			i := rng.Intn(len(target.Entries))
			target.Entries[i].Key = echoSpec(kind, variantSpec(rng, kind, target.Entries[i].Key))
		}
	default:
		r.Count("gen:reply-clean")
	}
	return sc
}

// normalise recomputes every entry's Idx from the keys (an "unknown" key may coincide with a
// requested one; an Equal variant keeps its index)
func normalise[K comparable](ops kindOps[K], sc *scenario) {
	keys := make([]K, len(sc.Keys))
	for i, s := range sc.Keys {
		keys[i] = ops.fromSpec(s)
	}
	for fi := range sc.Doc {
		for ei := range sc.Doc[fi].Entries {
			e := &sc.Doc[fi].Entries[ei]
			if e.Idx == -2 {
				continue
			}
			e.Idx = -1
			k := ops.fromSpec(e.Key)
			for i, c := range keys {
				if ops.specEq(c, k) {
					e.Idx = i
					break
				}
			}
		}
	}
}

func normaliseAny(sc *scenario) {
	switch sc.Kind {
	case "i32":
		normalise(i32Ops, sc)
	case "i64":
		normalise(i64Ops, sc)
	case "f32":
		normalise(f32Ops, sc)
	case "f64":
		normalise(f64Ops, sc)
	case "bool":
		normalise(boolOps, sc)
	case "str":
		normalise(strOps, sc)
	case "coll":
		normalise(collOps, sc)
	case "cplx":
		normalise(cplxOps, sc)
	}
}

func fixedCorpus() []scenario {
	str := func(s string) *string { return &s }
	ok := func(name string, es ...entrySpec) fieldSpec { return fieldSpec{Name: name, Entries: es} }
	return []scenario{
		// the library's own tests
		{Kind: "i64", Keys: []keySpec{{U: 42}, {U: 42}}},
		// hash-colliding but unequal keys in one bucket (v = 1, 4, 7 share v mod 3), all three answered
		{Kind: "coll", Keys: []keySpec{{U: 1, F: 0x3FF0000000000000}, {U: 4, F: 0x3FF0000000000000}, {U: 7, F: 0x3FF0000000000000}},
			Probes: []keySpec{{U: 7, F: 0x3FF0000000000000}, {U: 10, F: 0x3FF0000000000000}},
			Doc: []fieldSpec{ok(resultsField, entrySpec{Key: keySpec{U: 7, F: 0x3FF0000000000000}, Val: 207}, entrySpec{Key: keySpec{U: 1, F: 0x3FF0000000000000}, Val: 201}),
				ok(errorsField, entrySpec{Key: keySpec{U: 4, F: 0x3FF0000000000000}, Val: 504})}},
		// duplicate hidden behind a colliding key
		{Kind: "coll", Keys: []keySpec{{U: 1}, {U: 4}, {U: 1}}},
		// F15 inherited: +0 / −0 record keys are Equal, hash apart, both accepted
		{Kind: "coll", Keys: []keySpec{{U: 1, F: 0}, {U: 1, F: 1 << 63}}, Doc: []fieldSpec{ok(resultsField)}},
		// primitive float keys: +0 then −0 is a duplicate; a reply spelling the other zero
		{Kind: "f64", Keys: []keySpec{{U: 0}, {U: 1 << 63}}},
		{Kind: "f64", Keys: []keySpec{{U: 0}}, Probes: []keySpec{{U: 1 << 63}}, Doc: []fieldSpec{ok(resultsField, entrySpec{Key: keySpec{U: 1 << 63}, Val: 200})}},
		// NaN keys are never Equal: both accepted, both sent, never correlated
		{Kind: "f64", Keys: []keySpec{{U: 0x7FF8000000000001}, {U: 0x7FF8000000000001}}, Probes: []keySpec{{U: 0x7FF8000000000001}}},
		// complex keys equal up to params; the echo has no params and finds the original with params
		{Kind: "cplx", Keys: []keySpec{{U: 1, S: "a", P: str("p1"), HasP: true}, {U: 1, S: "a", P: str("p2"), HasP: true}}},
		{Kind: "cplx", Keys: []keySpec{{U: 1, S: "a", P: str("p1"), HasP: true}, {U: 3, S: "a"}},
			Probes: []keySpec{{U: 1, S: "a"}},
			Doc:    []fieldSpec{ok(statusesField, entrySpec{Key: keySpec{U: 3, S: "a"}, Val: 204}), ok(resultsField, entrySpec{Key: keySpec{U: 1, S: "a"}, Val: 200})}},
		// a key present in results AND errors
		{Kind: "i32", Keys: []keySpec{{U: 1}, {U: 2}}, Doc: []fieldSpec{ok(resultsField, entrySpec{Key: keySpec{U: 1}, Val: 200}),
			ok(errorsField, entrySpec{Key: keySpec{U: 1}, Val: 500}), ok(statusesField, entrySpec{Key: keySpec{U: 1}, Val: 7})}},
		// the same key twice: literally and as "01"
		{Kind: "i64", Keys: []keySpec{{U: 1}, {U: 2}}, Doc: []fieldSpec{ok(resultsField, entrySpec{Key: keySpec{U: 1}, Val: 200}, entrySpec{Key: keySpec{U: 1}, Val: 201})}},
		{Kind: "i64", Keys: []keySpec{{U: 1}, {U: 2}}, Doc: []fieldSpec{ok(resultsField, entrySpec{Key: keySpec{U: 1}, Val: 200}, entrySpec{Key: keySpec{U: 1}, Raw: "01", Val: 201})}},
		// results twice
		{Kind: "i64", Keys: []keySpec{{U: 1}, {U: 2}}, Doc: []fieldSpec{ok(resultsField, entrySpec{Key: keySpec{U: 1}, Val: 200}), ok(resultsField, entrySpec{Key: keySpec{U: 2}, Val: 500})}},
		// a key that was never requested; results missing; empty key set
		{Kind: "i64", Keys: []keySpec{{U: 1}, {U: 2}}, Doc: []fieldSpec{ok(resultsField, entrySpec{Key: keySpec{U: 1}, Val: 200}, entrySpec{Key: keySpec{U: 3}, Val: 201})}},
		{Kind: "i64", Keys: []keySpec{{U: 1}}, Doc: []fieldSpec{ok(statusesField, entrySpec{Key: keySpec{U: 1}, Val: 7})}},
		{Kind: "str", Doc: []fieldSpec{ok(resultsField)}},
		// string keys with every delimiter, and the historical F4 witness a"b
		{Kind: "str", Keys: []keySpec{{S: "a\"b"}, {S: "x y"}, {S: "a:b"}, {S: ""}, {S: "(,)'%+"}, {S: "é\\/?#&=;."}},
			Probes: []keySpec{{S: "a\"b"}},
			Doc: []fieldSpec{ok(resultsField, entrySpec{Key: keySpec{S: "a\"b"}, Val: 1}, entrySpec{Key: keySpec{S: ""}, Val: 2}, entrySpec{Key: keySpec{S: "(,)'%+"}, Val: 3},
				entrySpec{Key: keySpec{S: "a:b"}, Val: 4}, entrySpec{Key: keySpec{S: "x y"}, Val: 5}, entrySpec{Key: keySpec{S: "é\\/?#&=;."}, Val: 6})}},
	}
}

func Run(cfg Config) *hx.Result {
	r := hx.NewResult("C16", cfg.Module, cfg.Seed, cfg.Tier)
	r.Rule = "a scenario = a key type (the six primitive key sets; a hand-written record key with colliding hashes and a float field; a hand-written complex key whose params Equals ignores) x a multiset of 0-6 keys (one in three with a deliberate Equal-but-different duplicate: other zero sign, other params, fresh object) x probes x a simulated server reply (permuted subsets over results/statuses/errors; defects: unrequested key, undecodable member name, repeated key incl. alternative spelling, repeated field, wrong-shaped value, extra field, Equal-variant key, missing results), run through the real restli.BatchGet/BatchDelete/BatchUpdate/BatchPartialUpdate with a recording fake transport, the real batchkeyset API and UnmarshalWithKeyLocator; non-trivial = keys accepted and a reply document present"
	if len(cfg.Replay) > 0 {
		for _, line := range cfg.Replay {
			i := strings.LastIndex(line, "(go ")
			if i < 0 {
				panic("c16: cannot replay " + line)
			}
			raw, err := hex.DecodeString(strings.TrimSuffix(strings.TrimSpace(line[i+4:]), ")"))
			var sc scenario
			if err == nil {
				err = json.Unmarshal(raw, &sc)
			}
			if err != nil {
				panic("c16: cannot replay " + line)
			}
			dispatch(cfg, r, sc)
		}
		return r
	}
	rng := hx.Rng(cfg.Seed, "c16")
	for _, sc := range fixedCorpus() {
		sc := sc
		normaliseAny(&sc)
		r.Count("corpus:fixed")
		for m := 0; m < 4; m++ {
			sc.Method = m
			dispatch(cfg, r, sc)
		}
	}
	n := 1500
	if cfg.Tier == "thorough" {
		n = 15000
	}
	for i := 0; i < n; i++ {
		for _, kind := range kinds {
			sc := genScenario(rng, kind, r)
			normaliseAny(&sc)
			dispatch(cfg, r, sc)
		}
	}
	return r
}
