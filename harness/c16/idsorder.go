package c16

import (
	"fmt"
	"math/rand"
	"sort"
	"strings"

	"github.com/PapaCharlie/go-restli/v2/restli/batchkeyset"
	"github.com/PapaCharlie/go-restli/v2/restlicodec"
	"verif/harness/hx"
)

// Batch ids are canonical (property C09, run as harness prop C09K): for key types served by every
// kind of key set — primitives, record keys (the generic hash-bucket set) and complex keys — the
// `ids` parameter is the same text whatever the order in which the keys were added, however often
// it is asked for, and its items are in ascending order of their encodings.
func idsOrderFor[K any](r *hx.Result, module, kind string, keys []K, rng *rand.Rand) {
	if len(keys) < 2 {
		return
	}
	var want []string
	for _, k := range keys {
		e, err := encodeWith(restlicodec.NewRestLiQueryParamsWriter(), k)
		if err != nil {
			return
		}
		want = append(want, e)
	}
	sort.Strings(want)
	wantQ := "ids=List(" + strings.Join(want, ",") + ")"
	op := fmt.Sprintf("ids-order %s %s %s", module, kind, hexList(want))
	r.OracleCases++
	r.Count("ids-order:" + kind)
	r.Distinctive(op)
	for attempt := 0; attempt < 6; attempt++ {
		perm := append([]K(nil), keys...)
		rng.Shuffle(len(perm), func(i, j int) { perm[i], perm[j] = perm[j], perm[i] })
		set := batchkeyset.NewBatchKeySet[K]()
		if err := batchkeyset.AddAllKeys(set, perm...); err != nil {
			return // Equal keys in the draw: not this oracle's subject
		}
		for again := 0; again < 3; again++ {
			var q string
			var err error
			panicked, pv := hx.Recover(func() { q, err = set.EncodeQueryParams() })
			if panicked || err != nil {
				r.OracleFail(hx.Case{Sig: "C09 batch ids could not be encoded", Op: op, Impl: fmt.Sprint(pv, err), Expected: wantQ})
				return
			}
			if q != wantQ {
				r.OracleFail(hx.Case{Sig: "C09 batch ids are not in ascending encoded order, or differ between insertion orders / calls (" + kind + ")", Op: op, Impl: q, Expected: wantQ})
				return
			}
		}
	}
}

func RunIdsOrder(cfg Config) *hx.Result {
	r := hx.NewResult("C09", cfg.Module, cfg.Seed, cfg.Tier)
	r.Rule = "2-9 distinct keys of a primitive, a record (generic hash-bucket set, colliding hashes) and a complex key type, added in 6 shuffled orders, ids encoded 3 times each: always the ascending list of the keys' own encodings; non-trivial = every draw"
	rng := hx.Rng(cfg.Seed, "c09-ids")
	n := 40
	if cfg.Tier == "thorough" {
		n = 600
	}
	for i := 0; i < n; i++ {
		m := 2 + rng.Intn(8)
		var recs []*collKey
		var cplx []*cplxKey
		var ints []int64
		var strs []string
		seenR, seenC, seenI, seenS := map[string]bool{}, map[string]bool{}, map[int64]bool{}, map[string]bool{}
		for j := 0; j < m; j++ {
			rk := &collKey{V: int32(rng.Intn(40) - 20), F: float64(rng.Intn(7)) / 2}
			if id := fmt.Sprint(rk.V, rk.F); !seenR[id] {
				seenR[id] = true
				recs = append(recs, rk)
			}
			ck := &cplxKey{A: int32(rng.Intn(20)), S: []string{"", "a", "b c", "(x)", "é"}[rng.Intn(5)]}
			if id := fmt.Sprint(ck.A, ck.S); !seenC[id] {
				seenC[id] = true
				cplx = append(cplx, ck)
			}
			if v := int64(rng.Intn(2000) - 1000); !seenI[v] {
				seenI[v] = true
				ints = append(ints, v)
			}
			if s := fmt.Sprintf("k%d,%c", rng.Intn(50), "a(:'"[rng.Intn(4)]); !seenS[s] {
				seenS[s] = true
				strs = append(strs, s)
			}
		}
		idsOrderFor(r, cfg.Module, "record", recs, rng)
		idsOrderFor(r, cfg.Module, "complex", cplx, rng)
		idsOrderFor(r, cfg.Module, "long", ints, rng)
		idsOrderFor(r, cfg.Module, "string", strs, rng)
	}
	return r
}
