// Package c16: correspondence (K) and direct oracle (D) for property C16 — batch key correlation —
// through the real client entry points (restli.BatchGet/BatchDelete/BatchUpdate/BatchPartialUpdate),
// the real batchkeyset package and the real BatchResponse.UnmarshalWithKeyLocator, with a fake
// http.RoundTripper that records the request and serves a hand-built reply.
package c16

import (
	"encoding/hex"
	"fmt"
	"math"
	"math/rand"

	"github.com/PapaCharlie/go-restli/v2/fnv1a"
	"github.com/PapaCharlie/go-restli/v2/restlicodec"
	"verif/harness/hx"
)

// keySpec is the serialisable description of one key of any kind (for replay)
type keySpec struct {
	U    uint64  `json:"u,omitempty"` // primitive bits / collKey.V / cplxKey.A
	S    string  `json:"s,omitempty"` // string primitive / cplxKey.S
	F    uint64  `json:"f,omitempty"` // collKey.F bits
	P    *string `json:"p,omitempty"` // cplxKey params
	HasP bool    `json:"hp,omitempty"`
}

// ---------------------------------------------------------------- hand-written key types

// collKey is a record key as the generator would emit it for `record K { v: int, f: double }`
// (SimpleKey: Marshaler + Hashable + Comparable), except that its hash deliberately collides:
// only v mod 3 and the bits of f enter it, so unequal keys share buckets.
type collKey struct {
	V int32
	F float64
}

func (k *collKey) Equals(o *collKey) bool {
	if k == o {
		return true
	}
	if k == nil || o == nil {
		return false
	}
	return k.V == o.V && k.F == o.F
}

func (k *collKey) ComputeHash() fnv1a.Hash {
	if k == nil {
		return fnv1a.ZeroHash()
	}
	h := fnv1a.NewHash()
	h.AddInt32(((k.V % 3) + 3) % 3)
	h.AddFloat64(k.F) // as generated code does: the bit pattern
	return h
}

func (k *collKey) NewInstance() *collKey { return new(collKey) }

func (k *collKey) MarshalRestLi(w restlicodec.Writer) error {
	return w.WriteMap(func(kw func(string) restlicodec.Writer) error {
		kw("f").WriteFloat64(k.F)
		kw("v").WriteInt32(k.V)
		return nil
	})
}

func (k *collKey) UnmarshalRestLi(r restlicodec.Reader) error {
	return r.ReadRecord(collKeyRequired, func(r restlicodec.Reader, field string) (err error) {
		switch field {
		case "f":
			k.F, err = r.ReadFloat64()
		case "v":
			k.V, err = r.ReadInt32()
		default:
			err = r.Skip()
		}
		return err
	})
}

// cplxKey is a complex key: a key part {A, S} and optional params that Equals/hash ignore
// (ComplexKey: Marshaler + ComputeComplexKeyHash + ComplexKeyEquals), hash colliding on A mod 2.
type cplxKey struct {
	A      int32
	S      string
	Params *string
}

func (k *cplxKey) ComplexKeyEquals(o *cplxKey) bool {
	return k.A == o.A && k.S == o.S
}

func (k *cplxKey) ComputeComplexKeyHash() fnv1a.Hash {
	h := fnv1a.NewHash()
	h.AddInt32(((k.A % 2) + 2) % 2)
	h.AddString(k.S)
	return h
}

// Like every generated complex key, cplxKey ALSO has the full Equals / ComputeHash (key part and
// params) and so satisfies SimpleKey too: NewBatchKeySet must still pick the complex-key reading.
func (k *cplxKey) Equals(o *cplxKey) bool {
	if k == o {
		return true
	}
	if k == nil || o == nil {
		return false
	}
	if (k.Params == nil) != (o.Params == nil) || (k.Params != nil && *k.Params != *o.Params) {
		return false
	}
	return k.A == o.A && k.S == o.S
}

func (k *cplxKey) ComputeHash() fnv1a.Hash {
	h := fnv1a.NewHash()
	h.AddInt32(k.A)
	h.AddString(k.S)
	if k.Params != nil {
		h.AddString(*k.Params)
	}
	return h
}

func (k *cplxKey) NewInstance() *cplxKey { return new(cplxKey) }

func (k *cplxKey) MarshalRestLi(w restlicodec.Writer) error {
	return w.WriteMap(func(kw func(string) restlicodec.Writer) error {
		if k.Params != nil {
			p := *k.Params
			if err := kw("$params").WriteMap(func(pw func(string) restlicodec.Writer) error {
				pw("p").WriteString(p)
				return nil
			}); err != nil {
				return err
			}
		}
		kw("a").WriteInt32(k.A)
		kw("s").WriteString(k.S)
		return nil
	})
}

func (k *cplxKey) UnmarshalRestLi(r restlicodec.Reader) error {
	return r.ReadRecord(cplxKeyRequired, func(r restlicodec.Reader, field string) (err error) {
		switch field {
		case "a":
			k.A, err = r.ReadInt32()
		case "s":
			k.S, err = r.ReadString()
		case "$params":
			err = r.ReadMap(func(r restlicodec.Reader, f string) error {
				s, err := r.ReadString()
				k.Params = &s
				return err
			})
		default:
			err = r.Skip()
		}
		return err
	})
}

// ---------------------------------------------------------------- per-kind operations

// kindOps describes one key type K to the scenario runner.
type kindOps[K comparable] struct {
	name     string
	generic  bool // served by genericBatchKeySet (pointer keys); otherwise primitiveKeySet
	fromSpec func(s keySpec) K
	toSpec   func(k K) keySpec
	// specEq is the property's "key equality" written independently of the library: == for
	// primitives, all fields for record keys, the key part only for complex keys
	specEq   func(a, b K) bool
	zeroPair func(a, b K) bool // Equal only up to the sign of a zero (finding F15's class)
	same     func(a, b K) bool // the very same key value: pointer identity / identical bits
	hasNaN   func(k K) bool
	// the abstract description the model works on (generic kinds)
	hash func(k K) uint32
	cls  func(k K) []byte
	// primitive kinds: the op-line primitive
	prim func(k K) string
	// what the server echoes for this key (complex keys: without params)
	echo func(k K) K
	// printable identity of a response-map key that is not one of the caller's
	bits func(k K) string
}

func f64Bits(f float64) uint64 { return math.Float64bits(f) }

func canonZero(b uint64) uint64 {
	if b == 1<<63 {
		return 0
	}
	return b
}

func be(vals ...uint64) []byte {
	var out []byte
	for _, v := range vals {
		for i := 7; i >= 0; i-- {
			out = append(out, byte(v>>(8*uint(i))))
		}
	}
	return out
}

var collOps = kindOps[*collKey]{
	name: "coll", generic: true,
	fromSpec: func(s keySpec) *collKey { return &collKey{V: int32(uint32(s.U)), F: math.Float64frombits(s.F)} },
	toSpec:   func(k *collKey) keySpec { return keySpec{U: uint64(uint32(k.V)), F: f64Bits(k.F)} },
	specEq:   func(a, b *collKey) bool { return a.V == b.V && a.F == b.F },
	zeroPair: func(a, b *collKey) bool { return a.V == b.V && a.F == 0 && b.F == 0 && f64Bits(a.F) != f64Bits(b.F) },
	same:     func(a, b *collKey) bool { return a == b },
	hasNaN:   func(k *collKey) bool { return k.F != k.F },
	hash:     func(k *collKey) uint32 { return uint32(k.ComputeHash().MapKey()) },
	cls:      func(k *collKey) []byte { return be(uint64(uint32(k.V)), canonZero(f64Bits(k.F))) },
	echo:     func(k *collKey) *collKey { c := *k; return &c },
	bits:     func(k *collKey) string { return fmt.Sprintf("coll(%d,%d)", k.V, f64Bits(k.F)) },
}

var cplxOps = kindOps[*cplxKey]{
	name: "cplx", generic: true,
	fromSpec: func(s keySpec) *cplxKey {
		k := &cplxKey{A: int32(uint32(s.U)), S: s.S}
		if s.HasP {
			p := *s.P
			k.Params = &p
		}
		return k
	},
	toSpec: func(k *cplxKey) keySpec {
		s := keySpec{U: uint64(uint32(k.A)), S: k.S}
		if k.Params != nil {
			p := *k.Params
			s.P, s.HasP = &p, true
		}
		return s
	},
	specEq:   func(a, b *cplxKey) bool { return a.A == b.A && a.S == b.S },
	zeroPair: func(a, b *cplxKey) bool { return false },
	same:     func(a, b *cplxKey) bool { return a == b },
	hasNaN:   func(k *cplxKey) bool { return false },
	hash:     func(k *cplxKey) uint32 { return uint32(k.ComputeComplexKeyHash().MapKey()) },
	cls:      func(k *cplxKey) []byte { return append(be(uint64(uint32(k.A))), k.S...) },
	echo:     func(k *cplxKey) *cplxKey { return &cplxKey{A: k.A, S: k.S} },
	bits:     func(k *cplxKey) string { return fmt.Sprintf("cplx(%d,%s)", k.A, hex.EncodeToString([]byte(k.S))) },
}

func primOps[T restlicodec.ComparablePrimitive](name string, from func(keySpec) T, to func(T) keySpec,
	prim func(T) string, zero func(a, b T) bool, same func(a, b T) bool) kindOps[T] {
	return kindOps[T]{
		name: name, fromSpec: from, toSpec: to,
		specEq:   func(a, b T) bool { return a == b },
		zeroPair: zero, same: same,
		hasNaN: func(k T) bool { return k != k },
		prim:   prim,
		echo:   func(k T) T { return k },
		bits:   prim,
	}
}

var (
	i32Ops = primOps("i32", func(s keySpec) int32 { return int32(uint32(s.U)) }, func(k int32) keySpec { return keySpec{U: uint64(uint32(k))} },
		func(k int32) string { return fmt.Sprintf("(i32 %d)", uint32(k)) }, func(a, b int32) bool { return false }, func(a, b int32) bool { return a == b })
	i64Ops = primOps("i64", func(s keySpec) int64 { return int64(s.U) }, func(k int64) keySpec { return keySpec{U: uint64(k)} },
		func(k int64) string { return fmt.Sprintf("(i64 %d)", uint64(k)) }, func(a, b int64) bool { return false }, func(a, b int64) bool { return a == b })
	f32Ops = primOps("f32", func(s keySpec) float32 { return math.Float32frombits(uint32(s.U)) }, func(k float32) keySpec { return keySpec{U: uint64(math.Float32bits(k))} },
		func(k float32) string { return fmt.Sprintf("(f32 %d)", math.Float32bits(k)) },
		func(a, b float32) bool { return a == 0 && b == 0 && math.Float32bits(a) != math.Float32bits(b) },
		func(a, b float32) bool { return math.Float32bits(a) == math.Float32bits(b) })
	f64Ops = primOps("f64", func(s keySpec) float64 { return math.Float64frombits(s.U) }, func(k float64) keySpec { return keySpec{U: f64Bits(k)} },
		func(k float64) string { return fmt.Sprintf("(f64 %d)", f64Bits(k)) },
		func(a, b float64) bool { return a == 0 && b == 0 && f64Bits(a) != f64Bits(b) },
		func(a, b float64) bool { return f64Bits(a) == f64Bits(b) })
	boolOps = primOps("bool", func(s keySpec) bool { return s.U != 0 }, func(k bool) keySpec {
		if k {
			return keySpec{U: 1}
		}
		return keySpec{}
	}, func(k bool) string {
		if k {
			return "(bool 1)"
		}
		return "(bool 0)"
	}, func(a, b bool) bool { return false }, func(a, b bool) bool { return a == b })
	strOps = primOps("str", func(s keySpec) string { return s.S }, func(k string) keySpec { return keySpec{S: k} },
		func(k string) string { return "(str " + hx.Hex([]byte(k)) + ")" }, func(a, b string) bool { return false }, func(a, b string) bool { return a == b })
)

// ---------------------------------------------------------------- key generation (as specs)

// the alphabet of string key contents: ASCII incl. every ROR2 / URL / JSON delimiter, and some
// multi-byte UTF-8 (the reply is a JSON document, so contents stay valid UTF-8)
var strAlphabet = []string{"a", "b", "c", "0", "1", "(", ")", ",", ":", "'", "%", "+", " ", "\"", "\\", "/", "?", "#", "&", "=", ";", ".", "é", " ", "$", "~", "\t"}

func genStr(rng *rand.Rand) string {
	n := rng.Intn(4)
	if rng.Intn(12) == 0 {
		n = 30
	}
	s := ""
	for i := 0; i < n; i++ {
		s += strAlphabet[rng.Intn(len(strAlphabet))]
	}
	return s
}

var f64Pool = []uint64{0, 1 << 63, 0x3FF0000000000000, 0xBFF0000000000000, 0x7FF8000000000001, 0x7FF0000000000000, 0x4059000000000000, 0x3FB999999999999A, 0x412E848000000000, 1}
var f32Pool = []uint32{0, 0x80000000, 0x3F800000, 0xBF800000, 0x7FC00000, 0x7F800000, 0x42C80000, 0x3DCCCCCD, 1}
var intPool = []uint64{0, 1, 2, 3, 4, 5, 6, 0xFFFFFFFF, 0x7FFFFFFF, 0x80000000, 100, 42}

func genSpec(rng *rand.Rand, kind string) keySpec {
	switch kind {
	case "i32":
		if rng.Intn(4) == 0 {
			return keySpec{U: uint64(rng.Uint32())}
		}
		return keySpec{U: intPool[rng.Intn(len(intPool))]}
	case "i64":
		if rng.Intn(4) == 0 {
			return keySpec{U: rng.Uint64()}
		}
		v := intPool[rng.Intn(len(intPool))]
		if rng.Intn(3) == 0 {
			v = uint64(-int64(v))
		}
		return keySpec{U: v}
	case "f32":
		if rng.Intn(5) == 0 {
			return keySpec{U: uint64(rng.Uint32())}
		}
		return keySpec{U: uint64(f32Pool[rng.Intn(len(f32Pool))])}
	case "f64":
		if rng.Intn(5) == 0 {
			return keySpec{U: rng.Uint64()}
		}
		return keySpec{U: f64Pool[rng.Intn(len(f64Pool))]}
	case "bool":
		return keySpec{U: uint64(rng.Intn(2))}
	case "str":
		return keySpec{S: genStr(rng)}
	case "coll":
		f := f64Pool[rng.Intn(4)]
		if rng.Intn(6) == 0 {
			f = f64Pool[rng.Intn(len(f64Pool))]
		}
		return keySpec{U: uint64(rng.Intn(7)), F: f}
	default: // cplx
		s := keySpec{U: uint64(rng.Intn(5)), S: genStr(rng)}
		if rng.Intn(2) == 0 {
			p := genStr(rng)
			s.P, s.HasP = &p, true
		}
		return s
	}
}

// variantSpec derives a key that is Equal to s but not the same value: a fresh object for
// pointer kinds, other params for complex keys, the other zero for floats.
func variantSpec(rng *rand.Rand, kind string, s keySpec) keySpec {
	switch kind {
	case "f32":
		if s.U&0x7FFFFFFF == 0 {
			s.U ^= 0x80000000
		}
	case "f64":
		if s.U&(1<<63-1) == 0 {
			s.U ^= 1 << 63
		}
	case "coll":
		if s.F&(1<<63-1) == 0 && rng.Intn(2) == 0 {
			s.F ^= 1 << 63
		}
	case "cplx":
		if rng.Intn(2) == 0 {
			p := genStr(rng) + "!"
			s.P, s.HasP = &p, true
		} else {
			s.P, s.HasP = nil, false
		}
	}
	return s
}
