//go:build rootmod

package c16

import (
	"github.com/PapaCharlie/go-restli/v2/restlicodec"
	"github.com/PapaCharlie/go-restli/v2/restlidata"
)

// root module: RequiredFields is a slice; the batch envelope types live in `restlidata`.
var (
	collKeyRequired = restlicodec.RequiredFields{"f", "v"}
	cplxKeyRequired = restlicodec.RequiredFields{"a", "s"}
)

type updResp = restlidata.BatchEntityUpdateResponse
type errResp = restlidata.ErrorResponse

const (
	resultsField  = restlidata.ResultsField
	statusesField = restlidata.StatusesField
	errorsField   = restlidata.ErrorsField
)
