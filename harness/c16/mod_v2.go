//go:build !rootmod

package c16

import (
	"github.com/PapaCharlie/go-restli/v2/restlicodec"
	"github.com/PapaCharlie/go-restli/v2/restlidata/generated/com/linkedin/restli/common"
)

// v2: RequiredFields is a struct built with NewRequiredFields().Add(...); the batch envelope
// types live in the generated package `common`.
var (
	collKeyRequired = restlicodec.NewRequiredFields().Add("f", "v")
	cplxKeyRequired = restlicodec.NewRequiredFields().Add("a", "s")
)

type updResp = common.BatchEntityUpdateResponse
type errResp = common.ErrorResponse

const (
	resultsField  = common.ResultsField
	statusesField = common.StatusesField
	errorsField   = common.ErrorsField
)
