package c16

import (
	"context"
	"fmt"
	"io"
	"net/http"
	"net/url"

	"github.com/PapaCharlie/go-restli/v2/restli"
	"github.com/PapaCharlie/go-restli/v2/restlicodec"
	"verif/harness/hx"
)

// Request shapes (property C03, run as harness prop C03W): every client entry point of the
// library is called once through a recording transport, and the request it puts together is
// compared with what the Rest.li 2.0 protocol prescribes for its method: the HTTP verb, the
// X-RestLi-Method and X-RestLi-Protocol-Version headers, a JSON content type exactly when there is
// a body. The table below is the protocol's, written down independently of the library.
var protocolVerb = map[string]string{
	"get": "GET", "batch_get": "GET", "get_all": "GET", "finder": "GET",
	"create": "POST", "batch_create": "POST", "partial_update": "POST", "batch_partial_update": "POST", "action": "POST",
	"update": "PUT", "batch_update": "PUT",
	"delete": "DELETE", "batch_delete": "DELETE",
}

type shapeTransport struct{ reqs []*http.Request }

func (t *shapeTransport) RoundTrip(req *http.Request) (*http.Response, error) {
	if req.Body != nil {
		data, _ := io.ReadAll(req.Body)
		req.Body = hx.ShortReads(data)
		req.ContentLength = int64(len(data))
	}
	t.reqs = append(t.reqs, req)
	h := http.Header{}
	h.Set(restli.ProtocolVersionHeader, restli.ProtocolVersion)
	h.Set("Content-Type", "application/json")
	// a reply no decoder accepts: the calls are made for the request they build
	return &http.Response{StatusCode: 500, Status: "500", Header: h, Body: hx.ShortReads([]byte("{}")),
		Request: req, Proto: "HTTP/1.1", ProtoMajor: 1, ProtoMinor: 1}, nil
}

type shapeEntity struct{}

func (shapeEntity) MarshalRestLi(w restlicodec.Writer) error {
	return w.WriteMap(func(func(string) restlicodec.Writer) error { return nil })
}
func (*shapeEntity) NewInstance() *shapeEntity                  { return &shapeEntity{} }
func (*shapeEntity) UnmarshalRestLi(r restlicodec.Reader) error { return r.Skip() }
func (shapeEntity) Equals(*shapeEntity) bool                    { return true }

func RunRequestShapes(cfg Config) *hx.Result {
	r := hx.NewResult("C03", cfg.Module, cfg.Seed, cfg.Tier)
	r.Rule = "every client entry point (get, update, partial update, delete, create, get_all, finder, action, the five batch methods and their return-entity variants) called once through a recording transport; the request's verb, X-RestLi-Method, X-RestLi-Protocol-Version and content type compared with the protocol's table; non-trivial = every call"
	r.Exhaustive = true
	tr := &shapeTransport{}
	u, _ := url.Parse("http://h.example/ctx")
	c := &restli.Client{Client: &http.Client{Transport: tr}, HostnameResolver: &restli.SimpleHostnameResolver{Hostname: u}}
	ctx := context.Background()
	e := &shapeEntity{}
	none := restlicodec.NoExcludedFields
	calls := shapeCalls(c, ctx, e, none)
	for _, call := range calls {
		before := len(tr.reqs)
		panicked, pv := hx.Recover(func() { call.do() })
		op := "request-shape " + cfg.Module + " " + call.name
		r.OracleCases++
		r.Count("request-shape:" + call.method)
		r.Distinctive(op)
		if panicked {
			r.OracleFail(hx.Case{Sig: "C03 client entry point panicked while building its request", Op: op, Impl: fmt.Sprint(pv), Expected: "a request"})
			continue
		}
		if len(tr.reqs) != before+1 {
			r.OracleFail(hx.Case{Sig: "C03 client entry point did not send exactly one request", Op: op, Impl: fmt.Sprint(len(tr.reqs) - before), Expected: "1"})
			continue
		}
		req := tr.reqs[len(tr.reqs)-1]
		body := []byte(nil)
		if req.Body != nil {
			body, _ = io.ReadAll(req.Body)
		}
		got := fmt.Sprintf("%s method=%s version=%s content-type=%s body=%v", req.Method, req.Header.Get("X-RestLi-Method"),
			req.Header.Get("X-RestLi-Protocol-Version"), req.Header.Get("Content-Type"), len(body) > 0)
		ct := ""
		if call.body {
			ct = "application/json"
		}
		want := fmt.Sprintf("%s method=%s version=2.0.0 content-type=%s body=%v", protocolVerb[call.method], call.method, ct, call.body)
		if got != want {
			r.OracleFail(hx.Case{Sig: "C03 request envelope differs from the protocol's (verb / method header / protocol version / content type)", Op: op, Impl: got, Expected: want})
		}
	}
	return r
}
