package c16

import (
	"context"

	"github.com/PapaCharlie/go-restli/v2/restli"
	"github.com/PapaCharlie/go-restli/v2/restlicodec"
)

type shapeCall struct {
	name, method string
	body         bool
	do           func()
}

func shapeCalls(c *restli.Client, ctx context.Context, e *shapeEntity, none restlicodec.PathSpec) []shapeCall {
	rp := collPath{}
	return []shapeCall{
		{"Get", "get", false, func() { _, _ = restli.Get[*shapeEntity](c, ctx, rp, nil) }},
		{"Update", "update", true, func() { _ = restli.Update(c, ctx, rp, e, nil, none) }},
		{"PartialUpdate", "partial_update", true, func() { _ = restli.PartialUpdate(c, ctx, rp, e, nil, none) }},
		{"Delete", "delete", false, func() { _ = restli.Delete(c, ctx, rp, nil) }},
		{"Create", "create", true, func() { _, _ = restli.Create[int64](c, ctx, rp, e, nil, none) }},
		{"GetAll", "get_all", false, func() { _, _ = restli.GetAll[*shapeEntity](c, ctx, rp, nil) }},
		{"Find", "finder", false, func() { _, _ = restli.Find[*shapeEntity](c, ctx, rp, nil) }},
		{"DoActionRequest", "action", true, func() { _ = restli.DoActionRequest(c, ctx, rp, nil, e) }},
		{"BatchCreate", "batch_create", true, func() { _, _ = restli.BatchCreate[int64](c, ctx, rp, []*shapeEntity{e}, nil, none) }},
		{"BatchGet", "batch_get", false, func() { _, _ = restli.BatchGet[int64, *shapeEntity](c, ctx, rp, []int64{1, 2}, nil) }},
		{"BatchDelete", "batch_delete", false, func() { _, _ = restli.BatchDelete[int64](c, ctx, rp, []int64{1, 2}, nil) }},
		{"BatchUpdate", "batch_update", true, func() {
			_, _ = restli.BatchUpdate[int64, *shapeEntity](c, ctx, rp, map[int64]*shapeEntity{1: e}, nil, none)
		}},
		{"BatchPartialUpdate", "batch_partial_update", true, func() {
			_, _ = restli.BatchPartialUpdate[int64, *shapeEntity](c, ctx, rp, map[int64]*shapeEntity{1: e}, nil, none)
		}},
	}
}
