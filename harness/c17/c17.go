// Package c17: property C17 (concurrent use). Two different kinds of evidence are produced here and
// they must not be confused:
//
//   - DATA RACES are observed, never proved absent: the scenarios below run in child processes of
//     this (race-detector-instrumented) binary with GORACE="halt_on_error=0 exitcode=0 log_path=…";
//     every distinct report becomes an oracle failure `C17 data race: <func> vs <func>`.
//   - NON-INTERFERENCE is checked directly (D): every response / client result under concurrency
//     equals the one the same request gets alone, no response carries another request's token, and
//     the objects shared between requests are unchanged afterwards; and the serial semantics of one
//     request is compared with the Lean model (K) whose interleaving theorems are in Props/C17.lean.
//
// Scenarios: (a) one handler, N mixed requests from G goroutines; (b) one restli.Client from G
// goroutines; (c) the custom-typeref registry (v2 only); (d) the D2 resolver while URI updates are
// applied. Each for several GOMAXPROCS values, with yields injected in the callbacks the library
// makes into user code.
package c17

import (
	"encoding/json"
	"errors"
	"fmt"
	"io"
	"log"
	"os"
	"os/exec"
	"path/filepath"
	"runtime"
	"sort"
	"strconv"
	"strings"
	"sync"
	"sync/atomic"
	"time"

	"verif/harness/hx"
)

type Config struct {
	Module string
	Seed   int64
	Tier   string
	Driver *hx.Driver
	Replay []string
}

const childEnv = "VERIF_C17_CHILD"

var errSkipped = errors.New("skipped")

// a child runs one scenario at one GOMAXPROCS value
type childSpec struct {
	Scenario string `json:"scenario"` // server client registry d2 d2count
	Procs    int    `json:"procs"`
	Round    int    `json:"round"`
}

func (c childSpec) String() string {
	return fmt.Sprintf("%s/procs=%d/#%d", c.Scenario, c.Procs, c.Round)
}

func Run(cfg Config) *hx.Result {
	if spec := os.Getenv(childEnv); spec != "" {
		return runChild(cfg, spec)
	}
	r := hx.NewResult("C17", cfg.Module, cfg.Seed, cfg.Tier)
	r.Rule = "serial: a fixed corpus of every request kind x resource behaviour (success, fresh / shared / status-less error objects, plain error, panic, unknown resource/method/sub-resource) plus seeded random requests, each alone on fresh shared objects (K against the Lean model, D: shared objects unchanged); " +
		"concurrent: child processes under the race detector, one per (scenario, GOMAXPROCS, repetition): G goroutines x shuffled corpus against one handler / one client / the typeref registry / one D2 client with updates in flight, yields injected in user callbacks; a case is one response compared with its serial twin; every distinct race report is a case"
	if !raceEnabled {
		fmt.Fprintln(os.Stderr, "harness: property C17 needs a binary built with -race (bin/checks.d/C17.json \"race\": true)")
		os.Exit(3)
	}
	log.SetOutput(io.Discard) // the library logs recovered panics
	thorough := cfg.Tier == "thorough"

	// ---- serial part (K and D), in this process
	nSerial := 70
	if thorough {
		nSerial = 400
	}
	reqs := corpus(hx.Rng(cfg.Seed, "c17/serial"), nSerial, len(sharedSpecs)-1)
	reqs = append(reqs, &request{idx: len(reqs), kind: "get", mode: "shared", shared: nilStatusShared},
		&request{idx: len(reqs) + 1, kind: "create", mode: "shared", shared: nilStatusShared})
	runSerial(r, cfg, reqs)
	// replay: a serial case (direct-oracle op `server-serial …`, correspondence op `c17serve …`) is
	// deterministic and has just been re-run with the whole serial corpus; a concurrent case or a
	// race report cannot be replayed step by step — the scheduler is not ours — so the concurrent
	// part is simply run again in full.
	if len(cfg.Replay) > 0 && (strings.HasPrefix(cfg.Replay[0], "server-serial") || strings.HasPrefix(cfg.Replay[0], "c17serve")) {
		r.Count("replay:serial-only")
		return r
	}

	// ---- concurrent part: children
	procs := []int{1, 2, 4, 8}
	rounds := 1
	if thorough {
		procs = []int{1, 2, 3, 4, 8, 16}
		rounds = 4
	}
	var specs []childSpec
	for round := 0; round < rounds; round++ {
		for _, p := range procs {
			for _, sc := range []string{"server", "client", "registry", "d2", "d2count"} {
				if sc == "registry" && cfg.Module != "v2" {
					continue
				}
				specs = append(specs, childSpec{sc, p, round})
			}
		}
	}
	tmp, err := os.MkdirTemp("", "verif-c17-")
	if err != nil {
		fmt.Fprintln(os.Stderr, "harness:", err)
		os.Exit(3)
	}
	defer os.RemoveAll(tmp)
	self, err := os.Executable()
	if err != nil {
		fmt.Fprintln(os.Stderr, "harness:", err)
		os.Exit(3)
	}

	type childOut struct {
		spec   childSpec
		res    *hx.Result
		races  string
		stderr string
		err    error
	}
	outs := make([]childOut, len(specs))
	par := runtime.NumCPU() / 4
	if par < 1 {
		par = 1
	}
	if par > 4 {
		par = 4
	}
	sem := make(chan struct{}, par)
	var timeouts atomic.Int32
	var wg sync.WaitGroup
	for i, sp := range specs {
		wg.Add(1)
		go func(i int, sp childSpec) {
			defer wg.Done()
			sem <- struct{}{}
			defer func() { <-sem }()
			o := childOut{spec: sp}
			outPath := filepath.Join(tmp, fmt.Sprintf("child-%d.json", i))
			logPath := filepath.Join(tmp, fmt.Sprintf("race-%d", i))
			specJSON, _ := json.Marshal(sp)
			cmd := exec.Command(self, "-prop", "C17", "-seed", strconv.FormatInt(cfg.Seed, 10), "-tier", cfg.Tier, "-out", outPath)
			cmd.Env = append(os.Environ(), childEnv+"="+string(specJSON),
				"GORACE=halt_on_error=0 exitcode=0 history_size=3 log_path="+logPath)
			var errBuf strings.Builder
			cmd.Stderr = &errBuf
			done := make(chan error, 1)
			if err := cmd.Start(); err != nil {
				o.err = err
				outs[i] = o
				return
			}
			go func() { done <- cmd.Wait() }()
			// a healthy child needs a few seconds; a hang (seen with seeded defects that mix up
			// requests) must not stall the check: after a few timeouts the rest is skipped
			limit := 45 * time.Second
			if thorough {
				limit = 90 * time.Second
			}
			if timeouts.Load() >= 3 {
				o.err = errSkipped
				outs[i] = o
				return
			}
			select {
			case o.err = <-done:
			case <-time.After(limit):
				cmd.Process.Kill()
				<-done
				timeouts.Add(1)
				o.err = fmt.Errorf("child timed out after %s (hang)", limit)
			}
			o.stderr = errBuf.String()
			if data, err := os.ReadFile(outPath); err == nil {
				var cr hx.Result
				if json.Unmarshal(data, &cr) == nil {
					o.res = &cr
				}
			}
			if logs, _ := filepath.Glob(logPath + ".*"); len(logs) > 0 {
				sort.Strings(logs)
				for _, l := range logs {
					b, _ := os.ReadFile(l)
					o.races += string(b)
				}
			}
			outs[i] = o
		}(i, sp)
	}
	wg.Wait()

	seenRace := map[string]bool{}
	for _, o := range outs {
		if o.err == errSkipped {
			r.Count("children-skipped-after-timeouts")
			continue
		}
		r.Count("children:" + o.spec.Scenario)
		r.OracleCases++ // "this execution is free of data races and the process survives"
		if o.res == nil || o.err != nil {
			// the runtime kills the process on e.g. concurrent map writes: that IS a concurrency failure
			why := "no result"
			if o.err != nil {
				why = o.err.Error()
			}
			class := "C17 child process died"
			if o.err != nil && strings.Contains(o.err.Error(), "timed out") {
				class = "C17 scenario hangs"
			}
			for _, marker := range []string{"concurrent map writes", "concurrent map read and map write", "concurrent map iteration and map write", "all goroutines are asleep"} {
				if strings.Contains(o.stderr, marker) {
					class = "C17 runtime fatal error: " + marker
				}
			}
			r.OracleFail(hx.Case{Sig: class, Op: "conc " + o.spec.String(), Impl: why + "\n" + tailOf(o.stderr, 3000), Expected: "the scenario runs to completion"})
		}
		if o.res != nil {
			r.OracleCases += o.res.OracleCases
			for k, v := range o.res.Dist {
				if k != "D-failures" {
					r.Dist[k] += v
				}
			}
			for _, c := range o.res.OracleFailures {
				c.Op = "conc " + c.Op
				r.OracleFail(c)
			}
			for _, s := range o.res.Samples {
				r.Distinctive(s)
			}
		}
		for _, rep := range parseRaceLog(o.races) {
			sig, detail := rep.signature()
			r.Count("race-reports")
			if seenRace[sig+"|"+detail] {
				continue
			}
			seenRace[sig+"|"+detail] = true
			r.Count("race-reports-distinct")
			r.OracleFail(hx.Case{Sig: sig, Op: "race " + detail + " first-seen-in=" + o.spec.String(), Impl: tailOf(rep.text, 6000),
				Expected: "no data race (Go memory model): shared objects are safe for concurrent use"})
		}
	}
	return r
}

func tailOf(s string, n int) string {
	if len(s) > n {
		return "…" + s[len(s)-n:]
	}
	return s
}

// runChild: one scenario in this process; the parent reads the result file and the race log.
func runChild(cfg Config, specJSON string) *hx.Result {
	var sp childSpec
	if err := json.Unmarshal([]byte(specJSON), &sp); err != nil {
		fmt.Fprintln(os.Stderr, "harness: bad child spec:", err)
		os.Exit(3)
	}
	log.SetOutput(io.Discard)
	runtime.GOMAXPROCS(sp.Procs)
	r := hx.NewResult("C17", cfg.Module, cfg.Seed, cfg.Tier)
	rng := hx.Rng(cfg.Seed, "c17/"+sp.String())
	thorough := cfg.Tier == "thorough"
	G := 2 + rng.Intn(7) // 2..8 goroutines
	switch sp.Scenario {
	case "server":
		if thorough {
			runServerScenario(r, rng, sp.Procs, 160, G, 12, 3)
		} else {
			runServerScenario(r, rng, sp.Procs, 90, G, 6, 2)
		}
	case "client":
		if thorough {
			runClientScenario(r, rng, sp.Procs, 120, G, 8, 2, sp.Round%2 == 1)
		} else {
			runClientScenario(r, rng, sp.Procs, 70, G, 4, 2, false)
		}
	case "registry":
		if thorough {
			runRegistryScenario(r, rng, sp.Procs, G, 3000)
		} else {
			runRegistryScenario(r, rng, sp.Procs, G, 800)
		}
	case "d2", "d2count":
		if thorough {
			runD2Scenario(r, rng, sp.Procs, G, 4000, 120, sp.Scenario == "d2count", false)
			runD2Scenario(r, rng, sp.Procs, G, 2000, 60, sp.Scenario == "d2count", true)
		} else {
			runD2Scenario(r, rng, sp.Procs, G, 1500, 40, sp.Scenario == "d2count", false)
			runD2Scenario(r, rng, sp.Procs, G, 800, 20, sp.Scenario == "d2count", true)
		}
	default:
		fmt.Fprintln(os.Stderr, "harness: unknown scenario", sp.Scenario)
		os.Exit(3)
	}
	return r
}
