package c17

import (
	"bytes"
	"context"
	"errors"
	"fmt"
	"io"
	"math/rand"
	"net/http"
	"net/http/httptest"
	"net/url"
	"sort"
	"strconv"
	"strings"
	"sync"

	"github.com/PapaCharlie/go-restli/v2/restli"
	"github.com/PapaCharlie/go-restli/v2/restlicodec"
	"verif/harness/hx"
)

// directTransport hands the client's request to the handler on the calling goroutine: client code,
// server code and the fakes of one call all run interleaved with those of the other calls.
type directTransport struct{ h http.Handler }

func (t directTransport) RoundTrip(req *http.Request) (res *http.Response, err error) {
	var body []byte
	if req.Body != nil {
		body, _ = io.ReadAll(req.Body)
		req.Body.Close()
	}
	sreq := httptest.NewRequest(req.Method, req.URL.RequestURI(), bytes.NewReader(body))
	for k, v := range req.Header {
		sreq.Header[k] = append([]string(nil), v...)
	}
	rec := httptest.NewRecorder()
	defer func() {
		if recover() != nil {
			res, err = nil, io.ErrUnexpectedEOF // what a dropped connection looks like
		}
	}()
	t.h.ServeHTTP(rec, sreq)
	res = rec.Result()
	res.Request = req
	return res, nil
}

type rpath struct{ root, path string }

func (r rpath) RootResource() string          { return r.root }
func (r rpath) ResourcePath() (string, error) { return r.path, nil }

func valStr(v *val) string {
	if v == nil {
		return "<nil>"
	}
	return fmt.Sprintf("{body:%d key:%s param:%s hdr:%s}", v.Body, v.Key, v.Param, v.Hdr)
}

// canonErr maps an error of the client API to a class plus the request-specific data it carries
func canonErr(err error) string {
	if err == nil {
		return "nil"
	}
	var re *restli.Error
	if errors.As(err, &re) {
		st, msg := "nil", "nil"
		if re.Status != nil {
			st = strconv.Itoa(int(*re.Status))
		}
		if re.Message != nil {
			msg = strconv.Quote(*re.Message)
		}
		return "restli.Error{status:" + st + " message:" + msg + "}"
	}
	var us *restli.UnexpectedStatusCodeError
	if errors.As(err, &us) {
		return "UnexpectedStatusCode{" + strconv.Itoa(us.Response.StatusCode) + "}"
	}
	return fmt.Sprintf("%T{%s}", err, strings.Join(tokRe.FindAllString(err.Error(), -1), ","))
}

// clientCall performs request q through the typed client API and renders everything the caller
// gets back: the decoded value, the error, the captured response headers.
func clientCall(c *restli.Client, q *request) string {
	ctx := restli.ExtraRequestHeaders(context.Background(), func() (http.Header, error) {
		h := http.Header{}
		h.Set(hdrID, q.tok())
		h.Set(hdrMode, q.mode)
		if q.status != 0 {
			h.Set(hdrStatus, strconv.Itoa(q.status))
		}
		h.Set(hdrShared, strconv.Itoa(q.shared))
		return h, nil
	})
	ctx, captured := restli.AddResponseHeadersCaptor(ctx)
	p := "p=" + q.param()
	if q.idx%3 == 0 {
		// long enough to be tunnelled (POST + X-HTTP-Method-Override)
		p += "&pad=" + strings.Repeat("a", 80)
	}
	in := &val{Body: 7, Key: q.key(), Param: q.param(), Hdr: q.tok()}
	var out string
	var err error
	switch q.kind {
	case "get":
		var v *val
		v, err = restli.Get[*val](c, ctx, rpath{"things", "/things/" + q.key()}, restli.QueryParamsString(p))
		out = valStr(v)
	case "subget":
		var v *val
		v, err = restli.Get[*val](c, ctx, rpath{"things", "/things/" + q.key() + "/parts/" + q.key2()}, restli.QueryParamsString(p))
		out = valStr(v)
	case "simpleget":
		var v *val
		v, err = restli.Get[*val](c, ctx, rpath{"single", "/single"}, restli.QueryParamsString(p))
		out = valStr(v)
	case "delete":
		err = restli.Delete(c, ctx, rpath{"things", "/things/" + q.key()}, restli.QueryParamsString(p))
	case "update":
		err = restli.Update(c, ctx, rpath{"things", "/things/" + q.key()}, in, restli.QueryParamsString(p), nil)
	case "create":
		ce, e := restli.Create[string](c, ctx, rpath{"things", "/things"}, in, restli.QueryParamsString(p), nil)
		err = e
		if ce != nil {
			out = fmt.Sprintf("{id:%s status:%d}", ce.Id, ce.Status)
		}
	case "finder":
		es, e := restli.Find[*val](c, ctx, rpath{"things", "/things"}, restli.QueryParamsString("q=byTag&"+p))
		err = e
		if es != nil {
			for _, v := range es.Elements {
				out += valStr(v)
			}
		}
	case "action":
		err = restli.DoActionRequest(c, ctx, rpath{"things", "/things"}, restli.QueryParamsString("action=poke"), in)
	case "echo":
		var v *val
		v, err = restli.DoActionRequestWithResults(c, ctx, rpath{"single", "/single"}, restli.QueryParamsString("action=echo"), in,
			restlicodec.UnmarshalRestLi[*val])
		out = valStr(v)
	default:
		panic("c17: no client call for kind " + q.kind)
	}
	var hs []string
	for _, k := range []string{hdrEcho, hdrPost, hdrBody, restli.IDHeader, restli.ErrorResponseHeader} {
		if v, ok := captured[k]; ok {
			hs = append(hs, k+"="+strings.Join(v, ","))
		}
	}
	sort.Strings(hs)
	return fmt.Sprintf("value=%s err=%s captured=[%s]", out, canonErr(err), strings.Join(hs, "; "))
}

// runClientScenario: ONE restli.Client (one http.Client underneath) used from G goroutines for
// mixed typed calls against one server; every call must return what it returns when made alone.
func runClientScenario(r *hx.Result, rng *rand.Rand, procs, nReq, G, rounds, reps int, realSockets bool) {
	ts := newTestServer()
	var reqs []*request
	for _, q := range corpus(rng, nReq+3, len(sharedSpecs)) {
		switch q.kind {
		case "unknownroot", "undefined", "unknownsub":
		default:
			reqs = append(reqs, q)
		}
	}
	host, _ := url.Parse("http://verif.invalid")
	hc := &http.Client{Transport: directTransport{ts.h}}
	var srv *httptest.Server
	if realSockets {
		func() {
			defer func() { recover() }() // no loopback in this sandbox: stay with the direct transport
			srv = httptest.NewServer(ts.tracked())
		}()
		if srv != nil {
			defer srv.Close()
			host, _ = url.Parse(srv.URL)
			hc = srv.Client()
			r.Count("client:transport:loopback")
		}
	}
	if srv == nil {
		r.Count("client:transport:direct")
	}
	c := &restli.Client{
		Client:                   hc,
		HostnameResolver:         &restli.SimpleHostnameResolver{Hostname: host},
		QueryTunnellingThreshold: 60,
	}
	yieldsOn.Store(false)
	want := make([]string, len(reqs))
	for i, q := range reqs {
		ts.resetShared()
		want[i] = clientCall(c, q)
		ts.quiesce()
		r.Count("client:kind:" + q.kind)
		if ft := foreignTokens(q, want[i]); len(ft) > 0 {
			r.OracleFail(hx.Case{Sig: "C17 harness: serial client result carries a foreign token", Op: q.describe(), Impl: want[i]})
		}
	}
	for round := 0; round < rounds; round++ {
		ts.resetShared()
		before := ts.snapShared()
		yieldSeed.Store(rng.Uint64())
		yieldsOn.Store(round%4 != 3)
		var work []int
		for k := 0; k < reps; k++ {
			for i := range reqs {
				work = append(work, i)
			}
		}
		rng.Shuffle(len(work), func(a, b int) { work[a], work[b] = work[b], work[a] })
		got := make([]string, len(work))
		var wg sync.WaitGroup
		start := make(chan struct{})
		for g := 0; g < G; g++ {
			wg.Add(1)
			go func(g int) {
				defer wg.Done()
				<-start
				for w := g; w < len(work); w += G {
					got[w] = clientCall(c, reqs[work[w]])
				}
			}(g)
		}
		close(start)
		wg.Wait()
		ts.quiesce()
		yieldsOn.Store(false)
		for w, i := range work {
			q := reqs[i]
			r.OracleCases++
			if ft := foreignTokens(q, got[w]); len(ft) > 0 {
				r.OracleFail(hx.Case{
					Sig:      "C17 client call returns another request's data",
					Op:       fmt.Sprintf("client procs=%d G=%d %s", procs, G, q.describe()),
					Impl:     got[w],
					Expected: "only its own token " + q.tok() + "; found " + strings.Join(ft, ","),
				})
				continue
			}
			if got[w] != want[i] {
				r.OracleFail(hx.Case{
					Sig:      "C17 concurrent client call differs from the serial call",
					Op:       fmt.Sprintf("client procs=%d G=%d %s", procs, G, q.describe()),
					Impl:     got[w],
					Expected: want[i],
				})
			}
		}
		checkShared(r, before, ts.snapShared(), fmt.Sprintf("client-concurrent procs=%d G=%d round=%d", procs, G, round))
		r.Count(fmt.Sprintf("client:rounds:procs=%d", procs))
	}
	r.Distinctive(fmt.Sprintf("client procs=%d G=%d calls=%d reps=%d rounds=%d sockets=%v", procs, G, len(reqs), reps, rounds, srv != nil))
}
