package c17

import (
	"fmt"
	"math/rand"
	"net/url"
	"runtime/debug"
	"sort"
	"strings"
	"sync"
	"sync/atomic"

	"github.com/PapaCharlie/go-restli/v2/d2"
	"verif/harness/hx"
)

const d2Cluster = "VerifCluster17"

// countSrc is a rand.Source that counts its calls WITHOUT synchronisation, exactly like the
// generator state of math/rand's own source: if two draws overlap, one increment is lost. The
// race detector sees the unsynchronised access below d2.(*serviceUris).filterAndChooseHost.
type countSrc struct{ n int64 }

func (c *countSrc) Int63() int64 {
	v := c.n
	c.n = v + 1
	return int64((uint64(v) * 0x9e3779b97f4a7c15) >> 1)
}
func (c *countSrc) Seed(int64) {}

func uriEvent(node string, hosts map[string]float64) d2.TreeCacheEvent {
	var ws []string
	for h, w := range hosts {
		ws = append(ws, fmt.Sprintf("%q:%v", h, w))
	}
	sort.Strings(ws)
	data := []byte(`{"weights":{` + strings.Join(ws, ",") + `},"clusterName":"` + d2Cluster + `"}`)
	return d2.TreeCacheEvent{Path: d2.UrisPath(d2Cluster) + node, Data: &data}
}

func delEvent(node string) d2.TreeCacheEvent {
	return d2.TreeCacheEvent{Path: d2.UrisPath(d2Cluster) + node}
}

func contentsStr(m map[string]map[url.URL]float64) string {
	var ns []string
	for n, hs := range m {
		var es []string
		for h, w := range hs {
			es = append(es, fmt.Sprintf("%s=%v", h.String(), w))
		}
		sort.Strings(es)
		ns = append(ns, n+"{"+strings.Join(es, ",")+"}")
	}
	sort.Strings(ns)
	return strings.Join(ns, " ")
}

// runD2Scenario: G goroutines resolve hosts through ONE d2.Client while one goroutine (as
// waitForUriUpdates does in production) applies announcement updates. Node /n0 stays announced
// throughout, so every resolution must succeed with a host that was announced at some point, and
// every snapshot that was ever published must stay as it was when published.
// zeroWeights: every host is announced with weight 0 (the uniform choice among them is a branch of
// its own in host selection).
func runD2Scenario(r *hx.Result, rng *rand.Rand, procs, G, iters, updates int, counting bool, zeroWeights bool) {
	fail := func(sig, op, impl, exp string) {
		r.OracleFail(hx.Case{Sig: sig, Op: fmt.Sprintf("d2 procs=%d G=%d counting=%v zeroWeights=%v %s", procs, G, counting, zeroWeights, op), Impl: impl, Expected: exp})
	}
	c := &d2.Client{}
	svcData := []byte(`{"serviceName":"svc","clusterName":"` + d2Cluster + `","path":"/ctx","prioritizedSchemes":[]}`)
	svc := c.VerifHandleServiceUpdate("svc", d2.TreeCacheEvent{Path: d2.ServicesPath("svc"), Data: &svcData})
	if svc == nil {
		fail("C17 harness: service definition not decoded", "svc", "nil", "a service")
		return
	}
	c.VerifSeed("svc", svc, d2.VerifNewUris(d2Cluster))
	ever := map[string]bool{}
	hostsOf := func(node string, gen int) map[string]float64 {
		m := map[string]float64{}
		for k := 0; k < 1+gen%3; k++ {
			h := fmt.Sprintf("http://host-%s-%d-%d:80/ctx", strings.TrimPrefix(node, "/"), gen, k)
			m[h] = float64(1 + (gen+k)%4)
			if zeroWeights {
				m[h] = 0
			}
			ever[h] = true
		}
		return m
	}
	c.VerifDeliverUriEvents(d2Cluster, uriEvent("/n0", hostsOf("/n0", 0)), uriEvent("/n1", hostsOf("/n1", 0)))
	// the schedule of updates is fixed before anything runs concurrently
	var evs []d2.TreeCacheEvent
	for u := 0; u < updates; u++ {
		node := fmt.Sprintf("/n%d", 1+rng.Intn(4))
		switch rng.Intn(4) {
		case 0:
			evs = append(evs, delEvent(node))
		default:
			evs = append(evs, uriEvent(node, hostsOf(node, 1+u)))
		}
		if u%5 == 4 {
			evs = append(evs, uriEvent("/n0", hostsOf("/n0", 1+u))) // the permanent node changes its hosts too
		}
	}
	var src rand.Source
	cs := &countSrc{}
	if counting {
		src = cs
	} else {
		src = rand.NewSource(rng.Int63())
	}
	restore := d2.VerifSetRng(src)
	defer restore()

	type published struct {
		h    *d2.VerifUris
		then string
	}
	var pubs []published
	snap := func() {
		h := c.VerifCurrentUris(d2Cluster)
		if h != nil && (len(pubs) == 0 || !pubs[len(pubs)-1].h.Same(h)) {
			pubs = append(pubs, published{h, contentsStr(h.Contents())})
		}
	}
	snap()
	var wg sync.WaitGroup
	start := make(chan struct{})
	var mu sync.Mutex
	var problems []hx.Case
	var calls atomic.Int64
	for g := 0; g < G; g++ {
		wg.Add(1)
		go func(g int) {
			defer wg.Done()
			<-start
			for i := 0; i < iters; i++ {
				var u *url.URL
				var err error
				panicked, pv, stack := recoverWithStack(func() {
					if (g+i)%2 == 0 {
						u, err = c.ResolveHostnameAndContextForQuery("svc", nil)
					} else {
						u, err = c.SingleServiceClient("svc").ResolveHostnameAndContextForQuery("ignored", nil)
					}
				})
				calls.Add(1)
				bad := ""
				switch {
				case panicked:
					bad = fmt.Sprint("panic: ", pv)
				case err != nil:
					bad = "error: " + err.Error()
				case u == nil:
					bad = "nil host"
				case !ever[u.String()]:
					bad = "host never announced: " + u.String()
				}
				if bad != "" {
					sig := "C17 host resolution fails under concurrent use"
					if panicked && strings.Contains(stack, "math/rand.(*rngSource)") {
						// the generator's own state (tap/feed indices) corrupted by overlapping draws
						sig = "C17 host resolution panics inside math/rand (generator state corrupted by concurrent draws)"
						bad += " in " + firstFrameWith(stack, "math/rand.")
					}
					mu.Lock()
					problems = append(problems, hx.Case{Sig: sig,
						Op:   fmt.Sprintf("d2 procs=%d G=%d counting=%v goroutine=%d call=%d", procs, G, counting, g, i),
						Impl: bad, Expected: "a host announced at some point (node /n0 is always announced)"})
					mu.Unlock()
				}
			}
		}(g)
	}
	// the updater: the one goroutine that feeds waitForUriUpdates
	wg.Add(1)
	go func() {
		defer wg.Done()
		<-start
		for _, e := range evs {
			c.VerifDeliverUriEvents(d2Cluster, e)
			snap()
		}
	}()
	close(start)
	wg.Wait()
	for _, p := range problems {
		r.OracleFail(p)
	}
	n := int(calls.Load())
	r.OracleCases += n
	for i, p := range pubs {
		r.OracleCases++
		if now := contentsStr(p.h.Contents()); now != p.then {
			fail("C17 published D2 snapshot modified afterwards", fmt.Sprintf("snapshot #%d of %d", i, len(pubs)), now, p.then)
		}
	}
	if counting {
		// prioritizedSchemes is empty: exactly one draw per resolution
		r.OracleCases++
		if int(cs.n) != n {
			fail("C17 random source lost updates", fmt.Sprintf("draws=%d", n),
				fmt.Sprintf("the generator advanced %d times", cs.n), fmt.Sprintf("advanced %d times: every draw moves the generator once", n))
		}
	}
	r.Count(fmt.Sprintf("d2:procs=%d:counting=%v", procs, counting))
	r.Count("d2:runs")
	r.Distinctive(fmt.Sprintf("d2 procs=%d resolvers=%d iters=%d updates=%d counting=%v snapshots=%d", procs, G, iters, len(evs), counting, len(pubs)))
}

func recoverWithStack(f func()) (panicked bool, val any, stack string) {
	defer func() {
		if r := recover(); r != nil {
			panicked, val, stack = true, r, string(debug.Stack())
		}
	}()
	f()
	return
}

func firstFrameWith(stack, sub string) string {
	for _, ln := range strings.Split(stack, "\n") {
		if strings.Contains(ln, sub) {
			return strings.TrimSpace(ln)
		}
	}
	return "?"
}
