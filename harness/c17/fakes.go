package c17

import (
	"context"
	"errors"
	"hash/fnv"
	"net/http"
	"runtime"
	"strconv"
	"strings"
	"sync/atomic"

	"github.com/PapaCharlie/go-restli/v2/restli"
	"github.com/PapaCharlie/go-restli/v2/restlicodec"
)

// ---- injected yields. The library has no yield hooks on the request path; the callbacks it makes
// into user code (path decoder, query decoder, body decoder, filter, resource method, response
// marshaler) are the injection points. Whether a point yields is a pure function of (seed, token,
// point), so a run is reproducible up to what the Go scheduler does with the yield.

var (
	yieldsOn  atomic.Bool
	yieldSeed atomic.Uint64
)

func yield(token string, point int) {
	if !yieldsOn.Load() {
		return
	}
	h := fnv.New64a()
	h.Write([]byte(token))
	v := h.Sum64() ^ yieldSeed.Load() ^ (uint64(point) * 0x9e3779b97f4a7c15)
	v ^= v >> 29
	switch v % 4 {
	case 0:
		runtime.Gosched()
	case 1:
		runtime.Gosched()
		runtime.Gosched()
	}
}

// ---- resource path decoders, shaped like the generated ones (read the first N key segments)

type rpN interface{ n() int }
type n0 struct{}
type n1 struct{}
type n2 struct{}

func (n0) n() int { return 0 }
func (n1) n() int { return 1 }
func (n2) n() int { return 2 }

type rp[T rpN] struct{ keys []string }

func (r *rp[T]) NewInstance() *rp[T] { return &rp[T]{} }
func (r *rp[T]) UnmarshalResourcePath(segments []restlicodec.Reader) error {
	var t T
	for i := 0; i < t.n(); i++ {
		k, err := segments[i].ReadString()
		if err != nil {
			return err
		}
		yield(k, 1)
		r.keys = append(r.keys, k)
	}
	return nil
}

// ---- query parameters: `p` is echoed, `bad` fails

type qp struct{ p string }

func (q *qp) NewInstance() *qp { return &qp{} }
func (q *qp) DecodeQueryParams(r restlicodec.QueryParamsReader) error {
	if _, ok := r["bad"]; ok {
		return errors.New("bad parameter")
	}
	if v, ok := r["p"]; ok {
		s, err := v.ReadString()
		if err != nil {
			return err
		}
		q.p = s
		yield(s, 2)
	}
	return nil
}

// ---- the entity: what the resource saw of the request, sent back

type val struct {
	Body  int64
	Key   string
	Param string
	Hdr   string
}

func (v *val) NewInstance() *val { return &val{} }
func (v *val) MarshalRestLi(w restlicodec.Writer) error {
	return w.WriteMap(func(kw func(string) restlicodec.Writer) error {
		kw("body").WriteInt64(v.Body)
		yield(v.Hdr, 3)
		kw("hdr").WriteString(v.Hdr)
		kw("key").WriteString(v.Key)
		yield(v.Hdr, 4)
		kw("param").WriteString(v.Param)
		return nil
	})
}
func (v *val) UnmarshalRestLi(r restlicodec.Reader) error {
	return r.ReadMap(func(r restlicodec.Reader, f string) (err error) {
		switch f {
		case "body":
			v.Body, err = r.ReadInt64()
		case "hdr":
			v.Hdr, err = r.ReadString()
			yield(v.Hdr, 5)
		case "key":
			v.Key, err = r.ReadString()
		case "param":
			v.Param, err = r.ReadString()
		default:
			err = r.Skip()
		}
		return err
	})
}

const (
	hdrID     = "X-Verif-Id"     // the request's token
	hdrMode   = "X-Verif-Mode"   // what the resource does
	hdrStatus = "X-Verif-Status" // status to use (ok: ctx.ResponseStatus; fresh: ErrorResponse.Status)
	hdrShared = "X-Verif-Shared" // index of the shared error object to return
	hdrEcho   = "X-Verif-Echo"   // response: the token the resource saw
	hdrBody   = "X-Verif-Body"   // response: the token found in the decoded request body
	hdrPost   = "X-Verif-Post"   // response: the token the filter's PostRequest found in its context
)

// resource is the implementation behind every registered method of one server
type resource struct {
	// error objects owned by the resource and handed to every request that asks for them; replaced
	// between rounds while no request is in flight (atomic: with real sockets the race detector
	// cannot see that a finished round happens-before the next one)
	shared atomic.Pointer[[]error]
}

// run is what every fake resource method does
func (im *resource) run(ctx *restli.RequestContext, bodyConst int64, keys []string, q *qp, in *val) (*val, error) {
	h := ctx.Request.Header
	id := h.Get(hdrID)
	yield(id, 6)
	ctx.ResponseHeaders.Set(hdrEcho, id)
	if in != nil {
		ctx.ResponseHeaders.Set(hdrBody, in.Hdr)
	}
	p := ""
	if q != nil {
		p = q.p
	}
	switch h.Get(hdrMode) {
	case "", "ok":
		if st := h.Get(hdrStatus); st != "" {
			n, _ := strconv.Atoi(st)
			ctx.ResponseStatus = n
		}
		yield(id, 7)
		return &val{Body: bodyConst, Key: strings.Join(keys, "/"), Param: p, Hdr: id}, nil
	case "shared":
		i, _ := strconv.Atoi(h.Get(hdrShared))
		yield(id, 8)
		return nil, (*im.shared.Load())[i]
	case "fresh":
		n, _ := strconv.Atoi(h.Get(hdrStatus))
		return nil, newErrorResponse(int32p(int32(n)), strp("fresh failure for "+id))
	case "freshnomsg":
		n, _ := strconv.Atoi(h.Get(hdrStatus))
		return nil, newErrorResponse(int32p(int32(n)), nil)
	case "plain":
		return nil, errors.New("plain failure for " + id)
	case "panic":
		yield(id, 9)
		panic("boom " + id)
	}
	return nil, errors.New("unknown mode")
}

func int32p(v int32) *int32 { return &v }
func strp(s string) *string { return &s }

// ---- a filter, as a tracing/auth filter would be written: request-scoped data goes into the context

type ctxKey struct{}

type filter struct{}

func (filter) PreRequest(req *http.Request) (context.Context, error) {
	id := req.Header.Get(hdrID)
	yield(id, 10)
	return context.WithValue(req.Context(), ctxKey{}, id), nil
}

func (filter) PostRequest(c context.Context, h http.Header) error {
	id, _ := c.Value(ctxKey{}).(string)
	yield(id, 11)
	h.Set(hdrPost, id)
	return nil
}
