//go:build !race

package c17

const raceEnabled = false
