//go:build race

package c17

const raceEnabled = true
