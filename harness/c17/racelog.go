package c17

import (
	"bufio"
	"os"
	"regexp"
	"sort"
	"strconv"
	"strings"
)

// The race detector (GORACE="halt_on_error=0 exitcode=0 log_path=…") appends one block per detected
// race to <log_path>.<pid>:
//
//	==================
//	WARNING: DATA RACE
//	Write at 0x… by goroutine 8:
//	  pkg.func()
//	      /path/file.go:12 +0x44
//	  …
//
//	Previous read at 0x… by goroutine 7:
//	  …
//
//	Goroutine 8 (running) created at:
//	  …
//	==================

type frame struct {
	fn   string // as printed, without the trailing "()"
	file string
	line int
}

type access struct {
	kind   string // "Write", "Previous read", …
	frames []frame
}

type raceReport struct {
	text     string
	accesses []access // the two conflicting accesses (the second may have no stack)
}

var (
	accessRe = regexp.MustCompile(`^((?:Previous )?(?:[Aa]tomic )?(?:[Rr]ead|[Ww]rite)) at 0x[0-9a-f]+ by `)
	fnRe     = regexp.MustCompile(`^  (\S.*)$`)
	posRe    = regexp.MustCompile(`^      (.+):(\d+)(?: \+0x[0-9a-f]+)?$`)
	genRe    = regexp.MustCompile(`\[[^\]]*\]`)
)

func parseRaceLog(text string) []raceReport {
	var out []raceReport
	blocks := strings.Split(text, "==================")
	for _, b := range blocks {
		if !strings.Contains(b, "WARNING: DATA RACE") {
			continue
		}
		rep := raceReport{text: strings.TrimSpace(b)}
		var cur *access
		var pendingFn string
		for _, ln := range strings.Split(b, "\n") {
			if m := accessRe.FindStringSubmatch(ln); m != nil {
				rep.accesses = append(rep.accesses, access{kind: m[1]})
				cur = &rep.accesses[len(rep.accesses)-1]
				pendingFn = ""
				continue
			}
			if strings.TrimSpace(ln) == "" || strings.HasPrefix(ln, "Goroutine ") {
				cur = nil
				continue
			}
			if cur == nil {
				continue
			}
			if m := posRe.FindStringSubmatch(ln); m != nil && pendingFn != "" {
				n, _ := strconv.Atoi(m[2])
				cur.frames = append(cur.frames, frame{fn: pendingFn, file: m[1], line: n})
				pendingFn = ""
				continue
			}
			if m := fnRe.FindStringSubmatch(ln); m != nil {
				fn := m[1]
				if i := strings.LastIndex(fn, "("); i > 0 && strings.HasSuffix(fn, ")") {
					fn = fn[:i]
				}
				pendingFn = fn
			}
		}
		out = append(out, rep)
	}
	return out
}

const repoPkg = "github.com/PapaCharlie/go-restli"

// blame picks the frame of an access that names the library: the innermost frame inside go-restli
// (a race inside math/rand or net/http reached from library code is attributed to the library
// function that made the unsynchronised call), else the innermost non-runtime frame.
func blame(a access) (frame, bool) {
	for _, f := range a.frames {
		if strings.Contains(f.fn, repoPkg) {
			return f, true
		}
	}
	for _, f := range a.frames {
		if !strings.HasPrefix(f.fn, "runtime.") {
			return f, true
		}
	}
	return frame{}, false
}

// shortFn: "github.com/PapaCharlie/go-restli/v2/d2.(*serviceUris).filterAndChooseHost" -> "d2.(*serviceUris).filterAndChooseHost"
func shortFn(fn string) string {
	fn = genRe.ReplaceAllString(fn, "")
	if i := strings.LastIndex(fn, "/"); i >= 0 {
		fn = fn[i+1:]
	}
	return fn
}

func sourceLine(f frame) string {
	fh, err := os.Open(f.file)
	if err != nil {
		return ""
	}
	defer fh.Close()
	sc := bufio.NewScanner(fh)
	sc.Buffer(make([]byte, 1<<20), 1<<20)
	for n := 1; sc.Scan(); n++ {
		if n == f.line {
			return strings.TrimSpace(sc.Text())
		}
	}
	return ""
}

// signature: the function pair (sorted) and, for the op line, the kind and source text of each access
func (r raceReport) signature() (sig, detail string) {
	var fns, det []string
	for _, a := range r.accesses {
		f, ok := blame(a)
		if !ok {
			fns = append(fns, "<stack not restored>")
			det = append(det, strings.ToLower(a.kind)+" <stack not restored>")
			continue
		}
		fns = append(fns, shortFn(f.fn))
		det = append(det, strings.ToLower(strings.TrimPrefix(a.kind, "Previous "))+" in "+shortFn(f.fn)+" @ `"+sourceLine(f)+"`")
	}
	for len(fns) < 2 {
		fns = append(fns, "<unknown>")
	}
	sort.Strings(fns)
	sort.Strings(det)
	return "C17 data race: " + fns[0] + " vs " + fns[1], strings.Join(det, " | ")
}
