//go:build rootmod

package c17

import (
	"math/rand"

	"verif/harness/hx"
)

// The root module has no custom-typeref adapter registry (restlicodec/custom_typerefs.go exists
// only in v2), so this part of the property has no object there.
func runRegistryScenario(r *hx.Result, rng *rand.Rand, procs, G, iters int) {
	r.Count("registry:absent-in-root-module")
}
