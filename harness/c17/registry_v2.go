//go:build !rootmod

package c17

import (
	"fmt"
	"math/rand"
	"strings"
	"sync"
	"sync/atomic"

	"github.com/PapaCharlie/go-restli/v2/fnv1a"
	"github.com/PapaCharlie/go-restli/v2/restlicodec"
	"verif/harness/hx"
)

// custom typeref types: ct[mK] are pairwise distinct types, so each has its own registry entry
type ct[M any] struct{ V string }

type m0 struct{}
type m1 struct{}
type m2 struct{}
type m3 struct{}
type m4 struct{}
type m5 struct{}
type m6 struct{}
type m7 struct{}
type m8 struct{}
type m9 struct{}
type m10 struct{}
type m11 struct{}

// typeOps is the type-erased handle on one custom typeref type
type typeOps struct {
	tag      string
	register func() (panicked bool)
	// roundTrip marshals a value through the registered adapter and back; the adapter of type `tag`
	// prefixes the wire form with its tag, so a foreign adapter is recognisable
	roundTrip func(payload string) (wire, back string, panicked bool)
}

func opsFor[M any](tag string) typeOps {
	type T = ct[M]
	return typeOps{
		tag: tag,
		register: func() bool {
			p, _ := hx.Recover(func() {
				restlicodec.RegisterCustomTyperef(
					func(t T) (string, error) { yield(tag, 20); return tag + ":" + t.V, nil },
					func(s string) (T, error) {
						if !strings.HasPrefix(s, tag+":") {
							return T{}, fmt.Errorf("adapter of %s was handed %q", tag, s)
						}
						return T{V: strings.TrimPrefix(s, tag+":")}, nil
					},
					func(t T) fnv1a.Hash { h := fnv1a.NewHash(); h.AddString(t.V); return h },
					func(a, b T) bool { return a == b },
				)
			})
			return p
		},
		roundTrip: func(payload string) (wire, back string, panicked bool) {
			panicked, _ = hx.Recover(func() {
				w := restlicodec.NewCompactJsonWriter()
				if err := restlicodec.CustomTyperefMarshaler[T]()(T{V: payload}, w); err != nil {
					wire = "marshal error: " + err.Error()
					return
				}
				wire = w.Finalize()
				rd, err := restlicodec.NewJsonReader([]byte(wire))
				if err != nil {
					back = "reader error: " + err.Error()
					return
				}
				t, err := restlicodec.CustomTyperefUnmarshaler[T]()(rd)
				if err != nil {
					back = "unmarshal error: " + err.Error()
					return
				}
				if !restlicodec.CustomTyperefEquals[T]()(t, T{V: payload}) ||
					!restlicodec.CustomTyperefHasher[T]()(t).Equals(restlicodec.CustomTyperefHasher[T]()(T{V: payload})) {
					back = "equals/hash adapter disagrees"
					return
				}
				back = t.V
			})
			return
		},
	}
}

// runRegistryScenario: the adapter registry is a process-wide sync.Map. Four types are registered
// up front; eight more are registered while readers use the registry, each by TWO goroutines at once.
func runRegistryScenario(r *hx.Result, rng *rand.Rand, procs, G, iters int) {
	pre := []typeOps{opsFor[m0]("T0"), opsFor[m1]("T1"), opsFor[m2]("T2"), opsFor[m3]("T3")}
	late := []typeOps{opsFor[m4]("T4"), opsFor[m5]("T5"), opsFor[m6]("T6"), opsFor[m7]("T7"),
		opsFor[m8]("T8"), opsFor[m9]("T9"), opsFor[m10]("T10"), opsFor[m11]("T11")}
	fail := func(sig, op, impl, exp string) {
		r.OracleFail(hx.Case{Sig: sig, Op: fmt.Sprintf("registry procs=%d G=%d %s", procs, G, op), Impl: impl, Expected: exp})
	}
	for _, t := range pre {
		r.OracleCases++
		if t.register() {
			fail("C17 registering a new custom typeref panics", t.tag, "panic", "registered")
		}
	}
	// serial behaviour of a late type before it is registered: the look-up panics
	r.OracleCases++
	if _, _, p := late[0].roundTrip("x"); !p {
		fail("C17 unregistered custom typeref is usable", late[0].tag, "no panic", "panic: Unregistered custom typeref")
	}
	yieldSeed.Store(rng.Uint64())
	yieldsOn.Store(true)
	var wg sync.WaitGroup
	start := make(chan struct{})
	var mu sync.Mutex
	var problems []hx.Case
	report := func(sig, op, impl, exp string) {
		mu.Lock()
		problems = append(problems, hx.Case{Sig: sig, Op: fmt.Sprintf("registry procs=%d G=%d %s", procs, G, op), Impl: impl, Expected: exp})
		mu.Unlock()
	}
	var reads atomic.Int64
	// readers
	for g := 0; g < G; g++ {
		wg.Add(1)
		go func(g int) {
			defer wg.Done()
			<-start
			for i := 0; i < iters; i++ {
				t := pre[(g+i)%len(pre)]
				payload := fmt.Sprintf("g%d-i%d", g, i)
				wire, back, p := t.roundTrip(payload)
				reads.Add(1)
				if p || back != payload || !strings.Contains(wire, t.tag+":") {
					report("C17 registered custom typeref misbehaves under concurrent use", t.tag+" "+payload,
						fmt.Sprintf("panicked=%v wire=%s back=%s", p, wire, back), "wire carries "+t.tag+": and decodes back to "+payload)
				}
				l := late[(g*7+i)%len(late)]
				wire, back, p = l.roundTrip(payload)
				reads.Add(1)
				if !p && (back != payload || !strings.Contains(wire, l.tag+":")) {
					report("C17 custom typeref look-up during registration returns a wrong adapter", l.tag+" "+payload,
						fmt.Sprintf("wire=%s back=%s", wire, back), "either the Unregistered panic or the adapter of "+l.tag)
				}
			}
		}(g)
	}
	// registrars: two per late type
	won := make([]atomic.Int32, len(late))
	lost := make([]atomic.Int32, len(late))
	for k := range late {
		for dup := 0; dup < 2; dup++ {
			wg.Add(1)
			go func(k int) {
				defer wg.Done()
				<-start
				yield(late[k].tag, 21+k)
				if late[k].register() {
					lost[k].Add(1)
				} else {
					won[k].Add(1)
				}
			}(k)
		}
	}
	close(start)
	wg.Wait()
	yieldsOn.Store(false)
	for _, c := range problems {
		r.OracleFail(c)
	}
	r.OracleCases += int(reads.Load())
	for k, t := range late {
		r.OracleCases++
		if won[k].Load() != 1 || lost[k].Load() != 1 {
			fail("C17 concurrent duplicate registration: not exactly one winner", t.tag,
				fmt.Sprintf("won=%d panicked=%d", won[k].Load(), lost[k].Load()), "won=1 panicked=1")
		}
		wire, back, p := t.roundTrip("after")
		r.OracleCases++
		if p || back != "after" || !strings.Contains(wire, t.tag+":") {
			fail("C17 custom typeref lost after concurrent registration", t.tag, fmt.Sprintf("panicked=%v wire=%s back=%s", p, wire, back), "registered adapter")
		}
	}
	r.Count(fmt.Sprintf("registry:procs=%d", procs))
	r.Distinctive(fmt.Sprintf("registry procs=%d readers=%d iters=%d types=%d+%d", procs, G, iters, len(pre), len(late)))
}
