package c17

import (
	"encoding/json"
	"fmt"
	"math/rand"
	"net/http"
	"net/http/httptest"
	"regexp"
	"sort"
	"strconv"
	"strings"

	"github.com/PapaCharlie/go-restli/v2/restli"
)

// request is one Rest.li call. Everything request-specific (path keys, the query parameter, the
// identifying header, the request body) carries the request's unique token, so whatever of it
// surfaces in another request's response is recognisable.
type request struct {
	idx    int
	kind   string // get delete update create finder action subget simpleget echo unknownroot undefined unknownsub
	mode   string // ok shared fresh freshnomsg plain panic
	status int    // ok: ResponseStatus set by the resource (0 = leave); fresh*: ErrorResponse.Status
	shared int    // shared: which of the resource's error objects
}

func (q *request) tok() string   { return "r" + strconv.Itoa(q.idx) + "x" }
func (q *request) key() string   { return "k" + q.tok() }
func (q *request) key2() string  { return "s" + q.tok() }
func (q *request) param() string { return "p" + q.tok() }

var kinds = []string{"get", "delete", "update", "create", "finder", "action", "subget", "simpleget", "echo"}

func (q *request) describe() string {
	return fmt.Sprintf("(req %s %s %s status=%d shared=%d)", q.tok(), q.kind, q.mode, q.status, q.shared)
}

func (q *request) bodyJSON() string {
	return `{"body":7,"hdr":"` + q.tok() + `","key":"` + q.key() + `","param":"` + q.param() + `"}`
}

// build makes a fresh *http.Request (bodies are consumed by the server)
func (q *request) build() *http.Request {
	var verb, target, method, body string
	p := "p=" + q.param()
	switch q.kind {
	case "get":
		verb, target, method = "GET", "/things/"+q.key()+"?"+p, "get"
	case "delete":
		verb, target, method = "DELETE", "/things/"+q.key()+"?"+p, "delete"
	case "update":
		verb, target, method, body = "PUT", "/things/"+q.key()+"?"+p, "update", q.bodyJSON()
	case "create":
		verb, target, method, body = "POST", "/things?"+p, "create", q.bodyJSON()
	case "finder":
		verb, target, method = "GET", "/things?q=byTag&"+p, "finder"
	case "action":
		verb, target, method, body = "POST", "/things?action=poke", "action", q.bodyJSON()
	case "subget":
		verb, target, method = "GET", "/things/"+q.key()+"/parts/"+q.key2()+"?"+p, "get"
	case "simpleget":
		verb, target, method = "GET", "/single?"+p, "get"
	case "echo":
		verb, target, method, body = "POST", "/single?action=echo", "action", q.bodyJSON()
	case "unknownroot":
		verb, target, method = "GET", "/nothing/"+q.key()+"?"+p, "get"
	case "undefined":
		verb, target, method = "DELETE", "/single?"+p, "delete"
	case "unknownsub":
		verb, target, method = "GET", "/things/"+q.key()+"/nope?"+p, "get"
	default:
		panic("c17: unknown request kind " + q.kind)
	}
	var req *http.Request
	if body != "" {
		req = httptest.NewRequest(verb, target, strings.NewReader(body))
		req.Header.Set("Content-Type", "application/json")
	} else {
		req = httptest.NewRequest(verb, target, nil)
	}
	req.Header.Set(restli.MethodHeader, method)
	req.Header.Set(restli.ProtocolVersionHeader, restli.ProtocolVersion)
	req.Header.Set(hdrID, q.tok())
	req.Header.Set(hdrMode, q.mode)
	if q.status != 0 {
		req.Header.Set(hdrStatus, strconv.Itoa(q.status))
	}
	req.Header.Set(hdrShared, strconv.Itoa(q.shared))
	return req
}

// response is what a client observes, canonicalised: no Date, no stack trace, sorted headers.
type response struct {
	crashed bool // ServeHTTP panicked (outside the library's recover): the connection would be dropped
	status  int
	headers []string
	body    string
}

func (r response) String() string {
	if r.crashed {
		return "crash"
	}
	return fmt.Sprintf("status=%d headers=[%s] body=%s", r.status, strings.Join(r.headers, "; "), r.body)
}

var stackRe = regexp.MustCompile(`,?"stackTrace":"(?:[^"\\]|\\.)*"`)

func canonBody(b string) string { return stackRe.ReplaceAllString(b, "") }

func canonResponse(status int, h http.Header, body string) response {
	var hs []string
	for k, vs := range h {
		if k == "Date" {
			continue
		}
		hs = append(hs, k+"="+strings.Join(vs, ","))
	}
	sort.Strings(hs)
	if h.Get("Content-Length") != "" && strings.Contains(body, `"stackTrace"`) {
		// the length covers the stack text, which differs from run to run
		for i, s := range hs {
			if strings.HasPrefix(s, "Content-Length=") {
				hs[i] = "Content-Length=<with-stack>"
			}
		}
	}
	return response{status: status, headers: hs, body: canonBody(body)}
}

// serve runs one request through the handler on the calling goroutine
func serve(h http.Handler, q *request) (res response) {
	rec := httptest.NewRecorder()
	defer func() {
		if recover() != nil {
			res = response{crashed: true}
		}
	}()
	h.ServeHTTP(rec, q.build())
	return canonResponse(rec.Code, rec.Header(), rec.Body.String())
}

var tokRe = regexp.MustCompile(`r[0-9]+x`)

// foreignTokens lists the tokens of other requests found in what request q received
func foreignTokens(q *request, observed string) []string {
	var out []string
	for _, t := range tokRe.FindAllString(observed, -1) {
		if t != q.tok() {
			out = append(out, t)
		}
	}
	return out
}

// corpus: first the named situations (every kind in every mode that applies, both shared error
// objects, unknown resource / method / sub-resource), then seeded random ones.
func corpus(rng *rand.Rand, n int, nShared int) []*request {
	var out []*request
	add := func(kind, mode string, status, shared int) {
		out = append(out, &request{idx: len(out), kind: kind, mode: mode, status: status, shared: shared})
	}
	for _, k := range kinds {
		add(k, "ok", 0, 0)
	}
	add("get", "ok", 203, 0)
	add("subget", "ok", 202, 0)
	for _, k := range []string{"get", "delete", "create", "finder", "action", "echo"} {
		add(k, "shared", 0, 0)
		add(k, "shared", 0, 1%nShared)
	}
	for _, k := range []string{"get", "update", "finder", "simpleget"} {
		add(k, "fresh", 409, 0)
		add(k, "freshnomsg", 410, 0)
		add(k, "plain", 0, 0)
		add(k, "panic", 0, 0)
	}
	add("unknownroot", "ok", 0, 0)
	add("undefined", "ok", 0, 0)
	add("unknownsub", "ok", 0, 0)
	modes := []string{"ok", "ok", "ok", "shared", "shared", "shared", "fresh", "freshnomsg", "plain", "panic"}
	statuses := []int{0, 0, 200, 202, 203, 400, 404, 409, 500, 503}
	for len(out) < n {
		k := kinds[rng.Intn(len(kinds))]
		m := modes[rng.Intn(len(modes))]
		st := statuses[rng.Intn(len(statuses))]
		if m == "fresh" || m == "freshnomsg" {
			st = []int{400, 404, 409, 500, 503}[rng.Intn(5)]
		}
		add(k, m, st, rng.Intn(nShared))
	}
	return out
}

func mustJSON(v any) string {
	b, _ := json.Marshal(v)
	return string(b)
}
