package c17

import (
	"encoding/json"
	"fmt"
	"net/http"
	"strings"

	"verif/harness/hx"
)

// Correspondence (K): the serial semantics of ONE ServeHTTP call — status, error header, body
// class, and what the call leaves in the resource's shared error objects — in the real handler
// and in the Lean model (`runAlone` of `serveProg`). This is what ties the model's account of which
// cells a request writes (in particular: today's in-place `errRes.Message = …`) to the code.

// nil-Status object, only used by the serial part (its request crashes outside `recover`)
const nilStatusShared = 3

func init() { sharedSpecs = append(sharedSpecs, sharedSpec{}) }

// model ids: resource things=1 single=2 (3 = not registered); one method id per request kind
var kindIDs = map[string][2]int{
	"get": {1, 1}, "delete": {1, 2}, "update": {1, 3}, "create": {1, 4}, "finder": {1, 5}, "action": {1, 6}, "subget": {1, 7},
	"simpleget": {2, 1}, "echo": {2, 2}, "undefined": {2, 9}, "unknownroot": {3, 1},
}

const modelTree = "((1 1 2 3 4 5 6 7) (2 1 2))"

func msgClass(status *int32, msg *string) string {
	if msg == nil {
		return "-"
	}
	m := *msg
	switch {
	case status != nil && m == http.StatusText(int(*status)):
		return fmt.Sprintf("t%d", *status)
	case status == nil && m == http.StatusText(500):
		return "t500"
	case strings.Contains(m, "not defined on"):
		return "c0"
	case strings.Contains(m, "failed:"):
		return "c1"
	case strings.HasPrefix(m, "boom"):
		return "c2"
	case strings.HasPrefix(m, "fresh failure"):
		return "c8"
	case m == "shared: try later":
		return "c9"
	}
	return "c99"
}

func errSexp(s errSnap) string {
	st := "-"
	var stp *int32
	if s.stPtr != nil {
		st = fmt.Sprint(s.st)
		stp = &s.st
	}
	var mp *string
	if s.msgPtr != nil {
		mp = &s.msg
	}
	return "(" + st + " " + msgClass(stp, mp) + ")"
}

func errsSexp(ss []errSnap) string {
	parts := make([]string, len(ss))
	for i, s := range ss {
		parts[i] = errSexp(s)
	}
	return "(" + strings.Join(parts, " ") + ")"
}

// inModel: the request shapes the model distinguishes (see Model/SharedCells.lean `aRoute`/`aInvoke`)
func inModel(q *request) bool {
	if _, ok := kindIDs[q.kind]; !ok {
		return false
	}
	switch q.mode {
	case "ok":
		if q.kind == "unknownroot" || q.kind == "undefined" {
			return true
		}
		// only the kinds answering 200 with the plain entity
		return q.status == 0 && (q.kind == "get" || q.kind == "subget" || q.kind == "simpleget")
	case "plain":
		return q.kind != "action" && q.kind != "echo" // actions wrap plain errors with another status
	}
	return true
}

func implSexp(q *request) string {
	switch q.mode {
	case "ok":
		b := map[string]int{"get": bodyThings, "subget": bodyParts, "simpleget": bodySingle}[q.kind]
		return fmt.Sprintf("(ok %d)", b)
	case "shared":
		return fmt.Sprintf("(es %d)", q.shared)
	case "fresh":
		return fmt.Sprintf("(ef %d c8)", q.status)
	case "freshnomsg":
		return fmt.Sprintf("(ef %d -)", q.status)
	case "plain":
		return "(ep)"
	case "panic":
		return "(pa)"
	}
	return "(bad)"
}

func canonForModel(q *request, res response, after []errSnap) string {
	tail := " errs=" + errsSexp(after)
	if res.crashed {
		return "crash" + tail
	}
	eh := 0
	for _, h := range res.headers {
		if strings.HasPrefix(h, "X-Restli-Error-Response=") {
			eh = 1
		}
	}
	if res.status == 404 && eh == 0 && strings.HasPrefix(res.body, "404 page not found") {
		return "notfound" + tail
	}
	body := "-"
	if res.body != "" {
		var m map[string]any
		if err := json.Unmarshal([]byte(res.body), &m); err != nil {
			body = "(unparsable)"
		} else if eh == 1 {
			st := "-"
			var stp *int32
			if f, ok := m["status"].(float64); ok {
				v := int32(f)
				stp = &v
				st = fmt.Sprint(v)
			}
			var mp *string
			if s, ok := m["message"].(string); ok {
				mp = &s
			}
			body = "(err " + st + " " + msgClass(stp, mp) + ")"
		} else {
			k, p := 0, 0
			if s, _ := m["key"].(string); s == q.key() || s == q.key()+"/"+q.key2() || (q.kind == "simpleget" && s == "") {
				k = 1000 + q.idx
			}
			if s, _ := m["param"].(string); s == q.param() {
				p = 2000 + q.idx
			}
			b, _ := m["body"].(float64)
			body = fmt.Sprintf("(ent %d %d %d)", int(b), k, p)
		}
	}
	return fmt.Sprintf("st=%d eh=%d body=%s", res.status, eh, body) + tail
}

func modelOp(module string, q *request, before []errSnap) string {
	ids := kindIDs[q.kind]
	return fmt.Sprintf("c17serve %s %s %s (%d %d %d %d %s)", module, modelTree, errsSexp(before),
		ids[0], ids[1], 1000+q.idx, 2000+q.idx, implSexp(q))
}

// runSerial: every corpus request alone on fresh shared objects: D (shared objects unchanged) and K.
func runSerial(r *hx.Result, cfg Config, reqs []*request) {
	ts := newTestServer()
	yieldsOn.Store(false)
	for _, q := range reqs {
		ts.resetShared()
		before := ts.snapShared()
		res := serve(ts.h, q)
		after := ts.snapShared()
		checkShared(r, before, after, "server-serial "+q.describe())
		if !inModel(q) {
			r.Count("K:outside-model:" + q.kind + "/" + q.mode)
			continue
		}
		op := modelOp(cfg.Module, q, before)
		impl := canonForModel(q, res, after)
		r.Distinctive(op)
		r.Count("K:mode:" + q.mode)
		if cfg.Driver == nil {
			continue
		}
		r.Ops++
		if model := cfg.Driver.MustAsk(op); model != impl {
			r.Disagree(hx.Case{Sig: "C17 serial outcome of one request: model and handler differ", Op: op, Impl: impl, Model: model,
				Note: q.describe() + " real response: " + res.String()})
		}
	}
}
