package c17

import (
	"fmt"
	"math/rand"
	"net/http"
	"runtime"
	"strings"
	"sync"

	"github.com/PapaCharlie/go-restli/v2/restli"
	"verif/harness/hx"
)

// sharedSpec describes an error object the resource owns and returns to many requests
type sharedSpec struct {
	status  int32 // 0 = nil Status
	message string
	hasMsg  bool
}

// the shared error objects of the test server: 0 and 2 are the common idiom
// `var ErrNotFound = &ErrorResponse{Status: 404}`; 1 carries its message already.
var sharedSpecs = []sharedSpec{
	{status: 404},
	{status: 503, message: "shared: try later", hasMsg: true},
	{status: 409},
}

type testServer struct {
	res *resource
	h   http.Handler
	// inflight counts handler invocations that have not returned yet. Over real sockets a client
	// can hold the complete response before the handler goroutine has returned, and the race
	// detector does not treat socket I/O as synchronisation; quiesce() gives the harness an explicit
	// happens-before edge from every finished handler to its own later reads of the shared objects.
	mu       sync.Mutex
	inflight int
}

// tracked is the handler to put behind a real listener
func (ts *testServer) tracked() http.Handler {
	return http.HandlerFunc(func(w http.ResponseWriter, r *http.Request) {
		ts.mu.Lock()
		ts.inflight++
		ts.mu.Unlock()
		defer func() {
			ts.mu.Lock()
			ts.inflight--
			ts.mu.Unlock()
		}()
		ts.h.ServeHTTP(w, r)
	})
}

func (ts *testServer) quiesce() {
	for {
		ts.mu.Lock()
		n := ts.inflight
		ts.mu.Unlock()
		if n == 0 {
			return
		}
		runtime.Gosched()
	}
}

func newTestServer() *testServer {
	ts := &testServer{res: &resource{}}
	s := restli.NewServer(filter{})
	register(s, ts.res)
	ts.h = s.Handler()
	ts.resetShared()
	return ts
}

// resetShared gives the resource new error objects (call only while no request is in flight)
func (ts *testServer) resetShared() {
	objs := make([]error, len(sharedSpecs))
	for i, sp := range sharedSpecs {
		var st *int32
		var msg *string
		if sp.status != 0 {
			st = int32p(sp.status)
		}
		if sp.hasMsg {
			msg = strp(sp.message)
		}
		objs[i] = newErrorResponse(st, msg)
	}
	ts.res.shared.Store(&objs)
}

// errSnap is the observable state of one error object: field pointers and what they point to
type errSnap struct {
	stPtr  *int32
	st     int32
	msgPtr *string
	msg    string
}

func (e errSnap) String() string {
	st, msg := "nil", "nil"
	if e.stPtr != nil {
		st = fmt.Sprint(e.st)
	}
	if e.msgPtr != nil {
		msg = fmt.Sprintf("%q", e.msg)
	}
	return "{Status:" + st + " Message:" + msg + "}"
}

func (ts *testServer) snapShared() []errSnap {
	objs := *ts.res.shared.Load()
	out := make([]errSnap, len(objs))
	for i, e := range objs {
		st, msg := errFields(e)
		s := errSnap{stPtr: st, msgPtr: msg}
		if st != nil {
			s.st = *st
		}
		if msg != nil {
			s.msg = *msg
		}
		out[i] = s
	}
	return out
}

// checkShared is the "bit-for-bit unchanged" oracle for the resource's error objects
func checkShared(r *hx.Result, before, after []errSnap, op string) {
	for i := range before {
		r.OracleCases++
		if before[i] != after[i] {
			r.OracleFail(hx.Case{
				Sig:      "C17 shared error object modified by the server",
				Op:       fmt.Sprintf("%s object=%d before=%s", op, i, before[i]),
				Impl:     "after=" + after[i].String(),
				Expected: "the object the resource owns is left as it was: " + before[i].String(),
			})
		}
	}
}

// serialOutcomes: every request alone, on a server whose shared objects are fresh
func (ts *testServer) serialOutcomes(reqs []*request) []response {
	out := make([]response, len(reqs))
	for i, q := range reqs {
		ts.resetShared()
		out[i] = serve(ts.h, q)
	}
	return out
}

// runServerScenario: G goroutines send the corpus (each request `reps` times, shuffled) to ONE
// handler; every response must be the one the same request gets alone.
func runServerScenario(r *hx.Result, rng *rand.Rand, procs, nReq, G, rounds, reps int) {
	ts := newTestServer()
	reqs := corpus(rng, nReq, len(sharedSpecs))
	yieldsOn.Store(false)
	want := ts.serialOutcomes(reqs)
	for i, q := range reqs {
		r.Count("server:kind:" + q.kind)
		r.Count("server:mode:" + q.mode)
		if ft := foreignTokens(q, want[i].String()); len(ft) > 0 {
			r.OracleFail(hx.Case{Sig: "C17 harness: serial response carries a foreign token", Op: q.describe(), Impl: want[i].String()})
		}
	}
	for round := 0; round < rounds; round++ {
		ts.resetShared()
		before := ts.snapShared()
		yieldSeed.Store(rng.Uint64())
		yieldsOn.Store(round%4 != 3) // one round in four without injected yields
		// work list: every request reps times, shuffled, dealt to the goroutines
		var work []int
		for k := 0; k < reps; k++ {
			for i := range reqs {
				work = append(work, i)
			}
		}
		rng.Shuffle(len(work), func(a, b int) { work[a], work[b] = work[b], work[a] })
		got := make([]response, len(work))
		var wg sync.WaitGroup
		start := make(chan struct{})
		for g := 0; g < G; g++ {
			wg.Add(1)
			go func(g int) {
				defer wg.Done()
				<-start
				for w := g; w < len(work); w += G {
					got[w] = serve(ts.h, reqs[work[w]])
				}
			}(g)
		}
		close(start)
		wg.Wait()
		yieldsOn.Store(false)
		for w, i := range work {
			q := reqs[i]
			r.OracleCases++
			obs := got[w].String()
			if ft := foreignTokens(q, obs); len(ft) > 0 {
				r.OracleFail(hx.Case{
					Sig:      "C17 response carries another request's data",
					Op:       fmt.Sprintf("server procs=%d G=%d %s", procs, G, q.describe()),
					Impl:     obs,
					Expected: "only its own token " + q.tok() + "; found " + strings.Join(ft, ","),
				})
				continue
			}
			if obs != want[i].String() {
				r.OracleFail(hx.Case{
					Sig:      "C17 concurrent response differs from the serial response",
					Op:       fmt.Sprintf("server procs=%d G=%d %s", procs, G, q.describe()),
					Impl:     obs,
					Expected: want[i].String(),
				})
			}
		}
		checkShared(r, before, ts.snapShared(), fmt.Sprintf("server-concurrent procs=%d G=%d round=%d", procs, G, round))
		r.Count(fmt.Sprintf("server:rounds:procs=%d", procs))
	}
	r.Distinctive(fmt.Sprintf("server procs=%d G=%d requests=%d reps=%d rounds=%d", procs, G, len(reqs), reps, rounds))
}
