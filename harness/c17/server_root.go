//go:build rootmod

package c17

import (
	"github.com/PapaCharlie/go-restli/v2/restli"
	"github.com/PapaCharlie/go-restli/v2/restlicodec"
	rd "github.com/PapaCharlie/go-restli/v2/restlidata"
)

// This file and server_root.go are identical except for the build tag and the package the Rest.li
// envelope types come from (v2: restlidata/generated/com/linkedin/restli/common, root: restlidata).

func newErrorResponse(status *int32, message *string) error {
	return &rd.ErrorResponse{Status: status, Message: message}
}

// errFields exposes the two fields of an *ErrorResponse the server's error branch touches
func errFields(e error) (status *int32, message *string) {
	er := e.(*rd.ErrorResponse)
	return er.Status, er.Message
}

const (
	bodyThings = 101
	bodyParts  = 102
	bodySingle = 103
)

// register builds the tree every scenario uses: a collection with entity, collection-level and
// action/finder methods, a sub-collection (two path keys) and a simple resource.
func register(s restli.Server, im *resource) {
	type C = *restli.RequestContext
	seg := restli.NewResourcePathSegment
	things := []restli.ResourcePathSegment{seg("things", true)}
	parts := []restli.ResourcePathSegment{seg("things", true), seg("parts", true)}
	single := []restli.ResourcePathSegment{seg("single", false)}

	restli.RegisterGet(s, things, func(ctx C, p *rp[n1], q *qp) (*val, error) {
		return im.run(ctx, bodyThings, p.keys, q, nil)
	})
	restli.RegisterDelete(s, things, func(ctx C, p *rp[n1], q *qp) error {
		_, err := im.run(ctx, bodyThings, p.keys, q, nil)
		return err
	})
	restli.RegisterUpdate(s, things, nil, func(ctx C, p *rp[n1], v *val, q *qp) error {
		_, err := im.run(ctx, bodyThings, p.keys, q, v)
		return err
	})
	restli.RegisterCreate(s, things, nil, func(ctx C, p *rp[n0], v *val, q *qp) (*rd.CreatedEntity[string], error) {
		_, err := im.run(ctx, bodyThings, p.keys, q, v)
		if err != nil {
			return nil, err
		}
		return &rd.CreatedEntity[string]{Id: v.Hdr}, nil
	})
	restli.RegisterFinder(s, things, "byTag", func(ctx C, p *rp[n0], q *qp) (*rd.Elements[*val], error) {
		v, err := im.run(ctx, bodyThings, p.keys, q, nil)
		if err != nil {
			return nil, err
		}
		return &rd.Elements[*val]{Elements: []*val{v, v}}, nil
	})
	restli.RegisterAction(s, things, "poke", func(ctx C, p *rp[n0], in *val) error {
		_, err := im.run(ctx, bodyThings, p.keys, nil, in)
		return err
	})
	restli.RegisterGet(s, parts, func(ctx C, p *rp[n2], q *qp) (*val, error) {
		return im.run(ctx, bodyParts, p.keys, q, nil)
	})
	restli.RegisterGet(s, single, func(ctx C, p *rp[n0], q *qp) (*val, error) {
		return im.run(ctx, bodySingle, p.keys, q, nil)
	})
	restli.RegisterActionWithResults(s, single, "echo",
		func(v *val, w restlicodec.Writer) error { return v.MarshalRestLi(w) },
		func(ctx C, p *rp[n0], in *val) (*val, error) {
			return im.run(ctx, bodySingle, p.keys, nil, in)
		})
}
