package c18

import (
	"fmt"
	"math/rand"
	"runtime"
	"sort"
	"strconv"
	"strings"

	"verif/harness/hx"
)

type Config struct {
	Module string
	Seed   int64
	Tier   string
	Driver *hx.Driver
	Replay []string
}

func keysOf(progs [][]op) []int {
	set := map[int]bool{}
	for _, p := range progs {
		for _, o := range p {
			set[o.k] = true
		}
	}
	var ks []int
	for k := range set {
		ks = append(ks, k)
	}
	sort.Ints(ks)
	return ks
}

type runner struct {
	cfg       Config
	r         *hx.Result
	hangs     int
	schedules int
}

type outcome struct {
	mid, end   string
	completion []int
	verdicts   []verdict
	contended  bool
	hung       bool
	sched      []int   // the schedule that was run (prefix + greedy continuation in greedy mode)
	alts       [][]int // greedy mode: the untried alternative prefixes at every branch point
}

// execute replays `sched` on a fresh real LazySyncMap, observes, drives everything to the end,
// observes again and evaluates D on the completed history.
func execute(progs [][]op, sched []int, greedy bool) outcome {
	keys := keysOf(progs)
	c := newCtl(progs)
	defer c.finish()
	for _, t := range sched {
		c.step(t)
	}
	var alts [][]int
	if greedy {
		// continue lowest-enabled-first to the end, remembering the alternatives at every branch point
		sched = append([]int{}, sched...)
		for !c.hung {
			es := c.enabledSet()
			if len(es) == 0 {
				break
			}
			for _, alt := range es[1:] {
				alts = append(alts, append(append([]int{}, sched...), alt))
			}
			c.step(es[0])
			sched = append(sched, es[0])
		}
	}
	blockedNow := false
	for _, th := range c.thr {
		if th.inWait && !c.enabled(th) {
			blockedNow = true
		}
	}
	if blockedNow {
		// give a wrongly returning Wait a chance to show itself (can only add detections)
		for i := 0; i < 3; i++ {
			runtime.Gosched()
		}
		for _, th := range c.thr {
			if th.inWait && !c.enabled(th) {
				c.probe(th)
			}
		}
	}
	var o outcome
	o.sched, o.alts = sched, alts
	o.mid = c.observe(keys)
	o.completion = c.complete()
	o.end = c.observe(keys)
	o.hung = c.hung
	var h []hop
	var unfinished []string
	for _, th := range c.thr {
		for i, rec := range th.recs {
			if i < th.nrets {
				h = append(h, hop{o: rec.o, res: rec.res, call: rec.call, ret: rec.ret, via: rec.via, tid: th.id})
				if rec.via != "direct" {
					o.contended = true
				}
			}
		}
		if th.point != "end" {
			unfinished = append(unfinished, fmt.Sprintf("thread %d at %s", th.id, th.point))
		}
	}
	computes := map[int]int{}
	finals := map[int]string{}
	for _, k := range keys {
		computes[k] = int(*c.computes[k])
		if !c.hung && len(unfinished) == 0 {
			finals[k] = c.finalOf(k)
		}
	}
	nilValued := map[int]bool{}
	for _, p := range progs {
		for _, x := range p {
			if x.kind != "load" && tagOf(x.v) == tagNil {
				nilValued[x.k] = true
			}
		}
	}
	o.verdicts = judge(h, computes, finals, nilValued, unfinished, c.earlyWake, c.hung)
	return o
}

// enough: the run has already established a violation many times over (or keeps hanging); stop
// generating more cases.
func (x *runner) enough() bool {
	return x.hangs > 2 || x.r.Dist["D-failures"] >= 30 || x.r.Dist["K-disagreements"] >= 3000
}

// runCase = (i) real code, (ii) D, (iii) K for one configuration and schedule.
func (x *runner) runCase(progs [][]op, sched []int, greedy bool) outcome {
	complete := greedy
	o := execute(progs, sched, greedy)
	if o.hung {
		// a watchdog expiry is retried once in isolation before it counts
		x.r.Count("watchdog:retry")
		o = execute(progs, sched, greedy)
		if o.hung {
			x.hangs++
		}
	}
	r := x.r
	ps := progsString(progs)
	sched = o.sched
	op1 := fmt.Sprintf("lazyrun %s %s", ps, schedString(sched))
	r.OracleCases++
	for _, v := range o.verdicts {
		r.OracleFail(hx.Case{Sig: v.sig, Op: op1, Impl: o.end, Expected: v.expected})
	}
	kinds := map[int]bool{}
	for _, p := range progs {
		for _, q := range p {
			if q.kind != "load" {
				kinds[tagOf(q.v)] = true
			}
		}
	}
	for tag, name := range []string{"int", "error(pointer)", "error(struct)", "nil-interface", "pointer", "struct"} {
		if kinds[tag] {
			r.Count("values:" + name)
		}
	}
	if o.contended {
		r.Count("case:contended")
		r.Distinctive(op1)
	} else {
		r.Count("case:uncontended")
	}
	if strings.Contains(o.mid, "blocked=()") {
		r.Count("mid:none-blocked")
	} else {
		r.Count("mid:some-blocked")
	}
	if x.cfg.Driver != nil && !o.hung {
		r.Ops++
		if m := x.cfg.Driver.MustAsk(op1); m != o.mid {
			r.Disagree(hx.Case{Sig: "C18 lazyrun", Op: op1, Impl: o.mid, Model: m})
		}
		if !complete && len(o.completion) > 0 {
			full := append(append([]int{}, sched...), o.completion...)
			op2 := fmt.Sprintf("lazyrun %s %s", ps, schedString(full))
			r.Ops++
			if m := x.cfg.Driver.MustAsk(op2); m != o.end {
				r.Disagree(hx.Case{Sig: "C18 lazyrun (completed)", Op: op2, Impl: o.end, Model: m})
			}
		}
	}
	return o
}

// exploreAll runs EVERY maximal schedule of the real code for the configuration (stateless
// depth-first search by re-execution: a schedule is a prefix followed by lowest-enabled-first),
// checks D and K on each, then compares the set of final observables and the number of
// schedules with the model's own exhaustive exploration (`lazyenum`).
func (x *runner) exploreAll(progs [][]op, limit int) bool {
	stack := [][]int{{}}
	outcomes := map[string]bool{}
	n := 0
	for len(stack) > 0 {
		if n >= limit || x.enough() {
			x.r.Count("explore:truncated")
			return false
		}
		prefix := stack[len(stack)-1]
		stack = stack[:len(stack)-1]
		o := x.runCase(progs, prefix, true)
		stack = append(stack, o.alts...)
		outcomes[o.end] = true
		n++
	}
	x.schedules += n
	x.r.Count("explore:complete-configs")
	if x.cfg.Driver != nil {
		op := "lazyenum " + progsString(progs)
		x.r.Ops++
		ans := x.cfg.Driver.MustAsk(op)
		var outs []string
		for o := range outcomes {
			outs = append(outs, "["+o+"]")
		}
		sort.Strings(outs)
		mine := fmt.Sprintf("schedules=%d outcomes=(%s)", n, strings.Join(outs, " "))
		// the model also reports its number of states; drop that field
		if i := strings.Index(ans, " "); i < 0 || !strings.HasPrefix(ans, "states=") || ans[i+1:] != mine {
			x.r.Disagree(hx.Case{Sig: "C18 lazyenum (all schedules: count and set of outcomes)", Op: op, Impl: mine, Model: ans})
		}
	}
	return true
}

// ---------------------------------------------------------------- generators

func mk(spec string) [][]op {
	// "L0 s0e | l0 | s0" : threads separated by |, ops: L<k> LoadOrStore, l<k> load, s<k> store;
	// a letter after the key is the kind of the value computed / stored (e f n p s, none: an int)
	var progs [][]op
	for ti, t := range strings.Split(spec, "|") {
		var p []op
		for oi, f := range strings.Fields(t) {
			tag := tagInt
			if i := strings.IndexByte(tagLetters[1:], f[len(f)-1]); i >= 0 {
				tag, f = i+1, f[:len(f)-1]
			}
			k, _ := strconv.Atoi(f[1:])
			v := mkVal(tag, 10*(ti+1)+oi)
			switch f[0] {
			case 'L':
				p = append(p, op{"los", k, v})
			case 'l':
				p = append(p, op{"load", k, 0})
			case 's':
				p = append(p, op{"store", k, v})
			}
		}
		progs = append(progs, p)
	}
	return progs
}

// the property's named situations
var corpus = []string{
	"L0 | L0",       // racing compute-if-absent
	"L0 | L0 | L0",  // three racers
	"L0 | l0",       // load against an in-flight computation
	"L0 | s0",       // store ordered after / racing an in-flight computation
	"s0 | s0",       // two stores
	"s0 | L0",       // a store owns the placeholder, a LoadOrStore waits on it
	"s0 | l0",       //
	"L0 | s0 | l0",  // all three kinds on one key
	"L0 | L1",       // different keys do not interact
	"L0 l0 | s0 l0", // sequences
	"L0 s0 | L0 l0", //
	"s0 L0 | l0 s0", //
	"L0 L1 | L1 L0", // crossed keys
	"l0 l0 | L0",    // missing, then present
	"s0 s0 | L0 s0", //
	// values of every kind: what was published or stored is what comes back
	"L0e l0",          // a computation that returned an error: the error is the key's value
	"s0e l0",          //
	"L0e L0",          // ... and nobody computes again
	"L0f l0 L0",       //
	"L0n l0 L0",       // the nil interface is a value too
	"s0n l0",          //
	"L0p l0 | L0s l0", //
	"L0e | L0e",       //
	"L0e | l0",        //
	"L0e | s0",        //
	"L0 | s0e",        //
	"s0e | s0",        //
	"L0e | s0 | L0",   // an ordinary store waiting on a failed computation, a third caller arriving
	"L0e | L0 | l0",   //
	"s0f | L0 | l0",   //
	"L0n | L0 | l0",   //
	"L0n | s0p | s0s", //
	"L0e L1e | L1 L0", //
}

// the kinds a generated value takes: ints half of the time, errors often
func randomTag(rng *rand.Rand) int {
	switch rng.Intn(8) {
	case 0, 1, 2, 3:
		return tagInt
	case 4, 5:
		return tagErr
	}
	return tagFailure + rng.Intn(nTags-tagFailure)
}

// retag gives the value-carrying ops of a configuration kinds in rotation, starting at `from`
// (every third one stays an int).
func retag(progs [][]op, from int) [][]op {
	rot := []int{tagErr, tagInt, tagNil, tagErr, tagPtr, tagInt, tagFailure, tagStruct, tagInt}
	var out [][]op
	for _, p := range progs {
		var q []op
		for _, o := range p {
			if o.kind != "load" {
				o.v = mkVal(rot[from%len(rot)], o.v%1000)
				from++
			}
			q = append(q, o)
		}
		out = append(out, q)
	}
	return out
}

func randomProgs(rng *rand.Rand, maxT, maxOps, nKeys int) [][]op {
	nt := 1 + rng.Intn(maxT)
	if rng.Intn(4) != 0 && nt < 2 {
		nt = 2
	}
	var progs [][]op
	for t := 0; t < nt; t++ {
		no := 1 + rng.Intn(maxOps)
		var p []op
		for i := 0; i < no; i++ {
			k := 0
			if rng.Intn(3) == 0 {
				k = rng.Intn(nKeys)
			}
			v := mkVal(randomTag(rng), 10*(t+1)+i)
			switch rng.Intn(5) {
			case 0, 1:
				p = append(p, op{"los", k, v})
			case 2:
				p = append(p, op{"load", k, 0})
			default:
				p = append(p, op{"store", k, v})
			}
		}
		progs = append(progs, p)
	}
	return progs
}

// randomSched: picks with several shapes; may contain disabled picks and may stop early.
func randomSched(rng *rand.Rand, progs [][]op) []int {
	nt := len(progs)
	total := 0
	for _, p := range progs {
		total += 4 * len(p)
	}
	n := rng.Intn(total + 2)
	if rng.Intn(3) == 0 {
		n = total + 4
	}
	var s []int
	switch rng.Intn(3) {
	case 0: // uniform
		for i := 0; i < n; i++ {
			s = append(s, rng.Intn(nt))
		}
	case 1: // bursts
		for len(s) < n {
			t := rng.Intn(nt)
			for b := 1 + rng.Intn(4); b > 0; b-- {
				s = append(s, t)
			}
		}
	default: // everybody takes its first step, then one thread at a time
		for t := 0; t < nt; t++ {
			s = append(s, t)
		}
		order := rng.Perm(nt)
		for len(s) < n {
			for _, t := range order {
				for b := 0; b < 5; b++ {
					s = append(s, t)
				}
			}
		}
	}
	return s
}

func parseReplay(line string) ([][]op, []int, error) {
	xs, err := hx.ParseLine(line)
	if err != nil || len(xs) != 3 || xs[0].Atom != "lazyrun" || !xs[1].IsList || !xs[2].IsList {
		return nil, nil, fmt.Errorf("c18: cannot replay %q", line)
	}
	var progs [][]op
	for _, t := range xs[1].List {
		var p []op
		for _, o := range t.List {
			k, _ := strconv.Atoi(o.List[1].Atom)
			v := 0
			if len(o.List) > 2 {
				var ok bool
				if v, ok = parseVal(o.List[2].Atom); !ok {
					return nil, nil, fmt.Errorf("c18: cannot replay %q: value %q", line, o.List[2].Atom)
				}
			}
			p = append(p, op{o.List[0].Atom, k, v})
		}
		progs = append(progs, p)
	}
	var sched []int
	for _, a := range xs[2].List {
		t, _ := strconv.Atoi(a.Atom)
		sched = append(sched, t)
	}
	return progs, sched, nil
}

var (
	alphaInts   = []string{"L0", "L1", "l0", "l1", "s0", "s1"}
	alphaErrors = []string{"L0", "L0e", "L1", "L1e", "l0", "l1", "s0", "s0e", "s1", "s1e"}
)

// allProgs enumerates every configuration with exactly nt threads of exactly no ops over the
// op alphabet (alphaInts: {L0 L1 l0 l1 s0 s1}; alphaErrors: the same with every computed or
// stored value an int or an error), up to renaming of keys and of threads.
func allProgs(nt, no int, alpha []string) [][][]op {
	var threads []string
	var gen func(prefix []string)
	gen = func(prefix []string) {
		if len(prefix) == no {
			threads = append(threads, strings.Join(prefix, " "))
			return
		}
		for _, a := range alpha {
			gen(append(append([]string{}, prefix...), a))
		}
	}
	gen(nil)
	var out [][][]op
	var pick func(start int, chosen []string)
	pick = func(start int, chosen []string) {
		if len(chosen) == nt {
			spec := strings.Join(chosen, " | ")
			// key symmetry: the first key mentioned must be 0
			for _, ch := range spec {
				if ch == '0' {
					out = append(out, mk(spec))
					break
				}
				if ch == '1' {
					break
				}
			}
			return
		}
		for i := start; i < len(threads); i++ { // thread symmetry: non-decreasing
			pick(i, append(append([]string{}, chosen...), threads[i]))
		}
	}
	pick(0, nil)
	return out
}

func Run(cfg Config) *hx.Result {
	r := hx.NewResult("C18", cfg.Module, cfg.Seed, cfg.Tier)
	r.Rule = "free-running rounds (2-6 goroutines racing LoadOrStore on a fresh key with 0-2 concurrent Loads, then a Store; no forced schedule, real parallelism): compute exactly once, racers agree, loads see nothing or the value, the later store wins; then configurations of <=3 goroutines x <=2 calls (LoadOrStore/Load/Store) x 2 keys (thorough: also up to 5x3x3), computing and storing values of several Go kinds (ints, errors, the nil interface, pointers, structs); every schedule is forced on the real LazySyncMap through the yield hook, observed (results, yield points, compute counts, raw cells, blocked set, and at the end the value a Load returns for every key), driven to completion and judged (compute<=1, racers agree, no placeholder/nil result, no lost store, nobody blocked, brute-force linearizability); a case is non-trivial when some call found the key absent-or-in-flight (owner or waiter); distinct by configuration+schedule"
	x := &runner{cfg: cfg, r: r}
	if len(cfg.Replay) > 0 {
		for _, line := range cfg.Replay {
			if strings.HasPrefix(line, "stress ") {
				x.stress(3000)
				continue
			}
			progs, sched, err := parseReplay(line)
			if err != nil {
				panic(err)
			}
			x.runCase(progs, sched, false)
		}
		return r
	}
	rng := hx.Rng(cfg.Seed, "c18")
	thorough := cfg.Tier == "thorough"

	// 0. free-running callers (no forced schedule; see stress.go)
	if thorough {
		x.stress(30000)
	} else {
		x.stress(3000)
	}

	// 1. fixed corpus, every schedule
	for _, spec := range corpus {
		if !x.enough() {
			x.exploreAll(mk(spec), 200000)
		}
	}
	// 2. exhaustive over configurations
	// (one-call threads: every computed or stored value an int or an error; two-call threads:
	// ints, and once more with kinds given in rotation)
	exhaustive := true
	type family struct {
		nt, no int
		alpha  []string
		retag  bool
	}
	families := []family{{2, 1, alphaErrors, false}}
	if thorough {
		families = []family{{2, 1, alphaErrors, false}, {3, 1, alphaErrors, false}, {2, 2, alphaInts, false}, {2, 2, alphaInts, true}}
	}
	for _, f := range families {
		for i, progs := range allProgs(f.nt, f.no, f.alpha) {
			if f.retag {
				progs = retag(progs, i)
			}
			exhaustive = !x.enough() && x.exploreAll(progs, 200000) && exhaustive
		}
	}
	// 3. sampled configurations of the property's space: all schedules when affordable, and random
	// schedules with disabled picks and early stops
	nCfg, nSched, limit := 120, 25, 6000
	if thorough {
		nCfg, nSched, limit = 300, 60, 60000
	}
	for i := 0; i < nCfg && !x.enough(); i++ {
		progs := randomProgs(rng, 3, 2, 2)
		r.Count(fmt.Sprintf("threads:%d", len(progs)))
		for j := 0; j < nSched; j++ {
			x.runCase(progs, randomSched(rng, progs), false)
		}
		if i%4 == 0 {
			x.exploreAll(progs, limit)
		}
	}
	// 4. larger random ones (thorough)
	if thorough {
		for i := 0; i < 200 && !x.enough(); i++ {
			progs := randomProgs(rng, 5, 3, 3)
			r.Count(fmt.Sprintf("threads:%d", len(progs)))
			for j := 0; j < 40; j++ {
				x.runCase(progs, randomSched(rng, progs), false)
			}
		}
	}
	r.Dist["schedules-explored-exhaustively"] = x.schedules
	r.Exhaustive = exhaustive && thorough
	return r
}
