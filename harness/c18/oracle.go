package c18

import (
	"fmt"
	"sort"
	"strings"
)

// ---------------------------------------------------------------- direct oracle D
//
// Everything here looks only at what the real LazySyncMap did (results, the yield points each
// call passed, logical call/return times assigned by the controller). The Lean model is not
// involved.

// hop is one completed call of a real history.
type hop struct {
	o         op
	res       string
	call, ret int
	via       string
	tid       int
}

// atomicMap is the sequential specification: a plain map with compute-if-absent. Values are
// names (see sched.go); the specification keeps whatever it is given, of whatever kind.
func specApply(m map[int]int, o op) (string, func()) {
	old, had := m[o.k]
	undo := func() {
		if had {
			m[o.k] = old
		} else {
			delete(m, o.k)
		}
	}
	switch o.kind {
	case "los":
		if had {
			return renderID(old), undo
		}
		m[o.k] = o.v
		return renderID(o.v), undo
	case "load":
		if had {
			return renderID(old), undo
		}
		return "missing", undo
	default:
		m[o.k] = o.v
		return "unit", undo
	}
}

// linearizable: brute-force search for a total order of the calls that respects real time
// (a returned before b was called => a before b) and in which every call returns what the
// sequential specification returns. Histories are tiny (<= ~12 calls).
func linearizable(h []hop) bool {
	n := len(h)
	m := map[int]int{}
	seen := map[string]bool{}
	var rec func(done uint32) bool
	rec = func(done uint32) bool {
		if done == (uint32(1)<<n)-1 {
			return true
		}
		ks := make([]int, 0, len(m))
		for k := range m {
			ks = append(ks, k)
		}
		sort.Ints(ks)
		var sb strings.Builder
		fmt.Fprintf(&sb, "%d", done)
		for _, k := range ks {
			fmt.Fprintf(&sb, "|%d:%d", k, m[k])
		}
		key := sb.String()
		if seen[key] {
			return false
		}
		seen[key] = true
		for i := 0; i < n; i++ {
			if done&(1<<i) != 0 {
				continue
			}
			minimal := true
			for j := 0; j < n; j++ {
				if j != i && done&(1<<j) == 0 && h[j].ret < h[i].call {
					minimal = false
					break
				}
			}
			if !minimal {
				continue
			}
			r, undo := specApply(m, h[i].o)
			if r == h[i].res && rec(done|1<<i) {
				return true
			}
			undo()
		}
		return false
	}
	return rec(0)
}

type verdict struct {
	sig      string
	expected string
}

// judge evaluates the five clauses of C18 (and linearizability) on one completed real run.
// finals are the values a Load of every key returns after all goroutines are done.
// nilValued: the keys for which some call of the configuration computes or stores the nil
// interface itself (only there may a call return nil).
func judge(h []hop, computes map[int]int, finals map[int]string, nilValued map[int]bool, unfinished []string, earlyWake []string, hung bool) []verdict {
	var out []verdict
	if hung {
		out = append(out, verdict{"C18 run hung (watchdog)", "every step reaches its next yield point"})
		return out
	}
	for k, n := range computes {
		if n > 1 {
			out = append(out, verdict{"C18 compute ran more than once for a key", fmt.Sprintf("compute count for key %d is %d, want <= 1", k, n)})
		}
	}
	// racers: LoadOrStore calls that found the key absent or in flight
	racer := map[int]string{}
	for _, x := range h {
		if x.res == "placeholder" {
			out = append(out, verdict{"C18 call returned an in-flight placeholder", "a value or missing"})
		}
		if (x.res == "nil" && !nilValued[x.o.k]) || x.res == "other" || x.res == "panic" {
			out = append(out, verdict{"C18 call returned " + x.res, "a value or missing"})
		}
		if x.o.kind == "los" && x.via != "direct" {
			if r, ok := racer[x.o.k]; ok && r != x.res {
				out = append(out, verdict{"C18 racing LoadOrStore callers disagree", fmt.Sprintf("all racers on key %d return %s", x.o.k, r)})
			}
			racer[x.o.k] = x.res
		}
	}
	for _, u := range unfinished {
		out = append(out, verdict{"C18 call blocked forever", "every call returns once the in-flight computation has returned: " + u})
	}
	for _, e := range earlyWake {
		out = append(out, verdict{"C18 Wait returned before Done", "a waiter stays blocked until the owner signals: " + e})
	}
	// store not lost: a Store called after every other Store on its key had returned decides the final value
	for i, s := range h {
		if s.o.kind != "store" {
			continue
		}
		last := true
		for j, t := range h {
			if j != i && t.o.kind == "store" && t.o.k == s.o.k && !(t.ret < s.call) {
				last = false
			}
		}
		if last && len(unfinished) == 0 {
			if want := renderID(s.o.v); finals[s.o.k] != want {
				out = append(out, verdict{"C18 store lost", fmt.Sprintf("final value of key %d is %s, got %s", s.o.k, want, finals[s.o.k])})
			}
		}
	}
	// linearizability of the whole history followed by the final loads
	if len(unfinished) == 0 {
		hh := append([]hop{}, h...)
		tmax := 0
		for _, x := range h {
			if x.ret > tmax {
				tmax = x.ret
			}
		}
		ks := make([]int, 0, len(finals))
		for k := range finals {
			ks = append(ks, k)
		}
		sort.Ints(ks)
		for i, k := range ks {
			hh = append(hh, hop{o: op{kind: "load", k: k}, res: finals[k], call: tmax + 2 + 2*i, ret: tmax + 3 + 2*i})
		}
		if len(hh) <= 24 && !linearizable(hh) {
			out = append(out, verdict{"C18 history not linearizable", "some real-time-respecting order of the calls is a run of the atomic map"})
		}
	}
	return out
}
