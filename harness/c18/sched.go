// Package c18: deterministic scheduler over the lazymap yield hook, correspondence (K) with
// the Lean small-step model and the direct oracle (D) for property C18.
package c18

import (
	"errors"
	"fmt"
	"reflect"
	"sort"
	"strings"
	"sync"
	"sync/atomic"
	"time"

	"github.com/PapaCharlie/go-restli/v2/d2/lazymap"
	"verif/harness/hx"
)

// op is one call on the map; kind is "los" (LoadOrStore, compute returns the value named v),
// "load" or "store" (of the value named v).
type op struct {
	kind string
	k, v int
}

func (o op) String() string {
	if o.kind == "load" {
		return fmt.Sprintf("(load %d)", o.k)
	}
	return fmt.Sprintf("(%s %d %s)", o.kind, o.k, valName(o.v))
}

// ---------------------------------------------------------------- values
//
// The map must treat every value alike, whatever its Go type. A value is named by an id
// `1000*tag + n` (n < 1000); the tag says what kind of Go value stands behind the name, and the
// name is all the Lean model ever sees (there values are opaque). In op lines the id is written
// as the tag's letter followed by n: `11` (an int), `e11`, `f11`, `n11`, `p11`, `s11`.
const (
	tagInt     = iota // the int n
	tagErr            // an error made by errors.New (a pointer; the d2 client returns such values from its compute functions)
	tagFailure        // an error whose dynamic type is a struct, not a pointer
	tagNil            // the nil interface
	tagPtr            // a pointer to a struct
	tagStruct         // a struct
	nTags
)

const tagLetters = "\x00efnps"

func mkVal(tag, n int) int { return 1000*tag + n }
func tagOf(id int) int     { return id / 1000 }

func valName(id int) string {
	if tagOf(id) == tagInt {
		return fmt.Sprint(id)
	}
	return fmt.Sprintf("%c%d", tagLetters[tagOf(id)], id%1000)
}

// parseVal is the inverse of valName; ok is false for anything else.
func parseVal(a string) (int, bool) {
	tag := tagInt
	if a != "" {
		if i := strings.IndexByte(tagLetters[1:], a[0]); i >= 0 {
			tag, a = i+1, a[1:]
		}
	}
	n := 0
	if a == "" || len(a) > 3 {
		return 0, false
	}
	for _, ch := range a {
		if ch < '0' || ch > '9' {
			return 0, false
		}
		n = 10*n + int(ch-'0')
	}
	return mkVal(tag, n), true
}

// canonical rendering of "the value named id" as a call result / cell content: every nil
// interface is the same value, so all of them render alike (and like the content of a
// placeholder that was read before it was written)
func renderID(id int) string {
	if tagOf(id) == tagNil {
		return "nil"
	}
	return "val:" + valName(id)
}

type failure struct{ id int }

func (failure) Error() string { return "computation failed" }

type box struct{ id int }

// goValue makes the Go value a name stands for; made once per run and name (pointers have an identity).
func goValue(id int) interface{} {
	switch tagOf(id) {
	case tagErr:
		return errors.New("computation failed")
	case tagFailure:
		return failure{id}
	case tagNil:
		return nil
	case tagPtr:
		return &box{id}
	case tagStruct:
		return box{id}
	}
	return id
}

func progsString(progs [][]op) string {
	var b strings.Builder
	b.WriteString("(")
	for i, p := range progs {
		if i > 0 {
			b.WriteString(" ")
		}
		b.WriteString("(")
		for j, o := range p {
			if j > 0 {
				b.WriteString(" ")
			}
			b.WriteString(o.String())
		}
		b.WriteString(")")
	}
	b.WriteString(")")
	return b.String()
}

func schedString(s []int) string {
	parts := make([]string, len(s))
	for i, t := range s {
		parts[i] = fmt.Sprint(t)
	}
	return "(" + strings.Join(parts, " ") + ")"
}

// ---------------------------------------------------------------- hook
//
// Who is calling the hook? Exactly one goroutine at a time is between two yield points under
// the controller's hand (`current`). The only goroutines that move on their own are Load /
// LoadOrStore callers that were let into wg.Wait(): when the owner signals they wake up, return
// from the call and stop at the gate in front of their next call, which is harness code and
// knows its thread. They never reach a yield point by themselves. (A Store whose inner
// LoadOrStore has to wait is held *at* the Wait yield point instead, because after waking it
// goes on to another yield point.) So every hook call comes from `current`.

var active atomic.Pointer[ctl]

var hookOnce sync.Once

func installHook() {
	hookOnce.Do(func() {
		lazymap.YieldHook = func(point string) {
			c := active.Load()
			if c == nil {
				return
			}
			th := c.current
			if isFirst(point) {
				// the call's first atomic step: the thread was already held at the gate
				th.first = point
				return
			}
			c.ev <- event{th.id, point}
			<-th.release
		}
	})
}

// ---------------------------------------------------------------- controller

type event struct {
	tid   int
	point string
}

type opRec struct {
	o         op
	call, ret int    // logical times; ret < 0 while pending
	res       string // canonical result
	via       string // "direct", "own", "waited": how the call obtained its result (from the points it passed)
}

type thr struct {
	id      int
	c       *ctl
	prog    []op
	release chan struct{}
	rets    []string // written by the goroutine, read by the controller after an event from it

	// controller's logical view
	first      string // written by the hook: name of the first yield point the current call passed
	point      string // yield point the thread stands at ("end" when finished)
	hasArrival bool   // an arrival event not yet consumed (thread woke from Wait by itself)
	nextPoint  string
	inWait     bool // released into wg.Wait()
	nrets      int
	recs       []*opRec
}

type ctl struct {
	m         *lazymap.LazySyncMap
	current   *thr // the one thread that is running between two yield points
	thr       []*thr
	ev        chan event
	dead      chan struct{} // closed by the watchdog
	hung      bool
	computes  map[int]*int32
	vals      map[int]interface{} // the Go value behind every value name of the configuration
	ids       []int               // the names, sorted
	doneKey   map[int]bool        // wg.Done() has been executed by the placeholder owner of this key
	clock     int
	earlyWake []string // D: a Wait returned although Done had not been called
	wd        *time.Timer
}

// finish stops the watchdog; goroutines still blocked in a Wait that will never return are leaked
// (that only happens for failing cases).
func (c *ctl) finish() { c.wd.Stop() }

const watchdog = 10 * time.Second

func isWait(p string) bool  { return p == "los.Wait" || p == "load.Wait" }
func isFirst(p string) bool { return p == "los.LoadOrStore" || p == "load.Load" }

// renderVal names what the map handed out: one of the run's own values (found by comparing with
// each of them: ints and structs by content, pointers by identity), the in-flight placeholder,
// or something else.
func (c *ctl) renderVal(v interface{}) string {
	if v == nil {
		return "nil"
	}
	// anything of a type the lazymap package itself declares is its in-flight placeholder
	// (recognised by where the type lives, not by what it is called); none of the run's values
	// has such a type
	t := reflect.TypeOf(v)
	for t.Kind() == reflect.Ptr {
		t = t.Elem()
	}
	if strings.HasSuffix(t.PkgPath(), "/lazymap") {
		return "placeholder"
	}
	if t.Comparable() {
		for _, id := range c.ids {
			if c.vals[id] == v {
				return renderID(id)
			}
		}
	}
	return "other"
}

func newCtl(progs [][]op) *ctl {
	installHook()
	c := &ctl{m: new(lazymap.LazySyncMap), ev: make(chan event, len(progs)+1), dead: make(chan struct{}),
		computes: map[int]*int32{}, doneKey: map[int]bool{}, vals: map[int]interface{}{}}
	for _, p := range progs {
		for _, o := range p {
			if c.computes[o.k] == nil {
				c.computes[o.k] = new(int32)
			}
			if _, ok := c.vals[o.v]; !ok && o.kind != "load" {
				c.vals[o.v] = goValue(o.v)
				c.ids = append(c.ids, o.v)
			}
		}
	}
	sort.Ints(c.ids)
	for i, p := range progs {
		th := &thr{id: i, c: c, prog: p, release: make(chan struct{}), point: "spawn"}
		for _, o := range p {
			th.recs = append(th.recs, &opRec{o: o, call: -1, ret: -1, via: "direct"})
		}
		c.thr = append(c.thr, th)
	}
	c.wd = time.AfterFunc(watchdog, func() { close(c.dead) })
	active.Store(c)
	for _, th := range c.thr {
		go c.runThread(th)
	}
	for _, th := range c.thr {
		c.await(th)
	}
	return c
}

func (c *ctl) runThread(th *thr) {
	for _, o := range th.prog {
		o := o
		var r string
		// the gate: stands for the call's first yield point (los.LoadOrStore / load.Load)
		if o.kind == "load" {
			c.ev <- event{th.id, "load.Load"}
		} else {
			c.ev <- event{th.id, "los.LoadOrStore"}
		}
		<-th.release
		panicked, _ := hx.Recover(func() {
			switch o.kind {
			case "los":
				v := c.m.LoadOrStore(o.k, func() interface{} {
					atomic.AddInt32(c.computes[o.k], 1)
					return c.vals[o.v]
				})
				r = c.renderVal(v)
			case "load":
				v, ok := c.m.Load(o.k)
				if !ok {
					r = "missing"
				} else {
					r = c.renderVal(v)
				}
			case "store":
				c.m.Store(o.k, c.vals[o.v])
				r = "unit"
			}
		})
		if panicked {
			r = "panic"
		}
		th.rets = append(th.rets, r)
	}
	c.ev <- event{th.id, "end"}
}

// pump records one event from the channel; false when the watchdog fired.
func (c *ctl) pump() bool {
	select {
	case e := <-c.ev:
		t := c.thr[e.tid]
		t.hasArrival, t.nextPoint = true, e.point
		return true
	case <-c.dead:
		c.hung = true
		return false
	}
}

func (c *ctl) drain() {
	for {
		select {
		case e := <-c.ev:
			t := c.thr[e.tid]
			t.hasArrival, t.nextPoint = true, e.point
		default:
			return
		}
	}
}

// await blocks until th has arrived at its next yield point (or finished) and makes that the
// thread's logical position.
func (c *ctl) await(th *thr) bool {
	for !th.hasArrival {
		if !c.pump() {
			return false
		}
	}
	th.hasArrival, th.inWait = false, false
	th.point = th.nextPoint
	for th.nrets < len(th.rets) {
		rec := th.recs[th.nrets]
		rec.res, rec.ret = th.rets[th.nrets], 2*c.clock+1
		th.nrets++
	}
	if th.nrets < len(th.recs) {
		switch th.point {
		case "los.compute":
			th.recs[th.nrets].via = "own"
		case "los.Wait", "load.Wait":
			th.recs[th.nrets].via = "waited"
		}
	}
	if isWait(th.point) && th.prog[th.nrets].kind != "store" {
		// the thread goes into wg.Wait() right away; whether it comes out is up to the real WaitGroup
		th.inWait = true
		th.release <- struct{}{}
	}
	return true
}

func (c *ctl) curKey(th *thr) int { return th.prog[th.nrets].k }

func (c *ctl) enabled(th *thr) bool {
	if th.point == "end" {
		return false
	}
	if isWait(th.point) {
		return c.doneKey[c.curKey(th)]
	}
	return true
}

func (c *ctl) enabledSet() []int {
	var out []int
	for _, th := range c.thr {
		if c.enabled(th) {
			out = append(out, th.id)
		}
	}
	return out
}

// probe: a thread the controller considers blocked must really still be inside Wait.
func (c *ctl) probe(th *thr) {
	c.drain()
	if th.inWait && th.hasArrival && !c.doneKey[c.curKey(th)] {
		c.earlyWake = append(c.earlyWake, fmt.Sprintf("thread %d op %s", th.id, th.prog[th.nrets]))
	}
}

// step lets thread t perform one atomic step; false if the pick is not enabled (skipped) or
// the run hung.
func (c *ctl) step(t int) bool {
	if t < 0 || t >= len(c.thr) || c.hung {
		return false
	}
	th := c.thr[t]
	if !c.enabled(th) {
		if th.inWait {
			c.probe(th)
		}
		return false
	}
	c.clock++
	if th.inWait {
		return c.await(th)
	}
	p := th.point
	if isFirst(p) {
		th.recs[th.nrets].call = 2 * c.clock
	}
	key := c.curKey(th)
	c.current = th
	th.release <- struct{}{}
	if !c.await(th) {
		return false
	}
	if p == "los.Done" {
		c.doneKey[key] = true
	}
	return true
}

// complete drives every thread to the end (lowest enabled thread first); returns the picks.
func (c *ctl) complete() []int {
	var picks []int
	for !c.hung {
		es := c.enabledSet()
		if len(es) == 0 {
			break
		}
		c.step(es[0])
		picks = append(picks, es[0])
	}
	return picks
}

func (c *ctl) rawCell(k int) string {
	v, ok := (*sync.Map)(c.m).Load(k)
	if !ok {
		return "absent"
	}
	if r := c.renderVal(v); r == "placeholder" {
		return "inflight"
	} else {
		return r
	}
}

// quiescent: every goroutine has finished its program.
func (c *ctl) quiescent() bool {
	for _, th := range c.thr {
		if th.point != "end" {
			return false
		}
	}
	return !c.hung
}

// finalOf is what a Load of the key returns once the run is quiescent ("placeholder": the cell
// still holds one, a Load would wait on it).
func (c *ctl) finalOf(k int) string {
	switch c.rawCell(k) {
	case "inflight":
		return "placeholder"
	case "absent":
		return "missing"
	}
	if v, ok := c.m.Load(k); ok {
		return c.renderVal(v)
	}
	return "missing"
}

// observe renders the same canonical observable as the Lean driver's `observe`; once every
// thread has finished it ends with the value a Load returns for every key.
func (c *ctl) observe(keys []int) string {
	var rets, pts, comp, cells, blocked []string
	for _, th := range c.thr {
		var rs []string
		for _, rec := range th.recs[:th.nrets] {
			rs = append(rs, rec.res)
		}
		rets = append(rets, "("+strings.Join(rs, " ")+")")
		pts = append(pts, th.point)
		if th.point != "end" && !c.enabled(th) {
			blocked = append(blocked, fmt.Sprint(th.id))
		}
	}
	for _, k := range keys {
		comp = append(comp, fmt.Sprintf("%d:%d", k, atomic.LoadInt32(c.computes[k])))
		cells = append(cells, fmt.Sprintf("%d:%s", k, c.rawCell(k)))
	}
	j := func(xs []string) string { return "(" + strings.Join(xs, " ") + ")" }
	out := fmt.Sprintf("rets=%s at=%s computes=%s cells=%s blocked=%s", j(rets), j(pts), j(comp), j(cells), j(blocked))
	if c.quiescent() {
		var fin []string
		for _, k := range keys {
			fin = append(fin, fmt.Sprintf("%d:%s", k, c.finalOf(k)))
		}
		out += " final=" + j(fin)
	}
	return out
}
