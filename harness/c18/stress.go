package c18

import (
	"fmt"
	"reflect"
	"runtime"
	"strings"
	"sync"
	"sync/atomic"
	"time"

	"github.com/PapaCharlie/go-restli/v2/d2/lazymap"

	"verif/harness/hx"
)

// The free-running part of the direct oracle: the real LazySyncMap with NO scheduler — the yield
// hook answers at once — under real parallelism. The forced schedules of the rest of this
// package can only pre-empt where the code under test announces a step (a `yield`); an atomic
// action written without one is fused with its neighbour and no forced schedule separates the
// two. Here the Go scheduler and the hardware pick the interleaving, so the clauses of the
// property that need no knowledge of the steps are judged on whatever the code does between its
// announced steps as well: the compute function of a key runs at most once among racing
// callers, all of them get the same value, a load racing with them gets nothing or that value
// (never a placeholder), a store issued after a LoadOrStore returned is what the key holds.
//
// It proves nothing (a racy window may never be hit) and is not a replayable history: a failure
// is reported with the round's configuration, and `stress <racers> <loaders>` replays the same
// kind of round.

type stressVal struct{ id int }

func isPlaceholder(v any) bool {
	if v == nil {
		return false
	}
	t := reflect.TypeOf(v)
	for t.Kind() == reflect.Ptr {
		t = t.Elem()
	}
	return strings.HasSuffix(t.PkgPath(), "/lazymap")
}

// stressRound: `racers` goroutines call LoadOrStore on one fresh key at the same moment (spinning
// on a start flag), `loaders` goroutines Load it meanwhile; afterwards one Store and one Load.
func stressRound(racers, loaders int, slowCompute bool) (verdicts []string, end string) {
	m := new(lazymap.LazySyncMap)
	key := new(int) // a key nobody has asked for yet
	var start atomic.Bool
	var calls atomic.Int32
	var ready sync.WaitGroup
	var done sync.WaitGroup
	got := make([]any, racers)
	loaded := make([]any, loaders)
	loadedOK := make([]bool, loaders)
	ready.Add(racers + loaders)
	done.Add(racers + loaders)
	for i := 0; i < racers; i++ {
		go func(i int) {
			defer done.Done()
			mine := &stressVal{i}
			ready.Done()
			for !start.Load() {
			}
			got[i] = m.LoadOrStore(key, func() any {
				calls.Add(1)
				if slowCompute {
					runtime.Gosched()
				}
				return mine
			})
		}(i)
	}
	for i := 0; i < loaders; i++ {
		go func(i int) {
			defer done.Done()
			ready.Done()
			for !start.Load() {
			}
			loaded[i], loadedOK[i] = m.Load(key)
		}(i)
	}
	ready.Wait()
	start.Store(true)
	fin := make(chan struct{})
	go func() { done.Wait(); close(fin) }()
	select {
	case <-fin:
	case <-time.After(10 * time.Second):
		return []string{"C18 free-running callers still blocked after 10 s"}, "blocked"
	}
	n := int(calls.Load())
	if n != 1 {
		verdicts = append(verdicts, "C18 compute ran more than once for a key (free-running callers)")
	}
	same := true
	for i := range got {
		if isPlaceholder(got[i]) || got[i] == nil {
			verdicts = append(verdicts, "C18 LoadOrStore returned a placeholder or nothing (free-running callers)")
			break
		}
		if got[i] != got[0] {
			same = false
		}
	}
	if !same {
		verdicts = append(verdicts, "C18 racing LoadOrStore callers disagree (free-running callers)")
	}
	for i := range loaded {
		if !loadedOK[i] {
			continue
		}
		if isPlaceholder(loaded[i]) {
			verdicts = append(verdicts, "C18 Load returned an in-flight placeholder (free-running callers)")
			break
		}
		if same && loaded[i] != got[0] {
			verdicts = append(verdicts, "C18 Load racing with the computation returned another value (free-running callers)")
			break
		}
	}
	// everything has returned: the key holds the agreed value, and a store now determines it
	if v, ok := m.Load(key); !ok || (same && v != got[0]) {
		verdicts = append(verdicts, "C18 Load after the computation returned does not give its value (free-running callers)")
	}
	final := &stressVal{-1}
	m.Store(key, final)
	if v, ok := m.Load(key); !ok || v != final {
		verdicts = append(verdicts, "C18 store lost (free-running callers)")
	}
	return verdicts, fmt.Sprintf("compute=%d same=%v", n, same)
}

func (x *runner) stress(rounds int) {
	prev := lazymap.YieldHook
	lazymap.YieldHook = nil
	defer func() { lazymap.YieldHook = prev }()
	procs := runtime.NumCPU()
	if procs > 8 {
		procs = 8
	}
	if procs < 2 {
		procs = 2
	}
	old := runtime.GOMAXPROCS(procs)
	defer runtime.GOMAXPROCS(old)
	for i := 0; i < rounds; i++ {
		racers, loaders := 2+i%5, i%3
		verdicts, end := stressRound(racers, loaders, i%2 == 1)
		x.r.OracleCases++
		x.r.Count("free-running-rounds")
		for _, sig := range verdicts {
			x.r.OracleFail(hx.Case{Sig: sig, Op: fmt.Sprintf("stress %d %d round=%d procs=%d", racers, loaders, i, procs), Impl: end,
				Expected: "compute=1 same=true, loads see nothing or the value, the later store is what the key holds",
				Note:     "free-running goroutines, no forced schedule: not a deterministic replay"})
		}
		if len(verdicts) > 0 && x.r.Dist["D-failures"] > 20 {
			return
		}
	}
}
