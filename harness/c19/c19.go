// Package c19: correspondence (K) and direct oracle (D) for D2 announcement tracking and host
// selection (property C19): handleUriUpdate / copy / chooseHost / filterAndChooseHost of the real
// d2 package, reached through the tag-guarded export file d2/export_verif.go.
package c19

import (
	"fmt"
	"net/url"
	"sort"
	"strconv"
	"strings"
	"sync"
	"time"

	"github.com/PapaCharlie/go-restli/v2/d2"
	"verif/harness/hx"
)

type Config struct {
	Module string
	Seed   int64
	Tier   string
	Driver *hx.Driver
	Replay []string
}

const cluster = "VerifCluster"

// entry is one (host, weight) pair of an announcement; w4 is the weight times 4 (all weights used
// are multiples of 1/4, so the float arithmetic of the implementation is exact and the Lean
// model's scaled naturals describe it exactly).
type entry struct {
	url string
	w4  int
}

func (e entry) scheme() string {
	u, err := url.Parse(e.url)
	if err != nil {
		panic(err)
	}
	return u.Scheme
}

// memo tables (the harness is single-threaded apart from the goroutine waiting for the driver)
var (
	memoMu        sync.RWMutex
	entrySexpMemo = map[entry]string{}
	hostHexMemo   = map[url.URL]string{}
	hexMemo       = map[string]string{}
)

func hexOf(s string) string {
	memoMu.RLock()
	h, ok := hexMemo[s]
	memoMu.RUnlock()
	if ok {
		return h
	}
	h = hx.Hex([]byte(s))
	memoMu.Lock()
	hexMemo[s] = h
	memoMu.Unlock()
	return h
}

func (e entry) sexp() string {
	memoMu.RLock()
	s, ok := entrySexpMemo[e]
	memoMu.RUnlock()
	if ok {
		return s
	}
	s = "(" + hx.Hex([]byte(e.scheme())) + " " + hx.Hex([]byte(e.url)) + " " + strconv.Itoa(e.w4) + ")"
	memoMu.Lock()
	entrySexpMemo[e] = s
	memoMu.Unlock()
	return s
}

// hostHex renders a url.URL map key as "<scheme-hex> <url-hex>"
func hostHex(h url.URL) string {
	if h.User != nil {
		return hx.Hex([]byte(h.Scheme)) + " " + hx.Hex([]byte(h.String()))
	}
	memoMu.RLock()
	s, ok := hostHexMemo[h]
	memoMu.RUnlock()
	if ok {
		return s
	}
	s = hx.Hex([]byte(h.Scheme)) + " " + hx.Hex([]byte(h.String()))
	memoMu.Lock()
	hostHexMemo[h] = s
	memoMu.Unlock()
	return s
}

func weightText(w4 int) string { return strconv.FormatFloat(float64(w4)/4, 'g', -1, 64) }

// event is one TreeCacheEvent together with the class the property (and the model) sees.
type event struct {
	path    string
	kind    string  // "del" | "bad" | "uri"  (a weight-less announcement is "uri" with no entries)
	ann     []entry // for "uri"
	payload []byte  // nil for del
	variant string
}

func (e event) sexp() string {
	switch e.kind {
	case "del":
		return "(" + hx.Hex([]byte(e.path)) + " del)"
	case "bad":
		return "(" + hx.Hex([]byte(e.path)) + " bad)"
	}
	parts := []string{hx.Hex([]byte(e.path)), "uri"}
	for _, a := range e.ann {
		parts = append(parts, a.sexp())
	}
	return "(" + strings.Join(parts, " ") + ")"
}

func (e event) real() d2.TreeCacheEvent {
	if e.kind == "del" {
		return d2.TreeCacheEvent{Path: e.path, Data: nil}
	}
	data := append([]byte(nil), e.payload...)
	if data == nil {
		data = []byte{}
	}
	return d2.TreeCacheEvent{Path: e.path, Data: &data}
}

func histSexp(h []event) string {
	parts := make([]string, len(h))
	for i, e := range h {
		parts[i] = e.sexp()
	}
	return "(" + strings.Join(parts, " ") + ")"
}

// ---- payloads: the JSON the real code decodes

func weightsJSON(ann []entry) string {
	parts := make([]string, len(ann))
	for i, a := range ann {
		parts[i] = strconv.Quote(a.url) + ":" + weightText(a.w4)
	}
	return "{" + strings.Join(parts, ",") + "}"
}

// announcement payload variants: the bare weights map, and the full shape D2 servers write
func annPayload(ann []entry, variant int) ([]byte, string) {
	switch variant % 3 {
	case 0:
		return []byte(`{"weights":` + weightsJSON(ann) + `}`), "ann:weights-only"
	case 1:
		pd := make([]string, len(ann))
		for i, a := range ann {
			pd[i] = strconv.Quote(a.url) + `:{"0":{"weight":` + weightText(a.w4) + `}}`
		}
		return []byte(`{"weights":` + weightsJSON(ann) + `,"clusterName":"` + cluster +
			`","uriSpecificProperties":{},"partitionDesc":{` + strings.Join(pd, ",") + `}}`), "ann:full-d2-shape"
	default:
		return []byte(" {\n \"Weights\" : " + weightsJSON(ann) + ",\n \"unknownField\": [1,2,3] }\n"), "ann:case-insensitive-key+unknown-field"
	}
}

var weightlessPayloads = []string{
	`{"partitionDesc":{"http://p:80":{"0":{"weight":1}},"https://p:443":{"1":{"weight":2}}},"clusterName":"` + cluster + `"}`,
	`{"weights":{}}`,
	`{}`,
	`null`,
	`{"weights":null,"uriSpecificProperties":{"http://p:80":{"com.linkedin.app.name":"x"}}}`,
}

var malformedPayloads = []string{
	``,
	`{`,
	`{"weights":{"http://m:80":"heavy"}}`,
	`{"weights":{"http://[::1":1}}`,
	`[1]`,
	`{"weights":{"http://m:80":1}} trailing`,
	`{"weights":{"http://m:80":1},"partitionDesc":{"%zz":{"0":{"weight":1}}}}`,
	`"just a string"`,
	`{"weights":{"http://m:80":1},"uriSpecificProperties":{"http://bad host/":{}}}`,
}

func mkEvent(zk, node, kind string, ann []entry, variant int) event {
	e := event{path: zk + node}
	switch kind {
	case "del":
		e.kind, e.variant = "del", "del"
	case "bad":
		e.kind = "bad"
		p := malformedPayloads[variant%len(malformedPayloads)]
		e.payload, e.variant = []byte(p), "bad:"+strconv.Itoa(variant%len(malformedPayloads))
	case "weightless":
		e.kind = "uri"
		p := weightlessPayloads[variant%len(weightlessPayloads)]
		e.payload, e.variant = []byte(p), "weightless:"+strconv.Itoa(variant%len(weightlessPayloads))
	case "uri":
		e.kind, e.ann = "uri", ann
		if len(ann) == 0 {
			return mkEvent(zk, node, "weightless", nil, variant)
		}
		e.payload, e.variant = annPayload(ann, variant)
	default:
		panic("kind " + kind)
	}
	return e
}

// ---- canonical snapshots

func w4Of(w float64) string {
	x := w * 4
	if x == float64(int64(x)) {
		return strconv.FormatInt(int64(x), 10)
	}
	return "?" + strconv.FormatFloat(w, 'g', -1, 64)
}

func canonContents(c map[string]map[url.URL]float64) string {
	nodes := make([]string, 0, len(c))
	for k, m := range c {
		es := make([]string, 0, len(m))
		for h, w := range m {
			es = append(es, "("+hostHex(h)+" "+w4Of(w)+")")
		}
		sort.Strings(es)
		nodes = append(nodes, "("+strings.Join(append([]string{hexOf(k)}, es...), " ")+")")
	}
	sort.Strings(nodes)
	return "(" + strings.Join(nodes, " ") + ")"
}

func canonRef(c map[string][]entry) string {
	nodes := make([]string, 0, len(c))
	for k, ann := range c {
		es := make([]string, 0, len(ann))
		for _, a := range ann {
			es = append(es, a.sexp())
		}
		sort.Strings(es)
		nodes = append(nodes, "("+strings.Join(append([]string{hexOf(k)}, es...), " ")+")")
	}
	sort.Strings(nodes)
	return "(" + strings.Join(nodes, " ") + ")"
}

// refFold is the property's own description of the state after a history, written without
// reference to the implementation or the Lean model: for every node, look at its events from the
// newest to the oldest; a well-formed announcement with weights wins, a deletion removes, malformed
// and weight-less updates are skipped. Events on the watched root concern no node.
func refFold(zk string, h []event) map[string][]entry {
	out := map[string][]entry{}
	decided := map[string]bool{}
	for i := len(h) - 1; i >= 0; i-- {
		e := h[i]
		node := strings.TrimPrefix(e.path, zk)
		if node == "" || decided[node] {
			continue
		}
		switch {
		case e.kind == "del":
			decided[node] = true
		case e.kind == "uri" && len(e.ann) > 0:
			decided[node] = true
			out[node] = e.ann
		}
	}
	return out
}

// equalLive compares a recorded deep copy with a snapshot's live map, without allocating.
func equalLive(rec map[string]map[url.URL]float64, live map[string]*d2.Uri) bool {
	if len(rec) != len(live) {
		return false
	}
	for k, m := range rec {
		u, ok := live[k]
		if !ok || u == nil || len(u.Weights) != len(m) {
			return false
		}
		for h, w := range m {
			if w2, ok := u.Weights[h]; !ok || w2 != w {
				return false
			}
		}
	}
	return true
}

func Run(cfg Config) *hx.Result {
	r := hx.NewResult("C19", cfg.Module, cfg.Seed, cfg.Tier)
	r.Rule = "histories: fixed corpus of the named situations, then ALL histories up to length 4 (quick) / 6 (thorough) over 3 nodes x {add, update, delete, malformed, weight-less} fed as real TreeCacheEvents with real JSON payloads to handleUriUpdate (every earlier snapshot re-inspected after every later event), then seeded longer histories with root/nested/foreign paths through waitForUriUpdates; non-trivial = at least one effective write and one ignored or deleting event. selection: announcement sets (hosts x schemes x weights incl. 0, duplicates across nodes) x priority lists x forced draws r=p/64 through the RNG hook, every result checked against the model under every iteration order; non-trivial = two or more eligible entries. float-edge probe: inexact weights at the largest draw (D only, outside the model). frequencies: seeded real PRNG, 6-sigma binomial bound (D only, statistical)"
	if len(cfg.Replay) > 0 {
		for _, line := range cfg.Replay {
			replay(cfg, r, line)
		}
		return r
	}
	for _, ph := range []struct {
		name string
		f    func(Config, *hx.Result)
	}{{"fold", runFold}, {"choose", runChoose}, {"float-edge", runFloatEdge}, {"stats", runStats}, {"api", runAPI}} {
		t0 := time.Now()
		ph.f(cfg, r)
		r.Dist["wall-ms:"+ph.name] = int(time.Since(t0).Milliseconds()) // informational only
	}
	r.Exhaustive = false
	return r
}

func replay(cfg Config, r *hx.Result, line string) {
	xs, err := hx.ParseLine(line)
	if err != nil || len(xs) == 0 {
		panic("c19: cannot replay " + line)
	}
	switch xs[0].Atom {
	case "d2fold":
		if len(xs) < 3 {
			panic("c19: cannot replay " + line)
		}
		zk := string(hx.UnHex(xs[1].Atom))
		var h []event
		for _, s := range xs[2].List {
			h = append(h, eventOfSexp(s))
		}
		foldCase(cfg, r, zk, h, true)
	case "d2choose":
		if len(xs) != 5 {
			panic("c19: cannot replay " + line)
		}
		var st state
		for _, n := range xs[1].List {
			nd := node{name: string(hx.UnHex(n.List[0].Atom))}
			for _, es := range n.List[1:] {
				nd.ann = append(nd.ann, entryOfSexp(es))
			}
			st = append(st, nd)
		}
		var prio []string
		for _, p := range xs[2].List {
			prio = append(prio, string(hx.UnHex(p.Atom)))
		}
		p, _ := strconv.Atoi(xs[3].Atom)
		q, _ := strconv.Atoi(xs[4].Atom)
		chooseCase(cfg, r, st, prio, p, q, 64)
	case "d2choosef":
		if len(xs) != 3 {
			panic("c19: cannot replay " + line)
		}
		var ws []string
		for _, w := range xs[1].List {
			ws = append(ws, w.Atom)
		}
		v, _ := strconv.ParseInt(xs[2].Atom, 10, 64)
		floatEdgeCase(r, ws, v, 3000)
	default:
		panic("c19: cannot replay " + line)
	}
}

func entryOfSexp(s *hx.Sexp) entry {
	w, _ := strconv.Atoi(s.List[2].Atom)
	return entry{url: string(hx.UnHex(s.List[1].Atom)), w4: w}
}

func eventOfSexp(s *hx.Sexp) event {
	path := string(hx.UnHex(s.List[0].Atom))
	switch s.List[1].Atom {
	case "del":
		return mkEvent(path, "", "del", nil, 0)
	case "bad":
		return mkEvent(path, "", "bad", nil, 2)
	case "uri":
		var ann []entry
		for _, es := range s.List[2:] {
			ann = append(ann, entryOfSexp(es))
		}
		return mkEvent(path, "", "uri", ann, 0)
	}
	panic(fmt.Sprintf("c19: bad event %v", s))
}
