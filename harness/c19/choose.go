package c19

import (
	"fmt"
	"math"
	"math/rand"
	"net/url"
	"sort"
	"strconv"
	"strings"

	"github.com/PapaCharlie/go-restli/v2/d2"
	"verif/harness/hx"
)

type node struct {
	name string
	ann  []entry
}

// state is one announcement set: node -> (host -> weight)
type state []node

func (s state) sexp() string {
	parts := make([]string, len(s))
	for i, n := range s {
		p := []string{hx.Hex([]byte(n.name))}
		for _, e := range n.ann {
			p = append(p, e.sexp())
		}
		parts[i] = "(" + strings.Join(p, " ") + ")"
	}
	return "(" + strings.Join(parts, " ") + ")"
}

func (s state) canonical() state {
	out := make(state, len(s))
	for i, n := range s {
		ann := append([]entry(nil), n.ann...)
		sort.Slice(ann, func(a, b int) bool { return ann[a].url < ann[b].url })
		out[i] = node{n.name, ann}
	}
	sort.Slice(out, func(a, b int) bool { return out[a].name < out[b].name })
	return out
}

func prioSexp(prio []string) string {
	p := make([]string, len(prio))
	for i, s := range prio {
		p[i] = hx.Hex([]byte(s))
	}
	return "(" + strings.Join(p, " ") + ")"
}

func chooseOp(s state, prio []string, p, q int) string {
	return fmt.Sprintf("d2choose %s %s %d %d", s.sexp(), prioSexp(prio), p, q)
}

// build produces the real snapshot by feeding announcements through handleUriUpdate.
func build(s state) *d2.VerifUris {
	c := new(d2.Client)
	zk := d2.UrisPath(cluster)
	h := d2.VerifNewUris(cluster)
	for i, n := range s {
		h = c.VerifHandleUriUpdate(h, mkEvent(zk, n.name, "uri", n.ann, i).real())
	}
	return h
}

// constSource makes rng.Float64() return exactly v / 2^63.
type constSource struct{ v int64 }

func (s constSource) Int63() int64 { return s.v }
func (s constSource) Seed(int64)   {}

func perms(n int) [][]int {
	if n == 0 {
		return [][]int{{}}
	}
	var out [][]int
	var rec func(cur []int, used []bool)
	rec = func(cur []int, used []bool) {
		if len(cur) == n {
			out = append(out, append([]int(nil), cur...))
			return
		}
		for i := 0; i < n; i++ {
			if !used[i] {
				used[i] = true
				rec(append(cur, i), used)
				used[i] = false
			}
		}
	}
	rec(nil, make([]bool, n))
	return out
}

// orders lists every way the two map levels can be iterated.
func orders(s state) []state {
	var out []state
	for _, op := range perms(len(s)) {
		partial := []state{{}}
		for _, ni := range op {
			n := s[ni]
			var next []state
			for _, ip := range perms(len(n.ann)) {
				ann := make([]entry, len(ip))
				for k, j := range ip {
					ann[k] = n.ann[j]
				}
				for _, pre := range partial {
					next = append(next, append(append(state(nil), pre...), node{n.name, ann}))
				}
			}
			partial = next
		}
		out = append(out, partial...)
	}
	return out
}

type hostW struct {
	u url.URL
	w float64
}

func flatten(rec map[string]map[url.URL]float64) []hostW {
	var out []hostW
	for _, m := range rec {
		for u, w := range m {
			out = append(out, hostW{u, w})
		}
	}
	return out
}

// eligibleOf is the property's own notion, computed from the implementation's snapshot contents:
// every announced entry when no priorities are configured, otherwise the entries of the first
// scheme of the list for which any host is announced.
func eligibleOf(prio []string, all []hostW) []hostW {
	if len(prio) == 0 {
		return all
	}
	for _, s := range prio {
		var sub []hostW
		for _, h := range all {
			if h.u.Scheme == s {
				sub = append(sub, h)
			}
		}
		if len(sub) > 0 {
			return sub
		}
	}
	return nil
}

func hostAnswer(u *url.URL) string {
	if u == nil {
		return "none"
	}
	return "host " + hx.Hex([]byte(u.Scheme)) + " " + hx.Hex([]byte(u.String()))
}

// consistentWithDraw: is there an iteration order under which the entry set `elig` and the draw r
// select host u?  u's entry (weight w) is selected iff the eligible weight S visited before it
// satisfies S < r*T <= S+w (or, when r*T == 0, iff nothing eligible precedes it). Brute force over
// the subsets of the other entries. All weights are multiples of 1/4 and r of 1/64: exact.
func consistentWithDraw(elig []hostW, u url.URL, r float64) bool {
	var T float64
	for _, e := range elig {
		T += e.w
	}
	for i, e := range elig {
		if e.u != u {
			continue
		}
		if r*T == 0 {
			// T == 0: the first eligible entry visited is taken; r == 0 < T: the first one with weight
			if T == 0 || e.w > 0 {
				return true
			}
			continue
		}
		if e.w == 0 {
			continue // passed over while the eligible total is positive
		}
		var others []float64
		for j, o := range elig {
			if j != i {
				others = append(others, o.w)
			}
		}
		for mask := 0; mask < 1<<len(others); mask++ {
			var S float64
			for k, w := range others {
				if mask&(1<<k) != 0 {
					S += w
				}
			}
			if S < r*T && r*T <= S+e.w {
				return true
			}
		}
	}
	return false
}

// chooseCase: one announcement set, one priority list, one forced draw r = p/q (q a power of two).
func chooseCase(cfg Config, r *hx.Result, st state, prio []string, p, q, trials int) {
	st = st.canonical()
	op := chooseOp(st, prio, p, q)
	shift := 63
	for x := q; x > 1; x >>= 1 {
		shift--
	}
	if q <= 0 || 1<<(63-shift) != q || p < 0 || p >= q {
		panic("c19: draw must be p/2^k with p < 2^k: " + op)
	}
	handle := build(st)
	rec := handle.Contents()
	all := flatten(rec)
	elig := eligibleOf(prio, all)
	anyPositive := false
	for _, e := range elig {
		if e.w > 0 {
			anyPositive = true
		}
	}
	rf := float64(p) / float64(q)
	restore := d2.VerifSetRng(constSource{int64(p) << uint(shift)})
	defer restore()

	seen := map[string]bool{}
	one := func() {
		var got *url.URL
		panicked, pv := hx.Recover(func() { got = handle.ChooseHost(prio) })
		r.OracleCases++
		if panicked {
			r.OracleFail(hx.Case{Sig: "C19 chooseHost panics", Op: op, Impl: fmt.Sprint("panic ", pv), Expected: "a host or nil"})
			return
		}
		ans := hostAnswer(got)
		first := !seen[ans]
		seen[ans] = true
		if !first {
			return // D depends only on (case, answer)
		}
		fail := func(sig, expected string) {
			r.OracleFail(hx.Case{Sig: sig, Op: op, Impl: ans, Expected: expected})
		}
		if got == nil {
			if len(elig) > 0 {
				fail("C19 no host returned although an eligible host is announced", "one of the eligible hosts")
			}
			return
		}
		if len(elig) == 0 {
			fail("C19 host returned although no eligible host is announced", "nil (an error)")
			return
		}
		announced, inElig, maxW := false, false, -1.0
		for _, e := range all {
			if e.u == *got {
				announced = true
			}
		}
		for _, e := range elig {
			if e.u == *got {
				inElig = true
				maxW = math.Max(maxW, e.w)
			}
		}
		switch {
		case !announced:
			fail("C19 returned host is not announced", "an announced host")
		case !inElig:
			fail("C19 returned host is not of the highest-priority scheme with announced hosts", "a host of scheme "+elig[0].u.Scheme)
		case anyPositive && maxW == 0 && p == 0:
			fail("C19 zero-weight host returned while a positive-weight host is eligible (draw r=0)", "a host with positive weight")
		case anyPositive && maxW == 0:
			fail("C19 zero-weight host returned while a positive-weight host is eligible", "a host with positive weight")
		case !consistentWithDraw(elig, *got, rf):
			fail("C19 returned host inconsistent with the draw under every iteration order", "a host whose weight interval can contain r*total")
		}
	}
	for t := 0; t < trials; t++ {
		one()
	}
	if !equalLive(rec, handle.Live()) {
		r.OracleFail(hx.Case{Sig: "C19 chooseHost modified the snapshot", Op: op, Impl: canonContents(handle.Contents()), Expected: canonContents(rec)})
	}

	r.Count("choose:prio-len=" + strconv.Itoa(len(prio)))
	r.Count("choose:eligible=" + strconv.Itoa(len(elig)))
	if p == 0 {
		r.Count("choose:r=0")
	}
	if len(elig) > 0 && !anyPositive {
		r.Count("choose:all-eligible-weights-zero")
	}
	if len(elig) >= 2 {
		r.Distinctive(op)
	}

	// ---- K: the model under every iteration order
	if cfg.Driver == nil {
		return
	}
	ords := orders(st)
	model := map[string]bool{}
	asked := map[string]bool{}
	for _, o := range ords {
		oop := chooseOp(o, prio, p, q)
		if asked[oop] {
			continue
		}
		asked[oop] = true
		r.Ops++
		model[cfg.Driver.MustAsk(oop)] = true
	}
	modelS := strings.Join(hx.SortedKeys(model), " / ")
	for ans := range seen {
		if !model[ans] {
			r.Disagree(hx.Case{Sig: "C19 d2choose", Op: op, Impl: ans, Model: "under all iteration orders: " + modelS})
		}
	}
	// completeness where exactly two iteration orders exist (both have probability >= 1/8 per call)
	multi, two := 0, false
	if len(st) > 1 {
		multi++
		two = len(st) == 2
	}
	for _, n := range st {
		if len(n.ann) > 1 {
			multi++
			two = len(n.ann) == 2
		}
	}
	if multi == 1 && two && len(model) == 2 {
		for t := 0; t < 600 && len(seen) < 2; t++ {
			one()
		}
		for ans := range model {
			if !seen[ans] {
				r.Disagree(hx.Case{Sig: "C19 d2choose outcome of the model never produced", Op: op,
					Impl: strings.Join(hx.SortedKeys(seen), " / "), Model: modelS})
			}
		}
		r.Count("choose:both-orders-observed")
	}
	if len(model) == 1 {
		r.Count("choose:order-independent")
	} else {
		r.Count("choose:order-dependent")
	}
}

var prioLists = [][]string{
	nil, {}, {"https"}, {"http"}, {"https", "http"}, {"http", "https"}, {"ftp"}, {"ftp", "http"},
	{"https", "https"}, {"ws", "http", "https"},
}

func runChoose(cfg Config, r *hx.Result) {
	a, b, c2 := "http://a:80", "http://b:80", "http://c:80"
	sa, sb := "https://a:443", "https://b:443"
	states := []state{
		{},
		{{"/n1", []entry{{a, 4}}}},
		{{"/n1", []entry{{a, 0}}}},
		{{"/n1", []entry{{sa, 0}}}, {"/n2", []entry{{b, 4}}}}, // a scheme present only at weight 0
		{{"/n1", []entry{{a, 0}, {b, 4}}}},                    // the r = 0 edge
		{{"/n1", []entry{{a, 0}}}, {"/n2", []entry{{b, 4}}}},
		{{"/n1", []entry{{a, 4}, {b, 4}}}},
		{{"/n1", []entry{{a, 4}}}, {"/n2", []entry{{b, 12}}}},
		{{"/n1", []entry{{a, 4}, {b, 8}}}, {"/n2", []entry{{c2, 20}}}},
		{{"/n1", []entry{{a, 0}, {b, 0}}}},
		{{"/n1", []entry{{a, 4}}}, {"/n2", []entry{{a, 12}}}}, // the same host announced by two nodes
		{{"/n1", []entry{{a, 0}}}, {"/n2", []entry{{a, 4}}}},
		{{"/n1", []entry{{a, 4}, {sa, 4}}}, {"/n2", []entry{{b, 2}, {sb, 0}}}},
		{{"/n1", []entry{{sa, 1}}}, {"/n2", []entry{{sb, 3}}}, {"/n3", []entry{{a, 40}}}},
		{{"/n1", []entry{{a, 1}, {b, 2}, {c2, 5}}}},
	}
	rng := hx.Rng(cfg.Seed, "c19-choose")
	nRandom, trials := 30, 6
	draws := []int{0, 1, 8, 16, 24, 32, 40, 48, 56, 63}
	if cfg.Tier == "thorough" {
		nRandom, trials = 200, 12
	}
	schemes := []string{"http", "https", "ws"}
	names := []string{"a", "b", "c", "d"}
	weights := []int{0, 0, 4, 4, 8, 2, 1}
	for i := 0; i < nRandom; i++ {
		var s state
		for n := 1 + rng.Intn(3); n > 0; n-- {
			nd := node{name: fmt.Sprintf("/n%d", len(s)+1)}
			seen := map[string]bool{}
			for k := 1 + rng.Intn(2); k > 0; k-- {
				sc := schemes[rng.Intn(len(schemes))]
				if rng.Intn(3) != 0 {
					sc = schemes[rng.Intn(2)]
				}
				u := sc + "://" + names[rng.Intn(len(names))] + ":1"
				if !seen[u] {
					seen[u] = true
					nd.ann = append(nd.ann, entry{u, weights[rng.Intn(len(weights))]})
				}
			}
			s = append(s, nd)
		}
		states = append(states, s)
	}
	for si, s := range states {
		for _, prio := range prioLists {
			ds := draws
			if si >= 15 && cfg.Tier != "thorough" {
				// random states in the quick tier: r = 0, one boundary-prone and two random draws
				ds = []int{0, 32, 1 + rng.Intn(63), 1 + rng.Intn(63)}
			}
			for _, p := range ds {
				chooseCase(cfg, r, s, prio, p, 64, trials)
			}
		}
	}
	r.Count(fmt.Sprintf("choose:states=%d", len(states)))
}

// runStats: selection frequencies with the real PRNG (seeded), D only, statistical.
func runStats(cfg Config, r *hx.Result) {
	a, b, c2, z := "http://a:80", "http://b:80", "http://c:80", "http://z:80"
	sa, sb := "https://a:443", "https://b:443"
	cases := []struct {
		st   state
		prio []string
	}{
		{state{{"/n1", []entry{{a, 4}, {b, 8}}}, {"/n2", []entry{{c2, 20}, {z, 0}}}}, nil},
		{state{{"/n1", []entry{{sa, 4}, {a, 40}}}, {"/n2", []entry{{sb, 12}}}}, []string{"https", "http"}},
		{state{{"/n1", []entry{{a, 4}}}, {"/n2", []entry{{a, 4}, {b, 8}}}}, []string{"http"}},
		{state{{"/n1", []entry{{a, 1}}}, {"/n2", []entry{{b, 2}}}, {"/n3", []entry{{c2, 1}}}}, []string{}},
	}
	n := 20000
	if cfg.Tier == "thorough" {
		n = 200000
	}
	for ci, cs := range cases {
		st := cs.st.canonical()
		handle := build(st)
		elig := eligibleOf(cs.prio, flatten(handle.Contents()))
		var T float64
		want := map[url.URL]float64{}
		for _, e := range elig {
			T += e.w
			want[e.u] += e.w
		}
		restore := d2.VerifSetRng(rand.NewSource(cfg.Seed*7919 + int64(ci)))
		counts := map[url.URL]int{}
		other := 0
		for i := 0; i < n; i++ {
			got := handle.ChooseHost(cs.prio)
			if got == nil {
				other++
				continue
			}
			if _, ok := want[*got]; !ok {
				other++
				continue
			}
			counts[*got]++
		}
		restore()
		op := fmt.Sprintf("d2stats %s %s draws=%d", st.sexp(), prioSexp(cs.prio), n)
		r.OracleCases++
		if other > 0 {
			r.OracleFail(hx.Case{Sig: "C19 selection returned a non-eligible host or nil during the frequency run (statistical run)", Op: op,
				Impl: fmt.Sprint(other, " such results"), Expected: "0"})
		}
		for u, w := range want {
			pr := w / T
			mean := float64(n) * pr
			sigma := math.Sqrt(float64(n) * pr * (1 - pr))
			k := counts[u]
			r.OracleCases++
			r.Count("stats:host-frequency-tests")
			if math.Abs(float64(k)-mean) > 6*sigma+1 {
				r.OracleFail(hx.Case{Sig: "C19 selection frequency outside 6 sigma of the weight proportion (statistical observation)", Op: op,
					Impl:     fmt.Sprintf("%s chosen %d of %d", u.String(), k, n),
					Expected: fmt.Sprintf("%.1f +- %.1f (weight %g of %g)", mean, 6*sigma, w, T)})
			}
		}
	}
}

// runAPI: the exported resolution path on a pre-seeded client (no ZooKeeper), and what happens
// when a caller mutates the *url.URL it was handed.
func runAPI(cfg Config, r *hx.Result) {
	a, b := "http://a:80", "http://b:80"
	sa := "https://a:443"
	st := state{{"/n1", []entry{{a, 4}, {sa, 4}}}, {"/n2", []entry{{b, 8}}}}.canonical()
	op := "d2api " + st.sexp()
	fail := func(sig, impl, expected string) {
		r.OracleFail(hx.Case{Sig: sig, Op: op, Impl: impl, Expected: expected})
	}
	c := new(d2.Client)
	svcPath := d2.ServicesPath("svc")
	svcJSON := []byte(`{"serviceName":"svc","clusterName":"` + cluster + `","prioritizedSchemes":["https","http"]}`)
	svc := c.VerifHandleServiceUpdate("svc", d2.TreeCacheEvent{Path: svcPath, Data: &svcJSON})
	r.OracleCases++
	if svc == nil || svc.ClusterName != cluster || len(svc.PrioritizedSchemes) != 2 {
		fail("C19 service definition not decoded", fmt.Sprintf("%+v", svc), "cluster and prioritized schemes")
		return
	}
	c.VerifSeed("svc", svc, d2.VerifNewUris(cluster))
	// no host announced yet: an error, not a host
	r.OracleCases++
	if u, err := c.ResolveHostnameAndContextForQuery("svc", nil); err == nil || u != nil {
		fail("C19 host returned although no eligible host is announced", fmt.Sprint(u, err), "an error")
	}
	zk := d2.UrisPath(cluster)
	for i, n := range st {
		c.VerifDeliverUriEvents(cluster, mkEvent(zk, n.name, "uri", n.ann, i).real())
	}
	cur := c.VerifCurrentUris(cluster)
	rec := cur.Contents()
	for i := 0; i < 40; i++ {
		var u *url.URL
		var err error
		if i%2 == 0 {
			u, err = c.ResolveHostnameAndContextForQuery("svc", nil)
		} else {
			u, err = c.SingleServiceClient("svc").ResolveHostnameAndContextForQuery("ignored", nil)
		}
		r.OracleCases++
		if err != nil || u == nil {
			fail("C19 no host returned although an eligible host is announced", fmt.Sprint(err), sa)
			continue
		}
		if u.String() != sa {
			fail("C19 returned host is not of the highest-priority scheme with announced hosts", u.String(), sa)
		}
		// the caller scribbles over what it was handed
		u.Scheme, u.Host, u.Path = "mutated", "evil:1", "/x"
		if !equalLive(rec, c.VerifCurrentUris(cluster).Live()) || !c.VerifCurrentUris(cluster).Same(cur) {
			fail("C19 mutating a returned host changed the client's state", canonContents(c.VerifCurrentUris(cluster).Contents()), canonContents(rec))
			return
		}
	}
	// a new service definition changes the priorities used from then on
	svc2 := []byte(`{"serviceName":"svc","clusterName":"` + cluster + `","prioritizedSchemes":["http"]}`)
	c.VerifDeliverServiceEvents("svc", d2.TreeCacheEvent{Path: svcPath, Data: &svc2})
	for i := 0; i < 20; i++ {
		u, err := c.ResolveHostnameAndContextForQuery("svc", nil)
		r.OracleCases++
		if err != nil || u == nil || u.Scheme != "http" {
			fail("C19 returned host is not of the highest-priority scheme with announced hosts", fmt.Sprint(u, err), "an http host")
		}
	}
	// the https node goes away, then everything: an error again
	c.VerifDeliverUriEvents(cluster, mkEvent(zk, "/n1", "del", nil, 0).real(), mkEvent(zk, "/n2", "del", nil, 0).real())
	r.OracleCases++
	if u, err := c.ResolveHostnameAndContextForQuery("svc", nil); err == nil || u != nil {
		fail("C19 host returned although no eligible host is announced", fmt.Sprint(u, err), "an error")
	}
	r.Count("api:resolution-path-checked")
}

// runFloatEdge: a direct-oracle-only probe of what the exact-arithmetic model leaves out. With
// weights that are not exactly representable, the total computed in the first pass can exceed what
// the second pass subtracts; at the largest possible draw (r = 1-2^-53) randomWeight then stays
// positive after the last eligible host. The code used to return nil there although hosts were
// eligible (witnesses below); it now falls back to the last eligible host visited. The probe checks
// the witnesses and seeded decimal weight lists at the largest draws: never nil, always an announced
// host, never a zero-weight host while another has weight.
// Not sent to the model (float rounding is unmodelled); counted under "unmodelled".
func runFloatEdge(cfg Config, r *hx.Result) {
	top := (int64(1)<<53 - 1) << 10
	for _, ws := range [][]string{{"0.2", "0.4", "0.3", "0.1"}, {"0.3", "2.1", "0.9", "0.7", "1.1", "3.3"}} {
		floatEdgeCase(r, ws, top, 3000)
	}
	rng := hx.Rng(cfg.Seed, "c19-float")
	n, trials := 60, 200
	if cfg.Tier == "thorough" {
		n, trials = 600, 400
	}
	for i := 0; i < n; i++ {
		var ws []string
		for k := 2 + rng.Intn(6); k > 0; k-- {
			switch rng.Intn(6) {
			case 0:
				ws = append(ws, "0")
			case 1:
				ws = append(ws, strconv.FormatFloat(float64(1+rng.Intn(99))/7, 'g', -1, 64))
			case 2:
				ws = append(ws, strconv.FormatFloat(rng.Float64()*10, 'g', -1, 64))
			default:
				ws = append(ws, strconv.FormatFloat(float64(1+rng.Intn(99))/10, 'g', -1, 64))
			}
		}
		v := top
		switch rng.Intn(4) {
		case 0:
			v = (int64(1)<<53 - 1 - int64(rng.Intn(4))) << 10
		case 1:
			v = top + int64(rng.Intn(512)) // still rounds to 1-2^-53 (larger values round to 1.0, which Float64 resamples)
		}
		floatEdgeCase(r, ws, v, trials)
	}
}

func floatEdgeCase(r *hx.Result, ws []string, int63 int64, trials int) {
	op := fmt.Sprintf("d2choosef (%s) %d", strings.Join(ws, " "), int63)
	parts := make([]string, len(ws))
	for i, w := range ws {
		parts[i] = fmt.Sprintf(`"http://f%d:80":%s`, i, w)
	}
	data := []byte(`{"weights":{` + strings.Join(parts, ",") + `}}`)
	c := new(d2.Client)
	h := c.VerifHandleUriUpdate(d2.VerifNewUris(cluster), d2.TreeCacheEvent{Path: d2.UrisPath(cluster) + "/n1", Data: &data})
	rec := h.Contents()
	if len(rec["/n1"]) != len(ws) {
		r.OracleFail(hx.Case{Sig: "C19 snapshot differs from the fold of the event history (ann event)", Op: op, Impl: canonContents(rec), Expected: string(data)})
		return
	}
	anyPositive := false
	for _, w := range rec["/n1"] {
		if w > 0 {
			anyPositive = true
		}
	}
	restore := d2.VerifSetRng(constSource{int63})
	defer restore()
	nils, foreign, zero := 0, 0, 0
	for i := 0; i < trials; i++ {
		got := h.ChooseHost(nil)
		if got == nil {
			nils++
		} else if w, ok := rec["/n1"][*got]; !ok {
			foreign++
		} else if w == 0 && anyPositive {
			zero++
		}
	}
	r.OracleCases++
	r.Unmodelled["float-rounding (weights not multiples of 1/4)"]++
	r.Count("choose:float-edge-probe")
	if foreign > 0 {
		r.OracleFail(hx.Case{Sig: "C19 returned host is not announced", Op: op, Impl: fmt.Sprint(foreign, " results"), Expected: "an announced host"})
	}
	if zero > 0 {
		r.OracleFail(hx.Case{Sig: "C19 zero-weight host returned while a positive-weight host is eligible", Op: op, Impl: fmt.Sprint(zero, " results"), Expected: "a host with positive weight"})
	}
	if nils > 0 {
		r.OracleFail(hx.Case{Sig: "C19 no host returned although an eligible host is announced (float rounding)", Op: op,
			Impl:     fmt.Sprintf("nil in %d of %d calls (depends on the map iteration order of the two passes)", nils, trials),
			Expected: "one of the " + strconv.Itoa(len(ws)) + " announced hosts"})
	}
}
