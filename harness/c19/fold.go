package c19

import (
	"fmt"
	"net/url"
	"runtime"
	"strings"
	"sync"

	"github.com/PapaCharlie/go-restli/v2/d2"
	"verif/harness/hx"
)

// frame is one snapshot handed out by the implementation, with what it contained at that time.
type frame struct {
	handle *d2.VerifUris
	rec    map[string]map[url.URL]float64
	canon  string
	trace  string
}

func foldOp(zk string, h []event) string {
	return "d2fold " + hx.Hex([]byte(zk)) + " " + histSexp(h)
}

func traceOrDash(t string) string {
	if t == "" {
		return "-"
	}
	return t
}

// step applies one event with the real handleUriUpdate and evaluates D on the result.
// anc are all snapshots handed out earlier on this path (oldest first, parent last).
func step(r *hx.Result, c *d2.Client, zk string, anc []frame, hist []event) (frame, bool) {
	parent := anc[len(anc)-1]
	ev := hist[len(hist)-1]
	var child *d2.VerifUris
	panicked, pv := hx.Recover(func() { child = c.VerifHandleUriUpdate(parent.handle, ev.real()) })
	r.OracleCases++
	if panicked || child == nil {
		r.OracleFail(hx.Case{Sig: "C19 handleUriUpdate panics", Op: foldOp(zk, hist), Impl: fmt.Sprint("panic ", pv), Expected: "a snapshot"})
		return frame{}, false
	}
	f := frame{handle: child, rec: child.Contents()}
	f.canon = canonContents(f.rec)
	if child.Same(parent.handle) {
		f.trace = parent.trace + "s"
	} else {
		f.trace = parent.trace + "n"
	}
	// D1: the snapshot is the fold of the history
	if want := canonRef(refFold(zk, hist)); want != f.canon {
		r.OracleFail(hx.Case{Sig: "C19 snapshot differs from the fold of the event history (" + ev.variant[:strings.IndexAny(ev.variant+":", ":")] + " event)",
			Op: foldOp(zk, hist), Impl: f.canon, Expected: want})
	}
	// D2: no snapshot handed out earlier has changed
	for i, a := range anc {
		if !equalLive(a.rec, a.handle.Live()) {
			r.OracleFail(hx.Case{Sig: "C19 earlier snapshot modified by a later event", Op: foldOp(zk, hist),
				Impl:     fmt.Sprintf("snapshot after %d events now reads %s", i, canonContents(a.handle.Contents())),
				Expected: a.canon})
		}
	}
	if child.ZkPath() != zk {
		r.OracleFail(hx.Case{Sig: "C19 snapshot lost its zkPath", Op: foldOp(zk, hist), Impl: child.ZkPath(), Expected: zk})
	}
	return f, true
}

func isNonTrivial(h []event) bool {
	eff, ign := false, false
	for _, e := range h {
		if e.kind == "uri" && len(e.ann) > 0 {
			eff = true
		} else {
			ign = true
		}
	}
	return eff && ign
}

// foldCase runs one history step by step; K compares every prefix with the model.
func foldCase(cfg Config, r *hx.Result, zk string, h []event, everyPrefix bool) {
	c := new(d2.Client)
	root := frame{handle: d2.VerifNewUris(cluster)}
	if root.handle.ZkPath() != zk {
		// histories are built against UrisPath(cluster); a replayed op must use the same root
		panic("c19: history root " + zk + " is not " + root.handle.ZkPath())
	}
	root.rec = root.handle.Contents()
	root.canon = canonContents(root.rec)
	anc := []frame{root}
	for i := range h {
		f, ok := step(r, c, zk, anc, h[:i+1])
		if !ok {
			return
		}
		anc = append(anc, f)
		r.Count("event:" + h[i].variant)
		if cfg.Driver != nil && (everyPrefix || i == len(h)-1) {
			op := foldOp(zk, h[:i+1])
			r.Ops++
			m := cfg.Driver.MustAsk(op)
			if impl := f.trace + " " + f.canon; m != impl {
				r.Disagree(hx.Case{Sig: "C19 d2fold", Op: op, Impl: impl, Model: m})
			}
		}
	}
	r.Count(fmt.Sprintf("history:len=%d", len(h)))
	if isNonTrivial(h) {
		r.Distinctive(foldOp(zk, h))
	}
}

// the exhaustive alphabet: 3 nodes x {add, update, delete, malformed, weight-less}
var (
	alphabetMu   sync.Mutex
	alphabetMemo = map[int][]event{}
)

func alphabet(zk string, variant int) []event {
	key := variant % (3 * len(malformedPayloads) * len(weightlessPayloads))
	alphabetMu.Lock()
	defer alphabetMu.Unlock()
	if a, ok := alphabetMemo[key]; ok {
		return a
	}
	a := alphabet0(zk, key)
	alphabetMemo[key] = a
	return a
}

func alphabet0(zk string, variant int) []event {
	var out []event
	for i, n := range []string{"/n1", "/n2", "/n3"} {
		add := []entry{{fmt.Sprintf("http://h%d:80", i+1), 4}, {fmt.Sprintf("https://h%d:443", i+1), 2}}
		upd := []entry{{fmt.Sprintf("https://h%d:443", i+1), 8}}
		if i == 2 {
			// node 3 announces a host node 1 also announces, and a zero weight
			add = []entry{{"http://h1:80", 0}, {"http://h3:80", 1}}
		}
		out = append(out,
			mkEvent(zk, n, "uri", add, variant+i),
			mkEvent(zk, n, "uri", upd, variant+i+1),
			mkEvent(zk, n, "del", nil, 0),
			mkEvent(zk, n, "bad", nil, variant+i),
			mkEvent(zk, n, "weightless", nil, variant+i))
	}
	return out
}

type dfs struct {
	cfg      Config
	r        *hx.Result
	c        *d2.Client
	zk       string
	maxDepth int
	variant  int
	nodes    int
	askMu    *sync.Mutex
	distinct []string
}

// exhaustive walks the whole event tree. The first two levels are walked by the caller; the 225
// subtrees below them are independent and are walked by a few workers (each with its own client
// and result record, merged afterwards in subtree order, so the outcome does not depend on
// scheduling). The single model driver is shared under a mutex.
func exhaustive(cfg Config, r *hx.Result, zk string, depth int) int {
	root := newRootFrame()
	variant := int(cfg.Seed % 1000)
	var askMu sync.Mutex
	top := &dfs{cfg: cfg, r: r, c: new(d2.Client), zk: zk, maxDepth: depth, variant: variant, askMu: &askMu}
	frontier := top.walkOnce([]frame{root}, nil)
	nodes := top.nodes
	if len(frontier) == 0 {
		return nodes
	}
	workers := runtime.NumCPU() / 2
	if workers > 8 {
		workers = 8
	}
	if workers < 1 {
		workers = 1
	}
	subs := make([]*dfs, len(frontier))
	jobs := make(chan int)
	var wg sync.WaitGroup
	for w := 0; w < workers; w++ {
		wg.Add(1)
		go func() {
			defer wg.Done()
			for i := range jobs {
				x := &dfs{cfg: cfg, r: hx.NewResult("C19", cfg.Module, cfg.Seed, cfg.Tier), c: new(d2.Client), zk: zk,
					maxDepth: depth, variant: variant, askMu: &askMu}
				// the worker re-creates the snapshots on its path with its own client instead of
				// sharing the caller's: an implementation that (wrongly) writes into an earlier
				// snapshot must show up as an oracle failure, not as a data race between workers
				anc := []frame{newRootFrame()}
				scratch := hx.NewResult("C19", cfg.Module, cfg.Seed, cfg.Tier)
				ok := true
				for j := range frontier[i].hist {
					var f frame
					if f, ok = step(scratch, x.c, zk, anc, frontier[i].hist[:j+1]); !ok {
						break
					}
					anc = append(anc, f)
				}
				if ok {
					x.walk(anc, frontier[i].hist)
				}
				subs[i] = x
			}
		}()
	}
	for i := range frontier {
		jobs <- i
	}
	close(jobs)
	wg.Wait()
	for _, x := range subs {
		nodes += x.nodes
		r.Ops += x.r.Ops
		r.OracleCases += x.r.OracleCases
		for k, v := range x.r.Dist {
			if k != "D-failures" && k != "K-disagreements" {
				r.Dist[k] += v
			}
		}
		for _, c := range x.r.OracleFailures {
			r.OracleFail(c)
		}
		for _, c := range x.r.Disagreements {
			r.Disagree(c)
		}
		for _, d := range x.distinct {
			r.Distinctive(d)
		}
	}
	return nodes
}

func newRootFrame() frame {
	root := frame{handle: d2.VerifNewUris(cluster)}
	root.rec = root.handle.Contents()
	root.canon = canonContents(root.rec)
	return root
}

type visited struct {
	anc  []frame // snapshots on the path, this node's own last
	hist []event
}

// chunk explores `levels` levels below (anc, hist) with the real code, in depth-first pre-order,
// collecting the implementation's canonical answers and the frontier nodes.
func (x *dfs) chunk(anc []frame, hist []event, levels int, impl *[]visited, frontier *[]visited) {
	if levels == 0 {
		*frontier = append(*frontier, visited{anc, hist})
		return
	}
	// payload variants rotate with the depth so that every JSON shape is met in every position
	for _, e := range alphabet(x.zk, x.variant+len(hist)) {
		h2 := append(hist[:len(hist):len(hist)], e)
		f, ok := step(x.r, x.c, x.zk, anc, h2)
		if !ok {
			// keep the pre-order aligned with the model's answer list
			f = frame{handle: anc[len(anc)-1].handle, canon: "<panic>"}
		}
		x.nodes++
		x.r.Dist["exhaustive-event:"+e.variant]++
		a2 := append(anc[:len(anc):len(anc)], f)
		*impl = append(*impl, visited{a2, h2})
		if len(h2) == x.maxDepth && x.nodes%4099 == 0 && isNonTrivial(h2) {
			x.distinct = append(x.distinct, foldOp(x.zk, h2))
			x.r.Distinctive(foldOp(x.zk, h2))
		}
		if ok {
			x.chunk(a2, h2, levels-1, impl, frontier)
		}
	}
}

// walk: two levels at a time; the model expands the same two levels in one op while the real code
// is being run.
func (x *dfs) walk(anc []frame, hist []event) {
	for _, v := range x.walkOnce(anc, hist) {
		x.walk(v.anc, v.hist)
	}
}

// walkOnce explores (at most) two levels below the node and returns the frontier.
func (x *dfs) walkOnce(anc []frame, hist []event) []visited {
	levels := x.maxDepth - len(hist)
	if levels <= 0 {
		return nil
	}
	if levels > 2 {
		levels = 2
	}
	var answers []string
	var done chan struct{}
	var op string
	if x.cfg.Driver != nil {
		// the extension alphabet as the model sees it (classes only; the same at every depth)
		alpha := alphabet(x.zk, 0)
		exts := make([]string, len(alpha))
		for i, e := range alpha {
			exts[i] = e.sexp()
		}
		op = fmt.Sprintf("%s (%s) %d", foldOp(x.zk, hist), strings.Join(exts, " "), levels)
		done = make(chan struct{})
		go func() {
			x.askMu.Lock()
			a := x.cfg.Driver.MustAsk(op)
			x.askMu.Unlock()
			answers = strings.Split(a, " | ")
			close(done)
		}()
	}
	var impl, frontier []visited
	x.chunk(anc, hist, levels, &impl, &frontier)
	if done != nil {
		<-done
		x.r.Ops += len(impl)
		if len(answers) != len(impl)+1 {
			x.r.Disagree(hx.Case{Sig: "C19 d2fold", Op: op, Impl: fmt.Sprintf("<%d answers expected>", len(impl)+1), Model: fmt.Sprintf("<%d answers>", len(answers))})
		} else {
			for i, v := range impl {
				f := v.anc[len(v.anc)-1]
				if got := f.trace + " " + f.canon; answers[i+1] != got {
					x.r.Disagree(hx.Case{Sig: "C19 d2fold", Op: foldOp(x.zk, v.hist), Impl: got, Model: answers[i+1]})
				}
			}
		}
	}
	return frontier
}

func runFold(cfg Config, r *hx.Result) {
	zk := d2.UrisPath(cluster)
	a := alphabet(zk, 0)
	add1, upd1, del1, bad1, wl1 := a[0], a[1], a[2], a[3], a[4]
	add2, del2 := a[5], a[7]
	add3 := a[10]
	rootEv := mkEvent(zk, "", "uri", []entry{{"http://root:80", 4}}, 0)
	rootDel := mkEvent(zk, "", "del", nil, 0)
	nested := mkEvent(zk, "/n1/child", "uri", []entry{{"http://nested:80", 4}}, 1)
	foreign := event{path: "/elsewhere/x", kind: "uri", ann: []entry{{"http://foreign:80", 4}}}
	foreign.payload, foreign.variant = annPayload(foreign.ann, 0)
	// ---- fixed corpus: the situations the property names
	corpus := [][]event{
		{},
		{add1},
		{add1, upd1},
		{add1, del1},
		{add1, bad1},
		{add1, wl1},
		{wl1},
		{bad1},
		{del1},
		{add1, add2, del1},
		{add1, del1, add1},
		{add1, wl1, bad1, upd1, wl1},
		{add1, add2, add3, del2},
		{rootEv, add1, rootDel},
		{add1, nested, del1},
		{foreign, add1},
		{add1, upd1, del1, add2, bad1, wl1, del2, add3},
	}
	for v := 0; v < len(malformedPayloads); v++ {
		corpus = append(corpus, []event{add1, mkEvent(zk, "/n1", "bad", nil, v)})
	}
	for v := 0; v < len(weightlessPayloads); v++ {
		corpus = append(corpus, []event{add1, mkEvent(zk, "/n1", "weightless", nil, v)})
	}
	for _, h := range corpus {
		foldCase(cfg, r, zk, h, true)
	}
	r.Count(fmt.Sprintf("fold:corpus-histories=%d", len(corpus)))

	// ---- exhaustive enumeration
	depth := 4
	if cfg.Tier == "thorough" {
		depth = 6
	}
	nodes := exhaustive(cfg, r, zk, depth)
	r.Count(fmt.Sprintf("fold:exhaustive-depth=%d", depth))
	r.Dist["fold:exhaustive-histories"] += nodes
	r.Distinctive(fmt.Sprintf("d2fold <all %d histories of length <= %d over 15 events>", nodes, depth))

	// ---- seeded longer histories, delivered through waitForUriUpdates (Load / handle / Store)
	rng := hx.Rng(cfg.Seed, "c19-fold")
	n := 150
	if cfg.Tier == "thorough" {
		n = 1500
	}
	names := []string{"/n1", "/n2", "/n3", "/n4", "/n1/child", ""}
	pool := []entry{{"http://h1:80", 4}, {"https://h1:443", 2}, {"http://h2:80", 0}, {"https://h2:443", 8},
		{"http://h3:8080/ctx", 1}, {"ws://h4:1", 3}, {"https://h1:443", 12}}
	for i := 0; i < n; i++ {
		ln := 5 + rng.Intn(25)
		var h []event
		for j := 0; j < ln; j++ {
			node := names[rng.Intn(len(names))]
			if rng.Intn(5) != 0 {
				node = names[rng.Intn(3)]
			}
			switch rng.Intn(6) {
			case 0, 1:
				var ann []entry
				seen := map[string]bool{}
				for k := 1 + rng.Intn(3); k > 0; k-- {
					e := pool[rng.Intn(len(pool))]
					if !seen[e.url] {
						seen[e.url] = true
						ann = append(ann, e)
					}
				}
				h = append(h, mkEvent(zk, node, "uri", ann, rng.Intn(3)))
			case 2:
				h = append(h, mkEvent(zk, node, "del", nil, 0))
			case 3:
				h = append(h, mkEvent(zk, node, "bad", nil, rng.Intn(100)))
			case 4:
				h = append(h, mkEvent(zk, node, "weightless", nil, rng.Intn(100)))
			default:
				if rng.Intn(4) == 0 {
					h = append(h, foreign)
				} else {
					h = append(h, mkEvent(zk, node, "del", nil, 0))
				}
			}
		}
		deliverCase(cfg, r, zk, h)
	}
}

// deliverCase feeds the history through the client's own update loop and checks the stored state.
func deliverCase(cfg Config, r *hx.Result, zk string, h []event) {
	c := new(d2.Client)
	first := d2.VerifNewUris(cluster)
	c.VerifSeed("svc", &d2.Service{ServiceName: "svc", ClusterName: cluster}, first)
	frames := []frame{{handle: first, rec: first.Contents(), canon: "()"}}
	for i, e := range h {
		panicked, pv := hx.Recover(func() { c.VerifDeliverUriEvents(cluster, e.real()) })
		r.OracleCases++
		op := foldOp(zk, h[:i+1])
		if panicked {
			r.OracleFail(hx.Case{Sig: "C19 waitForUriUpdates panics", Op: op, Impl: fmt.Sprint("panic ", pv), Expected: "state updated"})
			return
		}
		cur := c.VerifCurrentUris(cluster)
		prev := frames[len(frames)-1]
		f := frame{handle: cur, rec: cur.Contents()}
		f.canon = canonContents(f.rec)
		if cur.Same(prev.handle) {
			f.trace = prev.trace + "s"
		} else {
			f.trace = prev.trace + "n"
		}
		if want := canonRef(refFold(zk, h[:i+1])); want != f.canon {
			r.OracleFail(hx.Case{Sig: "C19 stored snapshot differs from the fold of the event history", Op: op, Impl: f.canon, Expected: want})
		}
		for j, a := range frames {
			if !equalLive(a.rec, a.handle.Live()) {
				r.OracleFail(hx.Case{Sig: "C19 earlier snapshot modified by a later event", Op: op,
					Impl: fmt.Sprintf("snapshot after %d events now reads %s", j, canonContents(a.handle.Contents())), Expected: a.canon})
			}
		}
		frames = append(frames, f)
		r.Count("event:" + e.variant)
	}
	r.Count("history:delivered")
	if cfg.Driver != nil && len(h) > 0 {
		op := foldOp(zk, h)
		r.Ops++
		m := cfg.Driver.MustAsk(op)
		last := frames[len(frames)-1]
		if impl := last.trace + " " + last.canon; m != impl {
			r.Disagree(hx.Case{Sig: "C19 d2fold", Op: op, Impl: impl, Model: m})
		}
	}
	if isNonTrivial(h) {
		r.Distinctive(foldOp(zk, h))
	}
}
