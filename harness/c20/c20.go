// Package c20: correspondence + direct oracle for CleanTargetDir (property C20).
package c20

import (
	"fmt"
	"math/rand"
	"os"
	"path/filepath"
	"sort"
	"strconv"
	"strings"

	"github.com/PapaCharlie/go-restli/v2/codegen/utils"
	"verif/harness/hx"
)

type node struct {
	name     string
	dir      bool
	content  int
	children []*node
}

func (n *node) sexp() string {
	if !n.dir {
		return fmt.Sprintf("(f %s %d)", n.name, n.content)
	}
	var b strings.Builder
	b.WriteString("(d " + n.name)
	for _, c := range n.children {
		b.WriteString(" " + c.sexp())
	}
	b.WriteString(")")
	return b.String()
}

func nodeOfSexp(s *hx.Sexp) *node {
	if s.List[0].Atom == "f" {
		c, _ := strconv.Atoi(s.List[2].Atom)
		return &node{name: s.List[1].Atom, content: c}
	}
	n := &node{name: s.List[1].Atom, dir: true}
	for _, c := range s.List[2:] {
		n.children = append(n.children, nodeOfSexp(c))
	}
	return n
}

func sortTree(n *node) {
	sort.Slice(n.children, func(i, j int) bool { return n.children[i].name < n.children[j].name })
	for _, c := range n.children {
		if c.dir {
			sortTree(c)
		}
	}
}

func materialise(base string, n *node) error {
	p := filepath.Join(base, n.name)
	if !n.dir {
		return os.WriteFile(p, []byte(strconv.Itoa(n.content)), 0o644)
	}
	if err := os.MkdirAll(p, 0o755); err != nil {
		return err
	}
	for _, c := range n.children {
		if err := materialise(p, c); err != nil {
			return err
		}
	}
	return nil
}

func readBack(path, name string) (*node, error) {
	st, err := os.Lstat(path)
	if err != nil {
		if os.IsNotExist(err) {
			return nil, nil
		}
		return nil, err
	}
	if !st.IsDir() {
		data, err := os.ReadFile(path)
		if err != nil {
			return nil, err
		}
		c, err := strconv.Atoi(string(data))
		if err != nil {
			c = -1 // content changed into something else
		}
		return &node{name: name, content: c}, nil
	}
	ents, err := os.ReadDir(path)
	if err != nil {
		return nil, err
	}
	n := &node{name: name, dir: true}
	for _, e := range ents {
		c, err := readBack(filepath.Join(path, e.Name()), e.Name())
		if err != nil {
			return nil, err
		}
		n.children = append(n.children, c)
	}
	return n, nil
}

type fileAt struct {
	path    string
	name    string
	content int
}

func files(n *node, prefix string, out *[]fileAt) {
	if n == nil {
		return
	}
	if !n.dir {
		*out = append(*out, fileAt{prefix + "/" + n.name, n.name, n.content})
		return
	}
	for _, c := range n.children {
		files(c, prefix+"/"+n.name, out)
	}
}

func emptyDirs(n *node, root bool, out *[]string, prefix string) {
	if n == nil || !n.dir {
		return
	}
	if len(n.children) == 0 && !root {
		*out = append(*out, prefix+"/"+n.name)
	}
	for _, c := range n.children {
		emptyDirs(c, false, out, prefix+"/"+n.name)
	}
}



func owned(name string) bool {
	return strings.HasSuffix(name, utils.GeneratedFileSuffix) || name == manifestName
}

// entry kinds of the property's quantifier, plus the awkward ones
var kinds = []string{"gen", "manifest", "usergo", "other", "emptydir", "dir", "manifestdir", "gensuffixonly", "genlike", "gendir"}

func genChildren(rng *rand.Rand, depth int, maxEntries int, nextID *int) []*node {
	n := rng.Intn(maxEntries + 1)
	used := map[string]bool{}
	var out []*node
	for i := 0; i < n; i++ {
		k := kinds[rng.Intn(len(kinds))]
		// bias towards the six kinds the property names
		if rng.Intn(4) != 0 {
			k = kinds[rng.Intn(6)]
		}
		var c *node
		*nextID++
		id := *nextID
		tag := string(rune('a' + rng.Intn(4)))
		switch k {
		case "gen":
			c = &node{name: tag + utils.GeneratedFileSuffix, content: id}
		case "manifest":
			c = &node{name: manifestName, content: id}
		case "usergo":
			c = &node{name: tag + ".go", content: id}
		case "other":
			c = &node{name: tag + ".txt", content: id}
		case "emptydir":
			c = &node{name: "e" + tag, dir: true}
		case "dir":
			c = &node{name: "d" + tag, dir: true}
			if depth > 0 {
				c.children = genChildren(rng, depth-1, maxEntries, nextID)
			}
		case "manifestdir":
			c = &node{name: manifestName, dir: true}
			if depth > 0 && rng.Intn(2) == 0 {
				c.children = genChildren(rng, depth-1, 2, nextID)
			}
		case "gensuffixonly":
			c = &node{name: utils.GeneratedFileSuffix, content: id}
		case "genlike":
			c = &node{name: tag + utils.GeneratedFileSuffix + ".bak", content: id}
		case "gendir":
			c = &node{name: "g" + tag + utils.GeneratedFileSuffix, dir: true}
			if depth > 0 {
				c.children = genChildren(rng, depth-1, 2, nextID)
			}
		}
		if used[c.name] {
			continue
		}
		used[c.name] = true
		out = append(out, c)
	}
	return out
}

// blockedTree: some directory named like the manifest is non-empty — the one situation in which
// the cleaner legitimately fails on a well-behaved filesystem.
func blockedTree(n *node) bool {
	if n == nil || !n.dir {
		return false
	}
	for _, c := range n.children {
		if c.dir && c.name == manifestName && len(c.children) > 0 {
			return true
		}
		if blockedTree(c) {
			return true
		}
	}
	return false
}

func kindsOf(n *node, r *hx.Result) {
	if !n.dir {
		switch {
		case n.name == manifestName:
			r.Count("entry:manifest-file")
		case strings.HasSuffix(n.name, utils.GeneratedFileSuffix):
			r.Count("entry:generated-file")
		default:
			r.Count("entry:foreign-file")
		}
		return
	}
	if n.name == manifestName {
		r.Count("entry:manifest-named-dir")
	} else if len(n.children) == 0 {
		r.Count("entry:empty-dir")
	} else {
		r.Count("entry:dir")
	}
	for _, c := range n.children {
		kindsOf(c, r)
	}
}

type Config struct {
	Module string
	Seed   int64
	Tier   string
	Driver *hx.Driver
	Replay []string // op lines to run first
}

// runOne materialises the tree (nil = missing target), cleans it with the real function and
// checks D (the property itself) and K (agreement with the Lean model).
func runOne(cfg Config, r *hx.Result, scratch string, tree *node, dot bool) {
	caseDir, err := os.MkdirTemp(scratch, "case")
	if err != nil {
		panic(err)
	}
	defer os.RemoveAll(caseDir)
	rootName := "out"
	if tree != nil {
		tree.name = rootName
		sortTree(tree)
		if err := materialise(caseDir, tree); err != nil {
			panic(err)
		}
	}
	treeS := "-"
	if tree != nil {
		treeS = tree.sexp()
	}
	dotS := "0"
	if dot {
		dotS = "1"
	}
	op := fmt.Sprintf("clean %s %s %s", cfg.Module, dotS, treeS)

	target := filepath.Join(caseDir, rootName)
	var implErr error
	var panicked bool
	var pv any
	if dot {
		wd, _ := os.Getwd()
		if err := os.Chdir(target); err != nil {
			panic(err)
		}
		panicked, pv = hx.Recover(func() { implErr = utils.CleanTargetDir(".") })
		os.Chdir(wd)
	} else {
		panicked, pv = hx.Recover(func() { implErr = utils.CleanTargetDir(target) })
	}
	after, err := readBack(target, rootName)
	if err != nil {
		panic(err)
	}
	afterS := "-"
	if after != nil {
		afterS = after.sexp()
	}
	implS := "ok " + afterS
	if implErr != nil {
		implS = "err " + afterS
	}
	if panicked {
		implS = fmt.Sprintf("panic %v", pv)
	}
	r.OracleCases++
	if tree != nil {
		kindsOf(tree, r)
	} else {
		r.Count("target:missing")
	}
	if dot {
		r.Count("target:dot")
	}
	if implErr != nil {
		r.Count("outcome:error")
	} else {
		r.Count("outcome:ok")
	}
	if treeS != afterS {
		r.Distinctive(op)
	}

	// ---- D: the property, evaluated on the implementation alone
	var before, now []fileAt
	files(tree, "", &before)
	files(after, "", &now)
	nowSet := map[fileAt]bool{}
	for _, f := range now {
		nowSet[f] = true
	}
	beforeSet := map[fileAt]bool{}
	for _, f := range before {
		beforeSet[f] = true
	}
	fail := func(sig, expected string) {
		r.OracleFail(hx.Case{Sig: sig, Op: op, Impl: implS, Expected: expected})
	}
	if panicked {
		fail("C20 panic", "no panic")
	}
	for _, f := range before {
		if !owned(f.name) && !nowSet[f] {
			fail("C20 foreign file lost or changed", "file "+f.path+" kept byte for byte")
		}
	}
	for _, f := range now {
		if !beforeSet[f] {
			fail("C20 file created or changed", "no new or altered files")
		}
	}
	if implErr != nil && !panicked && !blockedTree(tree) {
		fail("C20 clean returned an error on a tree it should clean", "success (no directory is named like the manifest and non-empty): "+implErr.Error())
	}
	if implErr == nil && !panicked {
		for _, f := range now {
			if owned(f.name) {
				fail("C20 owned file left after successful clean", "all generated files and manifests removed")
			}
		}
		var ed []string
		emptyDirs(after, true, &ed, "")
		if len(ed) > 0 {
			fail("C20 empty directory left", "directories left empty are removed: "+strings.Join(ed, ","))
		}
		if after != nil && len(after.children) == 0 && !dot {
			fail("C20 empty target left", "an emptied target directory is removed")
		}
		if dot && after == nil {
			fail("C20 current directory removed", "\".\" is never removed")
		}
		// idempotence on the real filesystem
		if after != nil {
			var err2 error
			if dot {
				wd, _ := os.Getwd()
				os.Chdir(target)
				err2 = utils.CleanTargetDir(".")
				os.Chdir(wd)
			} else {
				err2 = utils.CleanTargetDir(target)
			}
			again, _ := readBack(target, rootName)
			againS := "-"
			if again != nil {
				againS = again.sexp()
			}
			if err2 != nil || againS != afterS {
				fail("C20 not idempotent", "second clean is a no-op, got "+againS)
			}
		}
	}

	// ---- K: the Lean model
	if cfg.Driver != nil {
		r.Ops++
		m := cfg.Driver.MustAsk(op)
		if m != implS {
			r.Disagree(hx.Case{Sig: "C20 clean", Op: op, Impl: implS, Model: m})
		}
	}
}

func Run(cfg Config) *hx.Result {
	r := hx.NewResult("C20", cfg.Module, cfg.Seed, cfg.Tier)
	r.Rule = "directory trees over {generated file, manifest, user .go, other file, empty dir, nested dir, manifest-named dir, '.gr.go' alone, '*.gr.go.bak', dir named *.gr.go}; materialised in a scratch dir, cleaned by the real CleanTargetDir, re-listed and compared; a case is non-trivial when cleaning changes the tree; distinct by op line"
	scratch, err := os.MkdirTemp("", "verif-c20-")
	if err != nil {
		panic(err)
	}
	defer os.RemoveAll(scratch)
	rng := hx.Rng(cfg.Seed, "c20")
	if len(cfg.Replay) > 0 {
		for _, line := range cfg.Replay {
			xs, err := hx.ParseLine(line)
			if err != nil || len(xs) != 4 || xs[0].Atom != "clean" {
				panic("c20: cannot replay " + line)
			}
			var t *node
			if xs[3].IsList {
				t = nodeOfSexp(xs[3])
			}
			runOne(cfg, r, scratch, t, xs[2].Atom == "1")
		}
		return r
	}

	// fixed corpus first: missing target, empty target, the property's named situations
	runOne(cfg, r, scratch, nil, false)
	runOne(cfg, r, scratch, &node{dir: true}, false)
	runOne(cfg, r, scratch, &node{dir: true}, true)
	id := 0
	mk := func(name string) *node { id++; return &node{name: name, content: id} }
	corpus := []*node{
		{dir: true, children: []*node{mk(manifestName), mk("x" + utils.GeneratedFileSuffix)}},
		{dir: true, children: []*node{mk("custom.go"), mk("x" + utils.GeneratedFileSuffix)}},
		{dir: true, children: []*node{{name: "a", dir: true, children: []*node{{name: "b", dir: true, children: []*node{{name: "c", dir: true}}}}}}},
		{dir: true, children: []*node{{name: manifestName, dir: true, children: []*node{mk("u.txt")}}, mk("z" + utils.GeneratedFileSuffix)}},
		{dir: true, children: []*node{{name: "a", dir: true, children: []*node{{name: manifestName, dir: true, children: []*node{mk("y" + utils.GeneratedFileSuffix)}}}}, mk("z" + utils.GeneratedFileSuffix), mk(manifestName)}},
		{dir: true, children: []*node{{name: manifestName, dir: true}}},
	}
	for _, t := range corpus {
		runOne(cfg, r, scratch, t, false)
		runOne(cfg, r, scratch, t, true)
	}

	n := 400
	if cfg.Tier == "thorough" {
		n = 6000
	}
	for i := 0; i < n; i++ {
		depth := 1 + rng.Intn(3)
		nid := 0
		t := &node{dir: true, children: genChildren(rng, depth, 3+rng.Intn(2), &nid)}
		runOne(cfg, r, scratch, t, rng.Intn(5) == 0)
	}
	return r
}
