// Package c20: correspondence + direct oracle for CleanTargetDir (property C20).
package c20

import (
	"fmt"
	"math/rand"
	"os"
	"path/filepath"
	"sort"
	"strconv"
	"strings"

	"github.com/PapaCharlie/go-restli/v2/codegen/utils"
	"verif/harness/hx"
)

// node: a regular file (content id), a directory, or a symbolic link. The destination of a link
// is written relative to the case directory ("outside/gen", "out/da", "out" = the target itself,
// "nowhere" = dangling) and materialised as an absolute path, or is literally "." / ".." (a
// relative link to the directory the link lives in / its parent).
type node struct {
	name     string
	dir      bool
	link     bool
	dest     string
	content  int
	children []*node
}

func (n *node) sexp() string {
	if n.link {
		return fmt.Sprintf("(l %s %s)", n.name, n.dest)
	}
	if !n.dir {
		return fmt.Sprintf("(f %s %d)", n.name, n.content)
	}
	var b strings.Builder
	b.WriteString("(d " + n.name)
	for _, c := range n.children {
		b.WriteString(" " + c.sexp())
	}
	b.WriteString(")")
	return b.String()
}

func nodeOfSexp(s *hx.Sexp) *node {
	if s.List[0].Atom == "l" {
		return &node{name: s.List[1].Atom, link: true, dest: s.List[2].Atom}
	}
	if s.List[0].Atom == "f" {
		c, _ := strconv.Atoi(s.List[2].Atom)
		return &node{name: s.List[1].Atom, content: c}
	}
	n := &node{name: s.List[1].Atom, dir: true}
	for _, c := range s.List[2:] {
		n.children = append(n.children, nodeOfSexp(c))
	}
	return n
}

func sortTree(n *node) {
	sort.Slice(n.children, func(i, j int) bool { return n.children[i].name < n.children[j].name })
	for _, c := range n.children {
		if c.dir {
			sortTree(c)
		}
	}
}

func relativeDest(dest string) bool {
	return dest == "." || dest == ".." || strings.HasPrefix(dest, "./") || strings.HasPrefix(dest, "../")
}

// linkText: what is handed to os.Symlink for a destination
func linkText(caseDir, dest string) string {
	if relativeDest(dest) {
		return dest
	}
	return filepath.Join(caseDir, dest)
}

// destOfText: inverse of linkText, so that a link that still points where it pointed reads back equal
func destOfText(caseDir, text string) string {
	if strings.HasPrefix(text, caseDir+string(filepath.Separator)) {
		return filepath.ToSlash(text[len(caseDir)+1:])
	}
	return text
}

func materialise(caseDir, base string, n *node) error {
	p := filepath.Join(base, n.name)
	if n.link {
		return os.Symlink(linkText(caseDir, n.dest), p)
	}
	if !n.dir {
		return os.WriteFile(p, []byte(strconv.Itoa(n.content)), 0o644)
	}
	if err := os.MkdirAll(p, 0o755); err != nil {
		return err
	}
	for _, c := range n.children {
		if err := materialise(caseDir, p, c); err != nil {
			return err
		}
	}
	return nil
}

// readBack lists what is at path without following any link (Lstat, Readlink)
func readBack(caseDir, path, name string) (*node, error) {
	st, err := os.Lstat(path)
	if err != nil {
		if os.IsNotExist(err) {
			return nil, nil
		}
		return nil, err
	}
	if st.Mode()&os.ModeSymlink != 0 {
		text, err := os.Readlink(path)
		if err != nil {
			return nil, err
		}
		return &node{name: name, link: true, dest: destOfText(caseDir, text)}, nil
	}
	if !st.IsDir() {
		data, err := os.ReadFile(path)
		if err != nil {
			return nil, err
		}
		c, err := strconv.Atoi(string(data))
		if err != nil {
			c = -1 // content changed into something else
		}
		return &node{name: name, content: c}, nil
	}
	ents, err := os.ReadDir(path)
	if err != nil {
		return nil, err
	}
	n := &node{name: name, dir: true}
	for _, e := range ents {
		c, err := readBack(caseDir, filepath.Join(path, e.Name()), e.Name())
		if err != nil {
			return nil, err
		}
		n.children = append(n.children, c)
	}
	return n, nil
}

// fileAt: an occurrence of a non-directory entry; for a symbolic link `link` is set and dest is
// where it points
type fileAt struct {
	path    string
	name    string
	content int
	link    bool
	dest    string
}

func files(n *node, prefix string, out *[]fileAt) {
	if n == nil {
		return
	}
	if n.link {
		*out = append(*out, fileAt{path: prefix + "/" + n.name, name: n.name, link: true, dest: n.dest})
		return
	}
	if !n.dir {
		*out = append(*out, fileAt{path: prefix + "/" + n.name, name: n.name, content: n.content})
		return
	}
	for _, c := range n.children {
		files(c, prefix+"/"+n.name, out)
	}
}

func emptyDirs(n *node, root bool, out *[]string, prefix string) {
	if n == nil || !n.dir {
		return
	}
	if len(n.children) == 0 && !root {
		*out = append(*out, prefix+"/"+n.name)
	}
	for _, c := range n.children {
		emptyDirs(c, false, out, prefix+"/"+n.name)
	}
}

func owned(name string) bool {
	return strings.HasSuffix(name, utils.GeneratedFileSuffix) || name == manifestName
}

// entry kinds of the property's quantifier, plus the awkward ones
var kinds = []string{"gen", "manifest", "usergo", "other", "emptydir", "dir", "manifestdir", "gensuffixonly", "genlike", "gendir"}

func genChildren(rng *rand.Rand, depth int, maxEntries int, nextID *int) []*node {
	n := rng.Intn(maxEntries + 1)
	used := map[string]bool{}
	var out []*node
	for i := 0; i < n; i++ {
		k := kinds[rng.Intn(len(kinds))]
		// bias towards the six kinds the property names
		if rng.Intn(4) != 0 {
			k = kinds[rng.Intn(6)]
		}
		var c *node
		*nextID++
		id := *nextID
		tag := string(rune('a' + rng.Intn(4)))
		switch k {
		case "gen":
			c = &node{name: tag + utils.GeneratedFileSuffix, content: id}
		case "manifest":
			c = &node{name: manifestName, content: id}
		case "usergo":
			c = &node{name: tag + ".go", content: id}
		case "other":
			c = &node{name: tag + ".txt", content: id}
		case "emptydir":
			c = &node{name: "e" + tag, dir: true}
		case "dir":
			c = &node{name: "d" + tag, dir: true}
			if depth > 0 {
				c.children = genChildren(rng, depth-1, maxEntries, nextID)
			}
		case "manifestdir":
			c = &node{name: manifestName, dir: true}
			if depth > 0 && rng.Intn(2) == 0 {
				c.children = genChildren(rng, depth-1, 2, nextID)
			}
		case "gensuffixonly":
			c = &node{name: utils.GeneratedFileSuffix, content: id}
		case "genlike":
			c = &node{name: tag + utils.GeneratedFileSuffix + ".bak", content: id}
		case "gendir":
			c = &node{name: "g" + tag + utils.GeneratedFileSuffix, dir: true}
			if depth > 0 {
				c.children = genChildren(rng, depth-1, 2, nextID)
			}
		}
		if used[c.name] {
			continue
		}
		used[c.name] = true
		out = append(out, c)
	}
	return out
}

// outsideTree: the sibling of the target, "another project": a package of generated-looking files
// with a manifest and a hand-written file, a package holding generated files only (it would end up
// empty, and be removed, if it were cleaned), and loose files. Links in the target point here.
func outsideTree(nextID *int) *node {
	mk := func(name string) *node { *nextID++; return &node{name: name, content: *nextID} }
	t := &node{name: "outside", dir: true, children: []*node{
		{name: "gen", dir: true, children: []*node{mk("Bar" + utils.GeneratedFileSuffix), mk("Bar.go"), mk(manifestName),
			{name: "sub", dir: true, children: []*node{mk("Deep" + utils.GeneratedFileSuffix)}}}},
		{name: "onlygen", dir: true, children: []*node{mk("Baz" + utils.GeneratedFileSuffix)}},
		mk("keep.txt"), mk("top" + utils.GeneratedFileSuffix), mk(manifestName),
	}}
	sortTree(t)
	return t
}

type dirAt struct {
	n    *node
	path string // relative to the case directory, "out/…"
	up   []*dirAt
}

func dirsOf(n *node, path string, up []*dirAt, out *[]*dirAt) {
	d := &dirAt{n: n, path: path, up: up}
	*out = append(*out, d)
	for _, c := range n.children {
		if c.dir {
			dirsOf(c, path+"/"+c.name, append(append([]*dirAt{}, up...), d), out)
		}
	}
}

// addLinks puts symbolic links into a tree of files and directories: to a directory inside the
// target, to directories and files outside it, to an ancestor, to nothing; under plain names, names
// with the generated suffix and the manifest name. Were links followed, the walk must still end:
// a directory linked to from inside the target (and everything below it) holds no link, and at
// most one link per tree points to an ancestor of its own directory, so a walk that follows links
// runs along one chain until the kernel refuses (ELOOP) instead of branching.
func addLinks(rng *rand.Rand, tree *node) {
	n := 0
	switch rng.Intn(6) {
	case 0, 1:
		return
	case 2, 3:
		n = 1
	case 4:
		n = 2
	default:
		n = 3 + rng.Intn(2)
	}
	var dirs []*dirAt
	dirsOf(tree, "out", nil, &dirs)
	noHost := map[*node]bool{}
	var inDests []*dirAt
	if len(dirs) > 1 && rng.Intn(2) == 0 {
		d := dirs[1+rng.Intn(len(dirs)-1)]
		inDests = append(inDests, d)
		var sub []*dirAt
		dirsOf(d.n, d.path, nil, &sub)
		for _, x := range sub {
			noHost[x.n] = true
		}
	}
	var hosts []*dirAt
	for _, d := range dirs {
		if !noHost[d.n] {
			hosts = append(hosts, d)
		}
	}
	upUsed := false
	for i := 0; i < n; i++ {
		h := hosts[rng.Intn(len(hosts))]
		if rng.Intn(3) == 0 {
			h = hosts[0] // the target itself
		}
		tag := string(rune('a' + rng.Intn(3)))
		var name string
		switch rng.Intn(8) {
		case 0, 1, 2:
			name = "l" + tag
		case 3, 4:
			name = "l" + tag + utils.GeneratedFileSuffix
		case 5:
			name = "l" + tag + ".go"
		case 6:
			name = manifestName
		default:
			name = utils.GeneratedFileSuffix
		}
		dup := false
		for _, c := range h.n.children {
			if c.name == name {
				dup = true
			}
		}
		if dup {
			continue
		}
		var dest string
		switch k := rng.Intn(12); {
		case k <= 1:
			dest = "outside/gen"
		case k == 2:
			dest = "outside/onlygen"
		case k == 3:
			dest = "outside"
		case k == 4:
			dest = []string{"outside/gen/Bar" + utils.GeneratedFileSuffix, "outside/keep.txt", "outside/gen/" + manifestName}[rng.Intn(3)]
		case k == 5:
			dest = "nowhere"
		case k <= 7 && len(inDests) > 0:
			dest = inDests[0].path
		case k <= 9 && !upUsed:
			upUsed = true
			switch {
			case len(h.up) > 0 && rng.Intn(2) == 0:
				dest = h.up[rng.Intn(len(h.up))].path // absolute link to an ancestor
			case len(h.up) > 0 && rng.Intn(2) == 0:
				dest = ".."
			case rng.Intn(2) == 0:
				dest = "."
			default:
				dest = h.path // absolute link to the directory it is in
			}
		default:
			dest = "outside/gen/sub"
		}
		h.n.children = append(h.n.children, &node{name: name, link: true, dest: dest})
	}
}

// blockedTree: some directory named like the manifest is non-empty — the one situation in which
// the cleaner legitimately fails on a well-behaved filesystem.
func blockedTree(n *node) bool {
	if n == nil || !n.dir {
		return false
	}
	for _, c := range n.children {
		if c.dir && c.name == manifestName && len(c.children) > 0 {
			return true
		}
		if blockedTree(c) {
			return true
		}
	}
	return false
}

func kindsOf(n *node, r *hx.Result) {
	if n.link {
		to := "dir-outside"
		switch {
		case n.dest == "nowhere":
			to = "nothing"
		case n.dest == "." || n.dest == ".." || n.dest == "out":
			to = "ancestor"
		case strings.HasPrefix(n.dest, "out/"):
			to = "dir-inside-or-ancestor"
		case strings.HasSuffix(n.dest, utils.GeneratedFileSuffix) || strings.HasSuffix(n.dest, ".txt") || strings.HasSuffix(n.dest, manifestName):
			to = "file-outside"
		}
		r.Count("entry:link-to-" + to)
		switch {
		case n.name == manifestName:
			r.Count("linkname:manifest")
		case strings.HasSuffix(n.name, utils.GeneratedFileSuffix):
			r.Count("linkname:generated-suffix")
		default:
			r.Count("linkname:foreign")
		}
		return
	}
	if !n.dir {
		switch {
		case n.name == manifestName:
			r.Count("entry:manifest-file")
		case strings.HasSuffix(n.name, utils.GeneratedFileSuffix):
			r.Count("entry:generated-file")
		default:
			r.Count("entry:foreign-file")
		}
		return
	}
	if n.name == manifestName {
		r.Count("entry:manifest-named-dir")
	} else if len(n.children) == 0 {
		r.Count("entry:empty-dir")
	} else {
		r.Count("entry:dir")
	}
	for _, c := range n.children {
		kindsOf(c, r)
	}
}

type Config struct {
	Module string
	Seed   int64
	Tier   string
	Driver *hx.Driver
	Replay []string // op lines to run first
}

// runOne materialises the tree (nil = missing target), cleans it with the real function and
// checks D (the property itself) and K (agreement with the Lean model).
//
// outside (nil = none, the op format of older replays) is materialised beside the target as
// <case>/outside and listed again afterwards: nothing in it may change.
func runOne(cfg Config, r *hx.Result, scratch string, tree, outside *node, dot bool) {
	caseDir, err := os.MkdirTemp(scratch, "case")
	if err != nil {
		panic(err)
	}
	defer os.RemoveAll(caseDir)
	rootName := "out"
	if outside != nil {
		outside.name = "outside"
		sortTree(outside)
		if err := materialise(caseDir, caseDir, outside); err != nil {
			panic(err)
		}
	}
	if tree != nil {
		tree.name = rootName
		sortTree(tree)
		if err := materialise(caseDir, caseDir, tree); err != nil {
			panic(err)
		}
	}
	treeS := "-"
	if tree != nil {
		treeS = tree.sexp()
	}
	dotS := "0"
	if dot {
		dotS = "1"
	}
	op := fmt.Sprintf("clean %s %s %s", cfg.Module, dotS, treeS)
	outsideS := ""
	if outside != nil {
		outsideS = outside.sexp()
		op += " " + outsideS
	}
	listOutside := func() string {
		if outside == nil {
			return ""
		}
		o, err := readBack(caseDir, filepath.Join(caseDir, "outside"), "outside")
		if err != nil {
			panic(err)
		}
		if o == nil {
			return "-"
		}
		return o.sexp()
	}

	target := filepath.Join(caseDir, rootName)
	var implErr error
	var panicked bool
	var pv any
	if dot {
		wd, _ := os.Getwd()
		if err := os.Chdir(target); err != nil {
			panic(err)
		}
		panicked, pv = hx.Recover(func() { implErr = utils.CleanTargetDir(".") })
		os.Chdir(wd)
	} else {
		panicked, pv = hx.Recover(func() { implErr = utils.CleanTargetDir(target) })
	}
	after, err := readBack(caseDir, target, rootName)
	if err != nil {
		panic(err)
	}
	afterS := "-"
	if after != nil {
		afterS = after.sexp()
	}
	outsideAfterS := listOutside()
	implS := "ok " + afterS
	if implErr != nil {
		implS = "err " + afterS
	}
	if outside != nil {
		implS += " " + outsideAfterS
	}
	if panicked {
		implS = fmt.Sprintf("panic %v", pv)
	}
	r.OracleCases++
	if tree != nil {
		kindsOf(tree, r)
	} else {
		r.Count("target:missing")
	}
	if dot {
		r.Count("target:dot")
	}
	if implErr != nil {
		r.Count("outcome:error")
	} else {
		r.Count("outcome:ok")
	}
	if treeS != afterS || outsideS != outsideAfterS {
		r.Distinctive(op)
	}

	// ---- D: the property, evaluated on the implementation alone
	var before, now []fileAt
	files(tree, "", &before)
	files(after, "", &now)
	nowSet := map[fileAt]bool{}
	for _, f := range now {
		nowSet[f] = true
	}
	beforeSet := map[fileAt]bool{}
	for _, f := range before {
		beforeSet[f] = true
	}
	fail := func(sig, expected string) {
		r.OracleFail(hx.Case{Sig: sig, Op: op, Impl: implS, Expected: expected})
	}
	if panicked {
		fail("C20 panic", "no panic")
	}
	// nothing beside the target is touched, wherever the links in the target point
	if outsideAfterS != outsideS {
		fail("C20 something outside the target was removed or changed", "the directory beside the target is left as it was: "+outsideS)
	}
	for _, f := range before {
		if !owned(f.name) && !nowSet[f] {
			if f.link {
				fail("C20 foreign symbolic link lost or changed", "link "+f.path+" -> "+f.dest+" kept (a link is not a generated file unless its name says so, and is never followed)")
			} else {
				fail("C20 foreign file lost or changed", "file "+f.path+" kept byte for byte")
			}
		}
	}
	for _, f := range now {
		if !beforeSet[f] {
			fail("C20 file created or changed", "no new or altered files")
		}
	}
	if implErr != nil && !panicked && !blockedTree(tree) {
		fail("C20 clean returned an error on a tree it should clean", "success (no directory is named like the manifest and non-empty): "+implErr.Error())
	}
	if implErr == nil && !panicked {
		for _, f := range now {
			if owned(f.name) {
				fail("C20 owned file left after successful clean", "all generated files and manifests removed")
			}
		}
		var ed []string
		emptyDirs(after, true, &ed, "")
		if len(ed) > 0 {
			fail("C20 empty directory left", "directories left empty are removed: "+strings.Join(ed, ","))
		}
		if after != nil && len(after.children) == 0 && !dot {
			fail("C20 empty target left", "an emptied target directory is removed")
		}
		if dot && after == nil {
			fail("C20 current directory removed", "\".\" is never removed")
		}
		// idempotence on the real filesystem
		if after != nil {
			var err2 error
			if dot {
				wd, _ := os.Getwd()
				os.Chdir(target)
				err2 = utils.CleanTargetDir(".")
				os.Chdir(wd)
			} else {
				err2 = utils.CleanTargetDir(target)
			}
			again, _ := readBack(caseDir, target, rootName)
			againS := "-"
			if again != nil {
				againS = again.sexp()
			}
			if err2 != nil || againS != afterS {
				fail("C20 not idempotent", "second clean is a no-op, got "+againS)
			}
			if o2 := listOutside(); o2 != outsideS {
				fail("C20 something outside the target was removed or changed", "the directory beside the target is left as it was by a second clean as well: "+outsideS)
			}
		}
	}

	// ---- K: the Lean model
	if cfg.Driver != nil {
		r.Ops++
		m := cfg.Driver.MustAsk(op)
		if m != implS {
			r.Disagree(hx.Case{Sig: "C20 clean", Op: op, Impl: implS, Model: m})
		}
	}
}

func Run(cfg Config) *hx.Result {
	r := hx.NewResult("C20", cfg.Module, cfg.Seed, cfg.Tier)
	r.Rule = "directory trees over {generated file, manifest, user .go, other file, empty dir, nested dir, manifest-named dir, '.gr.go' alone, '*.gr.go.bak', dir named *.gr.go, symbolic link (to a directory inside the target, to a directory or a file outside it, to an ancestor, to nothing; named plainly, with the generated suffix, like the manifest)}; materialised in a scratch dir next to an 'outside' directory of generated-looking files, cleaned by the real CleanTargetDir, both re-listed without following links and compared; a case is non-trivial when cleaning changes something; distinct by op line"
	scratch, err := os.MkdirTemp("", "verif-c20-")
	if err != nil {
		panic(err)
	}
	defer os.RemoveAll(scratch)
	if resolved, err := filepath.EvalSymlinks(scratch); err == nil {
		scratch = resolved
	}
	rng := hx.Rng(cfg.Seed, "c20")
	if len(cfg.Replay) > 0 {
		for _, line := range cfg.Replay {
			xs, err := hx.ParseLine(line)
			if err != nil || (len(xs) != 4 && len(xs) != 5) || xs[0].Atom != "clean" {
				panic("c20: cannot replay " + line)
			}
			var t, o *node
			if xs[3].IsList {
				t = nodeOfSexp(xs[3])
			}
			if len(xs) == 5 && xs[4].IsList {
				o = nodeOfSexp(xs[4])
			}
			runOne(cfg, r, scratch, t, o, xs[2].Atom == "1")
		}
		return r
	}

	id := 0
	mk := func(name string) *node { id++; return &node{name: name, content: id} }
	ln := func(name, dest string) *node { return &node{name: name, link: true, dest: dest} }
	dir := func(name string, cs ...*node) *node { return &node{name: name, dir: true, children: cs} }
	gs := utils.GeneratedFileSuffix

	// fixed corpus first: missing target, empty target, the property's named situations
	runOne(cfg, r, scratch, nil, outsideTree(&id), false)
	runOne(cfg, r, scratch, &node{dir: true}, outsideTree(&id), false)
	runOne(cfg, r, scratch, &node{dir: true}, outsideTree(&id), true)
	corpus := []*node{
		dir("", mk(manifestName), mk("x"+gs)),
		dir("", mk("custom.go"), mk("x"+gs)),
		dir("", dir("a", dir("b", dir("c")))),
		dir("", dir(manifestName, mk("u.txt")), mk("z"+gs)),
		dir("", dir("a", dir(manifestName, mk("y"+gs))), mk("z"+gs), mk(manifestName)),
		dir("", dir(manifestName)),
		// symbolic links: another project's bindings made reachable from the output directory
		dir("", dir("pkg", mk("Foo"+gs), mk("custom.go"), ln("onlygen", "outside/onlygen")), ln("othergen", "outside/gen")),
		// a directory that holds nothing but a link to a directory of generated files
		dir("", dir("pkg", mk("Foo"+gs), ln("onlygen", "outside/onlygen"))),
		// links whose own names look generated: unlinked, whatever they point to
		dir("", ln("l"+gs, "outside/gen"), ln(manifestName, "outside/gen"), mk("keep.go")),
		dir("", dir("p", ln("l"+gs, "outside/gen/Bar"+gs), ln("m"+gs, "nowhere"), ln(gs, "outside")), mk("keep.go")),
		// dangling links and links to files under foreign names: kept
		dir("", ln("gone", "nowhere"), ln("bar", "outside/gen/Bar"+gs), ln("txt", "outside/keep.txt"), mk("a"+gs)),
		// a link to a directory inside the target that cleaning empties
		dir("", dir("da", mk("a"+gs)), ln("lda", "out/da"), mk("keep.go")),
		dir("", dir("da", mk("a"+gs), mk("a.go")), ln("lda", "out/da")),
		dir("", dir("da", dir("db", mk("a"+gs))), dir("dc", ln("ldb", "out/da/db")), mk(manifestName)),
		// links to an ancestor: the target itself, the directory the link is in, its parent
		dir("", ln("self", "out"), mk("a"+gs), mk("a.go")),
		dir("", dir("da", ln("here", "."), mk("a"+gs))),
		dir("", dir("da", ln("up", ".."), mk("a.go")), mk("a"+gs)),
		dir("", dir("da", dir("db", ln("top"+gs, "out"))), mk("a"+gs)),
		dir("", dir("da", dir("db", ln("top", "out"), mk("b"+gs))), mk("a"+gs)),
		// the whole outside directory linked in, next to a blocked manifest-named directory
		dir("", ln("all", "outside"), dir("pkg", ln("sub", "outside/gen/sub"))),
		dir("", ln("all", "outside"), dir(manifestName, mk("u.txt"))),
	}
	for _, t := range corpus {
		runOne(cfg, r, scratch, t, outsideTree(&id), false)
		runOne(cfg, r, scratch, t, outsideTree(&id), true)
	}

	n := 400
	if cfg.Tier == "thorough" {
		n = 6000
	}
	for i := 0; i < n; i++ {
		depth := 1 + rng.Intn(3)
		nid := 0
		t := &node{dir: true, children: genChildren(rng, depth, 3+rng.Intn(2), &nid)}
		addLinks(rng, t)
		runOne(cfg, r, scratch, t, outsideTree(&nid), rng.Intn(5) == 0)
	}
	return r
}
