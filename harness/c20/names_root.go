//go:build rootmod

package c20

import "github.com/PapaCharlie/go-restli/v2/codegen/utils"

// the root module's cleaner removes the parsed-specs file where v2 removes the manifest
var manifestName = utils.ParsedSpecsFile
