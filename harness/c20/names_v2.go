//go:build !rootmod

package c20

import "github.com/PapaCharlie/go-restli/v2/codegen/utils"

// the entry CleanTargetDir removes first at every level
var manifestName = utils.ManifestFile
