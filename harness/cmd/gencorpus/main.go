// Command gencorpus writes the corpus manifest, runs the REAL go-restli generator on it (in this
// process: the type registry is a process global, one manifest per process) and writes the
// registry that lets the harness reach the generated types by name.
package main

import (
	"fmt"
	"os"
	"path/filepath"
	"sort"
	"strings"

	"github.com/PapaCharlie/go-restli/v2/cmd"
	"github.com/PapaCharlie/go-restli/v2/codegen/utils"
	"verif/harness/codec"
)

func main() {
	if len(os.Args) != 4 {
		fmt.Fprintln(os.Stderr, "usage: gencorpus <repo-module-dir> <out-dir (…/gen)> <package-root>")
		os.Exit(2)
	}
	repoMod, outDir, pkgRoot := os.Args[1], os.Args[2], os.Args[3]
	env := codec.Corpus()

	depBytes, err := os.ReadFile(filepath.Join(repoMod, "restlidata/generated", utils.ManifestFile))
	check(err)
	dep, err := cmd.ReadManifest(depBytes)
	check(err)
	man, err := cmd.ReadManifest(env.Manifest(pkgRoot))
	check(err)
	check(os.MkdirAll(outDir, 0o755))
	check(cmd.GenerateCode(outDir, []*cmd.GoRestliManifest{dep, man}, false))

	// registry
	var b strings.Builder
	b.WriteString("//go:build gencode\n\npackage gen\n\nimport (\n\tvc \"" + pkgRoot + "/" + env.Namespace + "\"\n\t\"github.com/PapaCharlie/go-restli/v2/restlicodec\"\n\t\"github.com/PapaCharlie/go-restli/v2/restlidata/generated/com/linkedin/restli/common\"\n)\n\n")
	b.WriteString("var New = map[string]func() any{\n")
	names := []string{}
	for _, d := range env.Decls {
		names = append(names, d.Name)
	}
	sort.Strings(names)
	for _, n := range names {
		fmt.Fprintf(&b, "\t%q: func() any { return new(vc.%s) },\n", n, utils.ExportedIdentifier(n))
	}
	b.WriteString("}\n\nvar NewPU = map[string]func() any{\n")
	for _, n := range names {
		if env.Find(n).Kind == "record" {
			fmt.Fprintf(&b, "\t%q: func() any { return new(vc.%s_PartialUpdate) },\n", n, utils.ExportedIdentifier(n))
		}
	}
	b.WriteString("}\n\nvar NewComplexKey = map[string]func() any{\n")
	if _, err := os.Stat(filepath.Join(outDir, env.Namespace, codec.C02ComplexKey+utils.GeneratedFileSuffix)); err == nil {
		fmt.Fprintf(&b, "\t%q: func() any { return new(vc.%s) },\n", codec.C02ComplexKey, codec.C02ComplexKey)
	}
	b.WriteString("}\n\nvar BatchEnc = map[string]func(keys []int64, vals []any, w any) error{\n")
	for _, n := range names {
		if env.Find(n).Kind == "record" {
			id := utils.ExportedIdentifier(n)
			fmt.Fprintf(&b, "\t%q: func(keys []int64, vals []any, w any) error {\n\t\tm := map[int64]*vc.%s{}\n\t\tfor i, k := range keys {\n\t\t\tm[k] = vals[i].(*vc.%s)\n\t\t}\n\t\treturn common.MarshalBatchEntities(m, w.(restlicodec.Writer))\n\t},\n", n, id, id)
		}
	}
	b.WriteString("}\n\nvar Defaults = map[string]func() any{\n")
	for _, n := range names {
		d := env.Find(n)
		has := false
		for _, f := range d.Fields {
			if f.Default != nil {
				has = true
			}
		}
		if d.Kind == "record" && has {
			// only reference the constructor if the generator actually emitted it: its absence is a
			// finding for the C13 oracle, not a build failure of the harness
			src, _ := os.ReadFile(filepath.Join(outDir, env.Namespace, utils.ExportedIdentifier(n)+utils.GeneratedFileSuffix))
			if strings.Contains(string(src), "func New"+utils.ExportedIdentifier(n)+"WithDefaultValues") {
				fmt.Fprintf(&b, "\t%q: func() any { return vc.New%sWithDefaultValues() },\n", n, utils.ExportedIdentifier(n))
			}
		}
	}
	b.WriteString("}\n\nconst Generated = true\n")
	check(os.WriteFile(filepath.Join(outDir, "registry_gen.go"), []byte(b.String()), 0o644))
	// the generator emits a package-main import check that has no main: drop it
	os.Remove(filepath.Join(outDir, "all_imports_test.gr.go"))
}

func check(err error) {
	if err != nil {
		fmt.Fprintln(os.Stderr, "gencorpus:", err)
		os.Exit(1)
	}
}
