package codec

import (
	"fmt"
	"math"
	"strings"

	"verif/harness/hx"
)

// AnySexp renders the document as the untyped Go value the interface reader consumes, in the
// driver's notation (Driver/AnyReader.lean): the same tree Any() builds.
func (d *D) AnySexp() string {
	switch d.K {
	case "null":
		return "nil"
	case "other", "other2":
		return "x"
	case "int":
		return fmt.Sprintf("(i %d)", d.I)
	case "float":
		return fmt.Sprintf("(f %d)", math.Float64bits(d.F))
	case "bool":
		if d.B {
			return "(b 1)"
		}
		return "(b 0)"
	case "str", "bytes":
		return "(s " + hx.Hex(d.S) + ")"
	case "arr":
		parts := []string{"a"}
		for _, e := range d.Elts {
			parts = append(parts, e.AnySexp())
		}
		return "(" + strings.Join(parts, " ") + ")"
	default:
		parts := []string{"o"}
		for _, e := range d.KVs {
			parts = append(parts, "("+hx.Hex([]byte(e.K))+" "+e.V.AnySexp()+")")
		}
		return "(" + strings.Join(parts, " ") + ")"
	}
}

func anyClass(outcome string) string {
	if strings.HasPrefix(outcome, "err excluded") {
		return "err excluded"
	}
	return outcome
}

// decodeAnyK: the untyped reader on the document in some of its Go shapes, compared with the model
func (x *runner) decodeAnyK(t Ty, doc *D, sig string) string {
	shaped := doc.clone()
	goShapes(shaped, x.rng.Intn)
	impl := x.b.DecodeAny(t, shaped, nil, 0)
	x.askAny(t, shaped, nil, 0, impl, sig)
	return impl
}

// askAny compares the untyped reader's outcome with the model's. Go enumerates a map in no
// particular order, so a document with two faulty members may fail on either: the decode is
// repeated and a document whose outcome varies is left to the direct oracle.
func (x *runner) askAny(t Ty, doc *D, excl []string, ignore int, impl, sig string) {
	if x.cfg.Driver == nil {
		return
	}
	if impl == "hang" {
		x.r.OracleFail(hx.Case{Sig: "C04 untyped reader does not terminate", Op: "adec " + t.Sexp() + " " + doc.AnySexp(), Impl: impl, Expected: "a value or an error"})
		return
	}
	if hasDupKeys(doc) {
		x.r.Unmodelled["any-duplicate-keys"]++
		return
	}
	if !strings.HasPrefix(impl, "ok ") {
		for i := 0; i < 6; i++ {
			if again := x.b.DecodeAny(t, doc, excl, ignore); anyClass(again) != anyClass(impl) {
				x.r.Count("any:outcome-depends-on-map-order")
				return
			}
		}
	}
	op := fmt.Sprintf("adec %s %s %s %s %d %s", x.cfg.Module, x.env.Closure(tyRoots(t)...), t.Sexp(), exclSexp(excl), ignore, doc.AnySexp())
	x.r.Count("any:compared")
	x.ask(op, anyClass(impl), sig)
}

// hasDupKeys: a document that names one member twice is not a Go map
func hasDupKeys(d *D) bool {
	seen := map[string]bool{}
	for _, e := range d.KVs {
		if seen[e.K] || hasDupKeys(e.V) {
			return true
		}
		seen[e.K] = true
	}
	for _, e := range d.Elts {
		if hasDupKeys(e) {
			return true
		}
	}
	return false
}

// leaves and small trees an untyped value may hold where the schema expects something else
func (x *runner) confusedLeaf() *D {
	strs := []string{"", "12", "-7", "+5", "1e3", "3.5", "true", "T", "F", "abc", "9223372036854775807", "9223372036854775808",
		"-9223372036854775808", "2147483648", "4294967297", "0x10", "1_000", "NaN", "Inf", "-inf", " 1", "1 ", "1.0", "-0", "1e400", "RED", "\xff\xfe", "é"}
	ints := []int64{0, 1, -1, 7, 2147483647, 2147483648, -2147483648, -2147483649, 4294967296, 1 << 53, (1 << 53) + 1, 9223372036854775807, -9223372036854775808, 16777217}
	floats := []float64{0, math.Copysign(0, -1), 1, -1, 2.5, -2.5, 3.999, 1e10, 2147483647, 2147483648, -2147483648.5, 9.2e18, 1e300, math.Inf(1), math.Inf(-1), math.NaN(), math.SmallestNonzeroFloat64, 16777217, 0.1}
	switch x.rng.Intn(9) {
	case 0:
		return &D{K: "null"}
	case 1:
		return &D{K: "int", I: ints[x.rng.Intn(len(ints))]}
	case 2:
		return &D{K: "float", F: floats[x.rng.Intn(len(floats))]}
	case 3:
		return &D{K: "bool", B: x.rng.Intn(2) == 0}
	case 4, 5:
		return &D{K: "str", S: []byte(strs[x.rng.Intn(len(strs))])}
	case 6:
		return &D{K: "arr", Elts: []*D{{K: "int", I: 1}, {K: "null"}}}
	case 7:
		return &D{K: "obj", KVs: []DKV{{"a", &D{K: "int", I: 1}}, {"n", &D{K: "null"}}}}
	}
	if x.rng.Intn(3) == 0 {
		return &D{K: "other2", Go: x.rng.Intn(3)}
	}
	return &D{K: "other"}
}

// confuse replaces one node of the document (any depth) by a confused leaf
func (x *runner) confuse(d *D) *D {
	var nodes []**D
	var walk func(p **D)
	walk = func(p **D) {
		nodes = append(nodes, p)
		for i := range (*p).KVs {
			walk(&(*p).KVs[i].V)
		}
		for i := range (*p).Elts {
			walk(&(*p).Elts[i])
		}
	}
	root := d.clone()
	walk(&root)
	*nodes[x.rng.Intn(len(nodes))] = x.confusedLeaf()
	return root
}

// runAnyK: the untyped reader on values of the wrong shape, against the model
func (x *runner) runAnyK(types []Ty, n int) {
	for _, t := range types {
		for i := 0; i < n; i++ {
			var doc *D
			if t.Prim != "" {
				doc = x.confusedLeaf()
			} else {
				v := x.env.GenValue(x.rng, t, 3, GenOpts{OptPct: 70})
				ref := x.env.RefDoc(t, v)
				if ref == nil {
					continue
				}
				doc = x.confuse(ref)
				if x.rng.Intn(3) == 0 {
					doc = x.confuse(doc)
				}
				if x.rng.Intn(4) == 0 {
					x.env.dropFields(t, doc, x.rng, 30, true)
				}
			}
			goShapes(doc, x.rng.Intn)
			impl := x.b.DecodeAny(t, doc, nil, 0)
			x.r.OracleCases++
			x.r.Count("any-confused:" + strings.SplitN(impl+" ", " ", 3)[0] + " " + strings.SplitN(impl+"  ", " ", 3)[1])
			if strings.HasPrefix(impl, "panic") {
				x.r.OracleFail(hx.Case{Sig: "C04 untyped reader panicked", Op: "adec " + t.Sexp() + " " + doc.AnySexp(), Impl: impl, Expected: "a value or an error"})
				continue
			}
			x.askAny(t, doc, nil, 0, impl, "C04 untyped reader")
		}
	}
}
