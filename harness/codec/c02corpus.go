package codec

// The C02 resource corpus: a hand-written go-restli manifest fragment (resources plus the one data
// type they need beyond the codec corpus, a complex key) that bin/check's gencode step feeds to the
// REAL generator together with the codec corpus. harness/c02 drives the generated clients and the
// generated server registrations from this same description; the Lean model of a call receives it
// inline in every op.
//
// Shapes covered: collections keyed by long, string, a typeref and a complex key; a simple
// resource; an action set; a sub-collection under a collection key; a sub-collection and a simple
// sub-resource under a simple parent / a collection key; every method kind (get, create, update,
// partial_update, delete, get_all, finders with required / optional / array parameters and with
// metadata, actions with and without parameters and results at both levels, the five batch
// methods), create / batch_create / partial_update with returnEntity, paging on get_all and
// finders, query parameters on plain methods.
//
// Three further collections (exRo, exCo, exBoth, entity Nested) declare read-only / create-only
// fields: they belong to property C07's run through the generated bindings (harness/c02/excl.go).
// Property C02's call generator and its Lean model know nothing about field exclusion, so C02
// draws no calls on them (HasExclusions); they are registered on the same servers all the same.

// C02Key describes the key of a collection segment.
type C02Key struct {
	Name string // the path key's name (a Go identifier: it becomes a parameter and a struct field)
	Ty   Ty     // i64, str, a typeref, or R(C02ComplexKey)
}

// C02Seg is one resourcePathSegment: a collection (Key != nil) or a simple resource / action set.
type C02Seg struct {
	Name string
	Key  *C02Key
}

// C02Method describes one generated method.
type C02Method struct {
	Kind         string // "rest" "finder" "action"
	Name         string // rest: the Rest.li method name; otherwise the finder / action name
	OnEntity     bool
	Params       []Field // query parameters (rest, finder) or action parameters
	Paging       bool
	Return       *Ty // finder: the element type; action: the result type (nil = none)
	Metadata     *Ty // finder metadata
	ReturnEntity bool
}

// C02Resource is one resource; each lives in its own namespace (= generated package).
type C02Resource struct {
	Pkg     string // last namespace component; the namespace is "c02."+Pkg
	Segs    []C02Seg
	Schema  string // entity record (corpus type name), "" for action sets
	Methods []C02Method
	// readOnlyFields / createOnlyFields of the resource: slash-separated paths into the entity, `*`
	// standing for array items and map keys (the generator hands them verbatim to NewPathSpec)
	ReadOnly   []string
	CreateOnly []string
}

// HasExclusions: the resource declares read-only or create-only fields (C07's resources).
func (r *C02Resource) HasExclusions() bool { return len(r.ReadOnly)+len(r.CreateOnly) > 0 }

const C02ComplexKey = "CK"     // complex key type vc.CK = (key vc.Inner, params vc.Base)
const C02ComplexKeyKey = "Inner"
const C02ComplexKeyParams = "Base"

func (r *C02Resource) Namespace() string { return "c02." + r.Pkg }
func (r *C02Resource) Last() C02Seg      { return r.Segs[len(r.Segs)-1] }

// KeyedSegs returns the keys a method at the given level carries, outermost first.
func (r *C02Resource) Keys(onEntity bool) []C02Key {
	var ks []C02Key
	for i, s := range r.Segs {
		if s.Key != nil && (i < len(r.Segs)-1 || onEntity) {
			ks = append(ks, *s.Key)
		}
	}
	return ks
}

func (r *C02Resource) Method(kind, name string) *C02Method {
	for i := range r.Methods {
		if r.Methods[i].Kind == kind && r.Methods[i].Name == name {
			return &r.Methods[i]
		}
	}
	return nil
}

// C02Resources is the resource corpus.
func C02Resources() []*C02Resource {
	req := func(n string, t Ty) Field { return Field{Name: n, Ty: t} }
	opt := func(n string, t Ty) Field { return Field{Name: n, Ty: t, Optional: true} }
	ty := func(t Ty) *Ty { return &t }
	rest := func(name string, onEntity bool, params ...Field) C02Method {
		return C02Method{Kind: "rest", Name: name, OnEntity: onEntity, Params: params}
	}
	paged := func(m C02Method) C02Method { m.Paging = true; return m }
	retEnt := func(m C02Method) C02Method { m.ReturnEntity = true; return m }
	finder := func(name string, ret Ty, params ...Field) C02Method {
		return C02Method{Kind: "finder", Name: name, Params: params, Return: &ret}
	}
	action := func(name string, onEntity bool, ret *Ty, params ...Field) C02Method {
		return C02Method{Kind: "action", Name: name, OnEntity: onEntity, Params: params, Return: ret}
	}
	allRest := func(qp ...Field) []C02Method {
		return []C02Method{
			rest("get", true, qp...), rest("create", false), rest("update", true), rest("partial_update", true),
			rest("delete", true), paged(rest("get_all", false)),
			rest("batch_get", false, qp...), rest("batch_create", false), rest("batch_update", false),
			rest("batch_partial_update", false), rest("batch_delete", false),
		}
	}
	longKey := &C02Key{"id", P("i64")}
	var rs []*C02Resource

	// 1. collection keyed by long, entity Prims: everything
	withMeta := paged(finder("withMeta", R("Prims"), opt("tag", P("str"))))
	withMeta.Metadata = ty(R("Inner"))
	rs = append(rs, &C02Resource{Pkg: "collLong", Segs: []C02Seg{{"collLong", longKey}}, Schema: "Prims",
		Methods: append(allRest(),
			paged(finder("byName", R("Prims"), req("name", P("str")), opt("limit", P("i32")), req("tags", A(P("str"))), opt("ratio", P("f64")))),
			finder("plain", R("Prims")),
			withMeta,
			action("ping", false, nil),
			action("echo", false, ty(P("str")), req("s", P("str")), opt("n", P("i64"))),
			action("touch", true, ty(R("Inner")), req("by", P("i32"))),
			action("sum", true, ty(P("i64")), req("xs", A(P("i64")))),
			action("reset", true, nil),
		)})

	// 2. collection keyed by string, entity Inner: query parameters on plain methods, return-entity variants
	rs = append(rs, &C02Resource{Pkg: "collStr", Segs: []C02Seg{{"collStr", &C02Key{"key", P("str")}}}, Schema: "Inner",
		Methods: []C02Method{
			rest("get", true, opt("view", P("str")), opt("depth", P("i32"))),
			retEnt(rest("create", false, opt("note", P("str")))), rest("update", true, req("rev", P("i64"))),
			retEnt(rest("partial_update", true)), rest("delete", true, opt("why", P("str"))),
			paged(rest("get_all", false, opt("prefix", P("str")))),
			rest("batch_get", false, opt("view", P("str"))), retEnt(rest("batch_create", false)),
			rest("batch_update", false), rest("batch_partial_update", false, opt("note", P("str"))), rest("batch_delete", false),
			finder("byPrefix", R("Inner"), req("prefix", P("str")), opt("keys", A(P("str")))),
			action("rename", true, ty(P("str")), req("to", P("str"))),
		}})

	// 3. collection keyed by a string typeref
	rs = append(rs, &C02Resource{Pkg: "collTr", Segs: []C02Seg{{"collTr", &C02Key{"tr", R("TrStr")}}}, Schema: "Inner",
		Methods: []C02Method{rest("get", true), rest("create", false), rest("delete", true), rest("update", true),
			rest("batch_get", false), rest("batch_delete", false), rest("batch_update", false),
			action("poke", true, ty(P("bool")))}})

	// 4. collection keyed by a long typeref
	rs = append(rs, &C02Resource{Pkg: "collTrLong", Segs: []C02Seg{{"collTrLong", &C02Key{"tl", R("TrI64")}}}, Schema: "Inner",
		Methods: []C02Method{rest("get", true), rest("create", false), rest("batch_get", false), rest("batch_partial_update", false)}})

	// 5. collection keyed by a complex key
	rs = append(rs, &C02Resource{Pkg: "collCk", Segs: []C02Seg{{"collCk", &C02Key{"ck", R(C02ComplexKey)}}}, Schema: "Prims",
		Methods: append(allRest(),
			finder("byId", R("Prims"), req("id", P("i32"))),
			action("mark", true, nil, req("flag", P("bool"))))})

	// 6. simple resource
	rs = append(rs, &C02Resource{Pkg: "simple", Segs: []C02Seg{{"simple", nil}}, Schema: "Inner",
		Methods: []C02Method{rest("get", false), rest("update", false), rest("partial_update", false), rest("delete", false),
			action("refresh", false, ty(P("i32")), opt("hard", P("bool")))}})

	// 7. action set
	rs = append(rs, &C02Resource{Pkg: "acts", Segs: []C02Seg{{"acts", nil}},
		Methods: []C02Method{
			action("noop", false, nil),
			action("concat", false, ty(P("str")), req("a", P("str")), req("b", P("str")), opt("sep", P("str"))),
			action("mk", false, ty(R("Inner")), req("id", P("i32")), opt("name", P("str"))),
			action("ids", false, ty(A(P("i64"))), req("n", P("i32"))),
			action("fire", false, nil, req("what", R("Inner"))),
		}})

	// 8. sub-collection (string key) under the long-keyed collection
	rs = append(rs, &C02Resource{Pkg: "sub", Segs: []C02Seg{{"collLong", longKey}, {"sub", &C02Key{"subKey", P("str")}}}, Schema: "Inner",
		Methods: []C02Method{rest("get", true), rest("create", false), rest("delete", true), rest("batch_get", false),
			rest("batch_delete", false), paged(rest("get_all", false)),
			finder("byName", R("Inner"), req("name", P("str"))),
			action("bump", true, ty(P("i64")), req("by", P("i64"))), action("count", false, ty(P("i32")))}})

	// 9. sub-collection (long key) under the simple resource
	rs = append(rs, &C02Resource{Pkg: "subOfSimple", Segs: []C02Seg{{"simple", nil}, {"subOfSimple", &C02Key{"n", P("i64")}}}, Schema: "Inner",
		Methods: []C02Method{rest("get", true), rest("create", false), paged(rest("get_all", false)), rest("batch_delete", false),
			rest("update", true), action("tick", true, nil)}})

	// 10. simple sub-resource under the string-keyed collection
	rs = append(rs, &C02Resource{Pkg: "detail", Segs: []C02Seg{{"collStr", &C02Key{"key", P("str")}}, {"detail", nil}}, Schema: "Inner",
		Methods: []C02Method{rest("get", false), rest("update", false), rest("delete", false),
			action("audit", false, ty(P("str")), opt("who", P("str")))}})

	// 11. sub-collection under the complex-keyed collection
	rs = append(rs, &C02Resource{Pkg: "subOfCk", Segs: []C02Seg{{"collCk", &C02Key{"ck", R(C02ComplexKey)}}, {"subOfCk", &C02Key{"m", P("i64")}}}, Schema: "Inner",
		Methods: []C02Method{rest("get", true), rest("batch_get", false), rest("create", false)}})

	// 12–14. collections with read-only / create-only fields (property C07): read-only only,
	// create-only only, both. Paths cover a whole optional field, a field of a required nested record
	// (required and optional), fields of array items and of map values, and a required top-level field.
	exclMethods := func() []C02Method {
		return []C02Method{rest("get", true), rest("create", false), rest("update", true), rest("partial_update", true),
			rest("batch_create", false), rest("batch_update", false), rest("batch_partial_update", false)}
	}
	rs = append(rs, &C02Resource{Pkg: "exRo", Segs: []C02Seg{{"exRo", longKey}}, Schema: "Nested", Methods: exclMethods(),
		ReadOnly: []string{"optInner", "inner/id", "arr/*/name"}})
	rs = append(rs, &C02Resource{Pkg: "exCo", Segs: []C02Seg{{"exCo", longKey}}, Schema: "Nested", Methods: exclMethods(),
		CreateOnly: []string{"mm", "inner/name", "m/*/id"}})
	rs = append(rs, &C02Resource{Pkg: "exBoth", Segs: []C02Seg{{"exBoth", longKey}}, Schema: "Nested", Methods: exclMethods(),
		ReadOnly: []string{"am", "inner/id"}, CreateOnly: []string{"aa", "optInner/name", "arr/*/name"}})
	return rs
}

// c02Manifest returns the extra input data types and the resources of the corpus manifest.
func (e *Env) c02Manifest() (extraTypes []any, resources []any) {
	extraTypes = append(extraTypes, map[string]any{"complexKey": map[string]any{
		"name": C02ComplexKey, "namespace": e.Namespace, "sourceFile": "verif-corpus", "doc": "",
		"Key":    map[string]any{"name": C02ComplexKeyKey, "namespace": e.Namespace},
		"Params": map[string]any{"name": C02ComplexKeyParams, "namespace": e.Namespace},
	}})
	fields := func(fs []Field) []any {
		out := []any{}
		for _, f := range fs {
			out = append(out, map[string]any{"name": f.Name, "doc": "", "type": e.tyJSON(f.Ty), "isOptional": f.Optional})
		}
		return out
	}
	for _, r := range C02Resources() {
		segs := []any{}
		for _, s := range r.Segs {
			sj := map[string]any{"resourceName": s.Name}
			if s.Key != nil {
				sj["pathKey"] = map[string]any{"name": s.Key.Name, "type": e.tyJSON(s.Key.Ty)}
			}
			segs = append(segs, sj)
		}
		ms := []any{}
		for _, m := range r.Methods {
			mj := map[string]any{"name": m.Name, "doc": "", "onEntity": m.OnEntity, "params": fields(m.Params),
				"isPagingSupported": m.Paging, "returnEntity": m.ReturnEntity}
			switch m.Kind {
			case "rest":
				mj["methodType"] = "REST_METHOD"
			case "finder":
				mj["methodType"] = "FINDER"
			case "action":
				mj["methodType"] = "ACTION"
			}
			if m.Return != nil {
				mj["return"] = e.tyJSON(*m.Return)
			}
			if m.Metadata != nil {
				mj["metadata"] = e.tyJSON(*m.Metadata)
			}
			ms = append(ms, mj)
		}
		rj := map[string]any{"namespace": r.Namespace(), "doc": "", "sourceFile": "verif-corpus",
			"resourcePathSegments": segs, "methods": ms,
			"readOnlyFields": append([]string{}, r.ReadOnly...), "createOnlyFields": append([]string{}, r.CreateOnly...)}
		if r.Schema != "" {
			rj["resourceSchema"] = e.tyJSON(R(r.Schema))
		}
		resources = append(resources, rj)
	}
	return
}
