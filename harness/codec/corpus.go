package codec

// Corpus is the fixed schema corpus: every type constructor in every field position, optional /
// defaulted / required, includes (two levels), unions (nullable and not), recursive types.
// The same declarations are (a) turned into a go-restli manifest and fed to the REAL generator,
// whose bindings the harness is compiled against, and (b) sent to the Lean model as s-expressions.
func Corpus() *Env {
	req := func(n string, t Ty) Field { return Field{Name: n, Ty: t} }
	opt := func(n string, t Ty) Field { return Field{Name: n, Ty: t, Optional: true} }
	def := func(n string, t Ty, v *V, js string) Field { return Field{Name: n, Ty: t, Default: v, DefJSON: js} }
	e := &Env{Namespace: "vc"}
	add := func(d *Decl) { e.Decls = append(e.Decls, d) }

	add(&Decl{Name: "Color", Kind: "enum", Symbols: []string{"RED", "GREEN", "BLUE"}})
	add(&Decl{Name: "Single", Kind: "enum", Symbols: []string{"ONLY"}})
	add(&Decl{Name: "Fx4", Kind: "fixed", Size: 4})
	add(&Decl{Name: "Fx1", Kind: "fixed", Size: 1})
	add(&Decl{Name: "TrI32", Kind: "typeref", Prim: "i32"})
	add(&Decl{Name: "TrI64", Kind: "typeref", Prim: "i64"})
	add(&Decl{Name: "TrF32", Kind: "typeref", Prim: "f32"})
	add(&Decl{Name: "TrF64", Kind: "typeref", Prim: "f64"})
	add(&Decl{Name: "TrBool", Kind: "typeref", Prim: "bool"})
	add(&Decl{Name: "TrStr", Kind: "typeref", Prim: "str"})
	add(&Decl{Name: "TrBytes", Kind: "typeref", Prim: "bytes"})

	add(&Decl{Name: "Prims", Kind: "record", Fields: []Field{
		req("a", P("i32")), req("b", P("i64")), req("c", P("f32")), req("d", P("f64")),
		req("e", P("bool")), req("f", P("str")), req("g", P("bytes"))}})
	add(&Decl{Name: "OptPrims", Kind: "record", Fields: []Field{
		opt("a", P("i32")), opt("b", P("i64")), opt("c", P("f32")), opt("d", P("f64")),
		opt("e", P("bool")), opt("f", P("str")), opt("g", P("bytes"))}})
	add(&Decl{Name: "Inner", Kind: "record", Fields: []Field{req("id", P("i32")), opt("name", P("str"))}})
	add(&Decl{Name: "Empty", Kind: "record"})
	add(&Decl{Name: "Nested", Kind: "record", Fields: []Field{
		req("inner", R("Inner")), opt("optInner", R("Inner")),
		req("arr", A(R("Inner"))), req("m", M(R("Inner"))),
		req("aa", A(A(P("i32")))), opt("mm", M(M(P("str")))), opt("am", A(M(P("i64")))),
		opt("empty", R("Empty"))}})
	add(&Decl{Name: "Named", Kind: "record", Fields: []Field{
		req("color", R("Color")), opt("optColor", R("Color")),
		req("fx", R("Fx4")), opt("optFx", R("Fx1")),
		req("tr", R("TrStr")), opt("optTr", R("TrI64")),
		req("trb", R("TrBytes")), opt("trf", R("TrF32")), opt("trd", R("TrF64")),
		opt("tri", R("TrI32")), opt("trbool", R("TrBool")),
		req("colors", A(R("Color"))), opt("fxs", M(R("Fx4"))), opt("trs", A(R("TrStr")))}})
	add(&Decl{Name: "U1", Kind: "union", Members: []Member{
		{"int", P("i32")}, {"string", P("str")}, {"vc.Inner", R("Inner")}, {"arr", A(P("i32"))},
		{"m", M(P("str"))}, {"vc.Color", R("Color")}, {"bytes", P("bytes")}}})
	add(&Decl{Name: "U2", Kind: "union", HasNull: true, Members: []Member{
		{"long", P("i64")}, {"vc.Fx4", R("Fx4")}, {"double", P("f64")}}})
	add(&Decl{Name: "WithUnion", Kind: "record", Fields: []Field{
		req("u", R("U1")), opt("optU", R("U2")), req("us", A(R("U1"))), opt("um", M(R("U2")))}})
	add(&Decl{Name: "Base", Kind: "record", Fields: []Field{req("baseId", P("i64")), opt("baseOpt", P("str"))}})
	add(&Decl{Name: "Mid", Kind: "record", Includes: []string{"Base"}, Fields: []Field{req("mid", P("bool"))}})
	add(&Decl{Name: "Derived", Kind: "record", Includes: []string{"Mid", "Inner"}, Fields: []Field{
		req("own", P("str")), opt("zz", A(R("Base")))}})
	add(&Decl{Name: "Defaults", Kind: "record", Fields: []Field{
		def("di", P("i32"), VI32(42), `42`),
		def("ds", P("str"), VStr("dflt \"q\" é"), `"dflt \"q\" é"`),
		def("db", P("bool"), VBool(true), `true`),
		def("dl", P("i64"), VI64(-5), `-5`),
		def("dd", P("f64"), VF64(1.5), `1.5`),
		def("dbytes", P("bytes"), VBytes([]byte{1, 0xff, 'a'}), `"\u0001ÿa"`),
		def("darr", A(P("i32")), VArr(VI32(1), VI32(2)), `[1, 2]`),
		def("dempty", A(P("str")), VArr(), `[]`),
		def("dmap", M(P("i32")), VMap(KV{"k", VI32(1)}), `{"k": 1}`),
		def("demptym", M(P("str")), VMap(), `{ }`),
		def("denum", R("Color"), VEnum(2), `"GREEN"`),
		def("dfx", R("Fx4"), VFixed([]byte("abcd")), `"abcd"`),
		def("dtr", R("TrStr"), VStr("t"), `"t"`),
		def("drec", R("Inner"), VRec(KV{"id", VI32(7)}), `{"id": 7}`),
		def("dunion", R("U1"), VUnion(KV{"int", VI32(3)}), `{"int": 3}`),
		// longs no float64 holds exactly, directly and through a typeref
		def("dlmax", P("i64"), VI64(9223372036854775807), `9223372036854775807`),
		def("dlodd", P("i64"), VI64(-9007199254740993), `-9007199254740993`),
		def("dtl", R("TrI64"), VI64(9007199254740993), `9007199254740993`),
		// containers of containers and of records: a copy per instance must be deep
		def("dnest", A(R("Inner")), VArr(VRec(KV{"id", VI32(1)}), VRec(KV{"id", VI32(2)})), `[{"id": 1}, {"id": 2}]`),
		def("daa", A(A(P("i32"))), VArr(VArr(VI32(1), VI32(2)), VArr(VI32(3))), `[[1, 2], [3]]`),
		def("dma", M(A(P("i32"))), VMap(KV{"k", VArr(VI32(1))}), `{"k": [1]}`),
		// a record default written as the empty object, of a record that has defaults of its own:
		// the literal is read like any document, so the nested defaults are in the default
		def("dod", R("OptDefaults"), VRec(), `{}`),
		def("dnod", R("NeedsOptDefaults"), VRec(KV{"o", VRec()}), `{"o": {}}`),
		req("req", P("str"))}})
	add(&Decl{Name: "InclDefaults", Kind: "record", Includes: []string{"Defaults"}, Fields: []Field{opt("x", P("i32"))}})
	add(&Decl{Name: "NestedDefaults", Kind: "record", Fields: []Field{
		req("d", R("Defaults")), opt("od", R("Defaults")), opt("ds", A(R("Defaults")))}})
	add(&Decl{Name: "Tree", Kind: "record", Fields: []Field{
		req("v", P("i32")), req("kids", A(R("Tree"))), opt("parent", R("Tree")), opt("byName", M(R("Tree")))}})
	// every defaulted field is also optional (the generator must still emit and call the
	// default-population code), alone and as a required nested record
	add(&Decl{Name: "OptDefaults", Kind: "record", Fields: []Field{
		{Name: "od", Ty: P("i32"), Optional: true, Default: VI32(5), DefJSON: `5`},
		{Name: "os", Ty: P("str"), Optional: true, Default: VStr("x"), DefJSON: `"x"`},
		opt("plain", P("bool"))}})
	add(&Decl{Name: "NeedsOptDefaults", Kind: "record", Fields: []Field{req("o", R("OptDefaults")), opt("oo", R("OptDefaults"))}})
	// a chain of single includes in which several records extend the same base with their own
	// required fields (required-field lists are built by appending to the included list)
	add(&Decl{Name: "Rq2", Kind: "record", Fields: []Field{req("r1", P("i32")), req("r2", P("str"))}})
	add(&Decl{Name: "Bq", Kind: "record", Includes: []string{"Rq2"}, Fields: []Field{req("b1", P("i32"))}})
	add(&Decl{Name: "Mq1", Kind: "record", Includes: []string{"Bq"}, Fields: []Field{req("m1", P("str")), req("k1", P("i32"))}})
	add(&Decl{Name: "Mq2", Kind: "record", Includes: []string{"Bq"}, Fields: []Field{req("m2", P("str"))}})
	add(&Decl{Name: "Mq3", Kind: "record", Includes: []string{"Bq"}, Fields: []Field{req("m3", P("bool")), opt("o3", P("str"))}})
	// a record that inherits record-typed fields (nested partial updates through an include)
	add(&Decl{Name: "InclNested", Kind: "record", Includes: []string{"Nested"}, Fields: []Field{
		opt("x", P("i32")), opt("own", R("Inner"))}})
	// an entity with fields named like the partial-update envelope
	add(&Decl{Name: "HasPatch", Kind: "record", Fields: []Field{
		opt("patch", P("str")), opt("other", P("i32")), opt("inner", R("Inner"))}})
	add(&Decl{Name: "MapKeys", Kind: "record", Fields: []Field{req("m", M(P("str"))), opt("mi", M(P("i32")))}})
	// the C02 resource corpus (c02corpus.go): raw manifest entries, not Decls
	e.ExtraDataTypes, e.Resources = e.c02Manifest()
	return e
}
