package codec

import (
	"bytes"
	"encoding/hex"
	"encoding/json"
	"strings"
)

// Required record- and union-typed fields are embedded by value in the generated structs and are
// unmarshalled in place: when a document names such a field twice, the second occurrence is read
// into the struct the first one filled (a merge), while optional fields get a fresh struct. The
// model reads every occurrence into a fresh value. Documents that repeat a member whose name is
// such a field are therefore outside the model (they stay inside the direct oracles).

func (e *Env) byValueStructNames() map[string]bool {
	out := map[string]bool{}
	for _, d := range e.Decls {
		for _, f := range d.Fields {
			if f.Optional || f.Default != nil || f.Ty.Ref == "" {
				continue
			}
			if k := e.Find(f.Ty.Ref).Kind; k == "record" || k == "union" {
				out[f.Name] = true
			}
		}
	}
	return out
}

// dupKeysJSON lists the member names that occur twice in one object of a JSON text (best effort
// on malformed input: scanning stops at the first token error).
func dupKeysJSON(data []byte) []string {
	dec := json.NewDecoder(bytes.NewReader(data))
	dec.UseNumber()
	type frame struct {
		obj    bool
		keys   map[string]bool
		expect bool // next string token is a key
	}
	var stack []*frame
	var dups []string
	for {
		tok, err := dec.Token()
		if err != nil {
			return dups
		}
		top := func() *frame {
			if len(stack) == 0 {
				return nil
			}
			return stack[len(stack)-1]
		}
		switch t := tok.(type) {
		case json.Delim:
			switch t {
			case '{':
				if f := top(); f != nil && f.obj {
					f.expect = true
				}
				stack = append(stack, &frame{obj: true, keys: map[string]bool{}, expect: true})
			case '[':
				if f := top(); f != nil && f.obj {
					f.expect = true
				}
				stack = append(stack, &frame{})
			default:
				if len(stack) > 0 {
					stack = stack[:len(stack)-1]
				}
			}
		case string:
			if f := top(); f != nil && f.obj && f.expect {
				if f.keys[t] {
					dups = append(dups, t)
				}
				f.keys[t] = true
				f.expect = false
			} else if f != nil && f.obj {
				f.expect = true
			}
		default:
			if f := top(); f != nil && f.obj {
				f.expect = true
			}
		}
	}
}

// dupKeysROR2 lists the raw key tokens that occur twice in one `(k:v,…)` object.
func dupKeysROR2(s string) []string {
	type frame struct {
		obj  bool
		keys map[string]bool
	}
	var stack []*frame
	var dups []string
	start := 0
	atKey := false
	for i := 0; i < len(s); i++ {
		switch c := s[i]; c {
		case '(':
			isList := i >= 4 && s[i-4:i] == "List"
			stack = append(stack, &frame{obj: !isList, keys: map[string]bool{}})
			start, atKey = i+1, !isList
		case ')':
			if len(stack) > 0 {
				stack = stack[:len(stack)-1]
			}
			atKey = false
		case ',':
			start = i + 1
			atKey = len(stack) > 0 && stack[len(stack)-1].obj
		case ':':
			if atKey && len(stack) > 0 {
				f := stack[len(stack)-1]
				k := s[start:i]
				if f.keys[k] {
					dups = append(dups, k)
				}
				f.keys[k] = true
				atKey = false
			}
		}
	}
	return dups
}

// outsideModel reports why a decode op is not put to the model, or "".
func (x *runner) outsideModel(op string) string {
	if !strings.HasPrefix(op, "dec ") {
		return ""
	}
	fields := strings.Fields(op)
	if len(fields) < 4 {
		return ""
	}
	data, err := hex.DecodeString(fields[len(fields)-1])
	if err != nil {
		return ""
	}
	var dups []string
	switch fields[2] {
	case "json", "pretty":
		dups = dupKeysJSON(data)
	default:
		dups = dupKeysROR2(string(data))
	}
	if len(dups) == 0 {
		return ""
	}
	if x.byValue == nil {
		x.byValue = x.env.byValueStructNames()
	}
	for _, k := range dups {
		if x.byValue[k] {
			return "unmodelled repeated-by-value-struct-member"
		}
	}
	return ""
}
