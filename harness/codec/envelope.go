//go:build !rootmod

package codec

import (
	"fmt"
	"reflect"
	"sort"
	"strconv"
	"strings"

	"github.com/PapaCharlie/go-restli/v2/restlicodec"
	"verif/harness/gen"
	"verif/harness/hx"
)

// EncodeBatch marshals {"entities": {key: entity}} the way the generated client does for a batch
// update: batchEntities.MarshalRestLi -> common.MarshalBatchEntities (SetScope per entity).
func (b *Bridge) EncodeBatch(rec string, keys []int64, vals []*V, excl []string) (outcome string, data []byte) {
	var err error
	panicked, pv := hx.Recover(func() {
		ptrs := make([]any, len(vals))
		for i, v := range vals {
			p := b.NewNamed(rec)
			if e := b.Set(p.Elem(), R(rec), v); e != nil {
				err = e
				return
			}
			ptrs[i] = p.Interface()
		}
		w := writerFor("json", excl)
		err = w.WriteMap(func(keyWriter func(string) restlicodec.Writer) error {
			return gen.BatchEnc[rec](keys, ptrs, keyWriter("entities"))
		})
		if err == nil {
			data = []byte(w.Finalize())
		}
	})
	if panicked {
		return fmt.Sprintf("panic %v", pv), nil
	}
	if err != nil {
		return "err " + classifyEnc(err), nil
	}
	return "ok " + hx.Hex(data), data
}

type fieldsMarshaler interface {
	MarshalFields(keyWriter func(string) restlicodec.Writer) error
}

// EncodeQuery builds the query string of a record of parameters: BuildQueryParams over the
// generated MarshalFields.
func (b *Bridge) EncodeQuery(rec string, v *V) (outcome string, data []byte) {
	var err error
	panicked, pv := hx.Recover(func() {
		p := b.NewNamed(rec)
		if e := b.Set(p.Elem(), R(rec), v); e != nil {
			err = e
			return
		}
		var out string
		out, err = restlicodec.BuildQueryParams(func(keyWriter func(string) restlicodec.Writer) error {
			return p.Interface().(fieldsMarshaler).MarshalFields(keyWriter)
		})
		data = []byte(out)
	})
	if panicked {
		return fmt.Sprintf("panic %v", pv), nil
	}
	if err != nil {
		return "err " + classifyEnc(err), nil
	}
	return "ok " + hx.Hex(data), data
}

func (x *runner) batchEncOp(rec string, keys []int64, vals []*V, excl []string) string {
	parts := make([]string, len(keys))
	for i, k := range keys {
		parts[i] = "(" + hexs(strconv.FormatInt(k, 10)) + " " + vals[i].Sexp() + ")"
	}
	return fmt.Sprintf("batchenc %s %s %s %s (%s)", x.cfg.Module, x.env.Closure(rec), R(rec).Sexp(), exclSexp(excl), strings.Join(parts, " "))
}

// runBatchC07: a batch update body never carries an excluded field of any entity, carries every
// entity, and carries everything else of each entity — whatever the number of entities and
// whichever field each entity's marshaler happened to write last.
func (x *runner) runBatchC07() {
	r := x.r
	n := 8
	if x.cfg.Tier == "thorough" {
		n = 80
	}
	for _, t := range x.recordTypes() {
		rec := t.Ref
		if _, ok := gen.BatchEnc[rec]; !ok {
			continue
		}
		fields := x.env.AllFields(rec)
		if len(fields) == 0 {
			continue
		}
		names := make([]string, len(fields))
		for i, f := range fields {
			names[i] = f.Name
		}
		sort.Strings(names)
		for i := 0; i < n; i++ {
			cnt := 1 + x.rng.Intn(4)
			keys := make([]int64, 0, cnt)
			vals := make([]*V, 0, cnt)
			seen := map[int64]bool{}
			for len(keys) < cnt {
				k := int64(x.rng.Intn(50)) - 10
				if seen[k] {
					continue
				}
				seen[k] = true
				keys = append(keys, k)
				vals = append(vals, x.env.GenValue(x.rng, t, 2, GenOpts{OptPct: 85}))
			}
			// read-only / create-only top-level fields: biased to the field written last
			var spec [][]string
			switch x.rng.Intn(4) {
			case 0:
				spec = [][]string{{names[len(names)-1]}}
			case 1:
				spec = [][]string{{names[0]}, {names[len(names)-1]}}
			case 2:
				spec = [][]string{{names[x.rng.Intn(len(names))]}}
			default:
				f := fields[x.rng.Intn(len(fields))]
				spec = [][]string{{f.Name, "*"}}
			}
			usable := true
			for _, p := range spec {
				if p[0] == "entities" || strings.Contains(p[0], "/") {
					usable = false
				}
			}
			if !usable {
				continue
			}
			var excl []string
			for _, p := range spec {
				excl = append(excl, strings.Join(p, "/"))
			}
			want := &D{K: "obj"}
			ents := &D{K: "obj"}
			bad := false
			for j, k := range keys {
				ref := x.env.RefDoc(t, vals[j])
				if ref == nil {
					bad = true
					break
				}
				ents.KVs = append(ents.KVs, DKV{strconv.FormatInt(k, 10), pruneDoc(ref, spec, nil)})
			}
			if bad {
				continue
			}
			want.KVs = append(want.KVs, DKV{"entities", ents})
			op := x.batchEncOp(rec, keys, vals, excl)
			impl, data := x.b.EncodeBatch(rec, keys, vals, excl)
			r.OracleCases++
			r.Count(fmt.Sprintf("batch-entities:%d", cnt))
			r.Distinctive(op)
			x.ask(op, impl, "C07 batchenc")
			if data == nil {
				r.OracleFail(hx.Case{Sig: "C07 batch update body could not be encoded", Op: op, Impl: impl, Note: strings.Join(excl, " ")})
				continue
			}
			tree, err := ParseJSONStrict(data)
			if err != nil || !SameTree(tree, want) {
				sig := "C07 batch update body is not {entities: {key: entity minus excluded fields}}"
				opKey := false
				for j := range keys {
					var ps [][]string
					docPaths(x.env.RefDoc(t, vals[j]), nil, &ps)
					for _, p := range ps {
						for _, seg := range p {
							if seg == "$set" || seg == "$delete" {
								opKey = true
							}
						}
					}
				}
				if opKey {
					sig += " [a map key is a patch operator name]"
				}
				for _, dir := range spec {
					if len(dir) == 2 {
						for _, f := range fields {
							if f.Name == dir[0] && f.Ty.Arr != nil {
								sig += " [a directive ends at an array item: items themselves are never checked]"
							}
						}
					}
				}
				r.OracleFail(hx.Case{Sig: sig, Op: op, Impl: string(data), Expected: want.JSON(JSONStyle{}), Note: strings.Join(excl, " ")})
			}
		}
	}
}

// splitQuery is the reference reading of a Rest.li query string: name=value pairs joined by '&'.
func splitQuery(q string) (map[string]string, []string, bool) {
	out := map[string]string{}
	var order []string
	if q == "" {
		return out, nil, true
	}
	for _, piece := range strings.Split(q, "&") {
		i := strings.IndexByte(piece, '=')
		if i < 0 {
			return nil, nil, false
		}
		if _, dup := out[piece[:i]]; dup {
			return nil, nil, false
		}
		out[piece[:i]] = piece[i+1:]
		order = append(order, piece[:i])
	}
	return out, order, true
}

// runQueryC09: the query string built for a record of parameters is a function of the record
// alone — in particular it does not depend on what the process encoded (or failed to encode)
// before — its parameters are in ascending name order, and each value reads back.
func (x *runner) runQueryC09() {
	r := x.r
	n := 6
	if x.cfg.Tier == "thorough" {
		n = 60
	}
	for _, t := range x.recordTypes() {
		rec := t.Ref
		if _, ok := reflect.New(x.b.namedType(rec)).Interface().(fieldsMarshaler); !ok {
			continue
		}
		for i := 0; i < n; i++ {
			if x.rng.Intn(3) == 0 {
				x.failingQueryEncode()
			}
			v := x.env.GenValue(x.rng, t, 2, GenOpts{OptPct: 70})
			op := fmt.Sprintf("qenc %s %s %s %s", x.cfg.Module, x.env.Closure(rec), rec, v.Sexp())
			impl, data := x.b.EncodeQuery(rec, v)
			impl2, _ := x.b.EncodeQuery(rec, shuffleV(v, x.rng))
			r.OracleCases++
			r.Count("query-params")
			r.Distinctive(op)
			x.ask(op, impl, "C09 qenc")
			if impl != impl2 {
				r.OracleFail(hx.Case{Sig: "C09 query string differs between two encodings of the same parameters", Op: op, Impl: impl, Expected: impl2})
			}
			if data == nil {
				r.OracleFail(hx.Case{Sig: "C09 query parameters could not be encoded", Op: op, Impl: impl})
				continue
			}
			params, order, ok := splitQuery(string(data))
			if !ok || !sort.StringsAreSorted(order) {
				r.OracleFail(hx.Case{Sig: "C09 query string is not name=value pairs in ascending name order", Op: op, Impl: string(data)})
				continue
			}
			set := 0
			for _, f := range x.env.AllFields(rec) {
				_, present := params[f.Name]
				if v.Get(f.Name) == nil {
					if present {
						r.OracleFail(hx.Case{Sig: "C09 query string carries a parameter that is not set", Op: op, Impl: string(data), Note: f.Name})
					}
					continue
				}
				set++
				if !present {
					r.OracleFail(hx.Case{Sig: "C09 query string lacks a parameter that is set", Op: op, Impl: string(data), Note: f.Name})
				}
			}
			if set != len(params) {
				r.OracleFail(hx.Case{Sig: "C09 query string carries unknown parameters", Op: op, Impl: string(data)})
			}
			// read the whole record back through the query-parameters reader
			want := VRec()
			for _, f := range x.env.AllFields(rec) {
				if fv := v.Get(f.Name); fv != nil {
					want.KVs = append(want.KVs, KV{f.Name, x.env.expectedOwnOnly(f.Ty, fv)})
				}
			}
			got := x.b.DecodeQueryRecord(rec, string(data))
			if exp := "ok " + want.Canon(); got != exp {
				r.OracleFail(hx.Case{Sig: "C09 query parameters do not read back", Op: op, Impl: got, Expected: exp, Note: string(data)})
			}
		}
	}
}

type fieldUnmarshaler interface {
	UnmarshalField(reader restlicodec.Reader, field string) (found bool, err error)
}

// DecodeQueryRecord reads a query string back into the record's fields (no defaults are
// populated at the top: that is UnmarshalRestLi's business).
func (b *Bridge) DecodeQueryRecord(rec string, q string) string {
	var outcome string
	panicked, pv := hx.Recover(func() {
		qr, err := restlicodec.ParseQueryParams(q)
		if err != nil {
			outcome = "err other"
			return
		}
		p := b.NewNamed(rec)
		err = qr.ReadRecord(restlicodec.NewRequiredFields(), func(reader restlicodec.Reader, field string) error {
			found, err := p.Interface().(fieldUnmarshaler).UnmarshalField(reader, field)
			if err == nil && !found {
				err = reader.Skip()
			}
			return err
		})
		if err != nil {
			outcome = classifyDec(err, &V{K: "rec"})
			return
		}
		// required fields that were not sent hold zero values: report only what was sent
		got := b.Get(p.Elem(), R(rec))
		out := VRec()
		sent, _, _ := splitQuery(q)
		for _, kv := range got.KVs {
			if _, ok := sent[kv.K]; ok {
				out.KVs = append(out.KVs, kv)
			}
		}
		outcome = "ok " + out.Canon()
	})
	if panicked {
		return fmt.Sprintf("panic %v", pv)
	}
	return outcome
}

// failingQueryEncode: a parameter record whose encoding fails after some parameters were written
// (a union with no member behind valid fields), as a caller's invalid request would.
func (x *runner) failingQueryEncode() {
	v := x.env.GenValue(x.rng, R("WithUnion"), 2, GenOpts{OptPct: 90})
	for i := range v.KVs {
		if v.KVs[i].K == "us" {
			v.KVs[i].V = VArr(VUnion(KV{"string", VStr("LEFTOVER")}), VUnion())
		}
	}
	op := fmt.Sprintf("qenc %s %s %s %s", x.cfg.Module, x.env.Closure("WithUnion"), "WithUnion", v.Sexp())
	impl, _ := x.b.EncodeQuery("WithUnion", v)
	x.r.Count("interleaved-failing-query-encode:" + strings.SplitN(impl, " ", 2)[0])
	x.ask(op, impl, "C09 qenc failing")
}
