//go:build !rootmod

package codec

import (
	"fmt"
	"sort"
	"strconv"

	"github.com/PapaCharlie/go-restli/v2/restlicodec"
	"github.com/PapaCharlie/go-restli/v2/restlidata/generated/com/linkedin/restli/common"
	"verif/harness/hx"
)

// envVal is a minimal entity for the envelope checks: {"n": <int>}.
type envVal struct{ N int32 }

func (v *envVal) NewInstance() *envVal { return new(envVal) }
func (v *envVal) MarshalRestLi(w restlicodec.Writer) error {
	return w.WriteMap(func(kw func(string) restlicodec.Writer) error {
		kw("n").WriteInt32(v.N)
		return nil
	})
}
func (v *envVal) UnmarshalRestLi(r restlicodec.Reader) error {
	return r.ReadMap(func(r restlicodec.Reader, k string) (err error) {
		if k == "n" {
			v.N, err = r.ReadInt32()
			return err
		}
		return r.Skip()
	})
}

func marshalJSON(m restlicodec.Marshaler) (string, error) {
	w := restlicodec.NewCompactJsonWriter()
	if err := m.MarshalRestLi(w); err != nil {
		return "", err
	}
	return w.Finalize(), nil
}

func entityDoc(n int32) *D { return &D{K: "obj", KVs: []DKV{{"n", &D{K: "int", I: int64(n)}}}} }

// runEnvelopes: response envelopes have the shape the protocol prescribes — a batch response always
// carries `results` (its reader requires it) next to `statuses` and `errors`, keyed by the ROR2
// text of the key; a collection response always carries `elements`, `paging` iff the resource
// supplied it, `metadata` for finders that declare it — and what the library writes it reads back.
func (x *runner) runEnvelopes() {
	r := x.r
	x.createdIds()
	n := 40
	if x.cfg.Tier == "thorough" {
		n = 400
	}
	for i := 0; i < n; i++ {
		// ---- batch response
		br := &common.BatchResponse[int64, *envVal]{}
		want := &D{K: "obj"}
		res, sts, ers := &D{K: "obj"}, &D{K: "obj"}, &D{K: "obj"}
		nk := x.rng.Intn(4)
		for k := 0; k < nk; k++ {
			key := int64(k*7 - 3)
			ks := strconv.FormatInt(key, 10)
			switch x.rng.Intn(3) {
			case 0:
				br.AddResult(key, &envVal{N: int32(k)})
				res.KVs = append(res.KVs, DKV{ks, entityDoc(int32(k))})
			case 1:
				br.AddStatus(key, 204)
				sts.KVs = append(sts.KVs, DKV{ks, &D{K: "int", I: 204}})
			default:
				st := int32(404)
				br.AddError(key, &common.ErrorResponse{Status: &st})
				ers.KVs = append(ers.KVs, DKV{ks, &D{K: "obj", KVs: []DKV{{"status", &D{K: "int", I: 404}}}}})
			}
		}
		want.KVs = []DKV{{"results", res}, {"statuses", sts}, {"errors", ers}}
		op := fmt.Sprintf("envelope batch-response results=%d statuses=%d errors=%d", len(res.KVs), len(sts.KVs), len(ers.KVs))
		r.OracleCases++
		r.Count("envelope:batch-response")
		r.Distinctive(op)
		out, err := marshalJSON(br)
		if err != nil {
			r.OracleFail(hx.Case{Sig: "C03 batch response envelope could not be written", Op: op, Impl: err.Error()})
		} else {
			tree, perr := ParseJSONStrict([]byte(out))
			if perr != nil || !SameTree(tree, want) {
				r.OracleFail(hx.Case{Sig: "C03 batch response envelope is not {results, statuses, errors} keyed by the key's text", Op: op, Impl: out, Expected: want.JSON(JSONStyle{})})
			}
			back := &common.BatchResponse[int64, *envVal]{}
			rd, _ := restlicodec.NewJsonReader([]byte(out))
			if uerr := back.UnmarshalRestLi(rd); uerr != nil {
				r.OracleFail(hx.Case{Sig: "C03 the library's own batch response is rejected by its reader", Op: op, Impl: out, Expected: uerr.Error()})
			} else if len(back.Results) != len(br.Results) || len(back.Statuses) != len(br.Statuses) || len(back.Errors) != len(br.Errors) {
				r.OracleFail(hx.Case{Sig: "C03 batch response does not read back", Op: op, Impl: out})
			}
		}
		// ---- collection responses
		var elts []*envVal
		eltsDoc := &D{K: "arr"}
		for k, ne := 0, x.rng.Intn(3); k < ne; k++ {
			elts = append(elts, &envVal{N: int32(k)})
			eltsDoc.Elts = append(eltsDoc.Elts, entityDoc(int32(k)))
		}
		var paging *common.CollectionMetadata
		var pagingDoc *D
		if x.rng.Intn(2) == 0 {
			total := int32(x.rng.Intn(100))
			paging = &common.CollectionMetadata{Start: 1, Count: 2, Total: &total}
			pagingDoc = &D{K: "obj", KVs: []DKV{{"start", &D{K: "int", I: 1}}, {"count", &D{K: "int", I: 2}}, {"total", &D{K: "int", I: int64(total)}}, {"links", &D{K: "arr"}}}}
		}
		check := func(kind string, m restlicodec.Marshaler, wantDoc *D) {
			op := fmt.Sprintf("envelope %s elements=%d paging=%v", kind, len(elts), paging != nil)
			r.OracleCases++
			r.Count("envelope:" + kind)
			r.Distinctive(op)
			out, err := marshalJSON(m)
			if err != nil {
				r.OracleFail(hx.Case{Sig: "C03 collection envelope could not be written (" + kind + ")", Op: op, Impl: err.Error()})
				return
			}
			tree, perr := ParseJSONStrict([]byte(out))
			if perr != nil || !SameTree(tree, wantDoc) {
				r.OracleFail(hx.Case{Sig: "C03 collection envelope does not have the protocol's shape (" + kind + ")", Op: op, Impl: out, Expected: wantDoc.JSON(JSONStyle{})})
			}
		}
		w1 := &D{K: "obj", KVs: []DKV{{"elements", eltsDoc}}}
		if pagingDoc != nil {
			w1.KVs = append(w1.KVs, DKV{"paging", pagingDoc})
		}
		check("elements", &common.Elements[*envVal]{Elements: elts, Paging: paging}, w1)
		w2 := &D{K: "obj", KVs: []DKV{{"elements", eltsDoc}, {"metadata", entityDoc(9)}}}
		if pagingDoc != nil {
			w2.KVs = append(w2.KVs, DKV{"paging", pagingDoc})
		}
		check("elements-with-metadata", &common.ElementsWithMetadata[*envVal, *envVal]{Elements: elts, Paging: paging, Metadata: &envVal{N: 9}}, w2)
		// ---- batch update status entries and batch-update request bodies
		bu := &common.BatchEntityUpdateResponse{Status: []int{0, 204, 404}[x.rng.Intn(3)]}
		wantStatus := int64(bu.Status)
		if wantStatus == 0 {
			wantStatus = 204
		}
		check("batch-entity-update-response", bu, &D{K: "obj", KVs: []DKV{{"status", &D{K: "int", I: wantStatus}}}})
	}
	_ = sort.Strings
}

// createdIds: the `id` member of a create response is the key as it appears in a resource path
// (the client reads it with the path decoder, and `Location` is built from it): the text the path
// writer gives for the key, free of the bytes a path segment cannot hold raw.
func (x *runner) createdIds() {
	r := x.r
	keys := []string{"k", "a/b", "a b", "é", "a?b", "a#b", "100%", "\"q\"", "<x>", "a,b", "(x:1)", "", "a+b", "a&b=c", "..", "\x7f", "日本"}
	for _, key := range keys {
		op := "envelope created-entity id " + hx.Hex([]byte(key))
		r.OracleCases++
		r.Count("envelope:created-entity")
		r.Distinctive(op)
		out, err := marshalJSON(&common.CreatedEntity[string]{Id: key, Status: 201})
		if err != nil {
			r.OracleFail(hx.Case{Sig: "C03 created-entity envelope could not be written", Op: op, Impl: err.Error()})
			continue
		}
		tree, perr := ParseJSONStrict([]byte(out))
		m, _ := tree.(map[string]any)
		id, ok := m["id"].(string)
		if perr != nil || !ok {
			r.OracleFail(hx.Case{Sig: "C03 created-entity envelope has no string id", Op: op, Impl: out})
			continue
		}
		w := restlicodec.NewRor2PathWriter()
		w.WriteString(key)
		want := w.Finalize()
		bad := ""
		for i := 0; i < len(id); i++ {
			if c := id[i]; c <= ' ' || c >= 0x7f || c == '/' || c == '?' || c == '#' || c == '"' || c == '<' || c == '>' {
				bad = fmt.Sprintf(" (raw byte %#x)", c)
				break
			}
		}
		if id != want || bad != "" {
			r.OracleFail(hx.Case{Sig: "C03 created-entity id is not the key's path-segment text" + bad, Op: op, Impl: id, Expected: want})
		}
	}
}
