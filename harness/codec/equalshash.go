package codec

import (
	"bytes"
	"fmt"
	"math"
	"reflect"

	"verif/harness/gen"
	"verif/harness/hx"
)

// goEqual is the reference reading of "two values of a schema type are equal": field by field,
// optional fields equal when both absent or both present and equal, arrays pointwise, maps key by
// key, floats by Go's == (NaN differs from itself, the two zeros are equal), bytes and fixed by
// content, unions member by member.
func (e *Env) goEqual(t Ty, a, b *V) bool {
	prim := func(p Prim) bool {
		switch p {
		case "i32", "i64":
			return a.I == b.I
		case "bool":
			return a.Bool == b.Bool
		case "str", "bytes":
			return bytes.Equal(a.B, b.B)
		case "f32":
			return math.Float32frombits(uint32(a.Bits)) == math.Float32frombits(uint32(b.Bits))
		case "f64":
			return math.Float64frombits(a.Bits) == math.Float64frombits(b.Bits)
		}
		return false
	}
	switch {
	case t.Prim != "":
		return prim(t.Prim)
	case t.Arr != nil:
		if len(a.Items) != len(b.Items) {
			return false
		}
		for i := range a.Items {
			if !e.goEqual(*t.Arr, a.Items[i], b.Items[i]) {
				return false
			}
		}
		return true
	case t.Map != nil:
		if len(a.KVs) != len(b.KVs) {
			return false
		}
		for _, kv := range a.KVs {
			o := b.Get(kv.K)
			if o == nil || !e.goEqual(*t.Map, kv.V, o) {
				return false
			}
		}
		return true
	}
	d := e.Find(t.Ref)
	switch d.Kind {
	case "typeref":
		return prim(d.Prim)
	case "enum":
		return a.I == b.I
	case "fixed":
		return bytes.Equal(a.B, b.B)
	case "record":
		for _, f := range e.AllFields(t.Ref) {
			x, y := a.Get(f.Name), b.Get(f.Name)
			if (x == nil) != (y == nil) {
				return false
			}
			if x != nil && !e.goEqual(f.Ty, x, y) {
				return false
			}
		}
		return true
	case "union":
		for _, m := range d.Members {
			x, y := a.Get(m.Alias), b.Get(m.Alias)
			if (x == nil) != (y == nil) {
				return false
			}
			if x != nil && !e.goEqual(m.Ty, x, y) {
				return false
			}
		}
		return true
	}
	return false
}

// flipZeros returns a copy in which every float zero has the other sign (still == under Go).
func flipZeros(v *V) *V {
	c := *v
	switch v.K {
	case "f32":
		if v.Bits&0x7fffffff == 0 {
			c.Bits = v.Bits ^ 0x80000000
		}
	case "f64":
		if v.Bits&0x7fffffffffffffff == 0 {
			c.Bits = v.Bits ^ 0x8000000000000000
		}
	}
	c.KVs = nil
	for _, kv := range v.KVs {
		c.KVs = append(c.KVs, KV{kv.K, flipZeros(kv.V)})
	}
	c.Items = nil
	for _, it := range v.Items {
		c.Items = append(c.Items, flipZeros(it))
	}
	return &c
}

func (b *Bridge) build(t Ty, v *V) (reflect.Value, error) {
	p := b.NewNamed(t.Ref)
	if err := b.Set(p.Elem(), t, v); err != nil {
		return reflect.Value{}, err
	}
	return p, nil
}

// genEquals / genHash call the generated Equals / ComputeHash of a record or union type.
func genEquals(a, b reflect.Value) (res bool, panicked string) {
	p, pv := hx.Recover(func() {
		out := a.MethodByName("Equals").Call([]reflect.Value{b})
		res = out[0].Bool()
	})
	if p {
		return false, fmt.Sprint(pv)
	}
	return res, ""
}

func genHash(a reflect.Value) (res string, panicked string) {
	p, pv := hx.Recover(func() {
		out := a.MethodByName("ComputeHash").Call(nil)
		res = fmt.Sprint(out[0].Interface())
	})
	if p {
		return "", fmt.Sprint(pv)
	}
	return res, ""
}

// runC10Gen: the Equals / ComputeHash contract on the bindings the real generator produced.
func (x *runner) runC10Gen() {
	r := x.r
	r.Rule = "generated Equals/ComputeHash of every corpus record and union type: pairs (v, rebuilt copy), (v, copy with map insertion order shuffled), (v, copy with every float zero sign-flipped), (v, independently drawn w), (v, v with one leaf or one optional field changed); D: Equals agrees with the reference field-by-field equality and is symmetric, Equal values hash alike, the hash is recomputed identically and does not depend on map insertion order; non-trivial = the two values differ; distinct by op line"
	n := 12
	if x.cfg.Tier == "thorough" {
		n = 200
	}
	x.runC10ComplexKey()
	var types []Ty
	for _, d := range x.env.Decls {
		if _, ok := gen.New[d.Name]; ok && (d.Kind == "record" || d.Kind == "union") {
			types = append(types, R(d.Name))
		}
	}
	for _, t := range types {
		for i := 0; i < n; i++ {
			v := x.env.GenValue(x.rng, t, 3, GenOpts{OptPct: 60})
			others := []struct {
				kind string
				w    *V
			}{
				{"copy", v},
				{"shuffled", shuffleV(v, x.rng)},
				{"zeros-flipped", flipZeros(v)},
				{"independent", x.env.GenValue(x.rng, t, 3, GenOpts{OptPct: 60})},
				{"one-change", x.mutateOne(t, v)},
			}
			pa, err := x.b.build(t, v)
			if err != nil {
				continue
			}
			hop := fmt.Sprintf("ghash %s %s %s %s", x.cfg.Module, x.env.Closure(t.Ref), t.Ref, v.Sexp())
			ha, pan := genHash(pa)
			if pan != "" {
				r.OracleFail(hx.Case{Sig: "C10 generated ComputeHash panicked", Op: hop, Impl: pan})
				continue
			}
			x.ask(hop, ha, "C10 ghash")
			for _, o := range others {
				pb, err := x.b.build(t, o.w)
				if err != nil {
					continue
				}
				op := fmt.Sprintf("geq %s %s %s %s %s", x.cfg.Module, x.env.Closure(t.Ref), t.Sexp(), v.Sexp(), o.w.Sexp())
				want := x.env.goEqual(t, v, o.w)
				r.OracleCases++
				r.Count("pair:" + o.kind + fmt.Sprintf(":equal=%v", want))
				if !want {
					r.Distinctive(op)
				}
				ab, pan1 := genEquals(pa, pb)
				ba, pan2 := genEquals(pb, pa)
				if pan1 != "" || pan2 != "" {
					r.OracleFail(hx.Case{Sig: "C10 generated Equals panicked", Op: op, Impl: pan1 + pan2})
					continue
				}
				if ab {
					x.ask(op, "1", "C10 geq")
				} else {
					x.ask(op, "0", "C10 geq")
				}
				if ab != want {
					r.OracleFail(hx.Case{Sig: "C10 generated Equals disagrees with field-by-field equality (" + o.kind + ")", Op: op, Impl: fmt.Sprint(ab), Expected: fmt.Sprint(want)})
				}
				if ab != ba {
					r.OracleFail(hx.Case{Sig: "C10 generated Equals is not symmetric", Op: op, Impl: fmt.Sprint(ab, " vs ", ba)})
				}
				hb, pan := genHash(pb)
				if pan != "" {
					r.OracleFail(hx.Case{Sig: "C10 generated ComputeHash panicked", Op: op, Impl: pan})
					continue
				}
				if ab && ha != hb {
					r.OracleFail(hx.Case{Sig: "C10 Equal values of a generated type hash differently (" + o.kind + ")", Op: op, Impl: ha + " vs " + hb})
				}
				if hb2, _ := genHash(pb); hb2 != hb {
					r.OracleFail(hx.Case{Sig: "C10 generated ComputeHash is not a function of the value", Op: op, Impl: hb + " then " + hb2})
				}
			}
			// nil on the right
			nilPtr := reflect.Zero(pa.Type())
			if eq, pan := genEquals(pa, nilPtr); pan != "" || eq {
				r.OracleFail(hx.Case{Sig: "C10 generated Equals(nil) is true or panics", Op: "geq-nil " + t.Ref + " " + v.Sexp(), Impl: fmt.Sprint(eq, pan)})
			}
		}
	}
}

// runC10ComplexKey: a generated complex key (key record Inner + params record Base): Equals looks
// at key part AND params, ComplexKeyEquals at the key part only, and each agrees with its hash.
func (x *runner) runC10ComplexKey() {
	r := x.r
	mk, ok := gen.NewComplexKey[C02ComplexKey]
	if !ok {
		return
	}
	n := 40
	if x.cfg.Tier == "thorough" {
		n = 600
	}
	build := func(key, params *V) reflect.Value {
		p := reflect.ValueOf(mk())
		if err := x.b.setRecord(p.Elem().FieldByName("Inner"), x.env.Find("Inner"), key); err != nil {
			panic(err)
		}
		if params != nil {
			pp := x.b.NewNamed("Base")
			if err := x.b.Set(pp.Elem(), R("Base"), params); err != nil {
				panic(err)
			}
			p.Elem().FieldByName("Params").Set(pp)
		}
		return p
	}
	call := func(a reflect.Value, m string, args ...reflect.Value) reflect.Value {
		return a.MethodByName(m).Call(args)[0]
	}
	for i := 0; i < n; i++ {
		k1 := x.env.GenValue(x.rng, R("Inner"), 1, GenOpts{OptPct: 50})
		k2 := k1
		if x.rng.Intn(2) == 0 {
			k2 = x.env.GenValue(x.rng, R("Inner"), 1, GenOpts{OptPct: 50})
		}
		var p1, p2 *V
		if x.rng.Intn(3) != 0 {
			p1 = x.env.GenValue(x.rng, R("Base"), 1, GenOpts{OptPct: 50})
		}
		switch x.rng.Intn(3) {
		case 0:
			p2 = p1
		case 1:
			p2 = x.env.GenValue(x.rng, R("Base"), 1, GenOpts{OptPct: 50})
		}
		a, b := build(k1, p1), build(k2, p2)
		keyEq := x.env.goEqual(R("Inner"), k1, k2)
		parEq := (p1 == nil) == (p2 == nil) && (p1 == nil || x.env.goEqual(R("Base"), p1, p2))
		op := fmt.Sprintf("ckeq %s key=%s/%s params=%v/%v", x.cfg.Module, k1.Sexp(), k2.Sexp(), p1 != nil, p2 != nil)
		if p1 != nil {
			op += " p1=" + p1.Sexp()
		}
		if p2 != nil {
			op += " p2=" + p2.Sexp()
		}
		r.OracleCases++
		r.Count(fmt.Sprintf("complex-key:keyEq=%v,paramsEq=%v", keyEq, parEq))
		r.Distinctive(op)
		eq := call(a, "Equals", b).Bool()
		ckeq := call(a, "ComplexKeyEquals", b).Bool()
		if eq != (keyEq && parEq) {
			r.OracleFail(hx.Case{Sig: "C10 complex key Equals is not 'key part and params both equal'", Op: op, Impl: fmt.Sprint(eq), Expected: fmt.Sprint(keyEq && parEq)})
		}
		if ckeq != keyEq {
			r.OracleFail(hx.Case{Sig: "C10 complex key ComplexKeyEquals is not 'key parts equal'", Op: op, Impl: fmt.Sprint(ckeq), Expected: fmt.Sprint(keyEq)})
		}
		if eq != call(b, "Equals", a).Bool() || ckeq != call(b, "ComplexKeyEquals", a).Bool() {
			r.OracleFail(hx.Case{Sig: "C10 complex key equality is not symmetric", Op: op})
		}
		ha, hb := fmt.Sprint(call(a, "ComputeHash").Interface()), fmt.Sprint(call(b, "ComputeHash").Interface())
		ka, kb := fmt.Sprint(call(a, "ComputeComplexKeyHash").Interface()), fmt.Sprint(call(b, "ComputeComplexKeyHash").Interface())
		if eq && ha != hb {
			r.OracleFail(hx.Case{Sig: "C10 Equal complex keys hash differently", Op: op, Impl: ha + " vs " + hb})
		}
		if ckeq && ka != kb {
			r.OracleFail(hx.Case{Sig: "C10 ComplexKeyEqual keys have different complex-key hashes", Op: op, Impl: ka + " vs " + kb})
		}
	}
}

// mutateOne changes one leaf, or drops / adds one optional field, somewhere in the value.
func (x *runner) mutateOne(t Ty, v *V) *V {
	c := shuffleV(v, x.rng) // deep copy (order is irrelevant to the bridge)
	var leaves []*V
	var walk func(n *V)
	walk = func(n *V) {
		switch n.K {
		case "rec", "union", "map":
			for _, kv := range n.KVs {
				walk(kv.V)
			}
		case "arr":
			for _, it := range n.Items {
				walk(it)
			}
		default:
			leaves = append(leaves, n)
		}
	}
	walk(c)
	if len(leaves) == 0 {
		return c
	}
	l := leaves[x.rng.Intn(len(leaves))]
	switch l.K {
	case "i32":
		l.I ^= 1
	case "i64":
		l.I ^= 1 << uint(x.rng.Intn(63))
	case "bool":
		l.Bool = !l.Bool
	case "f32":
		l.Bits ^= 1
	case "f64":
		l.Bits ^= 1 << uint(x.rng.Intn(52))
	case "str", "bytes":
		l.B = append(append([]byte{}, l.B...), 'x')
	case "fixed":
		if len(l.B) > 0 {
			l.B = append([]byte{}, l.B...)
			l.B[x.rng.Intn(len(l.B))] ^= 0x40
		}
	case "enum":
		if l.I > 1 {
			l.I--
		} else {
			l.I++
		}
	}
	return c
}
