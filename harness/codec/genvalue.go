package codec

import (
	"math"
	"math/rand"
)

// dangerous byte strings: ROR2/JSON/URL metacharacters, empty, the empty marker, non-ASCII
var nastyStrings = []string{
	"", "''", "'", "a", "hello world", "(", ")", ",", ":", "a:b", "c,d", "(x)", "List(", "List()", "%", "%41", "100%",
	"+", "a+b", " ", "  ", "\"", "\\", "\"\\\"", "/", "?", "#", "&", "=", ";", ".", "..", "\x00", "\x7f", "é", "日本",
	" ", "<tag>&amp;", "\n\r\t", "$set", "$delete", "$params", "*", "a/b", "~!@", "null", "true", "1e+06", "NaN",
}

var nastyBytes = [][]byte{{}, {0}, {0x7f}, {0x80}, {0xff}, {0xc3, 0xa9}, {0xc3}, {0xed, 0xa0, 0x80}, []byte("(a:b)"), {1, 2, 3, 255, 254}}

func genString(rng *rand.Rand) string {
	switch rng.Intn(4) {
	case 0, 1:
		return nastyStrings[rng.Intn(len(nastyStrings))]
	case 2:
		return nastyStrings[rng.Intn(len(nastyStrings))] + nastyStrings[rng.Intn(len(nastyStrings))]
	default:
		n := rng.Intn(6)
		b := make([]byte, n)
		for i := range b {
			const alpha = "abc():,'%+ \"\\xyz"
			b[i] = alpha[rng.Intn(len(alpha))]
		}
		return string(b)
	}
}

func genBytes(rng *rand.Rand) []byte {
	switch rng.Intn(3) {
	case 0:
		return append([]byte{}, nastyBytes[rng.Intn(len(nastyBytes))]...)
	case 1:
		return []byte(genString(rng))
	default:
		n := rng.Intn(5)
		b := make([]byte, n)
		for i := range b {
			b[i] = byte(rng.Intn(256))
		}
		return b
	}
}

var f64Specials = []float64{0, math.Copysign(0, -1), 1, -1, 0.1, 1.5, 1e6, 999999.9, 1e-5, 9.9e-5, 1e-4, 123456789.125, 1e21, 1e-7,
	math.MaxFloat64, -math.MaxFloat64, math.SmallestNonzeroFloat64, math.Inf(1), math.Inf(-1), math.NaN(), 1e308, 2.2250738585072014e-308, 4.9406564584124654e-324}
var f32Specials = []float32{0, float32(math.Copysign(0, -1)), 1, -1, 0.1, 1.5, 1e6, 1e-5, 3.4028235e38, 1e-45, float32(math.Inf(1)), float32(math.Inf(-1)), float32(math.NaN()), 16777216, 1.1}

func genF64(rng *rand.Rand) float64 {
	switch rng.Intn(3) {
	case 0:
		return f64Specials[rng.Intn(len(f64Specials))]
	case 1:
		return math.Float64frombits(rng.Uint64())
	default:
		return float64(rng.Intn(2000000)-1000000) / float64([]int{1, 10, 1000, 7}[rng.Intn(4)])
	}
}

func genF32(rng *rand.Rand) float32 {
	switch rng.Intn(3) {
	case 0:
		return f32Specials[rng.Intn(len(f32Specials))]
	case 1:
		return math.Float32frombits(rng.Uint32())
	default:
		return float32(rng.Intn(20000)-10000) / float32([]int{1, 10, 1000, 7}[rng.Intn(4)])
	}
}

var i32s = []int32{0, 1, -1, 42, math.MaxInt32, math.MinInt32, 1000000, -99}
var i64s = []int64{0, 1, -1, math.MaxInt64, math.MinInt64, math.MaxInt32 + 1, 1 << 53, -(1 << 53) - 1}

type GenOpts struct {
	// occasionally draw arrays with 11–13 items (index formatting, loops)
	LongArrays bool
	// probability (percent) that an optional/defaulted field is set
	OptPct int
	// allow schema-invalid values (enum out of range, unions with 0 or 2 members)
	Invalid bool
}

func (e *Env) GenPrim(rng *rand.Rand, p Prim) *V {
	switch p {
	case "i32":
		if rng.Intn(2) == 0 {
			return VI32(i32s[rng.Intn(len(i32s))])
		}
		return VI32(int32(rng.Uint32()))
	case "i64":
		if rng.Intn(2) == 0 {
			return VI64(i64s[rng.Intn(len(i64s))])
		}
		return VI64(int64(rng.Uint64()))
	case "f32":
		return VF32(genF32(rng))
	case "f64":
		return VF64(genF64(rng))
	case "bool":
		return VBool(rng.Intn(2) == 0)
	case "str":
		return VStr(genString(rng))
	default:
		return VBytes(genBytes(rng))
	}
}

// GenValue draws a value of type t; depth bounds recursion through recursive schemas.
func (e *Env) GenValue(rng *rand.Rand, t Ty, depth int, o GenOpts) *V {
	switch {
	case t.Prim != "":
		return e.GenPrim(rng, t.Prim)
	case t.Arr != nil:
		n := rng.Intn(4)
		if o.LongArrays && rng.Intn(6) == 0 {
			n = 11 + rng.Intn(3)
		}
		if depth <= 0 {
			n = 0
		}
		out := VArr()
		for i := 0; i < n; i++ {
			out.Items = append(out.Items, e.GenValue(rng, *t.Arr, depth-1, o))
		}
		return out
	case t.Map != nil:
		n := rng.Intn(4)
		if depth <= 0 {
			n = 0
		}
		out := VMap()
		seen := map[string]bool{}
		for i := 0; i < n; i++ {
			k := genString(rng)
			if seen[k] {
				continue
			}
			seen[k] = true
			out.KVs = append(out.KVs, KV{k, e.GenValue(rng, *t.Map, depth-1, o)})
		}
		return out
	}
	d := e.Find(t.Ref)
	switch d.Kind {
	case "typeref":
		return e.GenPrim(rng, d.Prim)
	case "enum":
		if o.Invalid && rng.Intn(4) == 0 {
			return VEnum(int32([]int{0, -1, len(d.Symbols) + 1, 1000}[rng.Intn(4)]))
		}
		return VEnum(int32(1 + rng.Intn(len(d.Symbols))))
	case "fixed":
		b := make([]byte, d.Size)
		for i := range b {
			if rng.Intn(2) == 0 {
				b[i] = byte(rng.Intn(256))
			} else {
				const alpha = "a(%'\x00\xff,:"
				b[i] = alpha[rng.Intn(len(alpha))]
			}
		}
		return VFixed(b)
	case "record":
		out := VRec()
		for _, f := range e.AllFields(d.Name) {
			if f.Optional || f.Default != nil {
				if rng.Intn(100) >= o.OptPct || (depth <= 0 && f.Ty.Ref != "" && e.Find(f.Ty.Ref).Kind == "record") {
					continue
				}
			}
			out.KVs = append(out.KVs, KV{f.Name, e.GenValue(rng, f.Ty, depth-1, o)})
		}
		return out
	case "union":
		out := VUnion()
		k := 1
		if o.Invalid {
			k = []int{0, 1, 1, 2, 3}[rng.Intn(5)]
		} else if d.HasNull && rng.Intn(4) == 0 {
			k = 0
		}
		perm := rng.Perm(len(d.Members))
		for i := 0; i < k && i < len(perm); i++ {
			m := d.Members[perm[i]]
			out.KVs = append(out.KVs, KV{m.Alias, e.GenValue(rng, m.Ty, depth-1, o)})
		}
		return out
	}
	panic("bad decl")
}
