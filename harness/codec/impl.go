package codec

import (
	"errors"
	"fmt"
	"reflect"
	"sort"
	"strings"
	"sync/atomic"
	"time"

	"github.com/PapaCharlie/go-restli/v2/restli"
	"github.com/PapaCharlie/go-restli/v2/restlicodec"
	"verif/harness/hx"
)

type Fmt string

var AllFmts = []Fmt{"header", "path", "query", "json", "pretty"}

// fmtHasExcl: which writers/readers can be configured with an exclusion spec
func writerFor(f Fmt, excl []string) restlicodec.Writer {
	var spec restlicodec.PathSpec
	if len(excl) > 0 {
		spec = restlicodec.NewPathSpec(excl...)
	}
	switch f {
	case "header":
		return restlicodec.NewRor2HeaderWriterWithExcludedFields(spec)
	case "path":
		return restlicodec.NewRor2PathWriter()
	case "query":
		return restlicodec.NewRestLiQueryParamsWriter()
	case "json":
		return restlicodec.NewCompactJsonWriterWithExcludedFields(spec)
	case "pretty":
		return restlicodec.NewPrettyJsonWriterWithExcludedFields(spec)
	}
	panic("bad fmt")
}

func FmtSupportsExcl(f Fmt, write bool) bool {
	if write {
		return f == "header" || f == "json" || f == "pretty"
	}
	return f != "query"
}

// Encode marshals v (of type t) with the real bindings. Returns the canonical outcome line
// ("ok <hex>", "err <class>", "panic") and the bytes.
func (b *Bridge) Encode(f Fmt, t Ty, v *V, excl []string) (outcome string, data []byte) {
	var err error
	panicked, pv := hx.Recover(func() {
		w := writerFor(f, excl)
		switch {
		case t.Prim != "":
			writePrim(w, t.Prim, v)
		case t.Ref != "" && b.Interp:
			err = b.interpMarshal(w, t, v)
		case t.Ref != "":
			p := b.NewNamed(t.Ref)
			if e := b.Set(p.Elem(), t, v); e != nil {
				err = e
				return
			}
			err = p.Interface().(restlicodec.Marshaler).MarshalRestLi(w)
		default:
			err = illTyped{"top-level arrays/maps are exercised inside records"}
		}
		if err == nil {
			data = []byte(w.Finalize())
		}
	})
	if panicked {
		return fmt.Sprintf("panic %v", pv), nil
	}
	if err != nil {
		return "err " + classifyEnc(err), nil
	}
	return "ok " + hx.Hex(data), data
}

func writePrim(w restlicodec.Writer, p Prim, v *V) {
	tmp := reflect.New((&Bridge{}).GoType(P(p))).Elem()
	if err := (&Bridge{}).Set(tmp, P(p), v); err != nil {
		panic(err)
	}
	switch p {
	case "i32":
		w.WriteInt32(int32(tmp.Int()))
	case "i64":
		w.WriteInt64(tmp.Int())
	case "f32":
		w.WriteFloat32(float32(tmp.Float()))
	case "f64":
		w.WriteFloat64(tmp.Float())
	case "bool":
		w.WriteBool(tmp.Bool())
	case "str":
		w.WriteString(tmp.String())
	case "bytes":
		w.WriteBytes(tmp.Bytes())
	}
}

// classifyEnc / classifyDec name an error by its TYPE only. The library gives no type to "union
// without a member", "fixed of the wrong size" or a syntax error (they are fmt.Errorf values), and
// no property speaks about the wording of a message: all of those are "other".
func classifyEnc(err error) string {
	var ie *restli.IllegalEnumConstant
	var it illTyped
	var iee interpEnumErr
	switch {
	case errors.As(err, &ie), errors.As(err, &iee):
		return "enum"
	case errors.As(err, &it):
		return "illtyped"
	}
	return "other"
}

func readerFor(f Fmt, data []byte, excl []string, ignore int) (restlicodec.Reader, error) {
	var spec restlicodec.PathSpec
	if len(excl) > 0 {
		spec = restlicodec.NewPathSpec(excl...)
	}
	switch f {
	case "json", "pretty":
		return restlicodec.NewJsonReaderWithExcludedFields(data, spec, ignore)
	case "header", "path":
		return restlicodec.NewRor2ReaderWithExcludedFields(string(data), spec, ignore)
	case "query":
		q, err := restlicodec.ParseQueryParams("p=" + string(data))
		if err != nil {
			return nil, err
		}
		r, ok := q["p"]
		if !ok {
			return nil, errors.New("empty query value")
		}
		return r, nil
	}
	panic("bad fmt")
}

var confirmedHangs int32

// Decode unmarshals data as a value of type t with the real bindings and returns the canonical
// outcome line; a decode that does not return within the watchdog period is reported as `hang`
// (retried once, in isolation, before it counts).
func (b *Bridge) Decode(f Fmt, t Ty, data []byte, excl []string, ignore int) string {
	// a decoder that hangs leaves a spinning goroutine behind each time; after three confirmed
	// hangs the run is already a violation and further decodes are not started (they would only
	// starve the rest of the run)
	return watched(func() string { return b.decode1(f, t, data, excl, ignore) })
}

// watched runs one call into the library under the watchdog: `hang` when it does not return
// (retried once before it counts; after three confirmed hangs nothing more is started, each hang
// leaves a spinning goroutine behind).
func watched(call func() string) string {
	if atomic.LoadInt32(&confirmedHangs) >= 3 {
		return "hang"
	}
	for attempt := 0; ; attempt++ {
		ch := make(chan string, 1)
		go func() { ch <- call() }()
		select {
		case out := <-ch:
			return out
		case <-time.After(4 * time.Second):
			if attempt == 1 {
				atomic.AddInt32(&confirmedHangs, 1)
				return "hang"
			}
		}
	}
}

func (b *Bridge) decode1(f Fmt, t Ty, data []byte, excl []string, ignore int) string {
	var outcome string
	panicked, pv := hx.Recover(func() {
		r, err := readerFor(f, data, excl, ignore)
		if err != nil {
			outcome = "err other"
			return
		}
		var got *V
		switch {
		case t.Prim != "":
			got, err = readPrim(r, t.Prim)
		case t.Ref != "" && b.Interp:
			got, err = b.interpUnmarshal(r, t)
		case t.Ref != "":
			p := b.NewNamed(t.Ref)
			err = p.Interface().(restlicodec.Unmarshaler).UnmarshalRestLi(r)
			got = b.Get(p.Elem(), t)
		default:
			outcome = "bad-op"
			return
		}
		outcome = classifyDec(err, got)
	})
	if panicked {
		return fmt.Sprintf("panic %v", pv)
	}
	return outcome
}

func readPrim(r restlicodec.Reader, p Prim) (*V, error) {
	switch p {
	case "i32":
		x, err := r.ReadInt32()
		return VI32(x), err
	case "i64":
		x, err := r.ReadInt64()
		return VI64(x), err
	case "f32":
		x, err := r.ReadFloat32()
		return VF32(x), err
	case "f64":
		x, err := r.ReadFloat64()
		return VF64(x), err
	case "bool":
		x, err := r.ReadBool()
		return VBool(x), err
	case "str":
		x, err := r.ReadString()
		return VStr(x), err
	default:
		x, err := r.ReadBytes()
		return VBytes(x), err
	}
}

func classifyDec(err error, got *V) string {
	if err == nil {
		return "ok " + got.Canon()
	}
	var de *restlicodec.DeserializationError
	inner := err
	for errors.As(inner, &de) && de.Err != nil && de.Err != inner {
		inner = de.Err
	}
	var me *restlicodec.MissingRequiredFieldsError
	var ee restlicodec.ExcludedFieldError
	switch {
	case errors.As(inner, &me):
		paths := append([]string{}, me.Fields...)
		sort.Strings(paths)
		hs := make([]string, len(paths))
		for i, p := range paths {
			hs[i] = hx.Hex([]byte(p))
		}
		return "err missing (" + strings.Join(hs, " ") + ") " + got.Canon()
	case errors.As(inner, &ee):
		return "err excluded " + hx.Hex([]byte(string(ee)))
	}
	return "err other"
}
