package codec

import (
	"errors"
	"fmt"
	"math"

	"github.com/PapaCharlie/go-restli/v2/restlicodec"
)

// The schema interpreter: what the generated MarshalRestLi / UnmarshalRestLi of a corpus type do,
// call for call, through the PUBLIC reader/writer API of restlicodec only — no generated code. It
// stands in for the bindings where the harness is linked against a module copy for which the real
// generator is not run at check time (the root module), so that the library under the bindings —
// writers, readers, exclusion specs, required-field accounting — is exercised there too. Where the
// bindings exist (v2) the runners use them, and the interpreter can be compared with them
// (VERIF_INTERP_CROSSCHECK=1).

type interpEnumErr struct{ c int64 }

func (e interpEnumErr) Error() string { return fmt.Sprintf("illegal enum constant %d", e.c) }

var errInterpUnion = errors.New("must specify exactly one union member")

func (b *Bridge) interpMarshal(w restlicodec.Writer, t Ty, v *V) error {
	bad := func() error { return illTyped{fmt.Sprintf("%s for %s", v.K, t.Sexp())} }
	prim := func(p Prim) error {
		if v.K != string(p) {
			return bad()
		}
		switch p {
		case "i32":
			w.WriteInt32(int32(v.I))
		case "i64":
			w.WriteInt64(v.I)
		case "f32":
			w.WriteFloat32(math.Float32frombits(uint32(v.Bits)))
		case "f64":
			w.WriteFloat64(math.Float64frombits(v.Bits))
		case "bool":
			w.WriteBool(v.Bool)
		case "str":
			w.WriteString(string(v.B))
		default:
			w.WriteBytes(v.B)
		}
		return nil
	}
	switch {
	case t.Prim != "":
		return prim(t.Prim)
	case t.Arr != nil:
		if v.K != "arr" {
			return bad()
		}
		return w.WriteArray(func(itemWriter func() restlicodec.Writer) error {
			for _, e := range v.Items {
				if err := b.interpMarshal(itemWriter(), *t.Arr, e); err != nil {
					return err
				}
			}
			return nil
		})
	case t.Map != nil:
		if v.K != "map" {
			return bad()
		}
		return w.WriteMap(func(keyWriter func(string) restlicodec.Writer) error {
			for _, kv := range v.KVs {
				if err := b.interpMarshal(keyWriter(kv.K), *t.Map, kv.V); err != nil {
					return err
				}
			}
			return nil
		})
	}
	d := b.Env.Find(t.Ref)
	if d == nil {
		return bad()
	}
	switch d.Kind {
	case "typeref":
		return prim(d.Prim)
	case "enum":
		if v.K != "enum" {
			return bad()
		}
		if v.I < 1 || v.I > int64(len(d.Symbols)) {
			return interpEnumErr{v.I}
		}
		w.WriteString(d.Symbols[v.I-1])
		return nil
	case "fixed":
		if v.K != "fixed" || len(v.B) != d.Size {
			return bad()
		}
		w.WriteBytes(v.B)
		return nil
	case "record":
		if v.K != "rec" {
			return bad()
		}
		for _, f := range b.Env.AllFields(t.Ref) {
			if v.Get(f.Name) == nil && !f.Optional && f.Default == nil {
				return bad() // a required Go field always holds a value
			}
		}
		return w.WriteMap(func(keyWriter func(string) restlicodec.Writer) error {
			for _, f := range b.Env.AllFields(t.Ref) {
				if fv := v.Get(f.Name); fv != nil {
					if err := b.interpMarshal(keyWriter(f.Name), f.Ty, fv); err != nil {
						return err
					}
				}
			}
			return nil
		})
	case "union":
		if v.K != "union" {
			return bad()
		}
		return w.WriteMap(func(keyWriter func(string) restlicodec.Writer) error {
			set := 0
			for _, m := range d.Members {
				if v.Get(m.Alias) != nil {
					set++
				}
			}
			if set > 1 || (set == 0 && !d.HasNull) {
				return errInterpUnion
			}
			for _, m := range d.Members {
				if mv := v.Get(m.Alias); mv != nil {
					if err := b.interpMarshal(keyWriter(m.Alias), m.Ty, mv); err != nil {
						return err
					}
				}
			}
			return nil
		})
	}
	return bad()
}

// zeroV: the Go zero value of the generated type (what a required field holds when the document
// did not carry it)
func (b *Bridge) zeroV(t Ty) *V {
	switch {
	case t.Prim != "":
		switch t.Prim {
		case "i32":
			return VI32(0)
		case "i64":
			return VI64(0)
		case "f32":
			return VF32(0)
		case "f64":
			return VF64(0)
		case "bool":
			return VBool(false)
		case "str":
			return VStr("")
		default:
			return VBytes(nil)
		}
	case t.Arr != nil:
		return VArr()
	case t.Map != nil:
		return VMap()
	}
	d := b.Env.Find(t.Ref)
	switch d.Kind {
	case "typeref":
		return b.zeroV(P(d.Prim))
	case "enum":
		return VEnum(0)
	case "fixed":
		return VFixed(make([]byte, d.Size))
	case "record":
		out := VRec()
		for _, f := range b.Env.AllFields(t.Ref) {
			if !f.Optional && f.Default == nil {
				out.KVs = append(out.KVs, KV{f.Name, b.zeroV(f.Ty)})
			}
		}
		return out
	}
	return VUnion()
}

func setKV(kvs []KV, k string, v *V) []KV {
	for i := range kvs {
		if kvs[i].K == k {
			kvs[i].V = v
			return kvs
		}
	}
	return append(kvs, KV{k, v})
}

// interpUnmarshal returns the value read so far together with the error, like a generated
// UnmarshalRestLi leaves its receiver partially filled.
func (b *Bridge) interpUnmarshal(r restlicodec.Reader, t Ty) (*V, error) {
	switch {
	case t.Prim != "":
		return readPrim(r, t.Prim)
	case t.Arr != nil:
		out := VArr()
		err := r.ReadArray(func(reader restlicodec.Reader) error {
			v, err := b.interpUnmarshal(reader, *t.Arr)
			if err != nil {
				return err
			}
			out.Items = append(out.Items, v)
			return nil
		})
		return out, err
	case t.Map != nil:
		out := VMap()
		err := r.ReadMap(func(reader restlicodec.Reader, key string) error {
			v, err := b.interpUnmarshal(reader, *t.Map)
			if err != nil {
				return err
			}
			out.KVs = setKV(out.KVs, key, v)
			return nil
		})
		return out, err
	}
	d := b.Env.Find(t.Ref)
	if d == nil {
		return nil, errors.New("unknown type")
	}
	switch d.Kind {
	case "typeref":
		return readPrim(r, d.Prim)
	case "enum":
		s, err := r.ReadString()
		if err != nil {
			return VEnum(0), err
		}
		for i, sym := range d.Symbols {
			if sym == s {
				return VEnum(int32(i + 1)), nil
			}
		}
		return VEnum(0), nil
	case "fixed":
		bs, err := r.ReadBytes()
		if err != nil {
			return VFixed(make([]byte, d.Size)), err
		}
		if len(bs) != d.Size {
			return VFixed(make([]byte, d.Size)), fmt.Errorf("size of %s must be exactly %d, got %d", d.Name, d.Size, len(bs))
		}
		return VFixed(bs), nil
	case "record":
		fields := b.Env.AllFields(t.Ref)
		var required []string
		for _, f := range fields {
			if !f.Optional && f.Default == nil {
				required = append(required, f.Name)
			}
		}
		read := VRec()
		err := r.ReadRecord(mkRequired(required), func(reader restlicodec.Reader, field string) error {
			for _, f := range fields {
				if f.Name == field {
					v, err := b.interpUnmarshal(reader, f.Ty)
					if err != nil {
						return err
					}
					read.KVs = setKV(read.KVs, field, v)
					return nil
				}
			}
			return reader.Skip()
		})
		// the struct as Go holds it: required fields always there (zero when not read)
		out := VRec()
		for _, f := range fields {
			if fv := read.Get(f.Name); fv != nil {
				out.KVs = append(out.KVs, KV{f.Name, fv})
			} else if !f.Optional && f.Default == nil {
				out.KVs = append(out.KVs, KV{f.Name, b.zeroV(f.Ty)})
			}
		}
		if err != nil {
			return out, err
		}
		// populateLocalDefaultValues: the record's OWN defaulted fields
		for _, f := range d.Fields {
			if f.Default != nil && out.Get(f.Name) == nil {
				out.KVs = append(out.KVs, KV{f.Name, b.Env.expectedOwnOnly(f.Ty, f.Default)})
			}
		}
		return out, nil
	case "union":
		out := VUnion()
		seen := 0
		err := r.ReadMap(func(reader restlicodec.Reader, key string) error {
			if seen > 0 {
				return errInterpUnion
			}
			for _, m := range d.Members {
				if m.Alias == key {
					v, err := b.interpUnmarshal(reader, m.Ty)
					if err != nil {
						return err
					}
					out.KVs = setKV(out.KVs, key, v)
					seen++
					return nil
				}
			}
			return fmt.Errorf("unknown union member %q", key)
		})
		if err != nil {
			return out, err
		}
		if seen == 0 && !d.HasNull {
			return out, errInterpUnion
		}
		return out, nil
	}
	return nil, errors.New("bad decl")
}
