//go:build !rootmod

package codec

import (
	"errors"
	"fmt"
	"math/rand"
	"reflect"
	"sort"
	"strings"
	"sync/atomic"
	"time"

	"github.com/PapaCharlie/go-restli/v2/codegen/utils"
	"github.com/PapaCharlie/go-restli/v2/restli/patch"
	"github.com/PapaCharlie/go-restli/v2/restlicodec"
	"verif/harness/gen"
	"verif/harness/hx"
)

// PU is the model-level content of a generated X_PartialUpdate struct, field names flattened
// over the include closure: delete flags that are set, set-pointers that are non-nil, nested
// partial updates that are non-nil.
type PU struct {
	Del   []string
	Set   []KV
	Patch []PKV
}

type PKV struct {
	K string
	V *PU
}

func (p *PU) sexp(canon bool) string {
	del := append([]string{}, p.Del...)
	set := append([]KV{}, p.Set...)
	pat := append([]PKV{}, p.Patch...)
	if canon {
		sort.Strings(del)
		sort.SliceStable(set, func(i, j int) bool { return set[i].K < set[j].K })
		sort.SliceStable(pat, func(i, j int) bool { return pat[i].K < pat[j].K })
	}
	var b strings.Builder
	b.WriteString("(pu (del")
	for _, d := range del {
		b.WriteString(" " + hexs(d))
	}
	b.WriteString(") (set")
	for _, kv := range set {
		if canon {
			b.WriteString(" (" + hexs(kv.K) + " " + kv.V.Canon() + ")")
		} else {
			b.WriteString(" (" + hexs(kv.K) + " " + kv.V.Sexp() + ")")
		}
	}
	b.WriteString(") (patch")
	for _, kv := range pat {
		b.WriteString(" (" + hexs(kv.K) + " " + kv.V.sexp(canon) + ")")
	}
	b.WriteString("))")
	return b.String()
}

func (p *PU) Sexp() string  { return p.sexp(false) }
func (p *PU) Canon() string { return p.sexp(true) }

// declaring returns the record of rec's include closure that declares the field.
func (e *Env) declaring(rec, field string) string {
	d := e.Find(rec)
	for _, inc := range d.Includes {
		if r := e.declaring(inc, field); r != "" {
			return r
		}
	}
	for _, f := range d.Fields {
		if f.Name == field {
			return rec
		}
	}
	return ""
}

// puStruct finds, inside rv (a `<rec>_PartialUpdate` struct), the embedded partial update struct
// of the record `want` of rec's include closure: the struct whose slots the generated code reads.
func (b *Bridge) puStruct(rv reflect.Value, rec, want string) (reflect.Value, bool) {
	if rec == want {
		return rv, true
	}
	for _, inc := range b.Env.Find(rec).Includes {
		sub := rv.FieldByName(utils.ExportedIdentifier(inc) + "_PartialUpdate")
		if !sub.IsValid() {
			continue
		}
		if s, ok := b.puStruct(sub, inc, want); ok {
			return s, true
		}
	}
	return reflect.Value{}, false
}

func (e *Env) fieldOf(rec, name string) (Field, bool) {
	for _, f := range e.AllFields(rec) {
		if f.Name == name {
			return f, true
		}
	}
	return Field{}, false
}

func (e *Env) recordTy(t Ty) string {
	if t.Ref != "" && e.Find(t.Ref).Kind == "record" {
		return t.Ref
	}
	return ""
}

// SetPU stores pu into rv, an addressable `<rec>_PartialUpdate` struct.
func (b *Bridge) SetPU(rv reflect.Value, rec string, pu *PU) error {
	slot := func(name string) (reflect.Value, Field, error) {
		f, ok := b.Env.fieldOf(rec, name)
		if !ok {
			return reflect.Value{}, f, illTyped{"no field " + name + " in " + rec}
		}
		s, ok := b.puStruct(rv, rec, b.Env.declaring(rec, name))
		if !ok {
			return reflect.Value{}, f, illTyped{"no partial update struct for " + name}
		}
		return s, f, nil
	}
	for _, name := range pu.Del {
		s, _, err := slot(name)
		if err != nil {
			return err
		}
		fv := s.FieldByName("Delete_Fields").FieldByName(utils.ExportedIdentifier(name))
		if !fv.IsValid() || fv.Kind() != reflect.Bool {
			return illTyped{"field " + name + " has no delete flag"}
		}
		fv.SetBool(true)
	}
	for _, kv := range pu.Set {
		s, f, err := slot(kv.K)
		if err != nil {
			return err
		}
		fv := s.FieldByName("Set_Fields").FieldByName(utils.ExportedIdentifier(kv.K))
		p := reflect.New(fv.Type().Elem())
		if err := b.Set(p.Elem(), f.Ty, kv.V); err != nil {
			return err
		}
		fv.Set(p)
	}
	for _, kv := range pu.Patch {
		s, f, err := slot(kv.K)
		if err != nil {
			return err
		}
		sub := b.Env.recordTy(f.Ty)
		fv := s.FieldByName(utils.ExportedIdentifier(kv.K))
		if sub == "" || !fv.IsValid() || fv.Kind() != reflect.Ptr {
			return illTyped{"field " + kv.K + " cannot be patched"}
		}
		p := reflect.New(fv.Type().Elem())
		if err := b.SetPU(p.Elem(), sub, kv.V); err != nil {
			return err
		}
		fv.Set(p)
	}
	return nil
}

// GetPU reads the slots the generated code reads back into a PU.
func (b *Bridge) GetPU(rv reflect.Value, rec string) *PU {
	out := &PU{}
	for _, f := range b.Env.AllFields(rec) {
		s, ok := b.puStruct(rv, rec, b.Env.declaring(rec, f.Name))
		if !ok {
			continue
		}
		id := utils.ExportedIdentifier(f.Name)
		if fv := s.FieldByName("Delete_Fields").FieldByName(id); (f.Optional || f.Default != nil) && fv.IsValid() && fv.Kind() == reflect.Bool && fv.Bool() {
			out.Del = append(out.Del, f.Name)
		}
		if fv := s.FieldByName("Set_Fields").FieldByName(id); fv.IsValid() && !fv.IsNil() {
			out.Set = append(out.Set, KV{f.Name, b.Get(fv.Elem(), f.Ty)})
		}
		if sub := b.Env.recordTy(f.Ty); sub != "" {
			if fv := s.FieldByName(id); fv.IsValid() && fv.Kind() == reflect.Ptr && !fv.IsNil() {
				out.Patch = append(out.Patch, PKV{f.Name, b.GetPU(fv.Elem(), sub)})
			}
		}
	}
	return out
}

// classifyPUErr: a refusal is recognised by the error's type and names the field; which of the
// checker's rules fired is in the message text only, and no property speaks about that text.
func classifyPUErr(err error) (string, bool) {
	var ie *patch.IllegalPartialUpdateError
	if errors.As(err, &ie) {
		return "err pu " + hexs(ie.Field), true
	}
	return "", false
}

// EncodePU marshals the partial update with the real bindings as compact JSON.
func (b *Bridge) EncodePU(rec string, pu *PU, excl []string) (outcome string, data []byte) {
	var err error
	panicked, pv := hx.Recover(func() {
		p := reflect.ValueOf(gen.NewPU[rec]())
		if e := b.SetPU(p.Elem(), rec, pu); e != nil {
			err = e
			return
		}
		w := writerFor("json", excl)
		err = p.Interface().(restlicodec.Marshaler).MarshalRestLi(w)
		if err == nil {
			data = []byte(w.Finalize())
		}
	})
	if panicked {
		return fmt.Sprintf("panic %v", pv), nil
	}
	if err != nil {
		if s, ok := classifyPUErr(err); ok {
			return s, nil
		}
		return "err " + classifyEnc(err), nil
	}
	return "ok " + hx.Hex(data), data
}

// DecodePU unmarshals a JSON partial update with the real bindings.
func (b *Bridge) DecodePU(rec string, data []byte, excl []string, ignore int) string {
	if atomic.LoadInt32(&confirmedHangs) >= 3 {
		return "hang"
	}
	for attempt := 0; ; attempt++ {
		ch := make(chan string, 1)
		go func() { ch <- b.decodePU1(rec, data, excl, ignore) }()
		select {
		case out := <-ch:
			return out
		case <-time.After(4 * time.Second):
			if attempt == 1 {
				atomic.AddInt32(&confirmedHangs, 1)
				return "hang"
			}
		}
	}
}

func (b *Bridge) decodePU1(rec string, data []byte, excl []string, ignore int) string {
	var outcome string
	panicked, pv := hx.Recover(func() {
		r, err := readerFor("json", data, excl, ignore)
		if err != nil {
			outcome = "err other"
			return
		}
		p := reflect.ValueOf(gen.NewPU[rec]())
		err = p.Interface().(restlicodec.Unmarshaler).UnmarshalRestLi(r)
		if err == nil {
			outcome = "ok " + b.GetPU(p.Elem(), rec).Canon()
			return
		}
		if s, ok := classifyPUErr(err); ok {
			outcome = s
			return
		}
		out := classifyDec(err, &V{K: "rec"})
		if strings.HasPrefix(out, "err missing (") {
			out = out[:strings.Index(out, ")")+1]
		}
		outcome = out
	})
	if panicked {
		return fmt.Sprintf("panic %v", pv)
	}
	return outcome
}

// GenPU draws a partial update of record rec. conflictPct is the chance, per touched field, of
// adding a second (conflicting) operation on it.
func (e *Env) GenPU(rng *rand.Rand, rec string, depth int, conflictPct int) (pu *PU, conflict bool) {
	pu = &PU{}
	for _, f := range e.AllFields(rec) {
		deletable := f.Optional || f.Default != nil
		sub := e.recordTy(f.Ty)
		var kinds []string
		switch r := rng.Intn(100); {
		case r < 50:
		case r < 64 && deletable:
			kinds = []string{"del"}
		case r < 86:
			kinds = []string{"set"}
		case sub != "" && depth > 0:
			kinds = []string{"patch"}
		}
		if len(kinds) == 1 && rng.Intn(100) < conflictPct {
			var others []string
			for _, k := range []string{"del", "set", "patch"} {
				if k == kinds[0] || (k == "del" && !deletable) || (k == "patch" && (sub == "" || depth == 0)) {
					continue
				}
				others = append(others, k)
			}
			if len(others) > 0 {
				kinds = append(kinds, others[rng.Intn(len(others))])
				conflict = true
			}
		}
		for _, k := range kinds {
			switch k {
			case "del":
				pu.Del = append(pu.Del, f.Name)
			case "set":
				pu.Set = append(pu.Set, KV{f.Name, e.GenValue(rng, f.Ty, 2, GenOpts{OptPct: 60})})
			case "patch":
				s, c := e.GenPU(rng, sub, depth-1, conflictPct)
				conflict = conflict || c
				pu.Patch = append(pu.Patch, PKV{f.Name, s})
			}
		}
	}
	return pu, conflict
}

// RefPatchDoc is the protocol's patch document for a partial update, written from the protocol
// description: {"$delete":[names], "$set":{name: value}, name: nested patch}. nil when a set
// value violates a schema constraint.
func (e *Env) RefPatchDoc(rec string, pu *PU) *D {
	out := &D{K: "obj"}
	if len(pu.Del) > 0 {
		arr := &D{K: "arr"}
		for _, n := range pu.Del {
			arr.Elts = append(arr.Elts, &D{K: "str", S: []byte(n)})
		}
		out.KVs = append(out.KVs, DKV{"$delete", arr})
	}
	if len(pu.Set) > 0 {
		set := &D{K: "obj"}
		for _, kv := range pu.Set {
			f, _ := e.fieldOf(rec, kv.K)
			d := e.RefDoc(f.Ty, kv.V)
			if d == nil {
				return nil
			}
			set.KVs = append(set.KVs, DKV{kv.K, d})
		}
		out.KVs = append(out.KVs, DKV{"$set", set})
	}
	for _, kv := range pu.Patch {
		f, _ := e.fieldOf(rec, kv.K)
		d := e.RefPatchDoc(e.recordTy(f.Ty), kv.V)
		if d == nil {
			return nil
		}
		out.KVs = append(out.KVs, DKV{kv.K, d})
	}
	return out
}

// sortDeletes puts every `$delete` list of a parsed / reference patch document in name order:
// the protocol gives the list set semantics.
func sortDeletesAny(v any) {
	switch t := v.(type) {
	case map[string]any:
		for k, c := range t {
			if a, ok := c.([]any); ok && k == "$delete" {
				sort.SliceStable(a, func(i, j int) bool { return fmt.Sprint(a[i]) < fmt.Sprint(a[j]) })
			} else {
				sortDeletesAny(c)
			}
		}
	case []any:
		for _, c := range t {
			sortDeletesAny(c)
		}
	}
}

func sortDeletesDoc(d *D) {
	for _, kv := range d.KVs {
		if kv.K == "$delete" && kv.V.K == "arr" {
			sort.SliceStable(kv.V.Elts, func(i, j int) bool { return string(kv.V.Elts[i].S) < string(kv.V.Elts[j].S) })
		} else {
			sortDeletesDoc(kv.V)
		}
	}
	for _, c := range d.Elts {
		sortDeletesDoc(c)
	}
}

// samePatchTree: SameTree with `$delete` lists compared as sets
func samePatchTree(tree any, want *D) bool {
	w := want.clone()
	sortDeletesDoc(w)
	sortDeletesAny(tree)
	return SameTree(tree, w)
}

func (e *Env) RefPUDoc(rec string, pu *PU) *D {
	p := e.RefPatchDoc(rec, pu)
	if p == nil {
		return nil
	}
	return &D{K: "obj", KVs: []DKV{{"patch", p}}}
}

// expectedPU: what reading the patch document back must yield (set values as decoding returns
// them: the record's own defaults filled in).
func (e *Env) expectedPU(rec string, pu *PU) *PU {
	out := &PU{Del: pu.Del}
	for _, kv := range pu.Set {
		f, _ := e.fieldOf(rec, kv.K)
		out.Set = append(out.Set, KV{kv.K, e.expectedOwnOnly(f.Ty, kv.V)})
	}
	for _, kv := range pu.Patch {
		f, _ := e.fieldOf(rec, kv.K)
		out.Patch = append(out.Patch, PKV{kv.K, e.expectedPU(e.recordTy(f.Ty), kv.V)})
	}
	return out
}

// touchPaths lists the entity-relative paths the partial update touches directly (a deleted, set
// or patched field, at any nesting of patches) and, for set values, every path inside the value.
func (e *Env) touchPaths(rec string, pu *PU, prefix []string, direct, nested *[][]string) {
	at := func(n string) []string { return append(append([]string{}, prefix...), n) }
	for _, n := range pu.Del {
		*direct = append(*direct, at(n))
	}
	for _, kv := range pu.Set {
		*direct = append(*direct, at(kv.K))
		f, _ := e.fieldOf(rec, kv.K)
		if d := e.RefDoc(f.Ty, kv.V); d != nil {
			var sub [][]string
			docPaths(d, at(kv.K), &sub)
			*nested = append(*nested, sub...)
		}
	}
	for _, kv := range pu.Patch {
		*direct = append(*direct, at(kv.K))
		f, _ := e.fieldOf(rec, kv.K)
		e.touchPaths(e.recordTy(f.Ty), kv.V, at(kv.K), direct, nested)
	}
}

// prunePatchDoc removes from the `$set` values of a patch document every node whose
// entity-relative path matches the spec.
func prunePatchDoc(d *D, spec [][]string, prefix []string) *D {
	out := &D{K: "obj"}
	for _, kv := range d.KVs {
		switch kv.K {
		case "$delete":
			out.KVs = append(out.KVs, DKV{kv.K, kv.V.clone()})
		case "$set":
			set := &D{K: "obj"}
			for _, e := range kv.V.KVs {
				p := append(append([]string{}, prefix...), e.K)
				set.KVs = append(set.KVs, DKV{e.K, pruneDoc(e.V, spec, p)})
			}
			out.KVs = append(out.KVs, DKV{kv.K, set})
		default:
			out.KVs = append(out.KVs, DKV{kv.K, prunePatchDoc(kv.V, spec, append(append([]string{}, prefix...), kv.K))})
		}
	}
	return out
}

func (x *runner) puEncOp(rec string, pu *PU, excl []string) string {
	return fmt.Sprintf("puenc %s %s %s %s %s", x.cfg.Module, x.env.Closure(rec), rec, exclSexp(excl), pu.Sexp())
}

func (x *runner) puDecOp(rec string, data []byte, excl []string, ignore int) string {
	return fmt.Sprintf("pudec %s %s %s %s %d %s", x.cfg.Module, x.env.Closure(rec), rec, exclSexp(excl), ignore, hx.Hex(data))
}

func (x *runner) patchRecords() []string {
	var out []string
	for _, t := range x.recordTypes() {
		if _, ok := gen.NewPU[t.Ref]; ok {
			out = append(out, t.Ref)
		}
	}
	return out
}

// runPatchC11: partial updates obey the protocol's constraints in both directions and
// round-trip in the patch / $set / $delete shape.
func (x *runner) runPatchC11() {
	r := x.r
	n := 12
	if x.cfg.Tier == "thorough" {
		n = 150
	}
	for _, rec := range x.patchRecords() {
		for i := 0; i < n; i++ {
			conflictPct := 0
			if i%3 == 2 {
				conflictPct = 35
			}
			pu, conflict := x.env.GenPU(x.rng, rec, 2, conflictPct)
			ref := x.env.RefPUDoc(rec, pu)
			if ref == nil {
				continue
			}
			op := x.puEncOp(rec, pu, nil)
			impl, data := x.b.EncodePU(rec, pu, nil)
			r.OracleCases++
			r.Count("pu-enc")
			if conflict {
				r.Distinctive(op)
			}
			x.ask(op, impl, "C11 puenc")
			if conflict {
				if !strings.HasPrefix(impl, "err pu ") {
					r.OracleFail(hx.Case{Sig: "C11 partial update with two operations on one field was encoded", Op: op, Impl: impl, Expected: "err pu <field>"})
				}
			} else if data == nil {
				r.OracleFail(hx.Case{Sig: "C11 valid partial update rejected by the encoder", Op: op, Impl: impl, Expected: "ok …"})
			} else {
				tree, err := ParseJSONStrict(data)
				if err != nil || !samePatchTree(tree, ref) {
					r.OracleFail(hx.Case{Sig: "C11 partial update not encoded in the patch/$set/$delete shape", Op: op, Impl: string(data), Expected: ref.JSON(JSONStyle{})})
				}
				want := "ok " + x.env.expectedPU(rec, pu).Canon()
				dop := x.puDecOp(rec, data, nil, 0)
				dimpl := x.b.DecodePU(rec, data, nil, 0)
				r.OracleCases++
				r.Count("pu-roundtrip")
				x.ask(dop, dimpl, "C11 pudec")
				if dimpl != want {
					r.OracleFail(hx.Case{Sig: classifyPUDiff(x.env, rec, pu, dimpl, want), Op: dop, Impl: dimpl, Expected: want})
				}
			}
			// the reference document (keys shuffled, unknown operators and fields injected)
			doc := ref.clone()
			shuffleDoc(doc, x.rng)
			if x.rng.Intn(3) == 0 {
				p := doc.get("patch")
				p.KVs = append(p.KVs, DKV{"noSuchField", &D{K: "obj", KVs: []DKV{{"$set", &D{K: "obj"}}}}})
				if s := p.get("$set"); s != nil {
					s.KVs = append(s.KVs, DKV{"noSuchField", &D{K: "int", I: 1}})
				}
				if dl := p.get("$delete"); dl != nil {
					dl.Elts = append(dl.Elts, &D{K: "str", S: []byte("noSuchField")})
				}
				doc.KVs = append(doc.KVs, DKV{"other", &D{K: "int", I: 1}})
			}
			data2 := []byte(doc.JSON(JSONStyle{}))
			dop := x.puDecOp(rec, data2, nil, 0)
			dimpl := x.b.DecodePU(rec, data2, nil, 0)
			r.OracleCases++
			r.Count("pu-dec-ref")
			x.ask(dop, dimpl, "C11 pudec ref")
			if conflict {
				if !strings.HasPrefix(dimpl, "err pu ") {
					r.OracleFail(hx.Case{Sig: "C11 patch document with two operations on one field was accepted", Op: dop, Impl: dimpl, Expected: "err pu <field>"})
				}
			} else if want := "ok " + x.env.expectedPU(rec, pu).Canon(); dimpl != want {
				r.OracleFail(hx.Case{Sig: classifyPUDiff(x.env, rec, pu, dimpl, want) + " (reference document)", Op: dop, Impl: dimpl, Expected: want})
			}
			// deleting a required field
			if !conflict {
				var required []string
				for _, f := range x.env.AllFields(rec) {
					if !f.Optional && f.Default == nil {
						required = append(required, f.Name)
					}
				}
				if len(required) > 0 {
					doc := ref.clone()
					p := doc.get("patch")
					name := required[x.rng.Intn(len(required))]
					dl := p.get("$delete")
					if dl == nil {
						dl = &D{K: "arr"}
						p.KVs = append(p.KVs, DKV{"$delete", dl})
					}
					dl.Elts = append(dl.Elts, &D{K: "str", S: []byte(name)})
					data3 := []byte(doc.JSON(JSONStyle{}))
					dop := x.puDecOp(rec, data3, nil, 0)
					dimpl := x.b.DecodePU(rec, data3, nil, 0)
					r.OracleCases++
					r.Count("pu-delete-required")
					r.Distinctive(dop)
					x.ask(dop, dimpl, "C11 pudec delete required")
					if !strings.HasPrefix(dimpl, "err pu ") {
						r.OracleFail(hx.Case{Sig: "C11 patch document deleting a required field was accepted", Op: dop, Impl: dimpl, Expected: "err pu <field>", Note: name})
					}
				}
			}
		}
	}
}

// classifyPUDiff names what differs, so that known deviations can be told apart.
func classifyPUDiff(e *Env, rec string, pu *PU, got, want string) string {
	if !strings.HasPrefix(got, "ok ") {
		return "C11 valid partial update document rejected"
	}
	return "C11 partial update does not round-trip"
}

// runPatchC07: a partial update touching a read-only / create-only field fails on the client
// before anything is sent, and the server-side reader rejects a document that carries one.
func (x *runner) runPatchC07() {
	r := x.r
	n := 10
	if x.cfg.Tier == "thorough" {
		n = 120
	}
	for _, rec := range x.patchRecords() {
		for i := 0; i < n; i++ {
			pu, _ := x.env.GenPU(x.rng, rec, 2, 0)
			ref := x.env.RefPUDoc(rec, pu)
			if ref == nil {
				continue
			}
			var direct, nested [][]string
			x.env.touchPaths(rec, pu, nil, &direct, &nested)
			all := append(append([][]string{}, direct...), nested...)
			var spec [][]string
			for k, nd := 0, 1+x.rng.Intn(2); k < nd; k++ {
				var p []string
				if len(all) > 0 && x.rng.Intn(4) != 0 {
					p = append([]string{}, all[x.rng.Intn(len(all))]...)
					if len(p) > 4 {
						p = p[:4]
					}
					// never at the top: the first segment of a read-only / create-only path is a
					// field of the entity
					for j := 1; j < len(p); j++ {
						if x.rng.Intn(8) == 0 {
							p[j] = "*"
						}
					}
				} else {
					fs := x.env.AllFields(rec)
					if len(fs) == 0 {
						continue
					}
					p = []string{fs[x.rng.Intn(len(fs))].Name}
				}
				usable := true
				for _, seg := range p {
					if seg == "" || strings.Contains(seg, "/") || seg == "$set" || seg == "$delete" {
						usable = false
					}
				}
				if usable {
					spec = append(spec, p)
				}
			}
			if len(spec) == 0 {
				continue
			}
			var excl []string
			for _, p := range spec {
				excl = append(excl, strings.Join(p, "/"))
			}
			touched, carried := false, false
			for _, p := range direct {
				if specMatches(spec, p) {
					touched = true
				}
			}
			for _, p := range nested {
				if specMatches(spec, p) {
					carried = true
				}
			}
			note := strings.Join(excl, " ")
			sigNote := ""
			for _, dir := range spec {
				for _, q := range nested {
					if len(q) == len(dir) && q[len(q)-1] == "*" && specMatches([][]string{dir}, q) {
						sigNote = " [a directive ends at an array item: items themselves are never checked]"
					}
				}
			}
			for _, q := range nested {
				for _, seg := range q {
					if seg == "$set" || seg == "$delete" {
						sigNote += " [a map key is a patch operator name]"
					}
				}
			}
			for _, dir := range spec {
				if dir[0] == "patch" {
					sigNote += " [the entity has an excluded field named patch]"
					break
				}
			}
			// client side
			op := x.puEncOp(rec, pu, excl)
			impl, data := x.b.EncodePU(rec, pu, excl)
			r.OracleCases++
			r.Count("pu-enc-excl")
			if touched {
				r.Distinctive(op)
			}
			x.ask(op, impl, "C07 puenc")
			if touched {
				if !strings.HasPrefix(impl, "err pu ") {
					r.OracleFail(hx.Case{Sig: "C07 partial update touching an excluded field was not refused on the client" + sigNote, Op: op, Impl: impl, Expected: "err pu <field>", Note: note})
				}
			} else if data == nil {
				r.OracleFail(hx.Case{Sig: "C07 partial update not touching any excluded field was refused" + sigNote, Op: op, Impl: impl, Expected: "ok …", Note: note})
			} else {
				want := &D{K: "obj", KVs: []DKV{{"patch", prunePatchDoc(ref.get("patch"), spec, nil)}}}
				tree, err := ParseJSONStrict(data)
				if err != nil || !samePatchTree(tree, want) {
					r.OracleFail(hx.Case{Sig: "C07 partial update: the emitted patch is not the patch minus the excluded values" + sigNote, Op: op, Impl: string(data), Expected: want.JSON(JSONStyle{}), Note: note})
				}
			}
			// server side: the reader the server builds for partial_update ignores the leading
			// `patch` scope
			data2 := []byte(ref.JSON(JSONStyle{}))
			dop := x.puDecOp(rec, data2, excl, 1)
			dimpl := x.b.DecodePU(rec, data2, excl, 1)
			r.OracleCases++
			r.Count("pu-dec-excl")
			x.ask(dop, dimpl, "C07 pudec")
			rejected := strings.HasPrefix(dimpl, "err excluded") || strings.HasPrefix(dimpl, "err pu ")
			if (touched || carried) != rejected {
				r.OracleFail(hx.Case{Sig: "C07 partial update document: rejection differs from 'carries an excluded field'" + sigNote, Op: dop, Impl: dimpl, Expected: fmt.Sprint("rejected=", touched || carried), Note: note})
			}
		}
	}
}
