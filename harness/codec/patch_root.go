//go:build rootmod

package codec

import "github.com/PapaCharlie/go-restli/v2/restlicodec"

// The root module's generator flattens includes and has no restli/patch package; partial updates
// are exercised against the v2 module only.
func (x *runner) runPatchC11() {}
func (x *runner) runPatchC07() {}
func (x *runner) runBatchC07() {}
func (x *runner) runQueryC09() {}
func (x *runner) runEnvelopes() {}

// the query-parameters runner works without bindings (interpreter); these exist for it to compile
type fieldsMarshaler interface {
	MarshalFields(keyWriter func(string) restlicodec.Writer) error
}

type fieldUnmarshaler interface {
	UnmarshalField(reader restlicodec.Reader, field string) (found bool, err error)
}

func (b *Bridge) EncodeQuery(string, *V) (string, []byte) { return "", nil }
