//go:build rootmod

package codec

// The root module's generator flattens includes and has no restli/patch package; partial updates
// are exercised against the v2 module only.
func (x *runner) runPatchC11() {}
func (x *runner) runPatchC07() {}
func (x *runner) runBatchC07() {}
func (x *runner) runQueryC09() {}
func (x *runner) runEnvelopes() {}
func (x *runner) runQueryDecK(int) {}
