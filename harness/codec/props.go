package codec

import (
	"fmt"
	"math/rand"
	"reflect"
	"sort"
	"strconv"
	"strings"

	"github.com/PapaCharlie/go-restli/v2/restlicodec"
	"verif/harness/gen"
	"verif/harness/hx"
)

// ---------------------------------------------------------------- schema-aware document tools

// injectUnknown adds members that no schema field names to record objects (any shape).
func (e *Env) injectUnknown(t Ty, d *D, rng *rand.Rand) {
	unknown := func() *D {
		switch rng.Intn(5) {
		case 0:
			return &D{K: "int", I: 7}
		case 1:
			return &D{K: "str", S: []byte("x y(z),:'")}
		case 2:
			return &D{K: "obj", KVs: []DKV{{"a", &D{K: "int", I: 1}}, {"b", &D{K: "arr", Elts: []*D{{K: "str", S: []byte("q")}}}}}}
		case 3:
			return &D{K: "arr", Elts: []*D{{K: "obj", KVs: []DKV{{"k", &D{K: "bool", B: true}}}}, {K: "int", I: -1}}}
		default:
			return &D{K: "arr"}
		}
	}
	switch {
	case t.Arr != nil:
		for _, c := range d.Elts {
			e.injectUnknown(*t.Arr, c, rng)
		}
	case t.Map != nil:
		for _, kv := range d.KVs {
			e.injectUnknown(*t.Map, kv.V, rng)
		}
	case t.Ref != "":
		dc := e.Find(t.Ref)
		switch dc.Kind {
		case "record":
			if d.K != "obj" {
				return
			}
			for _, f := range e.AllFields(dc.Name) {
				if c := d.get(f.Name); c != nil {
					e.injectUnknown(f.Ty, c, rng)
				}
			}
			n := rng.Intn(3)
			for i := 0; i < n; i++ {
				pos := rng.Intn(len(d.KVs) + 1)
				kv := DKV{"zzUnknown" + strconv.Itoa(i), unknown()}
				d.KVs = append(d.KVs[:pos], append([]DKV{kv}, d.KVs[pos:]...)...)
			}
		case "union":
			if d.K != "obj" {
				return
			}
			for _, m := range dc.Members {
				if c := d.get(m.Alias); c != nil {
					e.injectUnknown(m.Ty, c, rng)
				}
			}
		}
	}
}

// dropFields deletes (or, with null=true, nulls) random record fields anywhere in the document.
func (e *Env) dropFields(t Ty, d *D, rng *rand.Rand, pct int, null bool) {
	switch {
	case t.Arr != nil:
		for _, c := range d.Elts {
			e.dropFields(*t.Arr, c, rng, pct, null)
		}
	case t.Map != nil:
		for _, kv := range d.KVs {
			e.dropFields(*t.Map, kv.V, rng, pct, null)
		}
	case t.Ref != "":
		dc := e.Find(t.Ref)
		switch dc.Kind {
		case "record":
			if d.K != "obj" {
				return
			}
			var keep []DKV
			for _, kv := range d.KVs {
				if rng.Intn(100) < pct {
					if null && rng.Intn(2) == 0 {
						keep = append(keep, DKV{kv.K, &D{K: "null"}})
					}
					continue
				}
				keep = append(keep, kv)
			}
			d.KVs = keep
			for _, f := range e.AllFields(dc.Name) {
				if c := d.get(f.Name); c != nil && c.K != "null" {
					e.dropFields(f.Ty, c, rng, pct, null)
				}
			}
		case "union":
			if d.K != "obj" {
				return
			}
			for _, m := range dc.Members {
				if c := d.get(m.Alias); c != nil {
					e.dropFields(m.Ty, c, rng, pct, null)
				}
			}
		}
	}
}

func pathJoin(scope, seg string, isIdx bool) string {
	if scope == "" || isIdx {
		return scope + seg
	}
	return scope + "." + seg
}

// MissingSegs is MissingPaths returning, per missing field, its spec segments (`*` for array
// items) next to the dotted path — map keys may themselves contain '.' or '['.
func (e *Env) MissingSegs(t Ty, d *D) (paths []string, segs [][]string) {
	var walk func(t Ty, d *D, scope string, sg []string)
	add := func(scope string, sg []string, name string) {
		paths = append(paths, pathJoin(scope, name, false))
		segs = append(segs, append(append([]string{}, sg...), name))
	}
	walk = func(t Ty, d *D, scope string, sg []string) {
		if d == nil || d.K == "null" {
			if t.Ref != "" && e.Find(t.Ref).Kind == "record" {
				for _, f := range e.AllFields(t.Ref) {
					if !f.Optional && f.Default == nil {
						add(scope, sg, f.Name)
					}
				}
			}
			return
		}
		switch {
		case t.Arr != nil:
			for i, c := range d.Elts {
				walk(*t.Arr, c, pathJoin(scope, fmt.Sprintf("[%d]", i), true), append(append([]string{}, sg...), "*"))
			}
		case t.Map != nil:
			for _, kv := range d.KVs {
				if kv.V.K != "null" {
					walk(*t.Map, kv.V, pathJoin(scope, kv.K, false), append(append([]string{}, sg...), kv.K))
				}
			}
		case t.Ref != "":
			dc := e.Find(t.Ref)
			switch dc.Kind {
			case "record":
				for _, f := range e.AllFields(dc.Name) {
					c := d.get(f.Name)
					if c == nil || c.K == "null" {
						if !f.Optional && f.Default == nil {
							add(scope, sg, f.Name)
						}
						continue
					}
					walk(f.Ty, c, pathJoin(scope, f.Name, false), append(append([]string{}, sg...), f.Name))
				}
			case "union":
				for _, m := range dc.Members {
					if c := d.get(m.Alias); c != nil && c.K != "null" {
						walk(m.Ty, c, pathJoin(scope, m.Alias, false), append(append([]string{}, sg...), m.Alias))
					}
				}
			}
		}
	}
	walk(t, d, "", nil)
	return
}

// MissingPaths: the property's own definition — every required field that is absent or null,
// at any depth, by full dotted path (array items `[i]`).
func (e *Env) MissingPaths(t Ty, d *D, scope string, out *[]string) {
	if d == nil || d.K == "null" {
		// an absent/null container or record has no members; a null record still lacks its
		// required fields (the reader treats it as empty)
		if t.Ref != "" && e.Find(t.Ref).Kind == "record" {
			for _, f := range e.AllFields(t.Ref) {
				if !f.Optional && f.Default == nil {
					*out = append(*out, pathJoin(scope, f.Name, false))
				}
			}
		}
		return
	}
	switch {
	case t.Arr != nil:
		for i, c := range d.Elts {
			e.MissingPaths(*t.Arr, c, pathJoin(scope, fmt.Sprintf("[%d]", i), true), out)
		}
	case t.Map != nil:
		for _, kv := range d.KVs {
			if kv.V.K != "null" {
				e.MissingPaths(*t.Map, kv.V, pathJoin(scope, kv.K, false), out)
			}
		}
	case t.Ref != "":
		dc := e.Find(t.Ref)
		switch dc.Kind {
		case "record":
			for _, f := range e.AllFields(dc.Name) {
				c := d.get(f.Name)
				if c == nil || c.K == "null" {
					if !f.Optional && f.Default == nil {
						*out = append(*out, pathJoin(scope, f.Name, false))
					}
					continue
				}
				e.MissingPaths(f.Ty, c, pathJoin(scope, f.Name, false), out)
			}
		case "union":
			for _, m := range dc.Members {
				if c := d.get(m.Alias); c != nil && c.K != "null" {
					e.MissingPaths(m.Ty, c, pathJoin(scope, m.Alias, false), out)
				}
			}
		}
	}
}

// ValueOfDoc: reference decoder — the value a conforming document denotes (present members
// only; `defaults` additionally fills schema defaults, own and inherited).
func (e *Env) ValueOfDoc(t Ty, d *D, defaults bool) *V {
	prim := func(p Prim) *V {
		switch p {
		case "i32":
			return VI32(int32(d.I))
		case "i64":
			return VI64(d.I)
		case "f32":
			return VF32(float32(d.F))
		case "f64":
			return VF64(d.F)
		case "bool":
			return VBool(d.B)
		case "str":
			return VStr(string(d.S))
		default:
			return VBytes(d.S)
		}
	}
	switch {
	case t.Prim != "":
		return prim(t.Prim)
	case t.Arr != nil:
		out := VArr()
		if d.K == "null" {
			return out
		}
		for _, c := range d.Elts {
			out.Items = append(out.Items, e.ValueOfDoc(*t.Arr, c, defaults))
		}
		return out
	case t.Map != nil:
		out := VMap()
		if d.K == "null" {
			return out
		}
		for _, kv := range d.KVs {
			if kv.V.K != "null" {
				out.KVs = append(out.KVs, KV{kv.K, e.ValueOfDoc(*t.Map, kv.V, defaults)})
			}
		}
		return out
	}
	dc := e.Find(t.Ref)
	switch dc.Kind {
	case "typeref":
		return prim(dc.Prim)
	case "enum":
		for i, s := range dc.Symbols {
			if s == string(d.S) {
				return VEnum(int32(i + 1))
			}
		}
		return VEnum(0)
	case "fixed":
		return VFixed(d.S)
	case "record":
		out := VRec()
		for _, f := range e.AllFields(dc.Name) {
			var c *D
			if d.K == "obj" {
				c = d.get(f.Name)
			}
			if c != nil && c.K != "null" {
				out.KVs = append(out.KVs, KV{f.Name, e.ValueOfDoc(f.Ty, c, defaults)})
			} else if defaults && f.Default != nil {
				out.KVs = append(out.KVs, KV{f.Name, e.Expected(f.Ty, f.Default)})
			}
		}
		return out
	case "union":
		out := VUnion()
		if d.K == "obj" {
			for _, m := range dc.Members {
				if c := d.get(m.Alias); c != nil && c.K != "null" {
					out.KVs = append(out.KVs, KV{m.Alias, e.ValueOfDoc(m.Ty, c, defaults)})
				}
			}
		}
		return out
	}
	panic("bad decl")
}

// subsetOf: every member of want occurs in got with an equal value (got may hold more, e.g.
// defaults the decoder filled in).
func subsetOf(want, got *V) bool {
	if want.K != got.K {
		return false
	}
	switch want.K {
	case "rec":
		for _, kv := range want.KVs {
			g := got.Get(kv.K)
			if g == nil || !subsetOf(kv.V, g) {
				return false
			}
		}
		return true
	case "arr":
		if len(want.Items) != len(got.Items) {
			return false
		}
		for i := range want.Items {
			if !subsetOf(want.Items[i], got.Items[i]) {
				return false
			}
		}
		return true
	case "map", "union":
		if len(want.KVs) != len(got.KVs) {
			return false
		}
		for _, kv := range want.KVs {
			g := got.Get(kv.K)
			if g == nil || !subsetOf(kv.V, g) {
				return false
			}
		}
		return true
	}
	return want.Canon() == got.Canon()
}

func shuffleDoc(d *D, rng *rand.Rand) {
	rng.Shuffle(len(d.KVs), func(i, j int) { d.KVs[i], d.KVs[j] = d.KVs[j], d.KVs[i] })
	for _, kv := range d.KVs {
		shuffleDoc(kv.V, rng)
	}
	for _, c := range d.Elts {
		shuffleDoc(c, rng)
	}
}

// renderFor writes a reference document for a reader kind; ok=false when that format cannot
// express it (null in ROR2).
func renderFor(f Fmt, d *D, rng *rand.Rand) ([]byte, bool) {
	switch f {
	case "json":
		return []byte(d.JSON(JSONStyle{Space: rng.Intn(2) == 0})), true
	case "header", "path":
		s, ok := d.ROR2(false, nil)
		return []byte(s), ok
	case "query":
		s, ok := d.ROR2(true, nil)
		return []byte(s), ok
	}
	panic("bad fmt")
}

// DecodeAny runs the untyped-value reader on a document.
func (b *Bridge) DecodeAny(t Ty, d *D, excl []string, ignore int) string {
	return watched(func() string { return b.decodeAny1(t, d, excl, ignore) })
}

func (b *Bridge) decodeAny1(t Ty, d *D, excl []string, ignore int) string {
	var outcome string
	panicked, pv := hx.Recover(func() {
		var spec restlicodec.PathSpec
		if len(excl) > 0 {
			spec = restlicodec.NewPathSpec(excl...)
		}
		r := restlicodec.NewInterfaceReaderWithExcludedFields(d.Any(), spec, ignore)
		if t.Ref == "" {
			got, err := readPrim(r, t.Prim)
			outcome = classifyDec(err, got)
			return
		}
		if b.Interp {
			got, err := b.interpUnmarshal(r, t)
			outcome = classifyDec(err, got)
			return
		}
		p := b.NewNamed(t.Ref)
		err := p.Interface().(restlicodec.Unmarshaler).UnmarshalRestLi(r)
		outcome = classifyDec(err, b.Get(p.Elem(), t))
	})
	if panicked {
		return fmt.Sprintf("panic %v", pv)
	}
	return outcome
}

func missingOutcome(paths []string) string {
	sort.Strings(paths)
	hs := make([]string, len(paths))
	for i, p := range paths {
		hs[i] = hx.Hex([]byte(p))
	}
	return "err missing (" + strings.Join(hs, " ") + ")"
}

func (x *runner) recordTypes() []Ty {
	var out []Ty
	for _, d := range x.env.Decls {
		if d.Kind == "record" || d.Kind == "union" {
			out = append(out, R(d.Name))
		}
	}
	return out
}

// ---------------------------------------------------------------- C03

func (x *runner) runC03() {
	r := x.r
	r.Rule = "both directions against references written from the protocol (Go: encoding/json strict parser, own ROR2 grammar parser, own reference encoder; Lean: Spec): every emitted document must parse strictly to the tree the value denotes; reference-rendered documents (other legal escapes and number spellings, whitespace, shuffled keys, unknown extra members) must decode to the value. Strings are valid UTF-8 (Rest.li strings); bytes/fixed are arbitrary. Non-trivial = non-empty document; distinct by op line"
	n := 5
	if x.cfg.Tier == "thorough" {
		n = 60
	}
	for _, t := range x.topTypes() {
		for i := 0; i < n; i++ {
			v := x.env.GenValue(x.rng, t, 3, GenOpts{OptPct: 60})
			ref := x.env.RefDoc(t, v)
			if ref == nil {
				continue
			}
			for _, f := range AllFmts {
				op := x.encOp(f, t, v, nil)
				impl, data := x.b.Encode(f, t, v, nil)
				r.OracleCases++
				r.Count("emit:" + string(f))
				x.ask(op, impl, "C03 enc "+string(f))
				if data == nil {
					r.OracleFail(hx.Case{Sig: "C03 valid value not encodable (" + string(f) + ")", Op: op, Impl: impl})
					continue
				}
				r.Distinctive(op)
				switch f {
				case "json", "pretty":
					tree, err := ParseJSONStrict(data)
					if err != nil {
						r.OracleFail(hx.Case{Sig: "C03 emitted JSON rejected by strict parser", Op: op, Impl: string(data), Expected: err.Error()})
					} else if !SameTree(tree, ref) {
						r.OracleFail(hx.Case{Sig: "C03 emitted JSON denotes a different tree", Op: op, Impl: string(data), Expected: ref.JSON(JSONStyle{})})
					}
				default:
					tree, err := ParseROR2Ref(string(data), f == "query")
					if err != nil {
						r.OracleFail(hx.Case{Sig: "C03 emitted ROR2 rejected by reference grammar (" + string(f) + ")", Op: op, Impl: string(data), Expected: err.Error()})
					} else if !SameRT(tree, ref) {
						want, _ := ref.ROR2(f == "query", nil)
						r.OracleFail(hx.Case{Sig: "C03 emitted ROR2 denotes a different tree (" + string(f) + ")", Op: op, Impl: string(data), Expected: want})
					}
				}
			}
			// conversely: conforming documents in other legal spellings
			for _, f := range []Fmt{"json", "header", "query"} {
				doc := ref.clone()
				if x.rng.Intn(2) == 0 {
					shuffleDoc(doc, x.rng)
				}
				if x.rng.Intn(2) == 0 {
					x.env.injectUnknown(t, doc, x.rng)
				}
				data, ok := renderFor(f, doc, x.rng)
				if !ok {
					continue
				}
				op := x.decOp(f, t, data, nil, 0)
				impl := x.b.Decode(f, t, data, nil, 0)
				want := "ok " + x.env.Expected(t, v).Canon()
				r.OracleCases++
				r.Count("accept:" + string(f))
				if impl != want {
					r.OracleFail(hx.Case{Sig: "C03 conforming document not accepted as its value (" + string(f) + ")" + classifyDiff(x.env, t, v, impl, want), Op: op, Impl: impl, Expected: want, Note: string(data)})
				}
				x.ask(op, impl, "C03 dec "+string(f))
			}
		}
	}
	x.runEnvelopes()
}

// ---------------------------------------------------------------- C04

var ror2Alphabet = []byte("(),:'Lista1%")

func (x *runner) runC04() {
	r := x.r
	r.Rule = "hostile input for every decoder entry point: all strings up to a bounded length over the ROR2 delimiter alphabet ( ) , : ' L i s t a 1 %, every truncation and single-byte edit of valid encodings in all five formats, random untyped Go values; D = no panic (a hang aborts the harness); K = outcome class equals the model's (JSON only for strictly valid documents). Non-trivial = the decoder returned an error or a value after consuming structure; distinct by op line"
	types := []Ty{P("i32"), P("str"), P("f64"), R("Inner"), R("Nested"), R("U1"), R("U2"), R("MapKeys"), R("Tree"), R("Named"), R("Defaults"), R("Derived"), R("Color"), R("Fx4")}
	maxLen := 3
	if x.cfg.Tier == "thorough" {
		maxLen = 5
	}
	check := func(f Fmt, t Ty, data []byte, sigK string) {
		op := x.decOp(f, t, data, nil, 0)
		impl := x.b.Decode(f, t, data, nil, 0)
		r.OracleCases++
		if strings.HasPrefix(impl, "panic") {
			r.OracleFail(hx.Case{Sig: "C04 decoder panicked (" + string(f) + ")", Op: op, Impl: impl, Expected: "a value or an error"})
		}
		if impl == "hang" {
			r.OracleFail(hx.Case{Sig: "C04 decoder does not terminate (" + string(f) + ")", Op: op, Impl: impl, Expected: "a value or an error"})
			return
		}
		cls := impl
		if i := strings.IndexByte(impl, ' '); i > 0 {
			if j := strings.IndexByte(impl[i+1:], ' '); j > 0 && strings.HasPrefix(impl, "err") {
				cls = impl[:i+1+j]
			} else if strings.HasPrefix(impl, "ok") {
				cls = "ok"
			}
		}
		r.Count("outcome:" + cls)
		if !strings.HasPrefix(impl, "err other") {
			r.Distinctive(op)
		}
		x.ask(op, impl, sigK)
	}
	// exhaustive over the delimiter alphabet
	var rec func(prefix []byte, n int)
	rec = func(prefix []byte, n int) {
		for _, t := range types {
			if len(prefix) > 3 && t.Ref != "Inner" && t.Ref != "U1" && t.Ref != "Nested" && t.Prim != "str" {
				continue
			}
			check("header", t, prefix, "C04 dec header")
			if len(prefix) <= 3 {
				check("query", t, prefix, "C04 dec query")
			}
		}
		if n == 0 {
			return
		}
		for _, c := range ror2Alphabet {
			rec(append(append([]byte{}, prefix...), c), n-1)
		}
	}
	rec(nil, maxLen)
	r.Exhaustive = false
	// query strings: the parameter separators themselves
	var recq func(prefix []byte, n int)
	recq = func(prefix []byte, n int) {
		check("query", P("str"), prefix, "C04 dec query")
		check("query", R("Inner"), prefix, "C04 dec query")
		if n == 0 {
			return
		}
		for _, c := range []byte("&=p1(%") {
			recq(append(append([]byte{}, prefix...), c), n-1)
		}
	}
	recq(nil, maxLen+1)
	// truncations and single-byte edits of valid encodings
	nv := 2
	if x.cfg.Tier == "thorough" {
		nv = 10
	}
	edits := []byte("(),:'%\"\\{}[] 0x\x00\xff&=")
	for _, t := range x.topTypes() {
		for i := 0; i < nv; i++ {
			v := x.env.GenValue(x.rng, t, 2, GenOpts{OptPct: 50})
			for _, f := range AllFmts {
				_, data := x.b.Encode(f, t, v, nil)
				if data == nil || len(data) > 400 {
					continue
				}
				for cut := 0; cut <= len(data); cut++ {
					check(f, t, data[:cut], "C04 dec truncated "+string(f))
				}
				for k := 0; k < 40 && k < len(data); k++ {
					pos := x.rng.Intn(len(data))
					mut := append([]byte{}, data...)
					switch x.rng.Intn(3) {
					case 0:
						mut[pos] = edits[x.rng.Intn(len(edits))]
					case 1:
						mut = append(mut[:pos], mut[pos+1:]...)
					default:
						mut = append(mut[:pos], append([]byte{edits[x.rng.Intn(len(edits))]}, mut[pos:]...)...)
					}
					check(f, t, mut, "C04 dec edited "+string(f))
				}
			}
		}
	}
	// untyped Go values of the wrong shape, against the model
	nAny := 40
	if x.cfg.Tier == "thorough" {
		nAny = 400
	}
	x.runAnyK(append([]Ty{P("i64"), P("f32"), P("bool"), P("bytes")}, types...), nAny)
	// query strings, well-formed and damaged, through the query-parameters reader against the model
	x.runQueryDecK(nAny / 4)
	// untyped Go values of arbitrary shape
	anyVals := []any{nil, 1, int64(2), 3.5, "s", []byte("b"), true, []any{}, []any{1, "a", nil}, map[string]any{}, map[string]any{"id": "x"},
		map[string]any{"id": nil}, map[int]any{1: 2}, []int{1}, (*int)(nil), new(int), struct{}{}, map[string]any{"inner": []any{1}}, map[string]any{"u": map[string]any{"int": map[string]any{}}}}
	for _, t := range x.recordTypes() {
		for _, av := range anyVals {
			var outcome string
			panicked, pv := hx.Recover(func() {
				if x.b.Interp {
					_, err := x.b.interpUnmarshal(restlicodec.NewInterfaceReader(av), t)
					outcome = fmt.Sprint(err != nil)
					return
				}
				p := x.b.NewNamed(t.Ref)
				err := p.Interface().(restlicodec.Unmarshaler).UnmarshalRestLi(restlicodec.NewInterfaceReader(av))
				outcome = fmt.Sprint(err != nil)
			})
			r.OracleCases++
			r.Count("any-reader")
			if panicked {
				r.OracleFail(hx.Case{Sig: "C04 untyped reader panicked", Op: fmt.Sprintf("any %s %#v", t.Ref, av), Impl: fmt.Sprint(pv), Expected: "a value or an error"})
			}
			_ = outcome
		}
	}
}

// ---------------------------------------------------------------- C06

func (x *runner) runC06() {
	r := x.r
	r.Rule = "documents derived from valid encodings by deleting any subset of record fields at any depth, nulling fields (JSON / untyped), permuting members and injecting unknown members of any shape; 4 reader kinds (JSON, ROR2, query-parameter value, untyped Go value); D = the reported set equals the independently computed set of absent-or-null required fields (full paths) and every present field is returned; non-trivial = at least one required field missing; distinct by op line"
	n := 8
	if x.cfg.Tier == "thorough" {
		n = 100
	}
	// whole query strings (parameters with required fields deleted at any depth inside their
	// values) through the query-parameters reader, against the model
	x.runQueryDecK(n)
	for _, t := range x.recordTypes() {
		if x.env.Find(t.Ref).Kind != "record" {
			continue
		}
		for i := 0; i < n; i++ {
			v := x.env.GenValue(x.rng, t, 3, GenOpts{OptPct: 70, LongArrays: true})
			ref := x.env.RefDoc(t, v)
			if ref == nil {
				continue
			}
			for _, f := range []Fmt{"json", "header", "query", "any"} {
				doc := ref.clone()
				x.env.dropFields(t, doc, x.rng, []int{0, 15, 40}[x.rng.Intn(3)], f == "json" || f == "any")
				if x.rng.Intn(2) == 0 {
					shuffleDoc(doc, x.rng)
				}
				if x.rng.Intn(2) == 0 {
					x.env.injectUnknown(t, doc, x.rng)
				}
				var miss []string
				x.env.MissingPaths(t, doc, "", &miss)
				var impl, op string
				if f == "any" {
					impl = x.decodeAnyK(t, doc, "untyped reader")
					op = "any " + t.Ref + " " + doc.JSON(JSONStyle{})
				} else {
					data, ok := renderFor(f, doc, x.rng)
					if !ok {
						continue
					}
					op = x.decOp(f, t, data, nil, 0)
					impl = x.b.Decode(f, t, data, nil, 0)
				}
				r.OracleCases++
				r.Count("reader:" + string(f))
				partial := x.env.ValueOfDoc(t, doc, false)
				if f == "query" {
					// a single query-parameter reader never raises the error itself (the enclosing
					// QueryParamsReader does); only the returned fields are judged here
					if !strings.HasPrefix(impl, "ok ") {
						r.OracleFail(hx.Case{Sig: "C06 query value reader failed on a well-formed document", Op: op, Impl: impl})
					}
				} else if len(miss) == 0 {
					want := "ok " + x.env.ValueOfDoc(t, doc, true).Canon()
					if impl != want {
						r.OracleFail(hx.Case{Sig: "C06 complete document not decoded to its value (" + string(f) + ")" + classifyOwnDefaults(x.env, t, doc, impl), Op: op, Impl: impl, Expected: want})
					}
				} else {
					r.Distinctive(op)
					r.Count("missing-count:" + strconv.Itoa(min(len(miss), 5)))
					wantPrefix := missingOutcome(miss)
					if !strings.HasPrefix(impl, wantPrefix+" ") {
						r.OracleFail(hx.Case{Sig: "C06 wrong set of missing required fields (" + string(f) + ")", Op: op, Impl: impl, Expected: wantPrefix})
					} else {
						xs, err := hx.ParseLine(impl[len(wantPrefix)+1:])
						if err == nil && len(xs) == 1 {
							if got, err := ParseV(xs[0]); err == nil && !subsetOf(partial, got) {
								r.OracleFail(hx.Case{Sig: "C06 present fields not all returned with the error (" + string(f) + ")", Op: op, Impl: impl, Expected: partial.Canon()})
							}
						}
					}
				}
				if f != "any" {
					x.ask(op, impl, "C06 dec "+string(f))
				}
			}
		}
	}
}

func classifyOwnDefaults(e *Env, t Ty, doc *D, got string) string {
	own := e.expectedOwnOnly(t, e.ValueOfDoc(t, doc, false))
	if got == "ok "+own.Canon() {
		return " [only difference: defaults inherited from an included record are not applied]"
	}
	return ""
}

// ---------------------------------------------------------------- C07

// docPaths lists every path of the document (record/map keys and `*` for array items).
func docPaths(d *D, prefix []string, out *[][]string) {
	if len(prefix) > 0 {
		*out = append(*out, append([]string{}, prefix...))
	}
	for _, kv := range d.KVs {
		docPaths(kv.V, append(prefix, kv.K), out)
	}
	for _, c := range d.Elts {
		docPaths(c, append(prefix, "*"), out)
	}
}

// specMatches: the property's definition — some directive equals a prefix of the path
// segment-wise, `*` matching any single segment.
func specMatches(spec [][]string, path []string) bool {
	for _, dir := range spec {
		if len(dir) > len(path) {
			continue
		}
		ok := true
		for i := range dir {
			if dir[i] != "*" && dir[i] != path[i] {
				ok = false
				break
			}
		}
		if ok {
			return true
		}
	}
	return false
}

func pruneDoc(d *D, spec [][]string, prefix []string) *D {
	out := &D{K: d.K, I: d.I, F: d.F, B: d.B, S: d.S}
	for _, kv := range d.KVs {
		p := append(append([]string{}, prefix...), kv.K)
		if specMatches(spec, p) {
			continue
		}
		out.KVs = append(out.KVs, DKV{kv.K, pruneDoc(kv.V, spec, p)})
	}
	for _, c := range d.Elts {
		out.Elts = append(out.Elts, pruneDoc(c, spec, append(append([]string{}, prefix...), "*")))
	}
	return out
}

func (x *runner) runC07() {
	r := x.r
	r.Rule = "random exclusion specs (sets of paths up to depth 4 taken from the value's own document tree, with wildcards, plus absent paths) × corpus values; writer: the emitted document must equal the reference document with every matching node (and its subtree) removed and nothing else; reader: rejected iff the document carries a value at a matching path, and excluded required fields are not reported missing; non-trivial = the spec matches at least one node; distinct by op line"
	n := 10
	if x.cfg.Tier == "thorough" {
		n = 120
	}
	for _, t := range x.recordTypes() {
		for i := 0; i < n; i++ {
			v := x.env.GenValue(x.rng, t, 3, GenOpts{OptPct: 70})
			ref := x.env.RefDoc(t, v)
			if ref == nil {
				continue
			}
			var paths [][]string
			docPaths(ref, nil, &paths)
			var spec [][]string
			nd := 1 + x.rng.Intn(3)
			for k := 0; k < nd; k++ {
				var p []string
				if len(paths) > 0 && x.rng.Intn(5) != 0 {
					p = append([]string{}, paths[x.rng.Intn(len(paths))]...)
					if len(p) > 4 {
						p = p[:4]
					}
					for j := range p {
						if x.rng.Intn(6) == 0 {
							p[j] = "*"
						}
					}
				} else {
					p = []string{"nosuch", "field"}[:1+x.rng.Intn(2)]
				}
				usable := true
				for _, seg := range p {
					if seg == "" || strings.Contains(seg, "/") {
						usable = false // not expressible as a slash-separated directive
					}
				}
				if usable {
					spec = append(spec, p)
				}
			}
			if len(spec) == 0 {
				continue
			}
			var excl []string
			for _, p := range spec {
				excl = append(excl, strings.Join(p, "/"))
			}
			matched := false
			for _, p := range paths {
				if specMatches(spec, p) {
					matched = true
				}
			}
			note := ""
			for _, dir := range spec {
				for _, q := range paths {
					if len(q) == len(dir) && q[len(q)-1] == "*" && specMatches([][]string{dir}, q) {
						note = " [a directive ends at an array item: items themselves are never checked]"
					}
				}
			}
			opKey := false
			for _, p := range paths {
				for _, seg := range p {
					if seg == "$set" || seg == "$delete" {
						opKey = true
					}
				}
			}
			if opKey {
				note += " [a map key is a patch operator name]"
			}
			// ---- writer
			want := pruneDoc(ref, spec, nil)
			for _, f := range []Fmt{"json", "header", "pretty"} {
				op := x.encOp(f, t, v, excl)
				impl, data := x.b.Encode(f, t, v, excl)
				r.OracleCases++
				r.Count("writer:" + string(f))
				if matched {
					r.Distinctive(op)
				}
				x.ask(op, impl, "C07 enc "+string(f))
				if data == nil {
					r.OracleFail(hx.Case{Sig: "C07 encode with exclusion failed", Op: op, Impl: impl})
					continue
				}
				ok := false
				if f == "header" {
					tree, err := ParseROR2Ref(string(data), false)
					ok = err == nil && SameRT(tree, want)
				} else {
					tree, err := ParseJSONStrict(data)
					ok = err == nil && SameTree(tree, want)
				}
				if !ok {
					r.OracleFail(hx.Case{Sig: "C07 writer did not omit exactly the matching values (" + string(f) + ")" + note, Op: op, Impl: string(data), Expected: want.JSON(JSONStyle{}), Note: strings.Join(excl, " ")})
				}
			}
			// ---- reader: the full document is rejected iff it carries a matching value; the
			// pruned document is accepted and excluded required fields are not reported
			for _, f := range []Fmt{"json", "header"} {
				data, _ := renderFor(f, ref, x.rng)
				op := x.decOp(f, t, data, excl, 0)
				impl := x.b.Decode(f, t, data, excl, 0)
				r.OracleCases++
				r.Count("reader:" + string(f))
				if matched != strings.HasPrefix(impl, "err excluded") {
					r.OracleFail(hx.Case{Sig: "C07 reader rejection differs from 'document carries an excluded value' (" + string(f) + ")" + note, Op: op, Impl: impl, Expected: fmt.Sprint("rejected=", matched), Note: strings.Join(excl, " ")})
				}
				x.ask(op, impl, "C07 dec "+string(f))
				data2, _ := renderFor(f, want, x.rng)
				op2 := x.decOp(f, t, data2, excl, 0)
				impl2 := x.b.Decode(f, t, data2, excl, 0)
				r.OracleCases++
				miss, msegs := x.env.MissingSegs(t, want)
				var trueMiss []string
				for mi, m := range miss {
					if !specMatches(spec, msegs[mi]) {
						trueMiss = append(trueMiss, m)
					}
				}
				if impl2 == "err other" {
					// pruning removed the only member of a union: not a question of missing fields
				} else if len(trueMiss) == 0 {
					if !strings.HasPrefix(impl2, "ok ") {
						r.OracleFail(hx.Case{Sig: "C07 pruned document not accepted (excluded required fields must not be reported)" + note, Op: op2, Impl: impl2, Expected: "ok …", Note: strings.Join(excl, " ")})
					}
				} else if !strings.HasPrefix(impl2, missingOutcome(trueMiss)+" ") {
					r.OracleFail(hx.Case{Sig: "C07 pruned document: wrong missing set" + note, Op: op2, Impl: impl2, Expected: missingOutcome(trueMiss), Note: strings.Join(excl, " ")})
				}
				x.ask(op2, impl2, "C07 dec pruned "+string(f))
			}
		}
	}
	x.runC07Invalid()
	x.runPatchC07()
	x.runBatchC07()
}

// ---------------------------------------------------------------- C09

func shuffleV(v *V, rng *rand.Rand) *V {
	c := *v
	c.KVs = nil
	for _, kv := range v.KVs {
		c.KVs = append(c.KVs, KV{kv.K, shuffleV(kv.V, rng)})
	}
	rng.Shuffle(len(c.KVs), func(i, j int) { c.KVs[i], c.KVs[j] = c.KVs[j], c.KVs[i] })
	c.Items = nil
	for _, i := range v.Items {
		c.Items = append(c.Items, shuffleV(i, rng))
	}
	return &c
}

func keysAscending(t *RT) bool {
	for i := 1; i < len(t.KVs); i++ {
		if !(t.KVs[i-1].K < t.KVs[i].K) {
			return false
		}
	}
	for _, kv := range t.KVs {
		if !keysAscending(kv.V) {
			return false
		}
	}
	for _, c := range t.Elts {
		if !keysAscending(c) {
			return false
		}
	}
	return true
}

func (x *runner) runC09() {
	r := x.r
	r.Rule = "each value is built several times with its map entries inserted in different orders and encoded repeatedly in all five formats: all outputs must be byte-identical, and object keys strictly ascending (byte order) at every level; non-trivial = the value contains a map or record with at least two members; distinct by op line"
	n := 8
	if x.cfg.Tier == "thorough" {
		n = 100
	}
	for _, t := range x.recordTypes() {
		for i := 0; i < n; i++ {
			v := x.env.GenValue(x.rng, t, 3, GenOpts{OptPct: 70})
			for _, f := range AllFmts {
				op := x.encOp(f, t, v, nil)
				first, data := x.b.Encode(f, t, v, nil)
				r.OracleCases++
				if data == nil {
					continue
				}
				if len(v.KVs) >= 2 {
					r.Distinctive(op)
				}
				for k := 0; k < 4; k++ {
					again, _ := x.b.Encode(f, t, shuffleV(v, x.rng), nil)
					if again != first {
						r.OracleFail(hx.Case{Sig: "C09 encoding depends on insertion order or run (" + string(f) + ")", Op: op, Impl: again, Expected: first})
						break
					}
				}
				if f == "header" || f == "path" || f == "query" {
					if tree, err := ParseROR2Ref(string(data), f == "query"); err == nil && !keysAscending(tree) {
						r.OracleFail(hx.Case{Sig: "C09 object keys not ascending (" + string(f) + ")", Op: op, Impl: string(data)})
					}
				}
				x.ask(op, first, "C09 enc "+string(f))
			}
			// the same under a field-exclusion spec (the writer drops entries before it orders them)
			ref := x.env.RefDoc(t, v)
			if ref == nil {
				continue
			}
			var paths [][]string
			docPaths(ref, nil, &paths)
			if len(paths) == 0 {
				continue
			}
			var excl []string
			for k := 0; k < 1+x.rng.Intn(2); k++ {
				p := paths[x.rng.Intn(len(paths))]
				ok := len(p) <= 3
				for _, seg := range p {
					if seg == "" || strings.Contains(seg, "/") || seg == "$set" || seg == "$delete" {
						ok = false
					}
				}
				if ok {
					excl = append(excl, strings.Join(p, "/"))
				}
			}
			if len(excl) == 0 {
				continue
			}
			for _, f := range []Fmt{"json", "header"} {
				op := x.encOp(f, t, v, excl)
				first, data := x.b.Encode(f, t, v, excl)
				r.OracleCases++
				r.Count("with-exclusion")
				if data == nil {
					continue
				}
				for k := 0; k < 3; k++ {
					again, _ := x.b.Encode(f, t, shuffleV(v, x.rng), excl)
					if again != first {
						r.OracleFail(hx.Case{Sig: "C09 encoding depends on insertion order or run (" + string(f) + ", with exclusion)", Op: op, Impl: again, Expected: first})
						break
					}
				}
				if f == "header" {
					if tree, err := ParseROR2Ref(string(data), false); err == nil && !keysAscending(tree) {
						r.OracleFail(hx.Case{Sig: "C09 object keys not ascending (header, with exclusion)", Op: op, Impl: string(data)})
					}
				}
				x.ask(op, first, "C09 enc excl "+string(f))
			}
		}
	}
	x.runQueryC09()
}

// ---------------------------------------------------------------- C11

func (x *runner) runC11() {
	r := x.r
	r.Rule = "unions: every subset of members of size 0..3 set (encode) and every document with 0..2 known member keys or an unknown key (decode); fixed: every length 0..size+2; enums: every constant -1..n+1 (encode) and declared / unknown / case-variant symbols (decode); D = accepted exactly when the constraint holds, in both directions; non-trivial = the constraint is violated; distinct by op line"
	for _, dc := range x.env.Decls {
		t := R(dc.Name)
		switch dc.Kind {
		case "union":
			nm := len(dc.Members)
			for mask := 0; mask < 1<<nm; mask++ {
				cnt := 0
				for i := 0; i < nm; i++ {
					if mask>>i&1 == 1 {
						cnt++
					}
				}
				if cnt > 3 {
					continue
				}
				v := VUnion()
				doc := &D{K: "obj"}
				for i, m := range dc.Members {
					if mask>>i&1 == 1 {
						mv := x.env.GenValue(x.rng, m.Ty, 2, GenOpts{OptPct: 50})
						v.KVs = append(v.KVs, KV{m.Alias, mv})
						doc.KVs = append(doc.KVs, DKV{m.Alias, x.env.RefDoc(m.Ty, mv)})
					}
				}
				valid := cnt == 1 || (cnt == 0 && dc.HasNull)
				for _, f := range AllFmts {
					op := x.encOp(f, t, v, nil)
					impl, _ := x.b.Encode(f, t, v, nil)
					r.OracleCases++
					r.Count("union-enc")
					if !valid {
						r.Distinctive(op)
					}
					if valid != strings.HasPrefix(impl, "ok ") || (!valid && impl != "err other") {
						r.OracleFail(hx.Case{Sig: "C11 union encode accepted/rejected wrongly", Op: op, Impl: impl, Expected: fmt.Sprint("valid=", valid)})
					}
					x.ask(op, impl, "C11 enc union")
				}
				for _, f := range []Fmt{"json", "header", "any"} {
					var impl, op string
					if f == "any" {
						impl = x.decodeAnyK(t, doc, "untyped reader")
						op = "any " + t.Ref + " " + doc.JSON(JSONStyle{})
					} else {
						data, _ := renderFor(f, doc, x.rng)
						op = x.decOp(f, t, data, nil, 0)
						impl = x.b.Decode(f, t, data, nil, 0)
						x.ask(op, impl, "C11 dec union")
					}
					r.OracleCases++
					r.Count("union-dec")
					if valid != strings.HasPrefix(impl, "ok ") {
						r.OracleFail(hx.Case{Sig: "C11 union decode accepted/rejected wrongly (" + string(f) + ")", Op: op, Impl: impl, Expected: fmt.Sprint("valid=", valid)})
					}
				}
			}
			// unknown member key, alone and next to a known one
			for _, f := range []Fmt{"json", "header", "any"} {
				for _, withKnown := range []bool{false, true} {
					for _, uv := range []*D{{K: "int", I: 1}, {K: "str", S: nil}, {K: "obj"}, {K: "arr"}} {
						doc := &D{K: "obj", KVs: []DKV{{"noSuchMember", uv}}}
						if withKnown {
							m := dc.Members[0]
							mv := x.env.GenValue(x.rng, m.Ty, 1, GenOpts{})
							doc.KVs = append(doc.KVs, DKV{m.Alias, x.env.RefDoc(m.Ty, mv)})
						}
						var impl, op string
						if f == "any" {
							impl = x.decodeAnyK(t, doc, "untyped reader")
							op = "any " + t.Ref + " " + doc.JSON(JSONStyle{})
						} else {
							data, _ := renderFor(f, doc, x.rng)
							op = x.decOp(f, t, data, nil, 0)
							impl = x.b.Decode(f, t, data, nil, 0)
							x.ask(op, impl, "C11 dec union unknown")
						}
						r.OracleCases++
						r.Distinctive(op)
						if strings.HasPrefix(impl, "ok ") {
							r.OracleFail(hx.Case{Sig: "C11 union document with an unknown member accepted (" + string(f) + ")", Op: op, Impl: impl, Expected: "an error"})
						}
					}
				}
			}
		case "fixed":
			for l := 0; l <= dc.Size+2; l++ {
				b := make([]byte, l)
				for i := range b {
					b[i] = byte('a' + i)
				}
				doc := &D{K: "bytes", S: b}
				for _, f := range []Fmt{"json", "header", "query", "any"} {
					var impl, op string
					if f == "any" {
						impl = x.decodeAnyK(t, doc, "untyped reader")
						op = "any " + t.Ref + " " + strconv.Itoa(l)
					} else {
						data, _ := renderFor(f, doc, x.rng)
						op = x.decOp(f, t, data, nil, 0)
						impl = x.b.Decode(f, t, data, nil, 0)
						x.ask(op, impl, "C11 dec fixed")
					}
					r.OracleCases++
					r.Count("fixed-dec")
					if l != dc.Size {
						r.Distinctive(op)
					}
					if (l == dc.Size) != strings.HasPrefix(impl, "ok ") {
						r.OracleFail(hx.Case{Sig: "C11 fixed of wrong size accepted / right size rejected (" + string(f) + ")", Op: op, Impl: impl})
					}
				}
			}
		case "enum":
			for c := -1; c <= len(dc.Symbols)+1; c++ {
				v := VEnum(int32(c))
				valid := c >= 1 && c <= len(dc.Symbols)
				for _, f := range AllFmts {
					op := x.encOp(f, t, v, nil)
					impl, _ := x.b.Encode(f, t, v, nil)
					r.OracleCases++
					r.Count("enum-enc")
					if !valid {
						r.Distinctive(op)
					}
					if valid != strings.HasPrefix(impl, "ok ") {
						r.OracleFail(hx.Case{Sig: "C11 enum constant accepted/rejected wrongly", Op: op, Impl: impl})
					}
					x.ask(op, impl, "C11 enc enum")
				}
			}
			syms := append([]string{}, dc.Symbols...)
			syms = append(syms, strings.ToLower(dc.Symbols[0]), dc.Symbols[0]+"X", "", "$UNKNOWN", " "+dc.Symbols[0])
			for _, s := range syms {
				want := 0
				for i, d := range dc.Symbols {
					if d == s {
						want = i + 1
					}
				}
				doc := &D{K: "str", S: []byte(s)}
				for _, f := range []Fmt{"json", "header", "any"} {
					var impl, op string
					if f == "any" {
						impl = x.decodeAnyK(t, doc, "untyped reader")
						op = "any " + t.Ref + " " + s
					} else {
						data, _ := renderFor(f, doc, x.rng)
						op = x.decOp(f, t, data, nil, 0)
						impl = x.b.Decode(f, t, data, nil, 0)
						x.ask(op, impl, "C11 dec enum")
					}
					r.OracleCases++
					r.Count("enum-dec")
					if impl != "ok "+VEnum(int32(want)).Canon() {
						r.OracleFail(hx.Case{Sig: "C11 enum symbol decoded to the wrong constant (" + string(f) + ")", Op: op, Impl: impl, Expected: VEnum(int32(want)).Canon()})
					}
				}
			}
		}
	}
	x.runPatchC11()
}

// ---------------------------------------------------------------- C13

func (x *runner) runC13() {
	r := x.r
	r.Rule = "records with defaulted fields of every type (direct, nested in required record fields, inherited through includes): the generated New…WithDefaultValues() and instances decoded (JSON, ROR2, untyped reader) from documents that omit or supply each defaulted field must carry exactly the schema default / the supplied value; default-populated arrays and maps of one instance are mutated and another instance re-inspected; non-trivial = a defaulted field is omitted; distinct by op line"
	n := 10
	if x.cfg.Tier == "thorough" {
		n = 150
	}
	for _, name := range []string{"Defaults", "InclDefaults", "NestedDefaults", "OptDefaults", "NeedsOptDefaults"} {
		t := R(name)
		// fresh default instance
		if mk, ok := gen.Defaults[name]; ok {
			inst := reflect.ValueOf(mk())
			got := x.b.Get(inst.Elem(), t)
			want := x.env.freshDefaults(t)
			r.OracleCases++
			if !subsetOf(want, got) {
				r.OracleFail(hx.Case{Sig: "C13 fresh default instance lacks a schema default", Op: "new " + name, Impl: got.Canon(), Expected: want.Canon()})
			}
		} else {
			r.OracleCases++
			note := ""
			ownDefault := false
			for _, f := range x.env.Find(name).Fields {
				if f.Default != nil {
					ownDefault = true
				}
			}
			if !ownDefault {
				note = " [defaults inherited from an included record are not applied]"
			}
			r.OracleFail(hx.Case{Sig: "C13 no default constructor generated for a record with defaults" + note, Op: "new " + name, Impl: "missing", Expected: "New" + name + "WithDefaultValues"})
		}
		for i := 0; i < n; i++ {
			v := x.env.GenValue(x.rng, t, 3, GenOpts{OptPct: []int{0, 30, 70, 100}[x.rng.Intn(4)]})
			ref := x.env.RefDoc(t, v)
			if ref == nil {
				continue
			}
			want := "ok " + x.env.Expected(t, v).Canon()
			for _, f := range []Fmt{"json", "header", "query", "any"} {
				var impl, op string
				if f == "any" {
					impl = x.decodeAnyK(t, ref, "untyped reader")
					op = "any " + t.Ref + " " + ref.JSON(JSONStyle{})
				} else {
					data, _ := renderFor(f, ref, x.rng)
					op = x.decOp(f, t, data, nil, 0)
					impl = x.b.Decode(f, t, data, nil, 0)
					x.ask(op, impl, "C13 dec "+string(f))
				}
				r.OracleCases++
				r.Count("reader:" + string(f))
				r.Distinctive(op)
				if impl != want {
					r.OracleFail(hx.Case{Sig: "C13 decoded instance does not carry exactly the defaults / supplied values (" + string(f) + ")" + classifyDiff(x.env, t, v, impl, want), Op: op, Impl: impl, Expected: want})
				}
			}
		}
	}
	// not shared between instances
	mk := func() reflect.Value {
		p := x.b.NewNamed("Defaults")
		rd, _ := restlicodec.NewJsonReader([]byte(`{"req":"x"}`))
		if err := p.Interface().(restlicodec.Unmarshaler).UnmarshalRestLi(rd); err != nil {
			panic(err)
		}
		return p
	}
	a, b2 := mk(), mk()
	before := x.b.Get(b2.Elem(), R("Defaults")).Canon()
	darr := a.Elem().FieldByName("Darr").Elem()
	if darr.Len() > 0 {
		darr.Index(0).SetInt(999)
	}
	dmap := a.Elem().FieldByName("Dmap").Elem()
	dmap.SetMapIndex(reflect.ValueOf("k"), reflect.ValueOf(int32(999)))
	dmap.SetMapIndex(reflect.ValueOf("extra"), reflect.ValueOf(int32(1)))
	a.Elem().FieldByName("Dbytes").Elem().Index(0).SetUint(99)
	a.Elem().FieldByName("Drec").Elem().FieldByName("Id").SetInt(999)
	// one level further in: an element record's field, a cell of an inner array, of an array in a map
	deref := func(v reflect.Value) reflect.Value {
		for v.Kind() == reflect.Ptr {
			v = v.Elem()
		}
		return v
	}
	if dn := deref(a.Elem().FieldByName("Dnest")); dn.IsValid() && dn.Len() > 0 {
		deref(dn.Index(0)).FieldByName("Id").SetInt(999)
	}
	if daa := deref(a.Elem().FieldByName("Daa")); daa.IsValid() && daa.Len() > 0 && deref(daa.Index(0)).Len() > 0 {
		deref(daa.Index(0)).Index(0).SetInt(999)
	}
	if dma := deref(a.Elem().FieldByName("Dma")); dma.IsValid() && dma.Len() > 0 {
		if inner := deref(dma.MapIndex(reflect.ValueOf("k"))); inner.IsValid() && inner.Len() > 0 {
			inner.Index(0).SetInt(999)
		}
	}
	after := x.b.Get(b2.Elem(), R("Defaults")).Canon()
	fresh := x.b.Get(mk().Elem(), R("Defaults")).Canon()
	r.OracleCases++
	if before != after || fresh != before {
		r.OracleFail(hx.Case{Sig: "C13 default value shared between instances", Op: "mutate defaults of one instance", Impl: after + " / " + fresh, Expected: before})
	}
}

// freshDefaults: what a freshly constructed default instance must carry — every defaulted
// field (own, inherited) at its default, and required record fields themselves default-constructed.
func (e *Env) freshDefaults(t Ty) *V {
	out := VRec()
	for _, f := range e.AllFields(t.Ref) {
		if f.Default != nil {
			out.KVs = append(out.KVs, KV{f.Name, e.Expected(f.Ty, f.Default)})
		} else if !f.Optional && f.Ty.Ref != "" && e.Find(f.Ty.Ref).Kind == "record" {
			out.KVs = append(out.KVs, KV{f.Name, e.freshDefaults(f.Ty)})
		}
	}
	return out
}

// collectBreakable lists the enum and union nodes of a value with the path leading to each.
func collectBreakable(e *Env, t Ty, v *V, prefix []string, out *[]breakable) {
	switch {
	case t.Arr != nil:
		for _, it := range v.Items {
			collectBreakable(e, *t.Arr, it, append(append([]string{}, prefix...), "*"), out)
		}
	case t.Map != nil:
		for _, kv := range v.KVs {
			collectBreakable(e, *t.Map, kv.V, append(append([]string{}, prefix...), kv.K), out)
		}
	case t.Ref != "":
		d := e.Find(t.Ref)
		switch d.Kind {
		case "enum", "union":
			*out = append(*out, breakable{v, append([]string{}, prefix...), d.Kind})
			if d.Kind == "union" {
				for _, m := range d.Members {
					if mv := v.Get(m.Alias); mv != nil {
						collectBreakable(e, m.Ty, mv, append(append([]string{}, prefix...), m.Alias), out)
					}
				}
			}
		case "record":
			for _, f := range e.AllFields(t.Ref) {
				if fv := v.Get(f.Name); fv != nil {
					collectBreakable(e, f.Ty, fv, append(append([]string{}, prefix...), f.Name), out)
				}
			}
		}
	}
}

type breakable struct {
	v    *V
	path []string
	kind string
}

// runC07Invalid: values that violate a schema constraint somewhere (an undeclared enum constant,
// a union without member), encoded with an exclusion spec that covers the broken node, one of its
// ancestors, or something else. What the encoder does with an invalid value under an excluded key
// is not the property's business; this part only ties the model to the code (K, no D).
func (x *runner) runC07Invalid() {
	r := x.r
	n := 6
	if x.cfg.Tier == "thorough" {
		n = 60
	}
	for _, t := range x.recordTypes() {
		for i := 0; i < n; i++ {
			v := x.env.GenValue(x.rng, t, 3, GenOpts{OptPct: 80})
			var bs []breakable
			collectBreakable(x.env, t, v, nil, &bs)
			if len(bs) == 0 {
				continue
			}
			b := bs[x.rng.Intn(len(bs))]
			if len(b.path) == 0 {
				continue
			}
			if b.kind == "enum" {
				b.v.I = 99
			} else {
				b.v.KVs = nil
			}
			cut := 1 + x.rng.Intn(len(b.path))
			dir := append([]string{}, b.path[:cut]...)
			usable := true
			for _, seg := range dir {
				if seg == "" || strings.Contains(seg, "/") {
					usable = false
				}
			}
			if !usable {
				continue
			}
			for _, excl := range [][]string{{strings.Join(dir, "/")}, {"nosuch"}} {
				for _, f := range []Fmt{"json", "header"} {
					op := x.encOp(f, t, v, excl)
					impl, _ := x.b.Encode(f, t, v, excl)
					r.Count("invalid-under-exclusion:" + strings.SplitN(impl, " ", 2)[0])
					x.ask(op, impl, "C07 enc invalid value "+string(f))
				}
			}
		}
	}
}
