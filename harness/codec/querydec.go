package codec

import (
	"fmt"
	"reflect"
	"sort"
	"strings"

	"github.com/PapaCharlie/go-restli/v2/restlicodec"
	"verif/harness/hx"
)

// DecodeQueryFull is what a generated DecodeQueryParams does for record rec (the corpus records
// carry none): the real ParseQueryParams, the real QueryParamsReader.ReadRecord with the record's
// required fields, the record's generated UnmarshalField (or Skip) per parameter. The fields the
// query names are reported (defaults are populated by the generated method, not here).
func (b *Bridge) DecodeQueryFull(rec string, q string) string {
	return watched(func() string { return b.decodeQueryFull1(rec, q) })
}

func (b *Bridge) decodeQueryFull1(rec string, q string) string {
	var outcome string
	panicked, pv := hx.Recover(func() {
		qr, err := restlicodec.ParseQueryParams(q)
		if err != nil {
			outcome = "err other"
			return
		}
		var required []string
		for _, f := range b.Env.AllFields(rec) {
			if !f.Optional && f.Default == nil {
				required = append(required, f.Name)
			}
		}
		var p reflect.Value
		read := VRec()
		if !b.Interp {
			p = b.NewNamed(rec)
		}
		err = qr.ReadRecord(mkRequired(required), func(reader restlicodec.Reader, field string) error {
			if b.Interp {
				// the generated UnmarshalField, by interpretation (no bindings linked in)
				for _, f := range b.Env.AllFields(rec) {
					if f.Name == field {
						v, err := b.interpUnmarshal(reader, f.Ty)
						if err == nil {
							read.KVs = setKV(read.KVs, field, v)
						}
						return err
					}
				}
				return reader.Skip()
			}
			found, err := p.Interface().(fieldUnmarshaler).UnmarshalField(reader, field)
			if err == nil && !found {
				err = reader.Skip()
			}
			return err
		})
		if err != nil {
			outcome = classifyDec(err, &V{K: "rec"})
			if strings.HasPrefix(outcome, "err missing (") {
				outcome = outcome[:strings.Index(outcome, ")")+1]
			}
			if strings.HasPrefix(outcome, "err excluded") {
				outcome = "err excluded"
			}
			return
		}
		got := read
		if !b.Interp {
			got = b.Get(p.Elem(), R(rec))
		}
		out := VRec()
		for _, kv := range got.KVs {
			if _, ok := qr[kv.K]; ok {
				out.KVs = append(out.KVs, kv)
			}
		}
		outcome = "ok " + out.Canon()
	})
	if panicked {
		return fmt.Sprintf("panic %v", pv)
	}
	return outcome
}

// mutateQuery: what a hostile or sloppy client may make of a well-formed query string
func (x *runner) mutateQuery(q string) string {
	pieces := []string{}
	if q != "" {
		pieces = strings.Split(q, "&")
	}
	junk := []string{"zz=1", "zz=(a:1,b:List(2,3))", "zz=List()", "zz", "zz=", "=1", "", "zz=%zz", "zz=a+b", "zz=(", "zz=)", "zz=((a:1)", "zz=''", "id=7", "id=x"}
	switch x.rng.Intn(8) {
	case 0: // drop a parameter
		if len(pieces) > 0 {
			i := x.rng.Intn(len(pieces))
			pieces = append(pieces[:i:i], pieces[i+1:]...)
		}
	case 1: // add an unknown / malformed one
		pieces = append(pieces, junk[x.rng.Intn(len(junk))])
	case 2: // repeat a parameter with another value
		if len(pieces) > 0 {
			p := pieces[x.rng.Intn(len(pieces))]
			if i := strings.IndexByte(p, '='); i > 0 {
				pieces = append(pieces, p[:i]+"="+[]string{"1", "''", "x", "(a:1)", "List(1)", "true", "1.5"}[x.rng.Intn(7)])
			}
		}
	case 3: // damage a value
		if len(pieces) > 0 {
			i := x.rng.Intn(len(pieces))
			edits := []string{")", "(", ",", ":", "%", "%2", "+", "'", ",x", ")x"}
			pieces[i] += edits[x.rng.Intn(len(edits))]
		}
	case 4: // empty pieces
		pieces = append([]string{""}, pieces...)
		pieces = append(pieces, "")
	case 5: // shuffle
		x.rng.Shuffle(len(pieces), func(i, j int) { pieces[i], pieces[j] = pieces[j], pieces[i] })
	case 6: // truncate
		s := strings.Join(pieces, "&")
		if len(s) > 0 {
			return s[:x.rng.Intn(len(s))]
		}
	}
	return strings.Join(pieces, "&")
}

// runQueryDecK: the query-parameters reader on well-formed and damaged query strings, against the
// model (ParseQueryParams + QueryParamsReader.ReadRecord + per-parameter readers)
func (x *runner) runQueryDecK(n int) {
	r := x.r
	for _, t := range x.recordTypes() {
		rec := t.Ref
		if x.env.Find(rec).Kind != "record" {
			continue
		}
		if !x.b.Interp {
			if _, ok := x.b.NewNamed(rec).Interface().(fieldsMarshaler); !ok {
				continue
			}
		}
		for i := 0; i < n; i++ {
			v := x.env.GenValue(x.rng, t, 2, GenOpts{OptPct: 60})
			q := ""
			if !x.b.Interp {
				_, data := x.b.EncodeQuery(rec, v)
				if data == nil {
					continue
				}
				q = string(data)
			}
			var wantMissing []string
			judged := false
			if ref := x.env.RefDoc(t, v); ref != nil && (x.b.Interp || x.rng.Intn(2) == 0) {
				// the same parameters with required fields deleted at any depth inside their values
				doc := ref.clone()
				x.env.dropFields(t, doc, x.rng, []int{10, 25, 50}[x.rng.Intn(3)], false)
				var parts []string
				ok := true
				for _, kv := range doc.KVs {
					s, fine := kv.V.ROR2(true, nil)
					ok = ok && fine
					parts = append(parts, kv.K+"="+s)
				}
				if ok {
					q = strings.Join(parts, "&")
					r.Count("query-dec:nested-deletions")
					x.env.MissingPaths(t, doc, "", &wantMissing)
					judged = true
				}
			}
			for k := x.rng.Intn(3); k > 0; k-- {
				q = x.mutateQuery(q)
				judged = false
			}
			impl := x.b.DecodeQueryFull(rec, q)
			r.OracleCases++
			r.Count("query-dec:" + strings.SplitN(impl+" ", " ", 3)[0] + " " + strings.SplitN(impl+"  ", " ", 3)[1][:min(7, len(strings.SplitN(impl+"  ", " ", 3)[1]))])
			if judged && len(wantMissing) > 0 {
				// the independently computed set of absent required fields, full paths from the parameter name down
				if want := missingOutcome(wantMissing); impl != want {
					r.OracleFail(hx.Case{Sig: "C06 wrong set of missing required fields (query parameters)", Op: "qdec " + rec + " " + hx.Hex([]byte(q)), Impl: impl, Expected: want})
				}
			} else if judged && !strings.HasPrefix(impl, "ok ") {
				r.OracleFail(hx.Case{Sig: "C06 complete query parameters not decoded", Op: "qdec " + rec + " " + hx.Hex([]byte(q)), Impl: impl, Expected: "ok …"})
			}
			if impl == "hang" {
				r.OracleFail(hx.Case{Sig: "C04 query-parameters reader does not terminate", Op: "qdec " + rec + " " + hx.Hex([]byte(q)), Impl: impl, Expected: "a value or an error"})
				continue
			}
			if strings.HasPrefix(impl, "panic") {
				r.OracleFail(hx.Case{Sig: "C04 query-parameters reader panicked", Op: "qdec " + rec + " " + hx.Hex([]byte(q)), Impl: impl, Expected: "a value or an error"})
				continue
			}
			if !strings.HasPrefix(impl, "ok ") {
				// which failing parameter Go's map iteration meets first is not determined
				stable := true
				for j := 0; j < 6 && stable; j++ {
					stable = x.b.DecodeQueryFull(rec, q) == impl
				}
				if !stable {
					r.Count("query-dec:outcome-depends-on-map-order")
					continue
				}
			}
			op := fmt.Sprintf("qdec %s %s %s %s", x.cfg.Module, x.env.Closure(rec), rec, hx.Hex([]byte(q)))
			r.Distinctive(op)
			x.ask(op, impl, "query-parameters reader")
		}
	}
	_ = sort.Strings
}
