package codec

import (
	"bytes"
	"encoding/json"
	"fmt"
	"math"
	"math/rand"
	"sort"
	"strconv"
	"strings"
	"unicode/utf8"
)

// D is a protocol-level document tree, independent of the library: the reference encoder
// (RefDoc) produces it from a value by the Rest.li 2.0 wire rules, the reference renderers
// write it as JSON / ROR2 without using the library, and mutators derive further documents.
type D struct {
	K    string // int float bool str bytes null obj arr
	I    int64
	F    float64
	B    bool
	S    []byte
	KVs  []DKV
	Elts []*D
	// Go: which of the Go shapes of this value the untyped tree holds (0 = the plain one); the
	// logical value — and what the model is told — is the same for all of them (see Any)
	Go int
}

type DKV struct {
	K string
	V *D
}

func (d *D) get(k string) *D {
	for _, e := range d.KVs {
		if e.K == k {
			return e.V
		}
	}
	return nil
}

func (d *D) clone() *D {
	c := *d
	c.S = append([]byte(nil), d.S...)
	c.KVs = nil
	for _, e := range d.KVs {
		c.KVs = append(c.KVs, DKV{e.K, e.V.clone()})
	}
	c.Elts = nil
	for _, e := range d.Elts {
		c.Elts = append(c.Elts, e.clone())
	}
	return &c
}

// RefDoc: the abstract tree a value denotes under the wire rules (keys are field names, map
// keys or member aliases; enums are symbol names; fixed/bytes are byte strings; floats numbers
// or the three reserved strings). Returns nil when the value violates a schema constraint.
func (e *Env) RefDoc(t Ty, v *V) *D {
	switch {
	case t.Prim != "":
		return refPrim(t.Prim, v)
	case t.Arr != nil:
		out := &D{K: "arr"}
		for _, i := range v.Items {
			c := e.RefDoc(*t.Arr, i)
			if c == nil {
				return nil
			}
			out.Elts = append(out.Elts, c)
		}
		return out
	case t.Map != nil:
		out := &D{K: "obj"}
		for _, kv := range v.KVs {
			c := e.RefDoc(*t.Map, kv.V)
			if c == nil {
				return nil
			}
			out.KVs = append(out.KVs, DKV{kv.K, c})
		}
		return out
	}
	d := e.Find(t.Ref)
	switch d.Kind {
	case "typeref":
		return refPrim(d.Prim, v)
	case "enum":
		if v.I < 1 || int(v.I) > len(d.Symbols) {
			return nil
		}
		return &D{K: "str", S: []byte(d.Symbols[v.I-1])}
	case "fixed":
		if len(v.B) != d.Size {
			return nil
		}
		return &D{K: "bytes", S: v.B}
	case "record":
		out := &D{K: "obj"}
		for _, f := range e.AllFields(d.Name) {
			if fv := v.Get(f.Name); fv != nil {
				c := e.RefDoc(f.Ty, fv)
				if c == nil {
					return nil
				}
				out.KVs = append(out.KVs, DKV{f.Name, c})
			}
		}
		return out
	case "union":
		if len(v.KVs) > 1 || (len(v.KVs) == 0 && !d.HasNull) {
			return nil
		}
		out := &D{K: "obj"}
		for _, m := range d.Members {
			if mv := v.Get(m.Alias); mv != nil {
				c := e.RefDoc(m.Ty, mv)
				if c == nil {
					return nil
				}
				out.KVs = append(out.KVs, DKV{m.Alias, c})
			}
		}
		return out
	}
	return nil
}

func refPrim(p Prim, v *V) *D {
	switch p {
	case "i32", "i64":
		return &D{K: "int", I: v.I}
	case "f32":
		return &D{K: "float", F: float64(math.Float32frombits(uint32(v.Bits)))}
	case "f64":
		return &D{K: "float", F: math.Float64frombits(v.Bits)}
	case "bool":
		return &D{K: "bool", B: v.Bool}
	case "str":
		return &D{K: "str", S: v.B}
	default:
		return &D{K: "bytes", S: v.B}
	}
}

// ---- reference JSON renderer (encoding/json for strings: different but legal escapes)

type JSONStyle struct {
	Space   bool // insignificant whitespace everywhere it is allowed
	Shuffle *rand.Rand
}

func jsonStr(b []byte) string {
	// strings must be valid UTF-8 to be Rest.li strings; invalid bytes cannot be represented
	out, _ := json.Marshal(string(b))
	return string(out)
}

func latin1(b []byte) []byte {
	var out []byte
	for _, c := range b {
		out = utf8.AppendRune(out, rune(c))
	}
	return out
}

func (d *D) JSON(st JSONStyle) string {
	sp := ""
	if st.Space {
		sp = " \n\t"
	}
	switch d.K {
	case "null":
		return "null"
	case "int":
		return strconv.FormatInt(d.I, 10)
	case "float":
		switch {
		case math.IsNaN(d.F):
			return `"NaN"`
		case math.IsInf(d.F, 1):
			return `"Infinity"`
		case math.IsInf(d.F, -1):
			return `"-Infinity"`
		}
		return strconv.FormatFloat(d.F, 'e', -1, 64) // a different but legal spelling
	case "bool":
		return strconv.FormatBool(d.B)
	case "str":
		return jsonStr(d.S)
	case "bytes":
		return jsonStr(latin1(d.S))
	case "arr":
		parts := make([]string, len(d.Elts))
		for i, e := range d.Elts {
			parts[i] = e.JSON(st)
		}
		return "[" + sp + strings.Join(parts, sp+","+sp) + sp + "]"
	case "obj":
		kvs := append([]DKV(nil), d.KVs...)
		if st.Shuffle != nil {
			st.Shuffle.Shuffle(len(kvs), func(i, j int) { kvs[i], kvs[j] = kvs[j], kvs[i] })
		}
		parts := make([]string, len(kvs))
		for i, e := range kvs {
			parts[i] = jsonStr([]byte(e.K)) + sp + ":" + sp + e.V.JSON(st)
		}
		return "{" + sp + strings.Join(parts, sp+","+sp) + sp + "}"
	}
	panic("bad doc kind " + d.K)
}

// ---- reference ROR2 renderer: percent-encode everything but unreserved characters

func refEsc(b []byte, plusForSpace bool) string {
	if len(b) == 0 {
		return "''"
	}
	var sb strings.Builder
	for _, c := range b {
		switch {
		case c >= 'a' && c <= 'z', c >= 'A' && c <= 'Z', c >= '0' && c <= '9', c == '-', c == '_', c == '.', c == '~':
			sb.WriteByte(c)
		case c == ' ' && plusForSpace:
			sb.WriteByte('+')
		default:
			fmt.Fprintf(&sb, "%%%02X", c)
		}
	}
	return sb.String()
}

// ROR2 renders the document; null cannot be represented (returns ok=false).
func (d *D) ROR2(query bool, shuffle *rand.Rand) (string, bool) {
	switch d.K {
	case "null":
		return "", false
	case "int":
		return strconv.FormatInt(d.I, 10), true
	case "float":
		switch {
		case math.IsNaN(d.F):
			return "NaN", true
		case math.IsInf(d.F, 1):
			return "Infinity", true
		case math.IsInf(d.F, -1):
			return "-Infinity", true
		}
		return refEsc([]byte(strconv.FormatFloat(d.F, 'e', -1, 64)), false), true
	case "bool":
		return strconv.FormatBool(d.B), true
	case "str", "bytes":
		return refEsc(d.S, query), true
	case "arr":
		parts := make([]string, len(d.Elts))
		for i, e := range d.Elts {
			s, ok := e.ROR2(query, shuffle)
			if !ok {
				return "", false
			}
			parts[i] = s
		}
		return "List(" + strings.Join(parts, ",") + ")", true
	case "obj":
		kvs := append([]DKV(nil), d.KVs...)
		if shuffle != nil {
			shuffle.Shuffle(len(kvs), func(i, j int) { kvs[i], kvs[j] = kvs[j], kvs[i] })
		}
		parts := make([]string, len(kvs))
		for i, e := range kvs {
			s, ok := e.V.ROR2(query, shuffle)
			if !ok {
				return "", false
			}
			parts[i] = refEsc([]byte(e.K), query) + ":" + s
		}
		return "(" + strings.Join(parts, ",") + ")", true
	}
	panic("bad doc kind")
}

type namedString string
type namedMap map[string]any
type namedBytes []byte

// Any renders the document as the untyped Go value tree the interface reader consumes. A value
// has several Go shapes that the reader must treat alike (d.Go picks one): integers of every
// signed kind, strings as string / []byte / a named string type, a pointer to the value (one
// level is dereferenced), empty collections as nil slices and nil maps, slices and maps with a
// concrete element type. "other" is anything the reader supports nowhere, including what is left
// after ONE dereference of a pointer to a nil pointer or to a nil interface.
func (d *D) Any() any {
	switch d.K {
	case "null":
		return nil
	case "other":
		var nilIntPtr *int
		var nilMapPtr *map[string]any
		var nilAny any
		var nilSlicePtr *[]any
		switch d.Go % 9 {
		case 1:
			return struct{}{}
		case 2:
			return &nilIntPtr
		case 3:
			return &nilAny
		case 4:
			return &nilMapPtr
		case 5:
			return (*int)(nil)
		case 6:
			return map[int]any{1: 2}
		case 7:
			return &nilSlicePtr
		case 8:
			return uint64(1 << 40)
		}
		return uint16(7)
	case "other2":
		// byte arrays held by value (not slices): nothing the reader supports, and nothing to panic on
		switch d.Go % 3 {
		case 1:
			return [][4]byte{{1, 2, 3, 4}}
		case 2:
			type fx [2]byte
			return fx{7, 8}
		}
		return [4]byte{1, 2, 3, 4}
	case "int":
		switch d.Go % 5 {
		case 1:
			return int(d.I)
		case 2:
			if int64(int32(d.I)) == d.I {
				return int32(d.I)
			}
		case 3:
			if int64(int8(d.I)) == d.I {
				return int8(d.I)
			}
		case 4:
			v := d.I
			return &v
		}
		return d.I
	case "float":
		switch d.Go % 3 {
		case 1:
			if f32 := float32(d.F); float64(f32) == d.F {
				return f32
			}
		case 2:
			v := d.F
			return &v
		}
		return d.F
	case "bool":
		if d.Go%2 == 1 {
			v := d.B
			return &v
		}
		return d.B
	case "str":
		switch d.Go % 5 {
		case 4:
			return namedBytes(append([]byte{}, d.S...))
		case 1:
			return append([]byte{}, d.S...)
		case 2:
			return namedString(d.S)
		case 3:
			v := string(d.S)
			return &v
		}
		return string(d.S)
	case "bytes":
		if d.Go%2 == 1 && len(d.S) == 0 {
			return []byte(nil)
		}
		if d.Go%3 == 2 {
			return namedBytes(append([]byte{}, d.S...))
		}
		return append([]byte{}, d.S...)
	case "arr":
		if d.Go%4 == 1 && len(d.Elts) == 0 {
			return []any(nil)
		}
		if d.Go%4 == 2 {
			allInt, allStr := len(d.Elts) > 0, len(d.Elts) > 0
			for _, e := range d.Elts {
				allInt = allInt && e.K == "int"
				allStr = allStr && e.K == "str"
			}
			if allInt {
				out := make([]int64, len(d.Elts))
				for i, e := range d.Elts {
					out[i] = e.I
				}
				return out
			}
			if allStr {
				out := make([]string, len(d.Elts))
				for i, e := range d.Elts {
					out[i] = string(e.S)
				}
				return out
			}
		}
		out := make([]any, len(d.Elts))
		for i, e := range d.Elts {
			out[i] = e.Any()
		}
		if d.Go%4 == 3 {
			return &out
		}
		return out
	default:
		if d.Go%4 == 1 && len(d.KVs) == 0 {
			return map[string]any(nil)
		}
		out := map[string]any{}
		for _, e := range d.KVs {
			out[e.K] = e.V.Any()
		}
		switch d.Go % 4 {
		case 2:
			return namedMap(out)
		case 3:
			return &out
		}
		return out
	}
}

// goShapes gives a share of the nodes of the document another Go shape (in place)
func goShapes(d *D, pick func(n int) int) {
	if pick(3) == 0 {
		d.Go = 1 + pick(8)
	}
	for i := range d.KVs {
		goShapes(d.KVs[i].V, pick)
	}
	for _, e := range d.Elts {
		goShapes(e, pick)
	}
}

// ---- independent strict parsers (second opinion on what the library emits)

// ParseJSONStrict parses with encoding/json (strict RFC 8259, numbers kept as text).
func ParseJSONStrict(data []byte) (any, error) {
	dec := json.NewDecoder(bytes.NewReader(data))
	dec.UseNumber()
	var v any
	if err := dec.Decode(&v); err != nil {
		return nil, err
	}
	if dec.More() {
		return nil, fmt.Errorf("trailing data")
	}
	if _, err := dec.Token(); err == nil {
		return nil, fmt.Errorf("trailing data")
	}
	return v, nil
}

// SameTree compares a strictly parsed JSON value with a reference document (floats by value,
// bytes as one code point per byte).
func SameTree(v any, d *D) bool {
	switch d.K {
	case "null":
		return v == nil
	case "int":
		n, ok := v.(json.Number)
		if !ok {
			return false
		}
		i, err := strconv.ParseInt(string(n), 10, 64)
		return err == nil && i == d.I
	case "float":
		if math.IsNaN(d.F) {
			return v == "NaN"
		}
		if math.IsInf(d.F, 1) {
			return v == "Infinity"
		}
		if math.IsInf(d.F, -1) {
			return v == "-Infinity"
		}
		n, ok := v.(json.Number)
		if !ok {
			return false
		}
		f, err := strconv.ParseFloat(string(n), 64)
		return err == nil && (f == d.F) && (math.Signbit(f) == math.Signbit(d.F))
	case "bool":
		b, ok := v.(bool)
		return ok && b == d.B
	case "str":
		s, ok := v.(string)
		return ok && s == string(d.S)
	case "bytes":
		s, ok := v.(string)
		return ok && s == string(latin1(d.S))
	case "arr":
		a, ok := v.([]any)
		if !ok || len(a) != len(d.Elts) {
			return false
		}
		for i := range a {
			if !SameTree(a[i], d.Elts[i]) {
				return false
			}
		}
		return true
	case "obj":
		m, ok := v.(map[string]any)
		if !ok || len(m) != len(d.KVs) {
			return false
		}
		for _, e := range d.KVs {
			c, ok := m[e.K]
			if !ok || !SameTree(c, e.V) {
				return false
			}
		}
		return true
	}
	return false
}

func sortedKeys(d *D) []string {
	ks := make([]string, len(d.KVs))
	for i, e := range d.KVs {
		ks[i] = e.K
	}
	sort.Strings(ks)
	return ks
}
