package codec

import (
	"fmt"
	"math"
	"reflect"
	"strings"
	"unsafe"

	"github.com/PapaCharlie/go-restli/v2/codegen/utils"
	"verif/harness/gen"
)

// Bridge converts between model values (V) and the Go values of the generated bindings, driven
// by the schema (reflection alone cannot tell a union struct from a record struct).
type Bridge struct {
	Env *Env
	// Interp: no generated bindings are linked in (the root module copy); the schema interpreter
	// (interp.go) stands in for them
	Interp bool
}

var bytesType = reflect.TypeOf([]byte(nil))

func (b *Bridge) namedType(n string) reflect.Type {
	f, ok := gen.New[n]
	if !ok {
		panic("no generated type for " + n)
	}
	return reflect.TypeOf(f()).Elem()
}

// GoType is the generator's RestliType.GoType()
func (b *Bridge) GoType(t Ty) reflect.Type {
	switch {
	case t.Prim != "":
		switch t.Prim {
		case "i32":
			return reflect.TypeOf(int32(0))
		case "i64":
			return reflect.TypeOf(int64(0))
		case "f32":
			return reflect.TypeOf(float32(0))
		case "f64":
			return reflect.TypeOf(float64(0))
		case "bool":
			return reflect.TypeOf(false)
		case "str":
			return reflect.TypeOf("")
		case "bytes":
			return bytesType
		}
	case t.Ref != "":
		return b.namedType(t.Ref)
	case t.Arr != nil:
		return reflect.SliceOf(b.RefType(*t.Arr))
	case t.Map != nil:
		return reflect.MapOf(reflect.TypeOf(""), b.RefType(*t.Map))
	}
	panic("bad type")
}

func (b *Bridge) shouldReference(t Ty) bool {
	if t.Ref == "" {
		return false
	}
	switch b.Env.Find(t.Ref).Kind {
	case "record", "union", "fixed":
		return true
	}
	return false
}

// RefType is RestliType.ReferencedType(): pointer for records, unions and fixed
func (b *Bridge) RefType(t Ty) reflect.Type {
	if b.shouldReference(t) {
		return reflect.PointerTo(b.GoType(t))
	}
	return b.GoType(t)
}

type illTyped struct{ msg string }

func (e illTyped) Error() string { return "ill-typed value: " + e.msg }

func memberField(alias string) string {
	return utils.ExportedIdentifier(alias[strings.LastIndex(alias, ".")+1:])
}

// Set stores v into rv, an addressable reflect.Value of GoType(t).
func (b *Bridge) Set(rv reflect.Value, t Ty, v *V) error {
	bad := func() error { return illTyped{fmt.Sprintf("%s for %s", v.K, t.Sexp())} }
	setPrim := func(p Prim) error {
		switch p {
		case "i32", "i64":
			if v.K != string(p) {
				return bad()
			}
			rv.SetInt(v.I)
		case "f32":
			if v.K != "f32" {
				return bad()
			}
			if rv.CanAddr() {
				// the exact bit pattern: SetFloat goes through float64, which quiets a
				// signalling NaN (0x7FBE3C45 -> 0x7FFE3C45) and would make the harness, not the
				// library, hash other bits than the ones the model is asked about
				*(*uint32)(unsafe.Pointer(rv.UnsafeAddr())) = uint32(v.Bits)
			} else {
				rv.SetFloat(float64(math.Float32frombits(uint32(v.Bits))))
			}
		case "f64":
			if v.K != "f64" {
				return bad()
			}
			rv.SetFloat(math.Float64frombits(v.Bits))
		case "bool":
			if v.K != "bool" {
				return bad()
			}
			rv.SetBool(v.Bool)
		case "str":
			if v.K != "str" {
				return bad()
			}
			rv.SetString(string(v.B))
		case "bytes":
			if v.K != "bytes" {
				return bad()
			}
			rv.SetBytes(append([]byte{}, v.B...))
		}
		return nil
	}
	switch {
	case t.Prim != "":
		return setPrim(t.Prim)
	case t.Arr != nil:
		if v.K != "arr" {
			return bad()
		}
		sl := reflect.MakeSlice(rv.Type(), len(v.Items), len(v.Items))
		for i, it := range v.Items {
			if err := b.setRef(sl.Index(i), *t.Arr, it); err != nil {
				return err
			}
		}
		rv.Set(sl)
		return nil
	case t.Map != nil:
		if v.K != "map" {
			return bad()
		}
		m := reflect.MakeMapWithSize(rv.Type(), len(v.KVs))
		for _, e := range v.KVs {
			ev := reflect.New(rv.Type().Elem()).Elem()
			if err := b.setRef(ev, *t.Map, e.V); err != nil {
				return err
			}
			m.SetMapIndex(reflect.ValueOf(e.K), ev)
		}
		rv.Set(m)
		return nil
	}
	d := b.Env.Find(t.Ref)
	switch d.Kind {
	case "typeref":
		return setPrim(d.Prim)
	case "enum":
		if v.K != "enum" {
			return bad()
		}
		rv.SetInt(v.I)
		return nil
	case "fixed":
		if v.K != "fixed" || len(v.B) != d.Size {
			return bad()
		}
		reflect.Copy(rv, reflect.ValueOf(v.B))
		return nil
	case "record":
		if v.K != "rec" {
			return bad()
		}
		return b.setRecord(rv, d, v)
	case "union":
		if v.K != "union" {
			return bad()
		}
		for _, m := range d.Members {
			fv := rv.FieldByName(memberField(m.Alias))
			if mv := v.Get(m.Alias); mv != nil {
				p := reflect.New(fv.Type().Elem())
				if err := b.Set(p.Elem(), m.Ty, mv); err != nil {
					return err
				}
				fv.Set(p)
			}
		}
		return nil
	}
	return bad()
}

func (b *Bridge) setRecord(rv reflect.Value, d *Decl, v *V) error {
	for _, inc := range d.Includes {
		if err := b.setRecord(rv.FieldByName(utils.ExportedIdentifier(inc)), b.Env.Find(inc), v); err != nil {
			return err
		}
	}
	for _, f := range d.Fields {
		fv := rv.FieldByName(utils.ExportedIdentifier(f.Name))
		val := v.Get(f.Name)
		if f.Optional || f.Default != nil {
			if val == nil {
				continue
			}
			p := reflect.New(fv.Type().Elem())
			if err := b.Set(p.Elem(), f.Ty, val); err != nil {
				return err
			}
			fv.Set(p)
		} else {
			if val == nil {
				return illTyped{"required field " + f.Name + " unset"}
			}
			if err := b.Set(fv, f.Ty, val); err != nil {
				return err
			}
		}
	}
	return nil
}

// setRef stores into a slot of RefType(t)
func (b *Bridge) setRef(slot reflect.Value, t Ty, v *V) error {
	if b.shouldReference(t) {
		p := reflect.New(slot.Type().Elem())
		if err := b.Set(p.Elem(), t, v); err != nil {
			return err
		}
		slot.Set(p)
		return nil
	}
	return b.Set(slot, t, v)
}

// Get reads the Go value rv (of GoType(t)) back into a model value.
func (b *Bridge) Get(rv reflect.Value, t Ty) *V {
	getPrim := func(p Prim) *V {
		switch p {
		case "i32":
			return VI32(int32(rv.Int()))
		case "i64":
			return VI64(rv.Int())
		case "f32":
			if rv.CanAddr() {
				return &V{K: "f32", Bits: uint64(*(*uint32)(unsafe.Pointer(rv.UnsafeAddr())))}
			}
			return VF32(float32(rv.Float()))
		case "f64":
			return VF64(rv.Float())
		case "bool":
			return VBool(rv.Bool())
		case "str":
			return VStr(rv.String())
		default:
			return VBytes(append([]byte{}, rv.Bytes()...))
		}
	}
	switch {
	case t.Prim != "":
		return getPrim(t.Prim)
	case t.Arr != nil:
		out := VArr()
		for i := 0; i < rv.Len(); i++ {
			out.Items = append(out.Items, b.getRef(rv.Index(i), *t.Arr))
		}
		return out
	case t.Map != nil:
		out := VMap()
		for it := rv.MapRange(); it.Next(); {
			out.KVs = append(out.KVs, KV{it.Key().String(), b.getRef(it.Value(), *t.Map)})
		}
		return out
	}
	d := b.Env.Find(t.Ref)
	switch d.Kind {
	case "typeref":
		return getPrim(d.Prim)
	case "enum":
		return VEnum(int32(rv.Int()))
	case "fixed":
		bs := make([]byte, rv.Len())
		reflect.Copy(reflect.ValueOf(bs), rv)
		return VFixed(bs)
	case "record":
		out := VRec()
		b.getRecord(rv, d, out)
		return out
	case "union":
		out := VUnion()
		for _, m := range d.Members {
			fv := rv.FieldByName(memberField(m.Alias))
			if !fv.IsNil() {
				out.KVs = append(out.KVs, KV{m.Alias, b.Get(fv.Elem(), m.Ty)})
			}
		}
		return out
	}
	panic("bad decl")
}

func (b *Bridge) getRecord(rv reflect.Value, d *Decl, out *V) {
	for _, inc := range d.Includes {
		b.getRecord(rv.FieldByName(utils.ExportedIdentifier(inc)), b.Env.Find(inc), out)
	}
	for _, f := range d.Fields {
		fv := rv.FieldByName(utils.ExportedIdentifier(f.Name))
		if f.Optional || f.Default != nil {
			if fv.IsNil() {
				continue
			}
			out.KVs = append(out.KVs, KV{f.Name, b.Get(fv.Elem(), f.Ty)})
		} else {
			out.KVs = append(out.KVs, KV{f.Name, b.Get(fv, f.Ty)})
		}
	}
}

func (b *Bridge) getRef(slot reflect.Value, t Ty) *V {
	if b.shouldReference(t) {
		if slot.IsNil() {
			return &V{K: "nilref"}
		}
		return b.Get(slot.Elem(), t)
	}
	return b.Get(slot, t)
}

// NewNamed returns a pointer (as reflect.Value) to a fresh zero value of the named type.
func (b *Bridge) NewNamed(n string) reflect.Value { return reflect.ValueOf(gen.New[n]()) }
