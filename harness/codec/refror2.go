package codec

import (
	"fmt"
	"math"
	"net/url"
	"strconv"
	"strings"
)

// RT is what the independent ROR2 reference parser produces: raw (decoded) strings at the leaves.
type RT struct {
	Leaf  bool
	S     string
	KVs   []RTKV
	Elts  []*RT
	IsArr bool
}
type RTKV struct {
	K string
	V *RT
}

// ParseROR2Ref parses a complete ROR2 document by the protocol grammar:
//   value := '(' [key ':' value {',' key ':' value}] ')' | 'List(' [value {',' value}] ')' | token
//   token := "''" | percent-encoded text free of ( ) , : '
func ParseROR2Ref(s string, query bool) (*RT, error) {
	p := &ror2p{s: s, query: query}
	v, err := p.value()
	if err != nil {
		return nil, err
	}
	if p.i != len(s) {
		return nil, fmt.Errorf("trailing bytes at %d", p.i)
	}
	return v, nil
}

type ror2p struct {
	s     string
	i     int
	query bool
}

func (p *ror2p) token() (string, error) {
	st := p.i
	for p.i < len(p.s) && !strings.ContainsRune("(),:", rune(p.s[p.i])) {
		p.i++
	}
	raw := p.s[st:p.i]
	if raw == "" {
		return "", fmt.Errorf("empty token at %d", st)
	}
	if raw == "''" {
		return "", nil
	}
	if strings.Contains(raw, "'") {
		return "", fmt.Errorf("unescaped quote at %d", st)
	}
	if p.query {
		return url.QueryUnescape(raw)
	}
	return url.PathUnescape(raw)
}

func (p *ror2p) value() (*RT, error) {
	switch {
	case strings.HasPrefix(p.s[p.i:], "List("):
		p.i += 5
		out := &RT{IsArr: true}
		if p.i < len(p.s) && p.s[p.i] == ')' {
			p.i++
			return out, nil
		}
		for {
			v, err := p.value()
			if err != nil {
				return nil, err
			}
			out.Elts = append(out.Elts, v)
			if p.i >= len(p.s) {
				return nil, fmt.Errorf("unclosed list")
			}
			if p.s[p.i] == ',' {
				p.i++
				continue
			}
			if p.s[p.i] == ')' {
				p.i++
				return out, nil
			}
			return nil, fmt.Errorf("bad list delimiter at %d", p.i)
		}
	case p.i < len(p.s) && p.s[p.i] == '(':
		p.i++
		out := &RT{}
		if p.i < len(p.s) && p.s[p.i] == ')' {
			p.i++
			return out, nil
		}
		for {
			k, err := p.token()
			if err != nil {
				return nil, err
			}
			if p.i >= len(p.s) || p.s[p.i] != ':' {
				return nil, fmt.Errorf("missing ':' at %d", p.i)
			}
			p.i++
			v, err := p.value()
			if err != nil {
				return nil, err
			}
			out.KVs = append(out.KVs, RTKV{k, v})
			if p.i >= len(p.s) {
				return nil, fmt.Errorf("unclosed object")
			}
			if p.s[p.i] == ',' {
				p.i++
				continue
			}
			if p.s[p.i] == ')' {
				p.i++
				return out, nil
			}
			return nil, fmt.Errorf("bad object delimiter at %d", p.i)
		}
	default:
		s, err := p.token()
		if err != nil {
			return nil, err
		}
		return &RT{Leaf: true, S: s}, nil
	}
}

// SameRT compares a reference-parsed ROR2 tree with a reference document.
func SameRT(r *RT, d *D) bool {
	switch d.K {
	case "int":
		return r.Leaf && r.S == strconv.FormatInt(d.I, 10)
	case "float":
		if !r.Leaf {
			return false
		}
		switch {
		case math.IsNaN(d.F):
			return r.S == "NaN"
		case math.IsInf(d.F, 1):
			return r.S == "Infinity"
		case math.IsInf(d.F, -1):
			return r.S == "-Infinity"
		}
		f, err := strconv.ParseFloat(r.S, 64)
		return err == nil && f == d.F && math.Signbit(f) == math.Signbit(d.F)
	case "bool":
		return r.Leaf && r.S == strconv.FormatBool(d.B)
	case "str", "bytes":
		return r.Leaf && r.S == string(d.S)
	case "arr":
		if r.Leaf || !r.IsArr || len(r.Elts) != len(d.Elts) {
			return false
		}
		for i := range r.Elts {
			if !SameRT(r.Elts[i], d.Elts[i]) {
				return false
			}
		}
		return true
	case "obj":
		if r.Leaf || r.IsArr || len(r.KVs) != len(d.KVs) {
			return false
		}
		for _, e := range d.KVs {
			var c *RT
			n := 0
			for _, kv := range r.KVs {
				if kv.K == e.K {
					c = kv.V
					n++
				}
			}
			if n != 1 || !SameRT(c, e.V) {
				return false
			}
		}
		return true
	}
	return false
}
