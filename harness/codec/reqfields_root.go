//go:build rootmod

package codec

import "github.com/PapaCharlie/go-restli/v2/restlicodec"

func mkRequired(names []string) restlicodec.RequiredFields {
	return restlicodec.RequiredFields(names)
}
