package codec

import (
	"fmt"
	"math/rand"
	"os"
	"strings"

	"verif/harness/gen"
	"verif/harness/hx"
)

type Config struct {
	Prop   string
	Module string
	Seed   int64
	Tier   string
	Driver *hx.Driver
	Replay []string
}

type runner struct {
	cfg Config
	r   *hx.Result
	env *Env
	b   *Bridge
	rng *rand.Rand
	// names of the fields embedded by value (see dupkeys.go)
	byValue map[string]bool
}

func exclSexp(excl []string) string {
	parts := []string{"excl"}
	for _, d := range excl {
		parts = append(parts, hx.Hex([]byte(d)))
	}
	return "(" + strings.Join(parts, " ") + ")"
}

func (x *runner) encOp(f Fmt, t Ty, v *V, excl []string) string {
	return fmt.Sprintf("enc %s %s %s %s %s %s", x.cfg.Module, f, x.env.Closure(tyRoots(t)...), t.Sexp(), exclSexp(excl), v.Sexp())
}

func (x *runner) decOp(f Fmt, t Ty, data []byte, excl []string, ignore int) string {
	return fmt.Sprintf("dec %s %s %s %s %s %d %s", x.cfg.Module, f, x.env.Closure(tyRoots(t)...), t.Sexp(), exclSexp(excl), ignore, hx.Hex(data))
}

// ask sends an op to the model and records a disagreement unless the model declines.
func (x *runner) ask(op, impl, sig string) string {
	if x.cfg.Driver == nil {
		return ""
	}
	if why := x.outsideModel(op); why != "" {
		x.r.Unmodelled[why]++
		return why
	}
	x.r.Ops++
	m := x.cfg.Driver.MustAsk(op)
	if strings.HasPrefix(m, "unmodelled") {
		x.r.Unmodelled[m]++
		return m
	}
	if m != impl {
		x.r.Disagree(hx.Case{Sig: sig, Op: op, Impl: impl, Model: m})
	}
	return m
}

// Expected is the value the property says decoding must yield: the original with the schema
// default filled into every unset defaulted field (own or inherited), recursively.
func (e *Env) Expected(t Ty, v *V) *V { return e.expected(t, v, true) }

// expectedOwnOnly fills only the defaults a record declares itself (not those of included
// records): used to recognise the known finding "inherited defaults are not applied".
func (e *Env) expectedOwnOnly(t Ty, v *V) *V { return e.expected(t, v, false) }

func (e *Env) expected(t Ty, v *V, inherited bool) *V {
	switch {
	case t.Prim != "":
		return v
	case t.Arr != nil:
		out := VArr()
		for _, i := range v.Items {
			out.Items = append(out.Items, e.expected(*t.Arr, i, inherited))
		}
		return out
	case t.Map != nil:
		out := VMap()
		for _, kv := range v.KVs {
			out.KVs = append(out.KVs, KV{kv.K, e.expected(*t.Map, kv.V, inherited)})
		}
		return out
	}
	d := e.Find(t.Ref)
	switch d.Kind {
	case "record":
		out := VRec()
		own := map[string]bool{}
		for _, f := range d.Fields {
			own[f.Name] = true
		}
		for _, f := range e.AllFields(d.Name) {
			if fv := v.Get(f.Name); fv != nil {
				out.KVs = append(out.KVs, KV{f.Name, e.expected(f.Ty, fv, inherited)})
			} else if f.Default != nil && (inherited || own[f.Name]) {
				out.KVs = append(out.KVs, KV{f.Name, e.expected(f.Ty, f.Default, inherited)})
			}
		}
		return out
	case "union":
		out := VUnion()
		for _, m := range d.Members {
			if mv := v.Get(m.Alias); mv != nil {
				out.KVs = append(out.KVs, KV{m.Alias, e.expected(m.Ty, mv, inherited)})
			}
		}
		return out
	}
	return v
}

func (x *runner) topTypes() []Ty {
	var out []Ty
	for _, d := range x.env.Decls {
		out = append(out, R(d.Name))
	}
	for _, p := range []Prim{"i32", "i64", "f32", "f64", "bool", "str", "bytes"} {
		out = append(out, P(p))
	}
	return out
}

// roundTrip runs one C01 case: encode with the real bindings, compare with the model, decode
// the real bytes with the real bindings, check the property, compare with the model.
func (x *runner) roundTrip(f Fmt, t Ty, v *V) {
	r := x.r
	encOp := x.encOp(f, t, v, nil)
	implEnc, data := x.b.Encode(f, t, v, nil)
	r.OracleCases++
	r.Count("fmt:" + string(f))
	r.Count("type:" + t.Sexp())
	x.ask(encOp, implEnc, "C01 enc "+string(f))
	if !strings.HasPrefix(implEnc, "ok ") {
		r.OracleFail(hx.Case{Sig: "C01 encode of a valid value failed (" + string(f) + ")", Op: encOp, Impl: implEnc, Expected: "ok <bytes>"})
		return
	}
	r.Distinctive(encOp)
	decOp := x.decOp(f, t, data, nil, 0)
	implDec := x.b.Decode(f, t, data, nil, 0)
	want := "ok " + x.env.Expected(t, v).Canon()
	if implDec != want {
		sig := "C01 round trip differs (" + string(f) + ")"
		if strings.HasPrefix(implDec, "panic") {
			sig = "C01 decode panicked (" + string(f) + ")"
		}
		r.OracleFail(hx.Case{Sig: sig + classifyDiff(x.env, t, v, implDec, want), Op: decOp, Impl: implDec, Expected: want, Note: "encoded=" + string(data)})
	}
	x.ask(decOp, implDec, "C01 dec "+string(f))
}

// classifyDiff names the cause of a round-trip difference when it is one of the recognised
// situations, so that known findings match only that situation.
func classifyDiff(e *Env, t Ty, v *V, got, want string) string {
	if got == "ok "+e.expectedOwnOnly(t, v).Canon() {
		return " [only difference: defaults inherited from an included record are not applied]"
	}
	return ""
}

func Run(cfg Config) *hx.Result {
	resProp := cfg.Prop
	if resProp == "C10G" {
		resProp = "C10"
	}
	r := hx.NewResult(resProp, cfg.Module, cfg.Seed, cfg.Tier)
	// VERIF_FORCE_INTERP=1: run the interpreter where the bindings exist too (it must then agree with
	// the model exactly as the bindings do — the way the interpreter itself is validated)
	interp := (!gen.Generated && cfg.Module == "root") || os.Getenv("VERIF_FORCE_INTERP") == "1"
	if !gen.Generated && !interp {
		r.Rule = "generated bindings missing"
		r.OracleFail(hx.Case{Sig: "harness built without generated bindings", Op: "-", Impl: "-"})
		return r
	}
	env := Corpus()
	x := &runner{cfg: cfg, r: r, env: env, b: &Bridge{Env: env, Interp: interp}, rng: hx.Rng(cfg.Seed, cfg.Prop)}
	x.confirmTables()
	switch cfg.Prop {
	case "C01":
		x.runC01()
	case "C03":
		x.runC03()
	case "C04":
		x.runC04()
	case "C06":
		x.runC06()
	case "C07":
		x.runC07()
	case "C09":
		x.runC09()
	case "C11":
		x.runC11()
	case "C13":
		x.runC13()
	case "C10G":
		x.runC10Gen()
	}
	return r
}

// failingEncode performs an encode that fails part-way through an object (a record holding a
// union with no member set), the way a caller's invalid value would; what it leaves behind in the
// library must not leak into later encodes.
func (x *runner) failingEncode(f Fmt) {
	v := x.env.GenValue(x.rng, R("WithUnion"), 2, GenOpts{OptPct: 80})
	for i := range v.KVs {
		if v.KVs[i].K == "us" {
			v.KVs[i].V = VArr(VUnion(KV{"int", VI32(7)}), VUnion())
		}
	}
	out, _ := x.b.Encode(f, R("WithUnion"), v, nil)
	x.r.Count("interleaved-failing-encode:" + strings.SplitN(out, " ", 2)[0])
}

func (x *runner) runC01() {
	x.r.Rule = "corpus schemas (every type constructor × required/optional/defaulted × includes × unions × recursion) × schema-directed values biased to metacharacters, extremes and float specials × 5 wire formats; each value is encoded and decoded by the bindings the real generator produced; non-trivial = encodes successfully; distinct by op line"
	n := 6
	if x.cfg.Tier == "thorough" {
		n = 80
	}
	for _, t := range x.topTypes() {
		for i := 0; i < n; i++ {
			v := x.env.GenValue(x.rng, t, 3, GenOpts{OptPct: 60, LongArrays: true})
			for _, f := range AllFmts {
				if x.rng.Intn(4) == 0 {
					x.failingEncode(f)
				}
				x.roundTrip(f, t, v)
			}
		}
	}
}
