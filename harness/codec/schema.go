// Package codec: schema corpus, value generation, reflection bridge to the bindings the real
// generator produced, and the runners for the codec properties (C01, C03, C04, C06, C07, C09,
// C11, C13).
package codec

import (
	"encoding/json"
	"fmt"
	"sort"
	"strings"

	"verif/harness/hx"
)

type Prim string

type Ty struct {
	Prim Prim   // "i32" "i64" "f32" "f64" "bool" "str" "bytes"
	Ref  string // named type
	Arr  *Ty
	Map  *Ty
}

func P(p Prim) Ty         { return Ty{Prim: p} }
func R(n string) Ty       { return Ty{Ref: n} }
func A(t Ty) Ty           { return Ty{Arr: &t} }
func M(t Ty) Ty           { return Ty{Map: &t} }
func (t Ty) IsZero() bool { return t.Prim == "" && t.Ref == "" && t.Arr == nil && t.Map == nil }

func (t Ty) Sexp() string {
	switch {
	case t.Prim != "":
		return string(t.Prim)
	case t.Ref != "":
		return "(ref " + t.Ref + ")"
	case t.Arr != nil:
		return "(arr " + t.Arr.Sexp() + ")"
	default:
		return "(map " + t.Map.Sexp() + ")"
	}
}

type Field struct {
	Name     string
	Ty       Ty
	Optional bool
	Default  *V     // typed default value (model side)
	DefJSON  string // the same default as the JSON literal the manifest carries
}

type Member struct {
	Alias string
	Ty    Ty
}

type Decl struct {
	Name     string
	Kind     string // enum fixed typeref record union
	Symbols  []string
	Size     int
	Prim     Prim
	Includes []string
	Fields   []Field
	HasNull  bool
	Members  []Member
}

type Env struct {
	Namespace string
	Decls     []*Decl
	byName    map[string]*Decl
	// raw manifest JSON appended to inputDataTypes / emitted as resources (the C02 resource corpus,
	// c02corpus.go); not part of Decls, so the codec runners do not see these types
	ExtraDataTypes []any
	Resources      []any
}

func (e *Env) Find(n string) *Decl {
	if e.byName == nil {
		e.byName = map[string]*Decl{}
		for _, d := range e.Decls {
			e.byName[d.Name] = d
		}
	}
	return e.byName[n]
}

// AllFields mirrors the visiting order of the generated code: includes first, then own fields.
func (e *Env) AllFields(n string) []Field {
	d := e.Find(n)
	if d == nil || d.Kind != "record" {
		return nil
	}
	var out []Field
	for _, i := range d.Includes {
		out = append(out, e.AllFields(i)...)
	}
	return append(out, d.Fields...)
}

func hexs(s string) string { return hx.Hex([]byte(s)) }

func (d *Decl) Sexp(e *Env) string {
	switch d.Kind {
	case "enum":
		parts := []string{"enum"}
		for _, s := range d.Symbols {
			parts = append(parts, hexs(s))
		}
		return "(" + strings.Join(parts, " ") + ")"
	case "fixed":
		return fmt.Sprintf("(fixed %d)", d.Size)
	case "typeref":
		return "(typeref " + string(d.Prim) + ")"
	case "record":
		var fs []string
		for _, f := range d.Fields {
			df := "-"
			if f.Default != nil {
				// the schema's literal as it stands; the model reads it as a document of the field's
				// type (Model/Norm.lean, expandDefaults), like the generated code does
				df = f.Default.Sexp()
			}
			opt := "0"
			if f.Optional {
				opt = "1"
			}
			fs = append(fs, fmt.Sprintf("(field %s %s %s %s)", hexs(f.Name), f.Ty.Sexp(), opt, df))
		}
		return "(record (" + strings.Join(d.Includes, " ") + ") " + strings.Join(fs, " ") + ")"
	case "union":
		hn := "0"
		if d.HasNull {
			hn = "1"
		}
		var ms []string
		for _, m := range d.Members {
			ms = append(ms, fmt.Sprintf("(%s %s)", hexs(m.Alias), m.Ty.Sexp()))
		}
		return "(union " + hn + " " + strings.Join(ms, " ") + ")"
	}
	panic("bad decl kind " + d.Kind)
}

// Closure returns the declarations reachable from the given type names, as an env s-expression
// (small envs keep the op lines short).
func (e *Env) Closure(roots ...string) string {
	seen := map[string]bool{}
	var visitTy func(t Ty)
	var visit func(n string)
	visitTy = func(t Ty) {
		switch {
		case t.Ref != "":
			visit(t.Ref)
		case t.Arr != nil:
			visitTy(*t.Arr)
		case t.Map != nil:
			visitTy(*t.Map)
		}
	}
	visit = func(n string) {
		if seen[n] {
			return
		}
		seen[n] = true
		d := e.Find(n)
		if d == nil {
			panic("unknown type " + n)
		}
		for _, i := range d.Includes {
			visit(i)
		}
		for _, f := range d.Fields {
			visitTy(f.Ty)
		}
		for _, m := range d.Members {
			visitTy(m.Ty)
		}
	}
	for _, r := range roots {
		visit(r)
	}
	names := make([]string, 0, len(seen))
	for n := range seen {
		names = append(names, n)
	}
	sort.Strings(names)
	parts := []string{"env"}
	for _, n := range names {
		parts = append(parts, "("+n+" "+e.Find(n).Sexp(e)+")")
	}
	return "(" + strings.Join(parts, " ") + ")"
}

func tyRoots(t Ty) []string {
	switch {
	case t.Ref != "":
		return []string{t.Ref}
	case t.Arr != nil:
		return tyRoots(*t.Arr)
	case t.Map != nil:
		return tyRoots(*t.Map)
	}
	return nil
}

// ---- manifest emission (the real generator's input format)

func primName(p Prim) string {
	return map[Prim]string{"i32": "int32", "i64": "int64", "f32": "float32", "f64": "float64", "bool": "bool", "str": "string", "bytes": "bytes"}[p]
}

func (e *Env) tyJSON(t Ty) map[string]any {
	switch {
	case t.Prim != "":
		return map[string]any{"primitive": primName(t.Prim)}
	case t.Ref != "":
		return map[string]any{"reference": map[string]any{"name": t.Ref, "namespace": e.Namespace}}
	case t.Arr != nil:
		return map[string]any{"array": e.tyJSON(*t.Arr)}
	default:
		return map[string]any{"map": e.tyJSON(*t.Map)}
	}
}

func (e *Env) Manifest(packageRoot string) []byte {
	var dts []any
	for _, d := range e.Decls {
		base := map[string]any{"name": d.Name, "namespace": e.Namespace, "sourceFile": "verif-corpus", "doc": ""}
		switch d.Kind {
		case "enum":
			base["Symbols"] = d.Symbols
			base["SymbolToDoc"] = map[string]string{}
			dts = append(dts, map[string]any{"enum": base})
		case "fixed":
			base["Size"] = d.Size
			dts = append(dts, map[string]any{"fixed": base})
		case "typeref":
			base["type"] = primName(d.Prim)
			base["isCustom"] = false
			dts = append(dts, map[string]any{"typeref": base})
		case "record":
			incs := []any{}
			for _, i := range d.Includes {
				incs = append(incs, map[string]any{"name": i, "namespace": e.Namespace})
			}
			base["includes"] = incs
			fs := []any{}
			for _, f := range d.Fields {
				fj := map[string]any{"name": f.Name, "doc": "", "type": e.tyJSON(f.Ty), "isOptional": f.Optional}
				if f.Default != nil {
					fj["defaultValue"] = f.DefJSON
				}
				fs = append(fs, fj)
			}
			base["fields"] = fs
			dts = append(dts, map[string]any{"record": base})
		case "union":
			ms := []any{}
			for _, m := range d.Members {
				ms = append(ms, map[string]any{"Type": e.tyJSON(m.Ty), "Alias": m.Alias})
			}
			base["Union"] = map[string]any{"HasNull": d.HasNull, "Members": ms}
			dts = append(dts, map[string]any{"standaloneUnion": base})
		}
	}
	dts = append(dts, e.ExtraDataTypes...)
	resources := []any{}
	resources = append(resources, e.Resources...)
	m := map[string]any{"packageRoot": packageRoot, "inputDataTypes": dts, "dependencyDataTypes": []any{}, "resources": resources}
	b, err := json.MarshalIndent(m, "", " ")
	if err != nil {
		panic(err)
	}
	return b
}
