package codec

import "verif/harness/tbl"

// confirmTables: see package tbl.
func (x *runner) confirmTables() {
	if len(x.cfg.Replay) > 0 {
		return
	}
	tbl.Confirm(x.cfg.Driver, x.cfg.Module, x.r)
}
