package codec

import (
	"fmt"
	"math"
	"sort"
	"strconv"
	"strings"

	"verif/harness/hx"
)

// V mirrors the Lean `Value`.
type V struct {
	K     string // i32 i64 f32 f64 bool str bytes enum fixed rec union arr map
	I     int64
	Bits  uint64
	B     []byte
	Bool  bool
	KVs   []KV
	Items []*V
}

type KV struct {
	K string
	V *V
}

func VI32(i int32) *V     { return &V{K: "i32", I: int64(i)} }
func VI64(i int64) *V     { return &V{K: "i64", I: i} }
func VF32(f float32) *V   { return &V{K: "f32", Bits: uint64(math.Float32bits(f))} }
func VF64(f float64) *V   { return &V{K: "f64", Bits: math.Float64bits(f)} }
func VBool(b bool) *V     { return &V{K: "bool", Bool: b} }
func VStr(s string) *V    { return &V{K: "str", B: []byte(s)} }
func VBytes(b []byte) *V  { return &V{K: "bytes", B: b} }
func VEnum(c int32) *V    { return &V{K: "enum", I: int64(c)} }
func VFixed(b []byte) *V  { return &V{K: "fixed", B: b} }
func VRec(kvs ...KV) *V   { return &V{K: "rec", KVs: kvs} }
func VUnion(kvs ...KV) *V { return &V{K: "union", KVs: kvs} }
func VArr(items ...*V) *V { return &V{K: "arr", Items: items} }
func VMap(kvs ...KV) *V   { return &V{K: "map", KVs: kvs} }

func (v *V) Get(k string) *V {
	for _, e := range v.KVs {
		if e.K == k {
			return e.V
		}
	}
	return nil
}

func isNaN32(b uint64) bool { return b&0x7f800000 == 0x7f800000 && b&0x007fffff != 0 }
func isNaN64(b uint64) bool {
	return b&0x7ff0000000000000 == 0x7ff0000000000000 && b&0x000fffffffffffff != 0
}

// Sexp renders the exact value (what is sent to the model).
func (v *V) Sexp() string { return v.sexp(false) }

// Canon renders the canonical form used for comparisons: record fields and map entries sorted
// by key, every NaN written as `nan`.
func (v *V) Canon() string { return v.sexp(true) }

func (v *V) sexp(canon bool) string {
	kvs := func(tag string) string {
		es := v.KVs
		if canon {
			es = append([]KV(nil), es...)
			sort.SliceStable(es, func(i, j int) bool { return es[i].K < es[j].K })
		}
		parts := []string{tag}
		for _, e := range es {
			parts = append(parts, "("+hx.Hex([]byte(e.K))+" "+e.V.sexp(canon)+")")
		}
		return "(" + strings.Join(parts, " ") + ")"
	}
	switch v.K {
	case "i32", "i64", "enum":
		return "(" + v.K + " " + strconv.FormatInt(v.I, 10) + ")"
	case "f32":
		if canon && isNaN32(v.Bits) {
			return "(f32 nan)"
		}
		return "(f32 " + strconv.FormatUint(v.Bits, 10) + ")"
	case "f64":
		if canon && isNaN64(v.Bits) {
			return "(f64 nan)"
		}
		return "(f64 " + strconv.FormatUint(v.Bits, 10) + ")"
	case "bool":
		if v.Bool {
			return "(bool 1)"
		}
		return "(bool 0)"
	case "str", "bytes", "fixed":
		return "(" + v.K + " " + hx.Hex(v.B) + ")"
	case "rec", "union", "map":
		return kvs(v.K)
	case "arr":
		parts := []string{"arr"}
		for _, i := range v.Items {
			parts = append(parts, i.sexp(canon))
		}
		return "(" + strings.Join(parts, " ") + ")"
	}
	if v.K == "nilref" {
		// a nil pointer where the bindings hold a value by reference: rendered, never equal to a value
		return "(nilref)"
	}
	panic("bad value kind " + v.K)
}

func ParseV(s *hx.Sexp) (*V, error) {
	if !s.IsList || len(s.List) == 0 {
		return nil, fmt.Errorf("bad value %s", s)
	}
	k := s.List[0].Atom
	v := &V{K: k}
	arg := func() string {
		if len(s.List) > 1 {
			return s.List[1].Atom
		}
		return ""
	}
	switch k {
	case "i32", "i64", "enum":
		i, err := strconv.ParseInt(arg(), 10, 64)
		v.I = i
		return v, err
	case "f32", "f64":
		if arg() == "nan" {
			v.Bits = 0x7ff8000000000001
			if k == "f32" {
				v.Bits = 0x7fc00000
			}
			return v, nil
		}
		u, err := strconv.ParseUint(arg(), 10, 64)
		v.Bits = u
		return v, err
	case "bool":
		v.Bool = arg() == "1"
		return v, nil
	case "str", "bytes", "fixed":
		v.B = hx.UnHex(arg())
		return v, nil
	case "rec", "union", "map":
		for _, e := range s.List[1:] {
			if !e.IsList || len(e.List) != 2 {
				return nil, fmt.Errorf("bad entry %s", e)
			}
			ev, err := ParseV(e.List[1])
			if err != nil {
				return nil, err
			}
			v.KVs = append(v.KVs, KV{string(hx.UnHex(e.List[0].Atom)), ev})
		}
		return v, nil
	case "arr":
		for _, e := range s.List[1:] {
			ev, err := ParseV(e)
			if err != nil {
				return nil, err
			}
			v.Items = append(v.Items, ev)
		}
		return v, nil
	}
	return nil, fmt.Errorf("bad value kind %q", k)
}
