//go:build !gencode

// Package gen holds the bindings the real generator produces from the corpus manifest. This
// stub is what the committed harness module compiles against; bin/check replaces it (build tag
// `gencode`) with generated code in a scratch copy of the module before building.
package gen

// New returns a pointer to a fresh zero value of the generated Go type for a corpus type name.
var New = map[string]func() any{}

// NewPU returns a pointer to a fresh `<T>_PartialUpdate` for the corpus records.
var NewPU = map[string]func() any{}

// BatchEnc marshals {key: entity} the way a batch update body does (common.MarshalBatchEntities)
// onto the given writer; vals are pointers to the generated record type.
var BatchEnc = map[string]func(keys []int64, vals []any, w any) error{}

// NewComplexKey returns a pointer to a fresh generated complex key type (key record + params).
var NewComplexKey = map[string]func() any{}

// Defaults returns `New<T>WithDefaultValues()` for the records that have one.
var Defaults = map[string]func() any{}

const Generated = false
