module verif/harness

go 1.21

require github.com/PapaCharlie/go-restli/v2 v2.0.0

require (
	github.com/dave/jennifer v1.7.0 // indirect
	github.com/go-zookeeper/zk v1.0.3 // indirect
	github.com/josharian/intern v1.0.0 // indirect
	github.com/mailru/easyjson v0.7.7 // indirect
	github.com/pkg/errors v0.9.1 // indirect
	github.com/spf13/cobra v1.6.0 // indirect
	github.com/spf13/pflag v1.0.5 // indirect
)

replace github.com/PapaCharlie/go-restli/v2 => /repo/v2
