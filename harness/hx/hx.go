// Package hx is the shared harness runtime: the Lean driver client, the seeded PRNG, the
// result record every property harness fills in, and small helpers.
package hx

import (
	"bufio"
	"encoding/hex"
	"encoding/json"
	"fmt"
	"io"
	"math/rand"
	"os"
	"os/exec"
	"sort"
	"strings"
	"time"
)

// Case is one failing or disagreeing case, self-contained enough to be replayed.
type Case struct {
	Kind     string `json:"kind"`               // "oracle" (D) or "correspondence" (K)
	Sig      string `json:"sig"`                // specific signature, matched against known-findings
	Op       string `json:"op"`                 // the op line / input
	Impl     string `json:"impl"`               // what the implementation did
	Model    string `json:"model,omitempty"`    // what the Lean model answered
	Expected string `json:"expected,omitempty"` // what the property demands
	Note     string `json:"note,omitempty"`
}

type Result struct {
	Property       string         `json:"property"`
	Module         string         `json:"module"`
	Seed           int64          `json:"seed"`
	Tier           string         `json:"tier"`
	Ops            int            `json:"ops"`          // correspondence ops sent to the model
	OracleCases    int            `json:"oracle_cases"` // direct-oracle evaluations
	Distinct       int            `json:"distinct"`     // distinct non-trivial cases
	Rule           string         `json:"rule"`
	Exhaustive     bool           `json:"exhaustive"`
	Disagreements  []Case         `json:"disagreements"`
	OracleFailures []Case         `json:"oracle_failures"`
	Samples        []string       `json:"samples"`
	Dist           map[string]int `json:"distribution"`
	Unmodelled     map[string]int `json:"unmodelled"`
	// table groups (module-dir/group) whose whole content the harness confirmed against the
	// running code through the model (see codec/tables.go)
	TablesConfirmed []string `json:"tables_confirmed,omitempty"`
	WallS           float64  `json:"wall_s"`
	distinctSet     map[string]struct{}
	start           time.Time
	maxCases        int
}

func NewResult(prop, module string, seed int64, tier string) *Result {
	return &Result{Property: prop, Module: module, Seed: seed, Tier: tier, Dist: map[string]int{},
		Unmodelled: map[string]int{}, Disagreements: []Case{}, OracleFailures: []Case{}, Samples: []string{}, distinctSet: map[string]struct{}{}, start: time.Now(), maxCases: 40}
}

func (r *Result) Count(key string) { r.Dist[key]++ }

// Distinctive records a non-trivial case under its canonical text.
func (r *Result) Distinctive(canon string) {
	if _, ok := r.distinctSet[canon]; !ok {
		r.distinctSet[canon] = struct{}{}
		if len(r.Samples) < 12 && (len(r.distinctSet)%97 == 1 || len(r.Samples) < 4) {
			if len(canon) > 400 {
				canon = canon[:400] + "…"
			}
			r.Samples = append(r.Samples, canon)
		}
	}
}

func (r *Result) Disagree(c Case) {
	c.Kind = "correspondence"
	if len(r.Disagreements) < r.maxCases {
		r.Disagreements = append(r.Disagreements, c)
	}
	r.Count("K-disagreements")
}

func (r *Result) OracleFail(c Case) {
	c.Kind = "oracle"
	// keep one representative per signature plus a few extras
	n := 0
	for _, o := range r.OracleFailures {
		if o.Sig == c.Sig {
			n++
		}
	}
	if n < 3 && len(r.OracleFailures) < 200 {
		r.OracleFailures = append(r.OracleFailures, c)
	}
	r.Count("D-failures")
}

func (r *Result) Finish(w io.Writer) {
	r.Distinct = len(r.distinctSet)
	r.WallS = time.Since(r.start).Seconds()
	enc := json.NewEncoder(w)
	enc.SetIndent("", " ")
	_ = enc.Encode(r)
}

// Driver is a running Lean model driver.
type Driver struct {
	cmd *exec.Cmd
	in  *bufio.Writer
	out *bufio.Reader
}

func StartDriver(path string) (*Driver, error) {
	cmd := exec.Command(path)
	stdin, err := cmd.StdinPipe()
	if err != nil {
		return nil, err
	}
	stdout, err := cmd.StdoutPipe()
	if err != nil {
		return nil, err
	}
	cmd.Stderr = os.Stderr
	if err := cmd.Start(); err != nil {
		return nil, err
	}
	d := &Driver{cmd: cmd, in: bufio.NewWriterSize(stdin, 1<<16), out: bufio.NewReaderSize(stdout, 1<<16)}
	if a, err := d.Ask("ping"); err != nil || a != "pong" {
		return nil, fmt.Errorf("driver did not answer ping: %q %v", a, err)
	}
	return d, nil
}

// Ask sends one op line and returns the model's answer line.
func (d *Driver) Ask(line string) (string, error) {
	if strings.ContainsAny(line, "\n\r") {
		return "", fmt.Errorf("op line contains newline")
	}
	if _, err := d.in.WriteString(line + "\n"); err != nil {
		return "", err
	}
	if err := d.in.Flush(); err != nil {
		return "", err
	}
	s, err := d.out.ReadString('\n')
	if err != nil {
		return "", fmt.Errorf("driver died on %q: %v", line, err)
	}
	return strings.TrimRight(s, "\n"), nil
}

// MustAsk aborts the harness when the driver is gone: that is a machinery failure.
func (d *Driver) MustAsk(line string) string {
	a, err := d.Ask(line)
	if err != nil {
		fmt.Fprintln(os.Stderr, "harness:", err)
		os.Exit(3)
	}
	return a
}

func (d *Driver) Close() {
	d.in.Flush()
	if c, ok := d.cmd.Stdin.(io.Closer); ok {
		c.Close()
	}
	d.cmd.Process.Kill()
	d.cmd.Wait()
}

// Hex encodes a byte string as one token ("-" for empty), as the driver expects.
func Hex(b []byte) string {
	if len(b) == 0 {
		return "-"
	}
	return hex.EncodeToString(b)
}

func UnHex(s string) []byte {
	if s == "-" {
		return nil
	}
	b, err := hex.DecodeString(s)
	if err != nil {
		panic(err)
	}
	return b
}

func Rng(seed int64, stream string) *rand.Rand {
	var h int64 = 1469598103934665603
	for _, c := range []byte(stream) {
		h = (h ^ int64(c)) * 1099511628211
	}
	return rand.New(rand.NewSource(seed ^ h))
}

func SortedKeys[V any](m map[string]V) []string {
	ks := make([]string, 0, len(m))
	for k := range m {
		ks = append(ks, k)
	}
	sort.Strings(ks)
	return ks
}

// Recover runs f and reports a panic as a value.
func Recover(f func()) (panicked bool, val any) {
	defer func() {
		if r := recover(); r != nil {
			panicked, val = true, r
		}
	}()
	f()
	return false, nil
}
