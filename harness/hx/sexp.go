package hx

import (
	"fmt"
	"strings"
)

// Sexp mirrors the Lean driver's s-expression type: an atom or a list.
type Sexp struct {
	Atom string
	List []*Sexp
	IsList bool
}

func (s *Sexp) String() string {
	if !s.IsList {
		return s.Atom
	}
	parts := make([]string, len(s.List))
	for i, x := range s.List {
		parts[i] = x.String()
	}
	return "(" + strings.Join(parts, " ") + ")"
}

// ParseLine parses a whole op line into its top-level s-expressions.
func ParseLine(line string) ([]*Sexp, error) {
	pos := 0
	var parseList func(top bool) ([]*Sexp, error)
	parseList = func(top bool) ([]*Sexp, error) {
		var out []*Sexp
		for {
			for pos < len(line) && line[pos] == ' ' {
				pos++
			}
			if pos >= len(line) {
				if top {
					return out, nil
				}
				return nil, fmt.Errorf("unbalanced (")
			}
			switch line[pos] {
			case ')':
				if top {
					return nil, fmt.Errorf("unbalanced )")
				}
				pos++
				return out, nil
			case '(':
				pos++
				xs, err := parseList(false)
				if err != nil {
					return nil, err
				}
				out = append(out, &Sexp{List: xs, IsList: true})
			default:
				st := pos
				for pos < len(line) && !strings.ContainsRune(" ()", rune(line[pos])) {
					pos++
				}
				out = append(out, &Sexp{Atom: line[st:pos]})
			}
		}
	}
	return parseList(true)
}
