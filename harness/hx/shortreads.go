package hx

import "io"

// ShortReads delivers data the way a connection does: in pieces, each Read returning what has
// arrived rather than what was asked for. The piece size depends on the content only (1 byte, a
// few bytes, half, everything), so a run is reproducible; code that assumes one Read fills its
// buffer meets such a body on every run.
type shortBody struct {
	data []byte
	step int
}

func (c *shortBody) Read(p []byte) (int, error) {
	if len(c.data) == 0 {
		return 0, io.EOF
	}
	n := c.step
	if n > len(p) {
		n = len(p)
	}
	if n > len(c.data) {
		n = len(c.data)
	}
	copy(p, c.data[:n])
	c.data = c.data[n:]
	return n, nil
}

func (c *shortBody) Close() error { return nil }

func ShortReads(data []byte) io.ReadCloser {
	steps := []int{1, 3, 64, len(data)/2 + 1, len(data) + 1}
	h := len(data) * 7
	for _, b := range data {
		h = h*31 + int(b)
	}
	if h < 0 {
		h = -h
	}
	return &shortBody{data: append([]byte(nil), data...), step: steps[h%len(steps)]}
}
