// Command harness runs one property's correspondence (K) and direct-oracle (D) checks against
// the implementation in /repo (linked in through the module's replace directive) and the Lean
// model driver, and prints a JSON result.
package main

import (
	"flag"
	"fmt"
	"os"

	"verif/harness/hx"
)

// a runner executes one property's K and D checks; when replay is non-empty it runs exactly those
// op lines (a minimised failing case kept under replays/) instead of generating inputs.
type runner func(module string, seed int64, tier string, d *hx.Driver, replay []string) *hx.Result

var runners = map[string]runner{}

func main() {
	prop := flag.String("prop", "", "property id (C01…)")
	seed := flag.Int64("seed", 1, "PRNG seed")
	tier := flag.String("tier", "quick", "quick|thorough")
	driver := flag.String("driver", "", "path to the Lean driver executable")
	out := flag.String("out", "", "result json path (default stdout)")
	replayOp := flag.String("replay-op", "", "run exactly this op line instead of generating inputs")
	flag.Parse()
	run, ok := runners[*prop]
	if !ok {
		fmt.Fprintln(os.Stderr, "harness: unknown property", *prop)
		os.Exit(2)
	}
	var d *hx.Driver
	if *driver != "" {
		var err error
		d, err = hx.StartDriver(*driver)
		if err != nil {
			fmt.Fprintln(os.Stderr, "harness:", err)
			os.Exit(3)
		}
		defer d.Close()
	}
	var replay []string
	if *replayOp != "" {
		replay = []string{*replayOp}
	}
	res := run(moduleName, *seed, *tier, d, replay)
	w := os.Stdout
	if *out != "" {
		f, err := os.Create(*out)
		if err != nil {
			fmt.Fprintln(os.Stderr, "harness:", err)
			os.Exit(3)
		}
		defer f.Close()
		w = f
	}
	res.Finish(w)
}
