package main

// moduleName tells the Lean driver which module generation's constants to use. The root-module
// build of this harness is produced by rewriting the import paths and this constant.
const moduleName = "v2"
