package main

import (
	"verif/harness/c02"
	"verif/harness/hx"
)

func init() {
	runners["C02"] = func(module string, seed int64, tier string, d *hx.Driver, replay []string) *hx.Result {
		return c02.Run(c02.Config{Module: module, Seed: seed, Tier: tier, Driver: d, Replay: replay})
	}
}
