package main

import (
	"verif/harness/c02"
	"verif/harness/hx"
)

func init() {
	runners["C02"] = func(module string, seed int64, tier string, d *hx.Driver, replay []string) *hx.Result {
		return c02.Run(c02.Config{Module: module, Seed: seed, Tier: tier, Driver: d, Replay: replay})
	}
	// property C07 through the generated bindings of the resources that declare read-only /
	// create-only fields (c02/excl.go); an extra run of bin/checks.d/C07.json
	runners["C07G"] = func(module string, seed int64, tier string, d *hx.Driver, replay []string) *hx.Result {
		return c02.RunExcluded(c02.Config{Module: module, Seed: seed, Tier: tier, Driver: d, Replay: replay})
	}
}
