package main

import (
	"verif/harness/c05"
	"verif/harness/hx"
)

func init() {
	runners["C05"] = func(module string, seed int64, tier string, d *hx.Driver, replay []string) *hx.Result {
		return c05.Run(c05.Config{Module: module, Seed: seed, Tier: tier, Driver: d, Replay: replay})
	}
}
