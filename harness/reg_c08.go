package main

import (
	"verif/harness/c08"
	"verif/harness/hx"
)

func init() {
	runners["C08"] = func(module string, seed int64, tier string, d *hx.Driver, replay []string) *hx.Result {
		return c08.Run(c08.Config{Module: module, Seed: seed, Tier: tier, Driver: d, Replay: replay})
	}
}
