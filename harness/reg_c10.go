package main

import (
	"verif/harness/c10"
	"verif/harness/hx"
)

func init() {
	runners["C10"] = func(module string, seed int64, tier string, d *hx.Driver, replay []string) *hx.Result {
		return c10.Run(c10.Config{Module: module, Seed: seed, Tier: tier, Driver: d, Replay: replay})
	}
}
