package main

import (
	"verif/harness/c12"
	"verif/harness/hx"
)

func init() {
	runners["C12"] = func(module string, seed int64, tier string, d *hx.Driver, replay []string) *hx.Result {
		return c12.Run(c12.Config{Module: module, Seed: seed, Tier: tier, Driver: d, Replay: replay})
	}
}
