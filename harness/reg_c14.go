package main

import (
	"verif/harness/c14"
	"verif/harness/hx"
)

func init() {
	runners["C14"] = func(module string, seed int64, tier string, d *hx.Driver, replay []string) *hx.Result {
		return c14.Run(c14.Config{Module: module, Seed: seed, Tier: tier, Driver: d, Replay: replay})
	}
}
