package main

import (
	"verif/harness/c15"
	"verif/harness/hx"
)

func init() {
	runners["C15"] = func(module string, seed int64, tier string, d *hx.Driver, replay []string) *hx.Result {
		return c15.Run(c15.Config{Module: module, Seed: seed, Tier: tier, Driver: d, Replay: replay})
	}
}
