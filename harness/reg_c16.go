package main

import (
	"verif/harness/c16"
	"verif/harness/hx"
)

func init() {
	runners["C16"] = func(module string, seed int64, tier string, d *hx.Driver, replay []string) *hx.Result {
		return c16.Run(c16.Config{Module: module, Seed: seed, Tier: tier, Driver: d, Replay: replay})
	}
}

func init() {
	runners["C03W"] = func(module string, seed int64, tier string, d *hx.Driver, replay []string) *hx.Result {
		return c16.RunRequestShapes(c16.Config{Module: module, Seed: seed, Tier: tier, Driver: d, Replay: replay})
	}
}

func init() {
	runners["C09K"] = func(module string, seed int64, tier string, d *hx.Driver, replay []string) *hx.Result {
		return c16.RunIdsOrder(c16.Config{Module: module, Seed: seed, Tier: tier, Driver: d, Replay: replay})
	}
}
