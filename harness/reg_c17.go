package main

import (
	"verif/harness/c17"
	"verif/harness/hx"
)

func init() {
	runners["C17"] = func(module string, seed int64, tier string, d *hx.Driver, replay []string) *hx.Result {
		return c17.Run(c17.Config{Module: module, Seed: seed, Tier: tier, Driver: d, Replay: replay})
	}
}
