package main

import (
	"verif/harness/c18"
	"verif/harness/hx"
)

func init() {
	runners["C18"] = func(module string, seed int64, tier string, d *hx.Driver, replay []string) *hx.Result {
		return c18.Run(c18.Config{Module: module, Seed: seed, Tier: tier, Driver: d, Replay: replay})
	}
}
