package main

import (
	"verif/harness/c19"
	"verif/harness/hx"
)

func init() {
	runners["C19"] = func(module string, seed int64, tier string, d *hx.Driver, replay []string) *hx.Result {
		return c19.Run(c19.Config{Module: module, Seed: seed, Tier: tier, Driver: d, Replay: replay})
	}
}
