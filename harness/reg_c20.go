package main

import (
	"verif/harness/c20"
	"verif/harness/hx"
)

func init() {
	runners["C20"] = func(module string, seed int64, tier string, d *hx.Driver, replay []string) *hx.Result {
		return c20.Run(c20.Config{Module: module, Seed: seed, Tier: tier, Driver: d, Replay: replay})
	}
}
