package main

import (
	"verif/harness/codec"
	"verif/harness/hx"
)

func init() {
	for _, p := range []string{"C01", "C03", "C04", "C06", "C07", "C09", "C11", "C13", "C10G"} {
		p := p
		runners[p] = func(module string, seed int64, tier string, d *hx.Driver, replay []string) *hx.Result {
			return codec.Run(codec.Config{Prop: p, Module: module, Seed: seed, Tier: tier, Driver: d, Replay: replay})
		}
	}
}
