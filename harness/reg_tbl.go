package main

import (
	"verif/harness/hx"
	"verif/harness/tbl"
)

// TBL: nothing but the entry-by-entry confirmation of the "codec" table group against this
// module's running writers (bin/check runs it for the module copy a property does not otherwise
// exercise, when that copy's tables could not be re-extracted from the source text).
func init() {
	runners["TBL"] = func(module string, seed int64, tier string, d *hx.Driver, replay []string) *hx.Result {
		r := hx.NewResult("TBL", module, seed, tier)
		r.Rule = "all 256 bytes between two 'A's, the empty string and the empty array, through the path, query and header writers"
		r.Exhaustive = true
		tbl.Confirm(d, module, r)
		return r
	}
}
