// Package tbl confirms the extracted tables of the "codec" group against the running code.
package tbl

import (
	"strings"

	"github.com/PapaCharlie/go-restli/v2/restlicodec"

	"verif/harness/hx"
)

// behaviouralTables derives, by running the real writers on every byte (between two 'A's), the empty string
// and the empty array, what the extracted tables of the "codec" group say (which bytes each ROR2
// flavour leaves alone and what it writes for the others, the empty-string marker, the list
// prefix): the whole of each table, not a sample.
func behaviouralTables() string {
	var sb strings.Builder
	for _, f := range []string{"path", "query", "header"} {
		sb.WriteString(f)
		sb.WriteByte('=')
		for b := 0; b < 256; b++ {
			var out string
			panicked, _ := hx.Recover(func() {
				w := writerFor(f, nil)
				w.WriteString(string([]byte{'A', byte(b), 'A'}))
				out = w.Finalize()
			})
			if panicked {
				out = "\x00panic"
			}
			if b > 0 {
				sb.WriteByte(',')
			}
			sb.WriteString(hx.Hex([]byte(out)))
		}
		sb.WriteByte(';')
		var empty, list string
		hx.Recover(func() {
			w := writerFor(f, nil)
			w.WriteString("")
			empty = w.Finalize()
		})
		hx.Recover(func() {
			w := writerFor(f, nil)
			_ = w.WriteArray(func(func() restlicodec.Writer) error { return nil })
			list = w.Finalize()
		})
		sb.WriteString(f + "-empty=" + hx.Hex([]byte(empty)) + ";")
		sb.WriteString(f + "-list=" + hx.Hex([]byte(list)) + ";")
	}
	return sb.String()
}

func writerFor(f string, _ any) restlicodec.Writer {
	switch f {
	case "header":
		return restlicodec.NewRor2HeaderWriterWithExcludedFields(nil)
	case "path":
		return restlicodec.NewRor2PathWriter()
	}
	return restlicodec.NewRestLiQueryParamsWriter()
}

// Confirm asks the model for the same rendering from ITS tables. Agreement confirms the whole
// "codec" table group against the running code (used by bin/check when the group could not be
// re-extracted from the source text); disagreement is a correspondence failure like any other.
func Confirm(d *hx.Driver, module string, r *hx.Result) {
	if d == nil {
		return
	}
	impl := behaviouralTables()
	op := "tables " + module
	r.Ops++
	m := d.MustAsk(op)
	if m == impl {
		dir := "v2"
		if module == "root" {
			dir = "."
		}
		r.TablesConfirmed = append(r.TablesConfirmed, dir+"/codec")
		return
	}
	r.Disagree(hx.Case{Sig: "tables:codec", Op: op, Impl: impl, Model: m})
}
