import Restli.Driver.Sexp
import Restli.Driver.CleanDir
/-! Line-protocol driver: one op per input line, one canonical answer per output line.
Unknown or unparsable ops are answered `bad-op` — the model never guesses. -/
open Restli

def dispatch (line : String) : String :=
  match Sexp.parseLine line with
  | some (.atom op :: args) =>
    match op with
    | "ping" => "pong"
    | "clean" => CleanDir.opClean args
    | _ => "bad-op"
  | _ => "bad-op"

partial def loop (hin hout : IO.FS.Stream) : IO Unit := do
  let line ← hin.getLine
  if line.isEmpty then return ()
  let l := (line.dropRightWhile (fun c => c == '\n' || c == '\r'))
  hout.putStrLn (dispatch l)
  hout.flush
  loop hin hout

def main : IO Unit := do
  loop (← IO.getStdin) (← IO.getStdout)
