-- root of the library: every model, spec, proof and property module
import Restli.Lib.Basic
import Restli.Driver.Sexp
import Restli.Props.C20
