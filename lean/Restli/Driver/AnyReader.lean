import Restli.Driver.Codec
import Restli.Model.AnyReader
/-! Driver glue for the untyped-value reader model. -/
namespace Restli.Codec
open Restli

partial def anyOfSexp : Sexp → Option AnyVal
  | .atom "nil" => some .nil
  | .atom "x" => some .other
  | .list [.atom "b", .atom b] => some (.bool (b == "1"))
  | .list [.atom "i", .atom n] => n.toInt?.map AnyVal.int
  | .list [.atom "f", .atom n] => n.toNat?.map AnyVal.float
  | .list [.atom "s", .atom h] => (ofHex h).map AnyVal.str
  | .list (.atom "a" :: vs) => (vs.mapM anyOfSexp).map AnyVal.arr
  | .list (.atom "o" :: es) => (es.mapM entry).map AnyVal.obj
  | _ => none
where
  entry : Sexp → Option (Bytes × AnyVal)
    | .list [.atom k, v] => do
      let kb ← ofHex k
      let vv ← anyOfSexp v
      pure (kb, vv)
    | _ => none

/-- `adec <module> <env> <ty> <excl> <ignore> <any>`: the untyped reader on a Go value. The path in
an excluded-field error names whichever excluded entry Go's map iteration met first: only the class
is printed. -/
def opAdec (args : List Sexp) : String :=
  match args with
  | [.atom _mod, envS, tyS, exclS, .atom ign, vS] =>
    match envOfSexp envS, tyOfSexp tyS, exclOfSexp exclS, ign.toNat?, anyOfSexp vS with
    | some env, some ty, some excl, some ignore, some v =>
      (match unmarshalAny env { excl := excl, ignore := ignore } ty v with
      | .err (.excluded _) => "err excluded"
      | r => showTRes r)
    | _, _, _, _, _ => "bad-op"
  | _ => "bad-op"

-- driver-ops: Restli.Codec.anyReaderOps
def anyReaderOps : List (String × (List Sexp → String)) := [("adec", opAdec)]

end Restli.Codec
