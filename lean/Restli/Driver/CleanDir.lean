import Restli.Driver.Sexp
import Restli.Model.CleanDir
namespace Restli.CleanDir
open Restli

partial def nodeOfSexp : Sexp → Option Node
  | .list [.atom "f", .atom n, .atom c] => c.toNat?.map (Node.file n)
  | .list (.atom "d" :: .atom n :: cs) => do
    let cs' ← cs.mapM nodeOfSexp
    pure (Node.dir n cs')
  | _ => none

partial def sexpOfNode : Node → Sexp
  | .file n c => .list [.atom "f", .atom n, .atom (toString c)]
  | .dir n cs => .list (.atom "d" :: .atom n :: cs.map sexpOfNode)

/-- `clean <v2|root> <dot:0|1> <tree|->` -/
def opClean (args : List Sexp) : String :=
  match args with
  | [.atom gen, .atom dot, t] =>
    let O := if gen == "root" then ownRoot else ownV2
    let dotB := dot == "1"
    let tree : Option (Option Node) := match t with
      | .atom "-" => some none
      | s => (nodeOfSexp s).map some
    match tree with
    | none => "bad-op"
    | some tr =>
      let r := clean O dotB tr
      (if r.err then "err " else "ok ") ++
        (match r.node with | none => "-" | some n => (sexpOfNode n).render)
  | _ => "bad-op"

end Restli.CleanDir

namespace Restli.CleanDir
-- driver-ops: Restli.CleanDir.ops
def ops : List (String × (List Restli.Sexp → String)) := [("clean", opClean)]
end Restli.CleanDir
