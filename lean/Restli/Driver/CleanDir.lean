import Restli.Driver.Sexp
import Restli.Model.CleanDir
namespace Restli.CleanDir
open Restli

partial def nodeOfSexp : Sexp → Option Node
  | .list [.atom "f", .atom n, .atom c] => c.toNat?.map (fun k => Node.file n (.data k))
  | .list [.atom "l", .atom n, .atom dest] => some (Node.file n (.link dest))
  | .list (.atom "d" :: .atom n :: cs) => do
    let cs' ← cs.mapM nodeOfSexp
    pure (Node.dir n cs')
  | _ => none

partial def sexpOfNode : Node → Sexp
  | .file n (.data c) => .list [.atom "f", .atom n, .atom (toString c)]
  | .file n (.link dest) => .list [.atom "l", .atom n, .atom dest]
  | .dir n cs => .list (.atom "d" :: .atom n :: cs.map sexpOfNode)

def treeOfSexp : Sexp → Option (Option Node)
  | .atom "-" => some none
  | s => (nodeOfSexp s).map some

def renderTree : Option Node → String
  | none => "-"
  | some n => (sexpOfNode n).render

/-- `clean <v2|root> <dot:0|1> <tree|-> [<outside|->]`; trees are `(f name content)`,
`(l name destination)`, `(d name child…)`. Answer: `ok|err <tree|->`, followed by the sibling
directory as the model leaves it when one was given. -/
def opClean (args : List Sexp) : String :=
  match args with
  | [.atom gen, .atom dot, t] =>
    let O := if gen == "root" then ownRoot else ownV2
    match treeOfSexp t with
    | none => "bad-op"
    | some tr =>
      let r := clean O (dot == "1") tr
      (if r.err then "err " else "ok ") ++ renderTree r.node
  | [.atom gen, .atom dot, t, o] =>
    let O := if gen == "root" then ownRoot else ownV2
    match treeOfSexp t, treeOfSexp o with
    | some tr, some out =>
      let w := cleanWorld O (dot == "1") ⟨tr, out⟩
      (if w.res.err then "err " else "ok ") ++ renderTree w.res.node ++ " " ++ renderTree w.outside
    | _, _ => "bad-op"
  | _ => "bad-op"

end Restli.CleanDir

namespace Restli.CleanDir
-- driver-ops: Restli.CleanDir.ops
def ops : List (String × (List Restli.Sexp → String)) := [("clean", opClean)]
end Restli.CleanDir
