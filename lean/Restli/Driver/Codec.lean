import Restli.Driver.Sexp
import Restli.Model.Encode
import Restli.Model.RenderRor2
import Restli.Model.Ror2Reader
import Restli.Model.RenderJson
import Restli.Model.TreeReader
import Restli.Model.QueryParams
import Restli.Model.Norm
/-! Driver glue for the codec model: s-expression parsing of schemas, types, values and
exclusion specs; canonical printing of outcomes. -/
namespace Restli.Codec
open Restli

def primOfString : String → Option Prim
  | "i32" => some .i32 | "i64" => some .i64 | "f32" => some .f32 | "f64" => some .f64
  | "bool" => some .bool | "str" => some .str | "bytes" => some .bytes | _ => none

partial def tyOfSexp : Sexp → Option Ty
  | .atom a => (primOfString a).map Ty.prim
  | .list [.atom "ref", .atom n] => some (.ref n)
  | .list [.atom "arr", t] => (tyOfSexp t).map Ty.arr
  | .list [.atom "map", t] => (tyOfSexp t).map Ty.map
  | _ => none

partial def valueOfSexp : Sexp → Option Value
  | .list [.atom "i32", .atom n] => n.toInt?.map Value.i32
  | .list [.atom "i64", .atom n] => n.toInt?.map Value.i64
  | .list [.atom "enum", .atom n] => n.toInt?.map Value.enum
  | .list [.atom "f32", .atom n] => if n == "nan" then some (.f32 (Strconv.nanBits Strconv.f32)) else n.toNat?.map Value.f32
  | .list [.atom "f64", .atom n] => if n == "nan" then some (.f64 (Strconv.nanBits Strconv.f64)) else n.toNat?.map Value.f64
  | .list [.atom "bool", .atom b] => some (.bool (b == "1"))
  | .list [.atom "str", .atom h] => (ofHex h).map Value.str
  | .list [.atom "bytes", .atom h] => (ofHex h).map Value.bytes
  | .list [.atom "fixed", .atom h] => (ofHex h).map Value.fixed
  | .list (.atom "rec" :: es) => (es.mapM entryOfSexp).map Value.record
  | .list (.atom "union" :: es) => (es.mapM entryOfSexp).map Value.union
  | .list (.atom "map" :: es) => (es.mapM entryOfSexp).map Value.map
  | .list (.atom "arr" :: vs) => (vs.mapM valueOfSexp).map Value.arr
  | _ => none
where
  entryOfSexp : Sexp → Option (Bytes × Value)
    | .list [.atom k, v] => do
      let kb ← ofHex k
      let vv ← valueOfSexp v
      pure (kb, vv)
    | _ => none

def fieldOfSexp : Sexp → Option Field
  | .list [.atom "field", .atom n, t, .atom o, d] => do
    let nb ← ofHex n
    let ty ← tyOfSexp t
    let dv ← match d with
      | .atom "-" => some none
      | s => (valueOfSexp s).map some
    pure { name := nb, ty := ty, optional := o == "1", dflt := dv }
  | _ => none

def declOfSexp : Sexp → Option Decl
  | .list (.atom "enum" :: syms) => (syms.mapM (fun (s : Sexp) => match s with | .atom h => ofHex h | _ => none)).map Decl.enum
  | .list [.atom "fixed", .atom n] => n.toNat?.map Decl.fixed
  | .list [.atom "typeref", .atom p] => (primOfString p).map Decl.typeref
  | .list (.atom "record" :: .list incs :: fs) => do
    let is ← incs.mapM (fun (s : Sexp) => match s with | .atom n => some n | _ => none)
    let fl ← fs.mapM fieldOfSexp
    pure (.record is fl)
  | .list (.atom "union" :: .atom hn :: ms) => do
    let ml ← ms.mapM (fun (s : Sexp) => match s with
      | .list [.atom a, t] => do
        let ab ← ofHex a
        let ty ← tyOfSexp t
        pure (ab, ty)
      | _ => none)
    pure (.union (hn == "1") ml)
  | _ => none

/-- the schema as sent: defaults are the schema's literals -/
def rawEnvOfSexp : Sexp → Option Env
  | .list (.atom "env" :: ds) => ds.mapM (fun (s : Sexp) => match s with
    | .list [.atom n, d] => (declOfSexp d).map (fun dd => (n, dd))
    | _ => none)
  | _ => none

/-- the schema as the generated code holds it (`expandDefaults`: each default literal read as a
document of its field's type) -/
def envOfSexp (s : Sexp) : Option Env := (rawEnvOfSexp s).map expandDefaults

/-- `(excl HEX…)`: directives -/
def exclOfSexp : Sexp → Option PathSpec
  | .list (.atom "excl" :: ds) =>
    (ds.mapM (fun (s : Sexp) => match s with | .atom h => ofHex h | _ => none)).map newPathSpec
  | _ => none

def isNaNBits (f : Strconv.FloatFmt) (b : Nat) : Bool := Strconv.isNaN f b

/-- canonical rendering: record fields and map entries sorted by key, NaN as `nan` -/
partial def canonValue : Value → String
  | .i32 v => s!"(i32 {v})"
  | .i64 v => s!"(i64 {v})"
  | .enum v => s!"(enum {v})"
  | .f32 b => if isNaNBits Strconv.f32 b then "(f32 nan)" else s!"(f32 {b})"
  | .f64 b => if isNaNBits Strconv.f64 b then "(f64 nan)" else s!"(f64 {b})"
  | .bool b => if b then "(bool 1)" else "(bool 0)"
  | .str b => s!"(str {toHex b})"
  | .bytes b => s!"(bytes {toHex b})"
  | .fixed b => s!"(fixed {toHex b})"
  | .record fs => kvs "rec" fs
  | .union ms => kvs "union" ms
  | .map es => kvs "map" es
  | .arr vs => "(" ++ " ".intercalate ("arr" :: vs.map canonValue) ++ ")"
where
  kvs (tag : String) (es : List (Bytes × Value)) : String :=
    "(" ++ " ".intercalate (tag :: (sortByKey es).map (fun e => s!"({toHex e.1} {canonValue e.2})")) ++ ")"

/-- string sort (ascending byte order) for the missing-field paths -/
def sortPaths (ps : List Bytes) : List Bytes := (sortByKey (ps.map (fun p => (p, ())))).map (·.1)

def gens (m : String) : (List UInt8 × List UInt8 × List (UInt8 × Bytes)) :=
  if m == "root" then (GenRoot.pathSafe, GenRoot.querySafe, GenRoot.headerEscapes)
  else (Gen.pathSafe, Gen.querySafe, Gen.headerEscapes)

def flavourOf : String → Option Escape.Flavour
  | "header" => some .header | "path" => some .path | "query" => some .query | _ => none

def valueFuel (data : Nat) : Nat := 4 * data + 4096

/-- `enc <module> <fmt> <env> <ty> <excl> <value>` -/
def opEnc (args : List Sexp) : String :=
  match args with
  | [.atom mod, .atom fmt, envS, tyS, exclS, vS] =>
    match envOfSexp envS, tyOfSexp tyS, exclOfSexp exclS, valueOfSexp vS with
    | some env, some ty, some excl, some v =>
      let cfg : EncCfg := { env := env, excl := excl, sortKeys := mod != "root" }
      match encode cfg 100000 [] ty v with
      | .error .enum => "err enum"
      | .error .union => "err other"
      | .error .illTyped => "err illtyped"
      | .error .fuel => "fuel"
      | .ok doc =>
        match flavourOf fmt with
        | some fl =>
          -- the path writer treats a value written to it directly (an entity key) specially
          if fl == .path then "ok " ++ toHex (renderRor2Path (fl.esc (gens mod)) doc)
          else "ok " ++ toHex (renderRor2 (fl.esc (gens mod)) doc)
        | none =>
          if fmt == "json" then "ok " ++ toHex (renderJson doc)
          else if fmt == "pretty" then "ok " ++ toHex (renderPretty 0 doc)
          else "bad-op"
    | _, _, _, _ => "bad-op"
  | _ => "bad-op"

def showRes (r : Res Value) : String :=
  match r with
  | .ok v _ => "ok " ++ canonValue v
  | .err .syntax => "err other"
  | .err (.excluded p) => "err excluded " ++ toHex p
  | .err (.missing ps v) => "err missing (" ++ " ".intercalate ((sortPaths ps).map toHex) ++ ") " ++ canonValue v
  | .err .union => "err other"
  | .err .fixed => "err other"
  | .panic => "panic"
  | .fuel => "fuel"
  | .unmodelled => "unmodelled float-syntax"

def showTRes (r : TRes Value) : String :=
  match r with
  | .ok v _ => "ok " ++ canonValue v
  | .err .syntax => "err other"
  | .err (.excluded p) => "err excluded " ++ toHex p
  | .err (.missing ps v) => "err missing (" ++ " ".intercalate ((sortPaths ps).map toHex) ++ ") " ++ canonValue v
  | .err .union => "err other"
  | .err .fixed => "err other"
  | .panic => "panic"
  | .unmodelled => "unmodelled float-syntax"

/-- `ParseQueryParams("p=" + data)["p"]`: `none` = parse error, `some none` = no such key -/
def queryParamP (data : Bytes) : Option (Option Bytes) :=
  let pieces := splitOn 38 ([112, 61] ++ data)
  pieces.foldl (fun acc piece =>
    match acc with
    | none => none
    | some cur =>
      if piece.isEmpty then some cur
      else
        let (k, v) := cutAt 61 piece
        if !validateRor2 v then none
        else if k == [112] then some (some v) else some cur) (some none)

/-- `dec <module> <fmt> <env> <ty> <excl> <ignore> <hex>` -/
def opDec (args : List Sexp) : String :=
  match args with
  | [.atom _mod, .atom fmt, envS, tyS, exclS, .atom ign, .atom h] =>
    match envOfSexp envS, tyOfSexp tyS, exclOfSexp exclS, ign.toNat?, ofHex h with
    | some env, some ty, some excl, some ignore, some data =>
      match fmt with
      | "header" | "path" =>
        showRes (unmarshalRor2 { env := env, tracker := { excl := excl, ignore := ignore }, plus := false } ty data)
      | "query" =>
        (match queryParamP data with
        | none => "err other"
        | some none => "err other"
        | some (some v) =>
          -- the per-parameter reader starts with the parameter name as scope and never
          -- checks missing fields itself (the enclosing QueryParamsReader does)
          showRes (readTy { env := env, tracker := { excl := .empty, ignore := 0 }, plus := true, query := true }
            (3 * v.length + 8) [.key [112]] ty { rest := v, start := true }))
      | "json" | "pretty" =>
        (match unmarshalJson { env := env, tracker := { excl := excl, ignore := ignore } } ty data with
        | none => "unmodelled json-nonstrict"
        | some r => showTRes r)
      | _ => "bad-op"
    | _, _, _, _, _ => "bad-op"
  | _ => "bad-op"

/-- `tables <module>`: what the model's tables of the `codec` group make of every byte (between two `A`s: a path key that is exactly `.` is special),
of the empty string and of the empty array, per ROR2 flavour — the harness derives the same text
from the running writers, so agreement confirms the whole of each table -/
def opTables (args : List Sexp) : String :=
  match args with
  | [.atom m] =>
    let (ps, qs, hs) := gens m
    let em := if m == "root" then GenRoot.emptyMarker else Gen.emptyMarker
    let lp := if m == "root" then GenRoot.listPrefix else Gen.listPrefix
    let one (name : String) (esc : Bytes → Bytes) : String :=
      name ++ "=" ++ ",".intercalate ((List.range 256).map (fun b => toHex (esc [65, UInt8.ofNat b, 65]))) ++ ";"
        ++ name ++ "-empty=" ++ toHex em ++ ";" ++ name ++ "-list=" ++ toHex (lp ++ [41]) ++ ";"
    one "path" (Escape.escapeWith ps) ++ one "query" (Escape.escapeWith qs) ++ one "header" (Escape.replaceWith hs)
  | _ => "bad-op"

-- driver-ops: Restli.Codec.ops
def ops : List (String × (List Sexp → String)) := [("enc", opEnc), ("dec", opDec), ("tables", opTables)]

end Restli.Codec
