import Restli.Driver.Sexp
import Restli.Model.D2
/-! Driver glue for the D2 model (property C19).

* `d2fold <zk-hex> (<event>…) [(<event>…)]` — runs the heap-level model from a fresh watcher over
  the history and answers `<ptrs> <snapshot>`: `ptrs` has one letter per event (`s` = the same
  pointer was returned, `n` = a new object), `snapshot` is the final content, canonically sorted.
  With the optional second list (and an optional number of levels `k`, default 1) it also
  answers, separated by ` | `, the same for every extension of the history by 1…k events of that
  list, in depth-first pre-order (used for exhaustive enumeration without one round trip per
  history).
  `<event>` is `(<path-hex> del)`, `(<path-hex> bad)` or `(<path-hex> uri (<scheme-hex> <rest-hex> <w>)…)`.
* `d2choose ((<node-hex> (<scheme-hex> <rest-hex> <w>)…)…) (<scheme-hex>…) <p> <q>` — `chooseHost`
  on the snapshot whose two map levels are iterated in the order written (every pass, every call),
  with every draw equal to `p/q`; answers `host <scheme-hex> <rest-hex>` or `none`. -/
namespace Restli.D2
open Restli

def entryOfSexp : Sexp → Option Entry
  | .list [.atom s, .atom r, .atom w] => do
    let s' ← ofHex s
    let r' ← ofHex r
    let w' ← w.toNat?
    pure (⟨s', r'⟩, w')
  | _ => none

def eventOfSexp : Sexp → Option Event
  | .list [.atom p, .atom "del"] => (ofHex p).map (fun p' => ⟨p', none⟩)
  | .list [.atom p, .atom "bad"] => (ofHex p).map (fun p' => ⟨p', some .malformed⟩)
  | .list (.atom p :: .atom "uri" :: es) => do
    let p' ← ofHex p
    let es' ← es.mapM entryOfSexp
    pure ⟨p', some (.uri ⟨es'⟩)⟩
  | _ => none

def hexChars : Array Char := #['0','1','2','3','4','5','6','7','8','9','a','b','c','d','e','f']

/-- same output as `toHex`, built by pushing onto a `String` (the exhaustive enumeration renders
millions of snapshots) -/
def fastHex (b : Bytes) : String :=
  if b.isEmpty then "-"
  else b.foldl (fun s c => (s.push (hexChars.getD (c.toNat / 16) '?')).push (hexChars.getD (c.toNat % 16) '?')) ""

def sortStrings (l : List String) : List String := l.mergeSort (fun a b => !(decide (b < a)))

def renderEntry (e : Entry) : String :=
  "(" ++ fastHex e.1.scheme ++ " " ++ fastHex e.1.rest ++ " " ++ toString e.2 ++ ")"

def renderNode (kv : Bytes × Uri) : String :=
  "(" ++ " ".intercalate (fastHex kv.1 :: sortStrings (kv.2.weights.map renderEntry)) ++ ")"

def renderSnapshot (s : ServiceUris) : String :=
  "(" ++ " ".intercalate (sortStrings (s.uris.map renderNode)) ++ ")"

/-- run the heap model, recording per event whether the returned pointer is the one passed in -/
def runTrace (H : Heap) (a : Nat) : List Event → List Char → Option (Heap × Nat × List Char)
  | [], acc => some (H, a, acc.reverse)
  | e :: h, acc =>
    match handleUriUpdateH H a e with
    | none => none
    | some (H', a') => runTrace H' a' h ((if a' == a then 's' else 'n') :: acc)

def renderState (H : Heap) (a : Nat) (revTrace : List Char) : String :=
  match H.get? a with
  | none => "panic"
  | some s => (if revTrace.isEmpty then "-" else String.ofList revTrace.reverse) ++ " " ++ renderSnapshot s

/-- all extensions by 1…k events of `exts`, depth-first pre-order, continuing from the state
reached so far (the heap model is run incrementally) -/
def expand (exts : List Event) : Nat → Heap → Nat → List Char → List String
  | 0, _, _, _ => []
  | k + 1, H, a, tr =>
    exts.flatMap (fun e =>
      match handleUriUpdateH H a e with
      | none => ["panic"]
      | some (H', a') =>
        let tr' := (if a' == a then 's' else 'n') :: tr
        renderState H' a' tr' :: expand exts k H' a' tr')

def opFold (args : List Sexp) : String :=
  let go (zk : String) (evs : List Sexp) (exts : List Sexp) (levels : Nat) : String :=
    match ofHex zk, evs.mapM eventOfSexp, exts.mapM eventOfSexp with
    | some zk', some h, some xs =>
      match runTrace ⟨[ServiceUris.init zk']⟩ 0 h [] with
      | none => "panic"
      | some (H, a, tr) =>
        " | ".intercalate (renderState H a tr.reverse :: expand xs levels H a tr.reverse)
    | _, _, _ => "bad-op"
  match args with
  | [.atom zk, .list evs] => go zk evs [] 0
  | [.atom zk, .list evs, .list exts] => go zk evs exts 1
  | [.atom zk, .list evs, .list exts, .atom k] =>
    match k.toNat? with
    | some k' => if k' ≤ 3 then go zk evs exts k' else "bad-op"
    | none => "bad-op"
  | _ => "bad-op"

def nodeOfSexp : Sexp → Option (Bytes × Uri)
  | .list (.atom n :: es) => do
    let n' ← ofHex n
    let es' ← es.mapM entryOfSexp
    pure (n', ⟨es'⟩)
  | _ => none

def atomHex : Sexp → Option Bytes
  | .atom s => ofHex s
  | _ => none

def opChoose (args : List Sexp) : String :=
  match args with
  | [.list nodes, .list prio, .atom p, .atom q] =>
    match nodes.mapM nodeOfSexp, prio.mapM atomHex, p.toNat?, q.toNat? with
    | some m, some pr, some p', some q' =>
      if p' < q' then
        let it := iterSeq m
        match chooseHost pr (fun _ => ⟨it, it, p', q'⟩) with
        | none => "none"
        | some h => "host " ++ toHex h.scheme ++ " " ++ toHex h.rest
      else "bad-op"
    | _, _, _, _ => "bad-op"
  | _ => "bad-op"

-- driver-ops: Restli.D2.ops
def ops : List (String × (List Restli.Sexp → String)) := [("d2fold", opFold), ("d2choose", opChoose)]

end Restli.D2
