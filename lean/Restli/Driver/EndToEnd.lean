import Restli.Driver.Codec
import Restli.Driver.Patch
import Restli.Driver.Routing
import Restli.Model.EndToEnd
/-! Driver glue for the end-to-end call model (C02).

```
e2e <module> <env> <regs> <spec> <call> <reply> <cfg>
regs  := (regs <reg>…)                       reg as in Driver/Routing.lean: every registration of the server
spec  := (res (segs (NAMEHEX KEYTY|-)…) SCHEMA|- (m KIND NAMEHEX|- ONENTITY PARAMSDECL|- RET|- META|- RETURNENTITY))
call  := (call (KEY…) PARAMS|- BODY)         BODY := - | (entity V) | (patch PU) | (entities V…) | (ids V…)
                                                     | (keyed (K V)…) | (keyedpatch (K PU)…)
reply := (reply (err STATUS MSGHEX)) | (reply (entity V|-) (elements (V…)|-) (paging V|-) (meta V|-) (action V|-)
                                             (created (ID STATUS L<HEX>|- ENTITY|-)…) (batch (KEY RESULT|- UPDATE|- STATUS|- ERR|-)…))
cfg   := (cfg THRESHOLD PREFIXHEX|-)
answer: req … eff … | inv … | resp … | ret …
``` -/
namespace Restli.E2E.Driver
open Restli Restli.Codec Restli.E2E
open Restli.Routing (Method)

def optOf {α : Type} (f : Sexp → Option α) : Sexp → Option (Option α)
  | .atom "-" => some none
  | s => (f s).map some

def hexAtom : Sexp → Option Bytes
  | .atom h => ofHex h
  | _ => none

def segSpecOf : Sexp → Option SegSpec
  | .list [n, k] => do pure ⟨← hexAtom n, ← optOf tyOfSexp k⟩
  | _ => none

def nameAtom : Sexp → Option String
  | .atom s => some s
  | _ => none

def specOf : Sexp → Option ResSpec
  | .list [.atom "res", .list (.atom "segs" :: segs), schema,
           .list [.atom "m", kind, name, onE, params, ret, mdt, retE]] => do
    let ss ← segs.mapM segSpecOf
    let sc ← optOf nameAtom schema
    let k ← Routing.Driver.methodOfAtom kind
    let n ← optOf hexAtom name
    let onEntity ← Routing.Driver.boolOfAtom onE
    let ps ← optOf nameAtom params
    let rt ← optOf tyOfSexp ret
    let md ← optOf tyOfSexp mdt
    let re ← Routing.Driver.boolOfAtom retE
    let m : MethodSpec := ⟨k, n.getD [], onEntity, ps, rt, md, re⟩
    pure ⟨ss, sc, m⟩
  | _ => none

def pairOf {α β : Type} (f : Sexp → Option α) (g : Sexp → Option β) : Sexp → Option (α × β)
  | .list [a, b] => do pure (← f a, ← g b)
  | _ => none

def bodyOf : Sexp → Option Body
  | .atom "-" => some .none
  | .list [.atom "entity", v] => (valueOfSexp v).map Body.entity
  | .list [.atom "patch", p] => (puOfSexp p).map Body.patch
  | .list (.atom "entities" :: vs) => (vs.mapM valueOfSexp).map Body.entities
  | .list (.atom "ids" :: vs) => (vs.mapM valueOfSexp).map Body.ids
  | .list (.atom "keyed" :: es) => (es.mapM (pairOf valueOfSexp valueOfSexp)).map Body.keyed
  | .list (.atom "keyedpatch" :: es) => (es.mapM (pairOf valueOfSexp puOfSexp)).map Body.keyedPatch
  | _ => none

def callOf : Sexp → Option Call
  | .list [.atom "call", .list ks, ps, b] => do
    pure ⟨← ks.mapM valueOfSexp, ← optOf valueOfSexp ps, ← bodyOf b⟩
  | _ => none

def natAtom : Sexp → Option Nat
  | .atom s => s.toNat?
  | _ => none

def locOf : Sexp → Option (Option Bytes)
  | .atom "-" => some none
  | .atom s => (match s.toList with
    | 'L' :: rest => (ofHex (String.ofList rest)).map some
    | _ => none)
  | _ => none

def createdOf : Sexp → Option Created
  | .list [id, st, loc, ent] => do
    pure ⟨← valueOfSexp id, ← natAtom st, ← locOf loc, ← optOf valueOfSexp ent⟩
  | _ => none

def batchEntryOf : Sexp → Option BatchEntry
  | .list [k, r, u, s, e] => do
    pure ⟨← valueOfSexp k, ← optOf valueOfSexp r, ← optOf natAtom u, ← optOf natAtom s, ← optOf valueOfSexp e⟩
  | _ => none

/-- the reply is given field by field; which fields count is the method's business -/
def replyOf (m : MethodSpec) : Sexp → Option Reply
  | .list [.atom "reply", .list [.atom "err", st, msg]] => do pure (.err (← natAtom st) (← hexAtom msg))
  | .list [.atom "reply", .list [.atom "entity", ent], .list [.atom "elements", els], .list [.atom "paging", pg],
           .list [.atom "meta", md], .list [.atom "action", act], .list (.atom "created" :: crs),
           .list (.atom "batch" :: bs)] => do
    let ent ← optOf valueOfSexp ent
    let els ← (match els with
      | .atom "-" => some none
      | .list vs => (vs.mapM valueOfSexp).map some
      | _ => none)
    let pg ← optOf valueOfSexp pg
    let md ← optOf valueOfSexp md
    let act ← optOf valueOfSexp act
    let crs ← crs.mapM createdOf
    let bs ← bs.mapM batchEntryOf
    match m.kind with
    | .get => ent.map Reply.entity
    | .partial_update => if m.returnEntity then ent.map Reply.entity else some .unit
    | .update | .delete => some .unit
    | .create => crs.head?.map Reply.created
    | .batch_create => some (.createdMany crs)
    | .get_all | .finder => some (.elements (els.getD []) pg md)
    | .action => (match m.ret with | some _ => act.map Reply.action | none => some .unit)
    | .batch_get | .batch_update | .batch_partial_update | .batch_delete => some (.batch bs)
    | .unknown => none
  | _ => none

def cfgOf : Sexp → Option Cfg
  | .list [.atom "cfg", t, p] => do
    let pfx ← optOf hexAtom p
    pure ⟨← natAtom t, pfx.getD [], sB "c02boundaryc02boundaryc02boundaryc02boundaryc02boundaryc02bound"⟩
  | _ => none

def regsOf : Sexp → Option (List (List Routing.Seg × Routing.Reg))
  | .list (.atom "regs" :: rs) => rs.mapM Routing.Driver.regOf
  | _ => none

/-! ### printing, in the harness' canonical formats -/

def leStr (a b : String) : Bool := !(decide (b < a))
def sortStrs (l : List String) : List String := isort leStr l

def optCanon : Option Value → String
  | some v => canonValue v
  | none => "-"

def optNat : Option Nat → String
  | some n => toString n
  | none => "-"

def parens (xs : List String) : String := "(" ++ " ".intercalate xs ++ ")"

def invStr (i : Invocation) : String :=
  "keys=" ++ parens (i.keys.map canonValue) ++ " params=" ++ optCanon i.params ++
  (match i.body with
   | .none => ""
   | .entity v => " entity=" ++ canonValue v
   | .patch p => " patch=" ++ canonPU p
   | .entities vs => " entities=" ++ parens (vs.map canonValue)
   | .ids ks => " ids={" ++ " ".intercalate (sortStrs (ks.map canonValue)) ++ "}"
   | .keyed es => " entities={" ++ " ".intercalate (sortStrs (es.map (fun e => canonValue e.1 ++ "=" ++ canonValue e.2))) ++ "}"
   | .keyedPatch es => " patches={" ++ " ".intercalate (sortStrs (es.map (fun e => canonValue e.1 ++ "=" ++ canonPU e.2))) ++ "}")

def hexB (present : Bool) (b : Bytes) : String := if present then "B" ++ toHex b else "-"

def createdStr (batch : Bool) (c : Created) : String :=
  "(" ++ canonValue c.id ++ " " ++ toString c.status ++ " " ++
    (match c.location with | some l => if batch then toHex l else "-" | none => "-") ++ " " ++ optCanon c.entity ++ ")"

def batchEntryStr (e : BatchEntry) : String :=
  "(" ++ canonValue e.key ++ " r=" ++ optCanon e.result ++
    (match e.update with | some u => " u=" ++ toString u | none => "") ++
    " s=" ++ optNat e.status ++ " e=" ++ optCanon e.err ++ ")"

def retStr (m : MethodSpec) : Returned → String
  | .err st msg => "err restli " ++ toString st ++ " " ++ (match msg with | some b => toHex b | none => "-")
  | .transportError => "err transport"
  | .noIdHeader => "err no-id-header"
  | .decodeError => "err decode"
  | .unexpectedStatus st => "err unexpected-status " ++ toString st
  | .unit => "ok unit"
  | .entity v => "ok entity=" ++ canonValue v
  | .created id st ent => "ok created=[" ++ createdStr false ⟨id, st, none, ent⟩ ++ "]"
  | .createdMany cs => "ok created=[" ++ "".intercalate (cs.map (createdStr true)) ++ "]"
  | .elements vs pg md =>
    "ok elements=[" ++ " ".intercalate (vs.map canonValue) ++ "] paging=" ++ optCanon pg ++
      (if m.metadata.isSome then " meta=" ++ optCanon md else "")
  | .action v => "ok action=" ++ canonValue v
  | .batch es => "ok batch={" ++ " ".intercalate (sortStrs (es.map batchEntryStr)) ++ "}"
  | .unmodelled w => "unmodelled " ++ w

def mediaType (ct : Bytes) : String :=
  let m := ct.takeWhile (· != 59)
  if m.isEmpty then "-" else asciiString (m.map Url.toLowerByte)

def reqStr (K : Consts) (sent : Tunnel.Req) : String :=
  let ov := sent.header.get K.T.hdrOverride
  "req " ++ asciiString sent.method ++ " " ++ toHex sent.path ++ " " ++ toHex sent.rawQuery ++ " " ++
    asciiString (sent.header.get K.T.hdrRestliMethod) ++ " " ++ (if ov.isEmpty then "-" else asciiString ov) ++ " " ++
    mediaType (sent.header.get K.T.hdrContentType) ++ " eff " ++
    (match Tunnel.decodeTunnelledQuery K.T sent with
     | .ok r =>
       let b := bodyBytes r.body
       asciiString r.method ++ " " ++ toHex r.rawQuery ++ " " ++ hexB (!b.isEmpty) b
     | _ => "undecodable")

/-- `Equals` / `ComplexKeyEquals` on key values: a complex key compares by its key part -/
def keyEq (a b : Value) : Bool :=
  let strip (v : Value) : Value := match v with
    | .record fs => .record (fs.filter (fun e => e.1 != sB "$params"))
    | v => v
  canonValue (strip a) == canonValue (strip b)

def respStr (resp : WireResp) (onWire : Option (Option Bytes)) : String :=
  match onWire with
  | none => "resp unreadable"
  | some idh =>
    "resp " ++ toString resp.status ++ " " ++
      (match idh with
       | some h => "I" ++ toHex h
       | none => "-") ++ " " ++ (if resp.restliError then "1" else "0") ++ " " ++
      (match resp.body with | some b => hexB (!b.isEmpty) b | none => "-")

def opE2E (args : List Sexp) : String :=
  match args with
  | [.atom mod, envS, regsS, specS, callS, replyS, cfgS] =>
    if mod != "v2" then "unmodelled module" else
    let K := constsV2
    match envOfSexp envS, regsOf regsS, specOf specS, callOf callS, cfgOf cfgS with
    | some env, some regs, some spec, some call, some cfg =>
      (match replyOf spec.method replyS with
      | none => "bad-op"
      | some reply =>
        let srv := (Routing.Driver.applyRegs (Routing.newServer K.R []) regs).1
        let roots := srv.handler.roots
        match clientEncode K env spec call with
        | none => "client-refuses"
        | some a =>
          match wireRequest K cfg a with
          | .clientRefuses => "client-refuses"
          | .unmodelled w => "unmodelled " ++ w
          | .panic => "panic"
          | .ok sent =>
            let seen := serverSees K env roots cfg spec sent
            let finish (inv : String) (resp : Option WireResp) : String :=
              match resp with
              | none => reqStr K sent ++ " | " ++ inv ++ " | resp server-cannot-marshal | ret -"
              | some resp =>
                let onWire : Option (Option Bytes) := match resp.idHeader with
                  | none => some none
                  | some h => (headerOnWire h).map some
                reqStr K sent ++ " | " ++ inv ++ " | " ++ respStr resp onWire ++ " | ret " ++
                  retStr spec.method (clientReturns K env keyEq spec call resp)
            match seen with
            | .invoked i => finish ("inv " ++ invStr i) (serverRespond K env spec reply)
            | .other _ => reqStr K sent ++ " | inv other"
            | .rejected st re => finish "inv none" (some ⟨st, none, re, none⟩)
            | .unmodelled w => "unmodelled " ++ w
            | .panic => "panic")
    | _, _, _, _, _ => "bad-op"
  | _ => "bad-op"

-- driver-ops: Restli.E2E.Driver.ops
def ops : List (String × (List Sexp → String)) := [("e2e", opE2E)]

end Restli.E2E.Driver
