import Restli.Driver.Codec
import Restli.Model.Envelope
import Restli.Model.QueryParams
/-! Driver glue for the batch-entities and query-parameters envelopes. -/
namespace Restli.Codec
open Restli

def showEncErr : EncErr → String
  | .enum => "err enum" | .union => "err other" | .illTyped => "err illtyped" | .fuel => "fuel"

/-- `batchenc <module> <env> <ty> <excl> ((KEYHEX value)…)`: compact JSON -/
def opBatchEnc (args : List Sexp) : String :=
  match args with
  | [.atom mod, envS, tyS, exclS, .list es] =>
    match envOfSexp envS, tyOfSexp tyS, exclOfSexp exclS,
        es.mapM (fun (s : Sexp) => match s with
          | .list [.atom k, v] => do
            let kb ← ofHex k
            let vv ← valueOfSexp v
            pure (kb, vv)
          | _ => none) with
    | some env, some ty, some excl, some entries =>
      let cfg : EncCfg := { env := env, excl := excl, sortKeys := mod != "root" }
      (match marshalBatchEntities cfg 100000 ty entries with
      | .error e => showEncErr e
      | .ok doc => "ok " ++ toHex (renderJson doc))
    | _, _, _, _ => "bad-op"
  | _ => "bad-op"

/-- `qenc <module> <env> <record> <value>`: the query string -/
def opQEnc (args : List Sexp) : String :=
  match args with
  | [.atom mod, envS, .atom n, vS] =>
    match envOfSexp envS, valueOfSexp vS with
    | some env, some v =>
      (match buildQueryParams env (Escape.Flavour.query.esc (gens mod)) 100000 n v with
      | .error e => showEncErr e
      | .ok b => "ok " ++ toHex b)
    | _, _ => "bad-op"
  | _ => "bad-op"

/-- `qdec <module> <env> <record> <hex query>`: `UnmarshalQueryParamsDecoder`. The harness drives
the record's `UnmarshalField` through the real `QueryParamsReader.ReadRecord` itself (the corpus
records carry no generated `DecodeQueryParams`), so defaults are not populated there: the fields
the query names are what is compared. -/
def opQDec (args : List Sexp) : String :=
  match args with
  | [.atom _mod, envS, .atom n, .atom h] =>
    match envOfSexp envS, ofHex h with
    | some env, some q =>
      (match unmarshalQuery env n q with
      | .ok (.record fs) _ =>
        let named := ((parseQueryParams q).getD []).map (·.1)
        "ok " ++ canonValue (.record (fs.filter (fun e => named.contains e.1)))
      | .ok v _ => "ok " ++ canonValue v
      | .err (.missing ps _) => "err missing (" ++ " ".intercalate ((sortPaths ps).map toHex) ++ ")"
      | .err (.excluded _) => "err excluded"
      | .err _ => "err other"
      | .panic => "panic"
      | .fuel => "fuel"
      | .unmodelled => "unmodelled float-syntax")
    | _, _ => "bad-op"
  | _ => "bad-op"

-- driver-ops: Restli.Codec.envelopeOps
def envelopeOps : List (String × (List Sexp → String)) :=
  [("batchenc", opBatchEnc), ("qenc", opQEnc), ("qdec", opQDec)]

end Restli.Codec
