import Restli.Driver.Routing
import Restli.Model.ErrorFlow
/-! Driver glue for C08.

```
serve <v2|root> <Register function name> <outcome> <http.StatusText of the outcome's status>
outcome := value | nil | (err <status|-> <message|-> <rest>) | (other <msg>) | (panic <msg>) | (override <n>)
answer  := <wire> | <client> | <the implementation's error object afterwards>
```
Strings travel in the `~`-encoding of `Driver/Routing.lean`. -/
namespace Restli.ErrorFlow.Driver
open Restli Restli.Routing Restli.ErrorFlow
open Restli.Routing.Driver (enc decAtom constsOf)

def kindOf (s : String) : Option Kind := Kind.all.find? (fun k => k.registerFunc == s)

def optNat : Sexp → Option (Option Nat)
  | .atom "-" => some none
  | .atom s => s.toNat?.map some
  | _ => none

def optStr : Sexp → Option (Option String)
  | .atom "-" => some none
  | a => (decAtom a).map some

def outcomeOf : Sexp → Option ImplOutcome
  | .atom "value" => some .value
  | .atom "nil" => some .typedNil
  | .list [.atom "err", st, msg, .atom rest] => do
    pure (.errResp ⟨← optNat st, ← optStr msg, ← rest.toNat?⟩)
  | .list [.atom "other", m] => (decAtom m).map .otherErr
  | .list [.atom "panic", m] => (decAtom m).map .panic
  | .list [.atom "override", .atom n] => n.toNat?.map .statusOverride
  | _ => none

def errStr (e : ErrResp) : String :=
  (match e.status with | some s => toString s | none => "-") ++ ":" ++
  (match e.message with | some m => enc m | none => "-") ++ ":" ++ toString e.rest

def wireStr : Wire → String
  | .connectionDropped => "dropped"
  | .response st eh body =>
    "resp " ++ toString st ++ " " ++ (if eh then "E" else "-") ++ " " ++
      (match body with | .empty => "empty" | .value => "value" | .error e => "err:" ++ errStr e)

def clientStr : ClientResult → String
  | .ok st => "ok " ++ toString st
  | .restliError e => "rerr:" ++ errStr e
  | .unexpectedStatus st => "unexpected " ++ toString st
  | .transportError => "transport"

def opServe (args : List Sexp) : String :=
  match args with
  | [g, .atom k, o, txt] =>
    match constsOf g, kindOf k, outcomeOf o, decAtom txt with
    | some C, some kind, some out, some t =>
      let (w, after) := serveOutcome C (fun _ => t) kind out
      wireStr w ++ " | " ++ clientStr (clientView w) ++ " | " ++
        (match after with | some e => "obj:" ++ errStr e | none => "-")
    | _, _, _, _ => "bad-op"
  | _ => "bad-op"

end Restli.ErrorFlow.Driver

namespace Restli.ErrorFlow.Driver
-- driver-ops: Restli.ErrorFlow.Driver.ops
def ops : List (String × (List Restli.Sexp → String)) := [("serve", opServe)]
end Restli.ErrorFlow.Driver
