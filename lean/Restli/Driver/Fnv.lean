import Restli.Driver.Sexp
import Restli.Model.Equals
/-! Driver glue for C10 (library level).

`fnv <v2|root> <new|zero> <op>…`  → the final hash as a decimal number
   op ::= (i32 n) | (i64 n) | (f32 bits) | (f64 bits) | (bool 0|1) | (str hex) | (bytes hex)
        | (add <new|zero> op…)                 h.Add(sub-hash)
        | (arr (op…)…)                         AddArray, one op list per element
        | (harr (<new|zero> op…)…)             AddHashableArray, one ComputeHash per element
        | (map (khex op…)…)                    AddMap, entries in iteration order
        | (hmap (khex <new|zero> op…)…)        AddHashableMap
   integers are given as the unsigned value of their two's-complement bit pattern.

`eqh <elem><shape> <left> <right>` → `true` | `false`
   elem  ::= c (comparable primitive) | o (object = tuple of primitives, Equals = all fields ==) | b ([]byte)
   shape ::= val | ptr | arr | map | arrp | mapp
   prim  ::= (i32 n) | (i64 n) | (f32 bits) | (f64 bits) | (bool 0|1) | (str hex)
   obj   ::= (o prim…)          bytes ::= nil | hex ("-" = empty, non-nil)
   slice ::= nil | (s elem…)    map ::= nil | (m (khex elem)…)    ptr ::= nil | (p addr x)
Anything else is answered `bad-op`. -/
namespace Restli.FnvDriver
open Restli Restli.Fnv Restli.Equals

def paramsOf (m : String) : Option Params :=
  if m == "v2" then some paramsV2 else if m == "root" then some paramsRoot else none

def startOf (P : Params) (s : String) : Option Hash :=
  if s == "new" then some (newHash P) else if s == "zero" then some zeroHash else none

def natTok (s : String) (bound : Nat) : Option Nat :=
  match s.toNat? with
  | some n => if n < bound then some n else none
  | none => none

def primOfSexp : Sexp → Option Prim
  | .list [.atom "i32", .atom n] => (natTok n (2^32)).map (fun v => .i32 (UInt32.ofNat v))
  | .list [.atom "i64", .atom n] => (natTok n (2^64)).map (fun v => .i64 (UInt64.ofNat v))
  | .list [.atom "f32", .atom n] => (natTok n (2^32)).map (fun v => .f32 (UInt32.ofNat v))
  | .list [.atom "f64", .atom n] => (natTok n (2^64)).map (fun v => .f64 (UInt64.ofNat v))
  | .list [.atom "bool", .atom b] => if b == "1" then some (.bool true) else if b == "0" then some (.bool false) else none
  | .list [.atom "str", .atom h] => (ofHex h).map .str
  | _ => none

mutual
partial def runOps (P : Params) (h : Hash) : List Sexp → Option Hash
  | [] => some h
  | op :: rest => do
    let h' ← runOp P h op
    runOps P h' rest

partial def subHash (P : Params) : List Sexp → Option Hash
  | .atom st :: ops => do
    let h0 ← startOf P st
    runOps P h0 ops
  | _ => none

partial def runOp (P : Params) (h : Hash) (op : Sexp) : Option Hash :=
  match op with
  | .list [.atom "bytes", .atom hx] => (ofHex hx).map (addBytes P h)
  | .list (.atom "add" :: sub) => (subHash P sub).map (add P h)
  | .list (.atom "arr" :: elems) => do
    let es ← elems.mapM (fun e => match e with | .list ops => some ops | _ => none)
    -- validate every element's op list first (the model never guesses), then run the model's
    -- AddArray with the hasher "apply this element's op list"
    let _ ← es.mapM (fun ops => runOps P h ops)
    pure (addArray (fun h ops => (runOps P h ops).getD h) h es)
  | .list (.atom "harr" :: elems) => do
    let hs ← elems.mapM (fun e => match e with | .list sub => subHash P sub | _ => none)
    pure (addHashableArray P id h hs)
  | .list (.atom "map" :: entries) => do
    let es ← entries.mapM (fun e => match e with
      | .list (.atom k :: ops) => (ofHex k).map (fun kb => (kb, ops))
      | _ => none)
    -- validate every entry's op list first, then run the model's AddMap
    let _ ← es.mapM (fun (_, ops) => runOps P h ops)
    pure (addMap P (fun h ops => (runOps P h ops).getD h) h es)
  | .list (.atom "hmap" :: entries) => do
    let es ← entries.mapM (fun e => match e with
      | .list (.atom k :: sub) => do
        let kb ← ofHex k
        let sh ← subHash P sub
        pure (kb, sh)
      | _ => none)
    pure (addHashableMap P id h es)
  | p => (primOfSexp p).map (Prim.hashInto P h)
end

/-- `fnv <module> <start> ops…` -/
def opFnv (args : List Sexp) : String :=
  match args with
  | .atom m :: .atom st :: ops =>
    match paramsOf m with
    | none => "bad-op"
    | some P =>
      match startOf P st with
      | none => "bad-op"
      | some h0 =>
        match runOps P h0 ops with
        | some h => toString h.toNat
        | none => "bad-op"
  | _ => "bad-op"

/-! ### eqh -/

def objOfSexp : Sexp → Option (List Prim)
  | .list (.atom "o" :: fs) => fs.mapM primOfSexp
  | _ => none

/-- `Equals` of the harness' hand-written object type: all fields `==` -/
def objEq (a b : List Prim) : Bool := genericArray Prim.eq a b

def bytesOfSexp : Sexp → Option (GoSlice UInt8)
  | .atom "nil" => some .nil
  | .atom h => (ofHex h).map .mk
  | _ => none

def sliceOfSexp {α : Type} (elem : Sexp → Option α) : Sexp → Option (GoSlice α)
  | .atom "nil" => some .nil
  | .list (.atom "s" :: es) => (es.mapM elem).map .mk
  | _ => none

def mapOfSexp {α : Type} (elem : Sexp → Option α) : Sexp → Option (GoMap α)
  | .atom "nil" => some .nil
  | .list (.atom "m" :: es) =>
    (es.mapM (fun (e : Sexp) => match e with
      | .list [.atom k, v] => do
        let kb ← ofHex k
        let x ← elem v
        pure (kb, x)
      | _ => none)).map .mk
  | _ => none

def ptrOfSexp {α : Type} (inner : Sexp → Option α) : Sexp → Option (Option (Ptr α))
  | .atom "nil" => some none
  | .list [.atom "p", .atom a, x] => do
    let addr ← a.toNat?
    let v ← inner x
    pure (some ⟨addr, v⟩)
  | _ => none

def verdict (b : Option Bool) : String :=
  match b with
  | some true => "true"
  | some false => "false"
  | none => "bad-op"

def eqShape {α : Type} (elem : Sexp → Option α) (eq : α → α → Bool) (shape : String) (l r : Sexp) : Option Bool :=
  match shape with
  | "val" => do pure (eq (← elem l) (← elem r))
  | "ptr" => do pure (genericPointer eq (← ptrOfSexp elem l) (← ptrOfSexp elem r))
  | "arr" => do
    let a ← sliceOfSexp elem l
    let b ← sliceOfSexp elem r
    -- through the panic-explicit version: an index panic would surface as bad-op
    genericArrayP eq a.elems b.elems
  | "map" => do pure (genericMap eq (← mapOfSexp elem l).elems (← mapOfSexp elem r).elems)
  | "arrp" => do
    pure (genericArrayPointer eq (← ptrOfSexp (sliceOfSexp elem) l) (← ptrOfSexp (sliceOfSexp elem) r))
  | "mapp" => do
    pure (genericMapPointer eq (← ptrOfSexp (mapOfSexp elem) l) (← ptrOfSexp (mapOfSexp elem) r))
  | _ => none

/-- `eqh <elem><shape> <left> <right>` -/
def opEqh (args : List Sexp) : String :=
  match args with
  | [.atom kind, l, r] =>
    match kind.toList with
    | 'c' :: sh => verdict (eqShape primOfSexp Prim.eq (String.ofList sh) l r)
    | 'o' :: sh => verdict (eqShape objOfSexp objEq (String.ofList sh) l r)
    | 'b' :: sh => verdict (eqShape bytesOfSexp Equals.bytes (String.ofList sh) l r)
    | _ => "bad-op"
  | _ => "bad-op"

end Restli.FnvDriver

namespace Restli.FnvDriver
-- driver-ops: Restli.FnvDriver.ops
def ops : List (String × (List Restli.Sexp → String)) := [("fnv", opFnv), ("eqh", opEqh)]
end Restli.FnvDriver
