import Restli.Driver.Codec
import Restli.Model.GenEquals
/-! Driver glue for the generated Equals / ComputeHash model. -/
namespace Restli.Codec
open Restli Restli.Fnv

def paramsOf (m : String) : Params := if m == "root" then paramsRoot else paramsV2

def hex8 (h : Hash) : String :=
  let digits := (Nat.toDigits 16 h.toNat)
  String.ofList digits

/-- `geq <module> <env> <ty> <v> <w>` -/
def opGeq (args : List Sexp) : String :=
  match args with
  | [.atom _m, envS, tyS, vS, wS] =>
    match envOfSexp envS, tyOfSexp tyS, valueOfSexp vS, valueOfSexp wS with
    | some env, some ty, some v, some w => if valueEq env 1000 ty v w then "1" else "0"
    | _, _, _, _ => "bad-op"
  | _ => "bad-op"

/-- `ghash <module> <env> <name> <v>`: `ComputeHash().String()` -/
def opGhash (args : List Sexp) : String :=
  match args with
  | [.atom m, envS, .atom n, vS] =>
    match envOfSexp envS, valueOfSexp vS with
    | some env, some v => hex8 (computeHash env (paramsOf m) 1000 n v)
    | _, _ => "bad-op"
  | _ => "bad-op"

-- driver-ops: Restli.Codec.genEqualsOps
def genEqualsOps : List (String × (List Sexp → String)) := [("geq", opGeq), ("ghash", opGhash)]

end Restli.Codec
