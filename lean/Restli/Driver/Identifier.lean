import Restli.Driver.Sexp
import Restli.Model.Identifier
/-! Driver glue for C12.

`exportid <v2|root> <hex>` → `ok <hex>` | `panic` | `unmodelled nonascii`
Anything else is answered `bad-op`. -/
namespace Restli.Ident
open Restli

def opExportId (args : List Sexp) : String :=
  match args with
  | [.atom m, .atom h] =>
    let P? : Option Params := if m == "v2" then some paramsV2 else if m == "root" then some paramsRoot else none
    match P?, ofHex h with
    | some P, some s =>
      match exportedIdentifier P s with
      | .ok o => "ok " ++ toHex o
      | .panic => "panic"
      | .nonAscii => "unmodelled nonascii"
    | _, _ => "bad-op"
  | _ => "bad-op"

end Restli.Ident

namespace Restli.Ident
-- driver-ops: Restli.Ident.ops
def ops : List (String × (List Restli.Sexp → String)) := [("exportid", opExportId)]
end Restli.Ident
