import Restli.Driver.Sexp
import Restli.Driver.Fnv
import Restli.Model.KeySet
/-! Driver glue for C16: one op line = one batch call scenario.

`keyset <v2|root> gen  (keys K…) (probes K…) (doc F…)`   generic key set (record / complex keys)
`keyset <v2|root> prim (keys P…) (probes P…) (doc F…)`   primitive key set

  K ::= (k id hash clsHex nan enc)   an abstract key: identity tag, the value of
                                     `hash(k).MapKey()`, an equality-class label (two keys are
                                     Equal iff both have nan = 0 and the same label), and its
                                     query-parameter encoding (hex, or `!` = marshalling error)
  P ::= (k id prim enc)              a primitive key; equality is Go's `==` (`Prim.eq`)
  F ::= (fieldNameHex E…)            one member of the response object, in document order
  E ::= (rawHex D v)                 one member of that field's object: the raw key text, what
                                     it decodes to (`bad` or a key K / P — the codec is the
                                     harness's/C01's business), and the value (`v<n>` or `badv`)

Answer: `add=ok ids=<hex,…|err> loc=<id|none,…> resp=<ok results=… statuses=… errors=…|err:<class>>`
or `add=dup@<i>` (nothing else happens: no request is sent). Response maps are printed as
`[key:v,…]` sorted, `nil` when the field never appeared; a generic key prints as its identity tag,
a primitive key as its bit pattern (a Go primitive has no other identity). -/
namespace Restli.KeySetDriver
open Restli Restli.KeySet Restli.Equals

/-- the abstract key content used by the driver for generic sets -/
structure AKey where
  hash : UInt32
  cls : Bytes
  nan : Bool
  enc : Option Bytes
deriving Repr

def aOps : KeyOps AKey := ⟨fun a b => !a.nan && !b.nan && a.cls == b.cls, fun a => a.hash⟩

def encOfTok (s : String) : Option (Option Bytes) :=
  if s == "!" then some none else (ofHex s).map some

def aKeyOfSexp : Sexp → Option (Key AKey)
  | .list [.atom "k", .atom id, .atom h, .atom cls, .atom nan, .atom enc] => do
    let i ← id.toNat?
    let hv ← FnvDriver.natTok h (2^32)
    let c ← ofHex cls
    let e ← encOfTok enc
    pure ⟨i, ⟨UInt32.ofNat hv, c, nan == "1", e⟩⟩
  | _ => none

def pKeyOfSexp : Sexp → Option (Key (Prim × Option Bytes))
  | .list [.atom "k", .atom id, p, .atom enc] => do
    let i ← id.toNat?
    let v ← FnvDriver.primOfSexp p
    let e ← encOfTok enc
    pure ⟨i, (v, e)⟩
  | _ => none

def section? (name : String) : Sexp → Option (List Sexp)
  | .list (.atom n :: rest) => if n == name then some rest else none
  | _ => none

structure RawEntry (κ : Type) where
  raw : Bytes
  decoded : Option (Key κ)
  value : Option Nat

def valueOfTok (s : String) : Option (Option Nat) :=
  if s == "badv" then some none
  else match s.toList with
    | 'v' :: ds => (String.ofList ds).toNat?.map some
    | _ => none

def entryOfSexp {κ : Type} (key : Sexp → Option (Key κ)) : Sexp → Option (RawEntry κ)
  | .list [.atom raw, d, .atom v] => do
    let r ← ofHex raw
    let dk ← match d with
      | .atom "bad" => some none
      | s => (key s).map some
    let vv ← valueOfTok v
    pure ⟨r, dk, vv⟩
  | _ => none

def fieldOfSexp {κ : Type} (key : Sexp → Option (Key κ)) : Sexp → Option (String × List (RawEntry κ))
  | .list (.atom name :: es) => do
    let n ← ofHex name
    let entries ← es.mapM (entryOfSexp key)
    pure (asciiString n, entries)
  | _ => none

def namesOf (m : String) : Option FieldNames :=
  if m == "v2" then some fieldNamesV2 else if m == "root" then some fieldNamesRoot else none

def insertStr (x : String) : List String → List String
  | [] => [x]
  | y :: ys => if x < y || x == y then x :: y :: ys else y :: insertStr x ys

def sortStrs (l : List String) : List String := l.foldr insertStr []

def renderMap {κ : Type} (showKey : Key κ → String) : Option (List (Key κ × Nat)) → String
  | none => "nil"
  | some m => "[" ++ ",".intercalate (sortStrs (m.map (fun kv => showKey kv.1 ++ ":v" ++ toString kv.2))) ++ "]"

def errName : ErrClass → String
  | .badKey => "bad-key"
  | .unknownKey => "unknown-key"
  | .badValue => "bad-value"
  | .missingResults => "missing-results"
  | .noSuchField => "no-such-field"
  | .repeatedKey => "repeated-key"
  | .repeatedField => "repeated-field"

def renderResp {κ : Type} (showKey : Key κ → String) : Except ErrClass (BatchResponse κ Nat) → String
  | .error e => "err:" ++ errName e
  | .ok b => "ok results=" ++ renderMap showKey b.results ++ " statuses=" ++ renderMap showKey b.statuses
      ++ " errors=" ++ renderMap showKey b.errors

def renderIds : Option (List Bytes) → String
  | none => "err"
  | some l => if l.isEmpty then "none" else ",".intercalate (l.map toHex)

def renderLoc {κ : Type} (l : List (Option (Key κ))) (showKey : Key κ → String) : String :=
  if l.isEmpty then "none" else ",".intercalate (l.map (fun o => match o with | none => "none" | some k => showKey k))

/-- a decode function given as the table of the document's own entries (first match) -/
def decodeTable {κ : Type} (entries : List (RawEntry κ)) (raw : Bytes) : Option (Key κ) :=
  match entries.find? (fun e => e.raw == raw) with
  | some e => e.decoded
  | none => none

def primBits : Prim → String
  | .i32 v => "i32:" ++ toString v.toNat
  | .i64 v => "i64:" ++ toString v.toNat
  | .f32 v => "f32:" ++ toString v.toNat
  | .f64 v => "f64:" ++ toString v.toNat
  | .bool b => if b then "bool:1" else "bool:0"
  | .str s => "str:" ++ toHex s

def runGen (N : FieldNames) (keys probes : List (Key AKey))
    (doc : List (String × List (RawEntry AKey))) : String :=
  match addAll aOps keys with
  | .inl i => "add=dup@" ++ toString i
  | .inr s =>
    let showKey : Key AKey → String := fun k => toString k.id
    let ids := s.ids (fun k => k.enc)
    let locs := probes.map (locate aOps s)
    -- each field is unmarshalled with the decode table of the whole document
    let table := decodeTable (doc.flatMap (·.2))
    let resp := unmarshalWithKeyLocator N.strict (locateFromReader table (locate aOps s)) (fun a b => a.id == b.id)
      (doc.map (fun f => (N.tag f.1, f.2.map (fun e => (e.raw, e.value)))))
    "add=ok ids=" ++ renderIds ids ++ " loc=" ++ renderLoc locs showKey ++ " resp=" ++ renderResp showKey resp

def runPrim (N : FieldNames) (keys probes : List (Key (Prim × Option Bytes)))
    (doc : List (String × List (RawEntry (Prim × Option Bytes)))) : String :=
  let strip : Key (Prim × Option Bytes) → Key Prim := fun k => ⟨k.id, k.val.1⟩
  match PrimSet.addAll (keys.map strip) with
  | .inl i => "add=dup@" ++ toString i
  | .inr s =>
    let showKey : Key Prim → String := fun k => primBits k.val
    -- `encodeKeys` of the primitive set ignores marshalling errors (`_ = MarshalRestLi`): `!` cannot
    -- occur for primitives, it is answered `err` all the same
    let ids := encodeIds (fun (p : Prim × Option Bytes) => p.2) keys
    let locs := probes.map (fun p => s.locate (strip p))
    let table := fun raw => (decodeTable (doc.flatMap (·.2)) raw).map strip
    let resp := unmarshalWithKeyLocator N.strict (locateFromReader table s.locate)
      (fun a b => Prim.eq a.val b.val)
      (doc.map (fun f => (N.tag f.1, f.2.map (fun e => (e.raw, e.value)))))
    "add=ok ids=" ++ renderIds ids ++ " loc=" ++ renderLoc locs showKey ++ " resp=" ++ renderResp showKey resp

/-- `keyset <module> <gen|prim> (keys …) (probes …) (doc …)` -/
def opKeyset (args : List Sexp) : String :=
  -- an optional trailing `(go <hex>)` section (the harness's own replay data) is ignored
  let args := match args with
    | [a, b, c, d, e, .list [.atom "go", .atom _]] => [a, b, c, d, e]
    | other => other
  match args with
  | [.atom m, .atom kind, ks, ps, d] =>
    match namesOf m, section? "keys" ks, section? "probes" ps, section? "doc" d with
    | some N, some ks, some ps, some fs =>
      if kind == "gen" then
        match ks.mapM aKeyOfSexp, ps.mapM aKeyOfSexp, fs.mapM (fieldOfSexp aKeyOfSexp) with
        | some keys, some probes, some doc => runGen N keys probes doc
        | _, _, _ => "bad-op"
      else if kind == "prim" then
        match ks.mapM pKeyOfSexp, ps.mapM pKeyOfSexp, fs.mapM (fieldOfSexp pKeyOfSexp) with
        | some keys, some probes, some doc => runPrim N keys probes doc
        | _, _, _ => "bad-op"
      else "bad-op"
    | _, _, _, _ => "bad-op"
  | _ => "bad-op"

end Restli.KeySetDriver

namespace Restli.KeySetDriver
-- driver-ops: Restli.KeySetDriver.ops
def ops : List (String × (List Restli.Sexp → String)) := [("keyset", opKeyset)]
end Restli.KeySetDriver
