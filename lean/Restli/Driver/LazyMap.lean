import Std.Data.HashMap
import Restli.Driver.Sexp
import Restli.Model.LazyMap
/-! Driver glue for the lazy-map model (property C18).

`lazyrun <progs> <schedule>`   run one schedule, print the canonical observable result
`lazyenum <progs>`             explore ALL schedules of the model for the configuration:
                               `states=<n> schedules=<n> outcomes=(<sorted distinct final observables>)`
                               (validation of the model against the code, not part of any proof)

`<progs>` = `((op …) (op …) …)` one list per thread, `op` = `(los k fv) | (load k) | (store k v)`;
`<schedule>` = `(t t t …)`.

Values are opaque to the model (natural numbers). The harness computes and stores Go values
of several kinds and names each one by a tagged id: `n` (an int), or a letter and a number:
`e n` an error made by `errors.New`, `f n` an error of a struct type, `n n` the nil interface,
`p n` a pointer, `s n` a struct (`n < 1000`). Here the name becomes the number `1000·tag + n`
and is printed back as the name; every nil interface prints as `nil` (the harness cannot tell
one from another, nor from the content of a placeholder nobody has written yet). -/
namespace Restli.LazyMap
open Restli

/-- letters of the value kinds; the position is the tag (0: an int, no letter) -/
def valTags : List Char := ['i', 'e', 'f', 'n', 'p', 's']

def nilTag : Nat := 3

def valOfAtom (a : String) : Option Nat :=
  match a.toList with
  | [] => none
  | c :: rest =>
    if c.isDigit then do
      let n ← a.toNat?
      if n < 1000 then pure n else none
    else do
      let t := valTags.idxOf c
      let n ← (String.ofList rest).toNat?
      if 0 < t && t < valTags.length && n < 1000 then pure (1000 * t + n) else none

def valName (v : Nat) : String :=
  if v < 1000 then toString v else s!"{valTags.getD (v / 1000) '?'}{v % 1000}"

/-- a value as a call result or as the content of a cell -/
def renderValue (v : Nat) : String :=
  if v / 1000 = nilTag then "nil" else s!"val:{valName v}"

def opOfSexp : Sexp → Option Op
  | .list [.atom "los", .atom k, .atom v] => do pure (.los (← k.toNat?) (← valOfAtom v))
  | .list [.atom "load", .atom k] => do pure (.load (← k.toNat?))
  | .list [.atom "store", .atom k, .atom v] => do pure (.store (← k.toNat?) (← valOfAtom v))
  | _ => none

def progsOfSexp : Sexp → Option (List (List Op))
  | .list ts => ts.mapM (fun t => match t with
      | .list os => os.mapM opOfSexp
      | _ => none)
  | _ => none

def schedOfSexp : Sexp → Option (List Nat)
  | .list xs => xs.mapM (fun x => match x with
      | .atom a => a.toNat?
      | _ => none)
  | _ => none

def renderRet : Ret → String
  | .unit => "unit"
  | .missing => "missing"
  | .val v => renderValue v
  | .nil => "nil"

def renderCell : Cell → String
  | .absent => "absent"
  | .infl _ => "inflight"
  | .val v => renderValue v

/-- what a `Load` of the key returns once every thread has finished (`placeholder`: the cell
still holds one; the harness does not call `Load` then) -/
def renderFinal : Cell → String
  | .absent => "missing"
  | .infl _ => "placeholder"
  | .val v => renderValue v

/-- the name of the yield point in lazymap.go the thread is standing at -/
def pointName (t : Thread) : String :=
  match t.todo with
  | [] => "end"
  | op :: _ =>
    match t.pc with
    | .start => if op.isLoad then "load.Load" else "los.LoadOrStore"
    | .compute _ => "los.compute"
    | .rawStore _ _ => "los.Store"
    | .signal _ _ => "los.Done"
    | .wait _ => if op.isLoad then "load.Wait" else "los.Wait"
    | .finalStore => "store.Store"

def dedupSorted (ks : List Nat) : List Nat :=
  (ks.toArray.qsort (· < ·)).toList.eraseDups

def keysOf (progs : List (List Op)) : List Nat :=
  dedupSorted (progs.flatMap (fun p => p.map Op.key))

def paren (xs : List String) : String := "(" ++ " ".intercalate xs ++ ")"

/-- canonical observable of a state: per-thread results, per-thread yield point, user-compute
count per key, raw cell per key, threads blocked in `Wait`; once every thread has finished,
also the value a `Load` returns for every key. -/
def observe (n : Nat) (keys : List Nat) (s : Sys) : String :=
  let tids := List.range n
  let rets := tids.map (fun i => paren ((s.threads i).rets.map renderRet))
  let pts := tids.map (fun i => pointName (s.threads i))
  let comp := keys.map (fun k => s!"{k}:{s.computes k}")
  let cells := keys.map (fun k => s!"{k}:{renderCell (s.cell k)}")
  let blocked := tids.filter (fun i => (s.threads i).todo != [] && (step s i).isNone)
  let fin := if tids.all (fun i => (s.threads i).todo.isEmpty) then
      " final=" ++ paren (keys.map (fun k => s!"{k}:{renderFinal (s.cell k)}"))
    else ""
  s!"rets={paren rets} at={paren pts} computes={paren comp} cells={paren cells} blocked={paren (blocked.map toString)}{fin}"

def opRun (args : List Sexp) : String :=
  match args with
  | [p, sch] =>
    match progsOfSexp p, schedOfSexp sch with
    | some progs, some sched =>
      observe progs.length (keysOf progs) (run (initL progs) sched)
    | _, _ => "bad-op"
  | _ => "bad-op"

/-- full finite snapshot of a state (everything a transition can read, plus the ghosts that
are observed), used as the visited-set key of the exhaustive exploration -/
def snapshot (n : Nat) (keys : List Nat) (s : Sys) : String :=
  let th := (List.range n).map (fun i =>
    let t := s.threads i
    s!"{t.todo.length}/{repr t.pc}/{paren (t.rets.map renderRet)}")
  let cells := keys.map (fun k => s!"{repr (s.cell k)}")
  let phs := (List.range s.nextPid).map (fun p => s!"{(s.ph p).done}/{(s.ph p).v}")
  let comp := keys.map (fun k => s!"{s.computes k}")
  s!"{th}|{cells}|{phs}|{comp}"

structure Explore where
  /-- number of maximal schedules from each visited state -/
  paths : Std.HashMap String Nat := {}
  outcomes : Std.HashMap String Unit := {}

/-- depth-first exploration over enabled steps only; returns the number of maximal schedules
(sequences of enabled picks until no thread is enabled) from `s`. -/
partial def explore (n : Nat) (keys : List Nat) (s : Sys) : StateM Explore Nat := do
  let key := snapshot n keys s
  match (← get).paths[key]? with
  | some c => pure c
  | none =>
    let succs := (List.range n).filterMap (fun i => step s i)
    let c ← if succs.isEmpty then do
        modify (fun e => { e with outcomes := e.outcomes.insert (observe n keys s) () })
        pure 1
      else do
        let mut tot := 0
        for s' in succs do
          tot := tot + (← explore n keys s')
        pure tot
    modify (fun e => { e with paths := e.paths.insert key c })
    pure c

def opEnum (args : List Sexp) : String :=
  match args with
  | [p] =>
    match progsOfSexp p with
    | some progs =>
      let n := progs.length
      let keys := keysOf progs
      let (c, e) := (explore n keys (initL progs)).run {}
      let outs := (e.outcomes.toList.map (·.1)).toArray.qsort (· < ·)
      s!"states={e.paths.size} schedules={c} outcomes={paren (outs.toList.map (fun o => "[" ++ o ++ "]"))}"
    | none => "bad-op"
  | _ => "bad-op"

-- driver-ops: Restli.LazyMap.ops
def ops : List (String × (List Restli.Sexp → String)) := [("lazyrun", opRun), ("lazyenum", opEnum)]

end Restli.LazyMap
