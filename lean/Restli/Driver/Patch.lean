import Restli.Driver.Codec
import Restli.Model.Patch
/-! Driver glue for the partial-update model: `(pu (del HEX…) (set (HEX value)…) (patch (HEX pu)…))`. -/
namespace Restli.Codec
open Restli

partial def puOfSexp : Sexp → Option PU
  | .list [.atom "pu", .list (.atom "del" :: ds), .list (.atom "set" :: ss), .list (.atom "patch" :: ps)] => do
    let dl ← ds.mapM (fun (s : Sexp) => match s with | .atom h => ofHex h | _ => none)
    let sl ← ss.mapM (fun (s : Sexp) => match s with
      | .list [.atom k, v] => do
        let kb ← ofHex k
        let vv ← valueOfSexp v
        pure (kb, vv)
      | _ => none)
    let pl ← ps.mapM (fun (s : Sexp) => match s with
      | .list [.atom k, p] => do
        let kb ← ofHex k
        let pp ← puOfSexp p
        pure (kb, pp)
      | _ => none)
    pure (.mk dl sl pl)
  | _ => none

/-- canonical rendering: deletes, sets and nested patches sorted by field name -/
partial def canonPU : PU → String
  | .mk ds ss ps =>
    let d := (sortPaths ds).map toHex
    let s := (sortByKey ss).map (fun e => s!"({toHex e.1} {canonValue e.2})")
    let p := (sortByKey ps).map (fun e => s!"({toHex e.1} {canonPU e.2})")
    "(pu (" ++ " ".intercalate ("del" :: d) ++ ") (" ++ " ".intercalate ("set" :: s) ++ ") (" ++
      " ".intercalate ("patch" :: p) ++ "))"

def showPUErr : PUErr → String
  | .excluded f => "err pu " ++ toHex f
  | .conflict f => "err pu " ++ toHex f
  | .cannotDelete f => "err pu " ++ toHex f

/-- `puenc <module> <env> <record> <excl> <pu>`: compact JSON of `MarshalRestLi` -/
def opPuEnc (args : List Sexp) : String :=
  match args with
  | [.atom mod, envS, .atom n, exclS, puS] =>
    match envOfSexp envS, exclOfSexp exclS, puOfSexp puS with
    | some env, some excl, some pu =>
      let cfg : EncCfg := { env := env, excl := excl, sortKeys := mod != "root" }
      match marshalPU cfg 100000 n pu with
      | .error (.pu e) => showPUErr e
      | .error (.enc .enum) => "err enum"
      | .error (.enc .union) => "err other"
      | .error (.enc .illTyped) => "err illtyped"
      | .error (.enc .fuel) => "fuel"
      | .ok doc => "ok " ++ toHex (renderJson doc)
    | _, _, _ => "bad-op"
  | _ => "bad-op"

/-- `pudec <module> <env> <record> <excl> <ignore> <hex>`: `UnmarshalJSON` with exclusion -/
def opPuDec (args : List Sexp) : String :=
  match args with
  | [.atom _mod, envS, .atom n, exclS, .atom ign, .atom h] =>
    match envOfSexp envS, exclOfSexp exclS, ign.toNat?, ofHex h with
    | some env, some excl, some ignore, some data =>
      match unmarshalPUJson { env := env, tracker := { excl := excl, ignore := ignore } } n data with
      | none => "unmodelled json-nonstrict"
      | some (.ok pu _) => "ok " ++ canonPU pu
      | some (.err .syntax) => "err other"
      | some (.err (.excluded p)) => "err excluded " ++ toHex p
      | some (.err (.missing ps)) => "err missing (" ++ " ".intercalate ((sortPaths ps).map toHex) ++ ")"
      | some (.err .union) => "err other"
      | some (.err .fixed) => "err other"
      | some (.err (.pu e)) => showPUErr e
      | some .panic => "panic"
      | some .fuel => "fuel"
      | some .unmodelled => "unmodelled float-syntax"
    | _, _, _, _ => "bad-op"
  | _ => "bad-op"

-- driver-ops: Restli.Codec.patchOps
def patchOps : List (String × (List Sexp → String)) := [("puenc", opPuEnc), ("pudec", opPuDec)]

end Restli.Codec
