import Restli.Driver.Sexp
import Restli.Model.Routing
import Restli.Spec.Routing
/-! Driver glue for C05: s-expressions ↔ routing model / routing specification.

Strings (names, keys, header and query values, paths) travel as atoms in the `~`-encoding: bytes in
`[A-Za-z0-9_]` stand for themselves, every other byte is `~XX` (upper-case hex), the empty string is
`~0`.

```
route      <v2|root> <mount> <srv> <req>   → canonical outcome of the MODEL (status, headers, events)
route-spec <srv> <req>                      → decision of the SPEC + whether the text determines the request
register   <v2|root> <srv>                  → ok/panic per registration, in order
mount  := bare | mux
srv    := (srv <prefix|-> (f <filter>…) (regs <reg>…) (late <reg>…))      `-` = NewServer
filter := pass | ctx | failpre | (failer <status>) | failpost
reg    := (r (<seg>…) (m <method>) | (f <name>) | (a <name> <0|1>))      seg := (<name> <0|1>)
req    := (req <verb> (h (<name> <value>)…) (raw <URL.EscapedPath()> <URL.Path>) (p <segment>…) (q (<k> <v>)…) (dec <method>…) <implOk 0|1> (x …))
          `p` = the resource path the property speaks about (used by route-spec only); `(x …)` = how the
          harness put the request on the wire (wire segments, body class, tunnelled), ignored here
```
`late` registrations happen after the handler (or mux) was obtained. -/
namespace Restli.Routing.Driver
open Restli Restli.Routing

def hexUp (n : Nat) : Char := if n < 10 then Char.ofNat (48 + n) else Char.ofNat (55 + n)

def isSafe (b : UInt8) : Bool :=
  (48 ≤ b && b ≤ 57) || (65 ≤ b && b ≤ 90) || (97 ≤ b && b ≤ 122) || b == 95

def enc (s : String) : String :=
  if s.isEmpty then "~0" else
  String.ofList (s.toUTF8.toList.flatMap fun b =>
    if isSafe b then [Char.ofNat b.toNat] else ['~', hexUp (b.toNat / 16), hexUp (b.toNat % 16)])

def decBytes : List Char → Option (List UInt8)
  | [] => some []
  | '~' :: a :: b :: rest => do
    let x ← hexVal a
    let y ← hexVal b
    let r ← decBytes rest
    pure (UInt8.ofNat (x * 16 + y) :: r)
  | '~' :: _ => none
  | c :: rest => do
    let r ← decBytes rest
    if c.toNat < 128 then pure (UInt8.ofNat c.toNat :: r) else none

def dec (s : String) : Option String :=
  if s == "~0" then some "" else
  match decBytes s.toList with
  | some bs => String.fromUTF8? (ByteArray.mk bs.toArray)
  | none => none

def decAtom : Sexp → Option String
  | .atom s => dec s
  | _ => none

def methodNames : List (String × Method) :=
  [("Unknown", .unknown), ("get", .get), ("create", .create), ("delete", .delete), ("update", .update),
   ("partial_update", .partial_update), ("batch_get", .batch_get), ("batch_create", .batch_create),
   ("batch_delete", .batch_delete), ("batch_update", .batch_update),
   ("batch_partial_update", .batch_partial_update), ("get_all", .get_all), ("action", .action), ("finder", .finder)]

def methodOfAtom : Sexp → Option Method
  | .atom s => methodNames.lookup s
  | _ => none

def methodAtom (m : Method) : String :=
  match methodNames.find? (fun p => p.2 == m) with
  | some p => p.1
  | none => "?"

def boolOfAtom : Sexp → Option Bool
  | .atom "0" => some false
  | .atom "1" => some true
  | _ => none

def filterOf : Sexp → Option FilterKind
  | .atom "pass" => some .pass
  | .atom "ctx" => some .ctx
  | .atom "failpre" => some .failPre
  | .atom "failpost" => some .failPost
  | .list [.atom "failer", .atom n] => n.toNat?.map .failPreER
  | _ => none

def segOf : Sexp → Option Seg
  | .list [n, c] => do pure ((← decAtom n), (← boolOfAtom c))
  | _ => none

def regOf : Sexp → Option (List Seg × Reg)
  | .list [.atom "r", .list segs, what] => do
    let ss ← segs.mapM segOf
    let r ← match what with
      | .list [.atom "m", m] => (methodOfAtom m).map Reg.method
      | .list [.atom "f", n] => (decAtom n).map Reg.finder
      | .list [.atom "a", n, e] => do pure (Reg.action (← decAtom n) (← boolOfAtom e))
      | _ => none
    pure (ss, r)
  | _ => none

structure SrvSpec where
  pfx : Option String
  filters : List FilterKind
  regs : List (List Seg × Reg)
  late : List (List Seg × Reg)

def srvOf : Sexp → Option SrvSpec
  | .list [.atom "srv", p, .list (.atom "f" :: fs), .list (.atom "regs" :: rs), .list (.atom "late" :: ls)] => do
    let pfx ← match p with
      | .atom "-" => some none
      | a => (decAtom a).map some
    pure ⟨pfx, ← fs.mapM filterOf, ← rs.mapM regOf, ← ls.mapM regOf⟩
  | _ => none

def verbOf (s : String) : Verb :=
  if s == "GET" then .GET else if s == "POST" then .POST else if s == "PUT" then .PUT
  else if s == "DELETE" then .DELETE else .other

def pairOf : Sexp → Option (String × String)
  | .list [a, b] => do pure ((← decAtom a), (← decAtom b))
  | _ => none

def reqOf : Sexp → Option RawReq
  | .list [.atom "req", v, .list (.atom "h" :: hs), .list [.atom "raw", rp, up], .list (.atom "p" :: ps),
           .list (.atom "q" :: qs), .list (.atom "dec" :: ds), ok, _harnessOnly] => do
    let verb ← decAtom v
    pure { escapedPath := ← decAtom rp, urlPath := ← decAtom up,
           rest := { verb := verbOf verb, headers := ← hs.mapM pairOf, path := ← ps.mapM decAtom,
                     query := ← qs.mapM pairOf, decodes := ← ds.mapM methodOfAtom, implOk := ← boolOfAtom ok } }
  | _ => none

def constsOf : Sexp → Option Consts
  | .atom "v2" => some constsV2
  | .atom "root" => some constsRoot
  | _ => none

/-- the registrations, folded; the flags say which calls panicked -/
def applyRegs (s : Server) : List (List Seg × Reg) → Server × List Bool
  | [] => (s, [])
  | (segs, r) :: rest =>
    let (s1, p) := s.register segs r
    let (s2, ps) := applyRegs s1 rest
    (s2, p :: ps)

def buildServer (C : Consts) (sp : SrvSpec) : Server :=
  let s0 := match sp.pfx with
    | none => newServer C sp.filters
    | some p => newPrefixedServer C p sp.filters
  (applyRegs s0 sp.regs).1

def seenStr (seen : List Nat) : String := ",".intercalate (seen.map toString)

def factsStr (f : Facts) : String :=
  methodAtom f.method ++ "/" ++
  ".".intercalate (f.rpath.map fun s => enc s.1 ++ (if s.2 then "*" else "")) ++ "/" ++
  ".".intercalate (f.keys.map enc) ++ "/" ++
  (match f.finder with | some n => enc n | none => "-") ++ "/" ++
  (match f.action with | some n => enc n | none => "-")

def eventStr : Event → String
  | .pre i f seen => "pre" ++ toString i ++ ":" ++ factsStr f ++ ":" ++ seenStr seen
  | .invoke f seen => "inv:" ++ factsStr f ++ ":" ++ seenStr seen
  | .post i seen => "post" ++ toString i ++ ":" ++ seenStr seen

def outcomeStr (C : Consts) (o : Outcome) : String :=
  toString o.status ++ " " ++
  (if (o.headers.lookup C.protocolVersionHeader) == some C.protocolVersion then "V" else "-") ++
  (if (o.headers.lookup C.errorResponseHeader) == some C.errorHeaderValue then "E" else "-") ++ " " ++
  ";".intercalate (o.events.map eventStr)

def opRoute (args : List Sexp) : String :=
  match args with
  | [g, .atom mount, s, r] =>
    match constsOf g, srvOf s, reqOf r with
    | some C, some sp, some raw =>
      let srv := buildServer C sp
      let V := validateRor2Input
      if mount == "bare" then
        let h := srv.handler
        -- late registrations touch the server, not the handler value obtained before
        let _late := (applyRegs srv sp.late).1
        outcomeStr C (serveHTTP C V h raw)
      else if mount == "mux" then
        let m := addToMux C srv
        let _late := (applyRegs srv sp.late).1
        match m.serve C V raw with
        | .handled o => outcomeStr C o
        | .redirect => "301 -- "
        | .notFound => "404 -- "
        | .unmodelled => "unmodelled mux-dot-segments"
      else "bad-op"
    | _, _, _ => "bad-op"
  | _ => "bad-op"

def decisionStr : Decision → String
  | .routed f => "routed " ++ factsStr f
  | .reject st => "reject " ++ toString st

def opRouteSpec (args : List Sexp) : String :=
  match args with
  | [s, r] =>
    match srvOf s, reqOf r with
    | some sp, some raw =>
      -- the spec knows trees, not servers: the tree is what the registrations describe
      let srv := buildServer constsV2 sp
      decisionStr (Spec.decide validateRor2Input srv.roots raw.rest) ++
        " specified=" ++ (if Spec.specified validateRor2Input srv.roots raw.rest then "1" else "0")
    | _, _ => "bad-op"
  | _ => "bad-op"

def opRegister (args : List Sexp) : String :=
  match args with
  | [g, s] =>
    match constsOf g, srvOf s with
    | some C, some sp =>
      let s0 := match sp.pfx with
        | none => newServer C sp.filters
        | some p => newPrefixedServer C p sp.filters
      let (_, flags) := applyRegs s0 (sp.regs ++ sp.late)
      " ".intercalate (flags.map fun p => if p then "panic" else "ok")
    | _, _ => "bad-op"
  | _ => "bad-op"

end Restli.Routing.Driver

namespace Restli.Routing.Driver
-- driver-ops: Restli.Routing.Driver.ops
def ops : List (String × (List Restli.Sexp → String)) :=
  [("route", opRoute), ("route-spec", opRouteSpec), ("register", opRegister)]
end Restli.Routing.Driver
