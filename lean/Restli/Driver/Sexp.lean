import Restli.Lib.Basic
/-! Minimal s-expression reader/printer for the driver's line protocol.
Atoms are maximal runs of characters other than space, `(` and `)`. -/
namespace Restli

inductive Sexp where
  | atom (s : String)
  | list (xs : List Sexp)
deriving Repr, Inhabited, BEq

namespace Sexp

partial def parseList (cs : List Char) (acc : List Sexp) : Option (List Sexp × List Char) :=
  match cs with
  | [] => none
  | ' ' :: r => parseList r acc
  | ')' :: r => some (acc.reverse, r)
  | '(' :: r =>
    match parseList r [] with
    | some (xs, r') => parseList r' (Sexp.list xs :: acc)
    | none => none
  | _ =>
    let tok := cs.takeWhile (fun c => c != ' ' && c != '(' && c != ')')
    parseList (cs.drop tok.length) (Sexp.atom (String.ofList tok) :: acc)

/-- parse a whole line as a sequence of s-expressions -/
def parseLine (s : String) : Option (List Sexp) :=
  match parseList (s.toList ++ [')']) [] with
  | some (xs, []) => some xs
  | _ => none

partial def render : Sexp → String
  | .atom s => s
  | .list xs => "(" ++ " ".intercalate (xs.map render) ++ ")"

end Sexp
end Restli
