import Restli.Driver.Sexp
import Restli.Model.SharedCells
/-! Driver glue for property C17: the serial outcome of one `ServeHTTP` call in the shared-cells model. -/
namespace Restli.SharedCells
open Restli

def optNatOfAtom (s : String) : Option (Option Nat) :=
  if s == "-" then some none else s.toNat?.map some

/-- `-` | `t<code>` | `c<id>` -/
def msgOfAtom (s : String) : Option (Option Msg) :=
  if s == "-" then some none
  else match s.toList with
    | 't' :: r => (String.ofList r).toNat?.map (fun n => some (.statusText n))
    | 'c' :: r => (String.ofList r).toNat?.map (fun n => some (.custom n))
    | _ => none

def errOfSexp : Sexp → Option ErrObj
  | .list [.atom st, .atom m] => do
    let st ← optNatOfAtom st
    let m ← msgOfAtom m
    pure ⟨st, m⟩
  | _ => none

def natsOf (xs : List Sexp) : Option (List Nat) :=
  xs.mapM fun | .atom a => a.toNat? | _ => none

def treeOfSexp (xs : List Sexp) : Option (List (Nat × List Nat)) :=
  xs.mapM fun
    | .list (.atom r :: ms) => do
      let r ← r.toNat?
      let ms ← natsOf ms
      pure (r, ms)
    | _ => none

/-- `(ok b)` | `(es idx)` | `(ep)` | `(pa)` | `(ef st msg)` -/
def implOfSexp : Sexp → Option Impl
  | .list [.atom "ok", .atom b] => b.toNat?.map .ok
  | .list [.atom "es", .atom i] => i.toNat?.map .errShared
  | .list [.atom "ep"] => some .errPlain
  | .list [.atom "pa"] => some .panic
  | .list [.atom "ef", st, m] => (errOfSexp (.list [st, m])).map .errFresh
  | _ => none

def reqOfSexp : Sexp → Option Req
  | .list [.atom r, .atom m, .atom k, .atom p, impl] => do
    let r ← r.toNat?
    let m ← m.toNat?
    let k ← k.toNat?
    let p ← p.toNat?
    let i ← implOfSexp impl
    pure ⟨r, m, k, p, i⟩
  | _ => none

def showOptNat : Option Nat → String
  | none => "-"
  | some n => toString n

def showMsg : Option Msg → String
  | none => "-"
  | some (.statusText n) => s!"t{n}"
  | some (.custom n) => s!"c{n}"

def showErr (e : ErrObj) : String := s!"({showOptNat e.status} {showMsg e.message})"

def showBody : Body → String
  | .none => "-"
  | .entity b k p => s!"(ent {b} {k} {p})"
  | .error st m => s!"(err {showOptNat st} {showMsg m})"

def b01 (b : Bool) : String := if b then "1" else "0"

/-- `c17serve <v2|root> (<tree>) (<errs>) <req>` → the serial outcome of the request through
`ServeHTTP` as it is in /repo now (`serveNow`), and the error objects afterwards. `custom` message ids are not compared by the harness beyond "not a status text". -/
def opServe (args : List Sexp) : String :=
  match args with
  | [.atom gen, .list tree, .list errs, req] =>
    match treeOfSexp tree, errs.mapM errOfSexp, reqOfSexp req with
    | some tree, some errs, some q =>
      let C := if gen == "root" then constsRoot else constsV2
      let s : Shared := ⟨tree, [], errs, [], 0⟩
      let r := runAlone s (⟨serveNow C q, {}⟩ : Thread Shared Local)
      let l := r.2.loc
      if l.crashed then
        s!"crash errs=({" ".intercalate (r.1.errs.map showErr)})"
      else if l.notFound then
        s!"notfound errs=({" ".intercalate (r.1.errs.map showErr)})"
      else
        s!"st={l.status} eh={b01 l.errHeader} body={showBody l.body} errs=({" ".intercalate (r.1.errs.map showErr)})"
    | _, _, _ => "bad-op"
  | _ => "bad-op"

-- driver-ops: Restli.SharedCells.ops
def ops : List (String × (List Restli.Sexp → String)) := [("c17serve", opServe)]

end Restli.SharedCells
