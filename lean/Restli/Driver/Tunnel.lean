import Restli.Driver.Sexp
import Restli.Model.Tunnel
/-! Driver glue for `Lib.Multipart` and `Model.Tunnel` (property C14). Byte strings hex, `-` = empty.

* `mediatype <v>`                         — `mime.ParseMediaType` (error ignored): `ok <mediatype> ((k v)…)` sorted by key
* `fmtmediatype <t> <attr> <value>`       — `mime.FormatMediaType(t, {attr: value})`
* `canonkey <k>`                          — `http.CanonicalHeaderKey`
* `mpwrite <boundary> ((k v content)…)`   — multipart.Writer output
* `mpread <boundary> <data>`              — multipart.Reader drained: `(part ((k v)…) content)… eof|err|(trunc …) err`
* `tunenc <mod> <boundary> <method> <query> <body|nil>` — `EncodeTunnelledQuery`: `ok <newBody> <headers>`
* `tundec <mod> <method> <path> <fq> <rawQuery> <headers> <nil|nobody|body>` — `DecodeTunnelledQuery`
* `tunsite <mod> …same…`                  — the call site in ServeHTTP: `respond <status>` | `routed …`
* `tunreq <mod> <boundary> <threshold> <path> <fq> <query> <method> <restliMethod> <contents|nil>` — `newRequest`
Headers are `((key (v v …)) …)`, rendered sorted by key. -/
namespace Restli.TunnelDriver
open Restli Restli.Url Restli.Mime Restli.Tunnel

def hexA : Sexp → Option Bytes
  | .atom h => ofHex h
  | _ => none

def insertSorted (kv : Bytes × String) : List (Bytes × String) → List (Bytes × String)
  | [] => [kv]
  | x :: xs => if kv.1 ≤ x.1 then kv :: x :: xs else x :: insertSorted kv xs

def sortByKey (l : List (Bytes × String)) : List (Bytes × String) := l.foldr insertSorted []

def renderPairs (ps : List (Bytes × Bytes)) : String :=
  "(" ++ " ".intercalate ((sortByKey (ps.map fun kv => (kv.1, "(" ++ toHex kv.1 ++ " " ++ toHex kv.2 ++ ")"))).map (·.2)) ++ ")"

def renderPairsInOrder (ps : List (Bytes × Bytes)) : String :=
  "(" ++ " ".intercalate (ps.map fun kv => "(" ++ toHex kv.1 ++ " " ++ toHex kv.2 ++ ")") ++ ")"

def renderHdr (h : Hdr) : String :=
  "(" ++ " ".intercalate ((sortByKey (h.map fun kv =>
    (kv.1, "(" ++ toHex kv.1 ++ " (" ++ " ".intercalate (kv.2.map toHex) ++ "))"))).map (·.2)) ++ ")"

def hdrOfSexp : Sexp → Option Hdr
  | .list xs => xs.mapM fun x =>
    match x with
    | .list [.atom k, .list vs] => do
      let kb ← ofHex k
      let vb ← vs.mapM hexA
      pure (kb, vb)
    | _ => none
  | _ => none

def constsOf (m : String) : Option Consts :=
  if m == "v2" then some constsV2 else if m == "root" then some constsRoot else none

def errStatusOf (m : String) : Nat := if m == "root" then GenRoot.detunnelErrorStatus else Gen.detunnelErrorStatus

def opMediaType (args : List Sexp) : String :=
  match args with
  | [.atom v] => match ofHex v with
    | some vb => match parseMediaType vb with
      | .ok (mt, ps) => "ok " ++ toHex mt ++ " " ++ renderPairs ps
      | .unmodelled r => "unmodelled " ++ r
      | _ => "err"
    | none => "bad-op"
  | _ => "bad-op"

def opFmtMediaType (args : List Sexp) : String :=
  match args.mapM hexA with
  | some [t, a, v] => match formatMediaType1 t a v with
    | .ok x => "ok " ++ toHex x
    | .unmodelled r => "unmodelled " ++ r
    | _ => "err"
  | _ => "bad-op"

def opCanonKey (args : List Sexp) : String :=
  match args.mapM hexA with
  | some [k] => "ok " ++ toHex (canonicalKey k)
  | _ => "bad-op"

def wpartOfSexp : Sexp → Option WPart
  | .list [.atom k, .atom v, .atom c] => do
    pure { key := ← ofHex k, value := ← ofHex v, content := ← ofHex c }
  | _ => none

def opMpWrite (args : List Sexp) : String :=
  match args with
  | [.atom b, .list ps] =>
    match ofHex b, ps.mapM wpartOfSexp with
    | some bb, some parts => "ok " ++ toHex (writeParts bb parts)
    | _, _ => "bad-op"
  | _ => "bad-op"

def renderParts : Parts → String
  | .eof => "eof"
  | .err => "err"
  | .unmodelled r => "unmodelled " ++ r
  | .truncated h => "(trunc " ++ renderPairs h ++ ") err"
  | .part h c rest => "(part " ++ renderPairs h ++ " " ++ toHex c ++ ") " ++ renderParts rest

def partsUnmodelled : Parts → Option String
  | .unmodelled r => some r
  | .part _ _ rest => partsUnmodelled rest
  | _ => none

def opMpRead (args : List Sexp) : String :=
  match args.mapM hexA with
  | some [b, d] =>
    let ps := readParts b d
    match partsUnmodelled ps with
    | some r => "unmodelled " ++ r
    | none => renderParts ps
  | _ => "bad-op"

def optBytes : Sexp → Option (Option Bytes)
  | .atom "nil" => some none
  | .atom h => (ofHex h).map some
  | _ => none

def opTunEnc (args : List Sexp) : String :=
  match args with
  | [.atom m, .atom b, .atom meth, .atom q, body] =>
    match constsOf m, ofHex b, ofHex meth, ofHex q, optBytes body with
    | some K, some bb, some mb, some qb, some body =>
      match encodeTunnelledQuery K bb mb qb body with
      | .ok (nb, h) => "ok " ++ toHex nb ++ " " ++ renderHdr h
      | .unmodelled r => "unmodelled " ++ r
      | _ => "err"
    | _, _, _, _, _ => "bad-op"
  | _ => "bad-op"

def bodyOfSexp : Sexp → Option Body
  | .atom "nil" => some .nil
  | .atom "nobody" => some .noBody
  | .atom h => (ofHex h).map .bytes
  | _ => none

def renderBody : Body → String
  | .nil => "nil"
  | .noBody => "nobody"
  | .bytes b => if b.isEmpty then "nobody" else toHex b   -- an exhausted reader and NoBody read alike

def renderReq (r : Req) : String :=
  " ".intercalate [toHex r.method, toHex r.path, (if r.forceQuery then "1" else "0"), toHex r.rawQuery, renderHdr r.header,
    renderBody r.body, toHex r.requestURI]

def reqOfArgs (args : List Sexp) : Option (Consts × String × Req) :=
  match args with
  | [.atom m, .atom meth, .atom path, .atom fq, .atom q, hdr, body] => do
    let K ← constsOf m
    let mb ← ofHex meth
    let pb ← ofHex path
    let qb ← ofHex q
    let h ← hdrOfSexp hdr
    let bd ← bodyOfSexp body
    let f := fq == "1"
    pure (K, m, { method := mb, path := pb, forceQuery := f, rawQuery := qb, header := h, body := bd,
                  requestURI := urlRequestURI pb f qb })
  | _ => none

def opTunDec (args : List Sexp) : String :=
  match reqOfArgs args with
  | some (K, _, req) =>
    match decodeTunnelledQuery K req with
    | .ok r => "ok " ++ renderReq r
    | .err => "err"
    | .panic => "panic"
    | .unmodelled r => "unmodelled " ++ r
  | none => "bad-op"

def opTunSite (args : List Sexp) : String :=
  match reqOfArgs args with
  | some (K, m, req) =>
    match detunnelSite K (errStatusOf m) req with
    | .routed r => "routed " ++ renderReq r
    | .respond s => "respond " ++ toString s
    | .panicked => "panic"
    | .unmodelled r => "unmodelled " ++ r
  | none => "bad-op"

def opTunReq (args : List Sexp) : String :=
  match args with
  | [.atom m, .atom b, .atom t, .atom path, .atom fq, .atom q, .atom meth, .atom rm, contents] =>
    match constsOf m, ofHex b, t.toNat?, ofHex path, ofHex q, ofHex meth, ofHex rm, optBytes contents with
    | some K, some bb, some tn, some pb, some qb, some mb, some rmb, some c =>
      match sentRequest K bb tn pb (fq == "1") qb mb rmb c with
      | .ok r => "ok " ++ renderReq r
      | .unmodelled r => "unmodelled " ++ r
      | _ => "err"
    | _, _, _, _, _, _, _, _ => "bad-op"
  | _ => "bad-op"

-- driver-ops: Restli.TunnelDriver.ops
def ops : List (String × (List Restli.Sexp → String)) :=
  [("mediatype", opMediaType), ("fmtmediatype", opFmtMediaType), ("canonkey", opCanonKey), ("mpwrite", opMpWrite),
   ("mpread", opMpRead), ("tunenc", opTunEnc), ("tundec", opTunDec), ("tunsite", opTunSite), ("tunreq", opTunReq)]
end Restli.TunnelDriver
