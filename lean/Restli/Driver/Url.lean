import Restli.Driver.Sexp
import Restli.Model.HttpUrl
/-! Driver glue for `Lib.Url` and `Model.HttpUrl` (property C15). All byte strings hex, `-` = empty.

* `urlparse <raw>`                          — `url.Parse(raw)`
* `urlresolve <base> <ref>`                 — `Parse(base).ResolveReference(Parse(ref))`
* `fmtquery <base> <root> <rp> <query|nil>` — `req.URL` of `NewGetRequest` with a resolver returning `Parse(base)`

Answer: `ok scheme host path rawpath omithost forcequery rawquery escapedpath string requesturi`,
`err`, `panic` or `unmodelled <region>`. -/
namespace Restli.UrlDriver
open Restli Restli.Url Restli.HttpUrl

def b01 (b : Bool) : String := if b then "1" else "0"

def renderUrl (u : URL) : String :=
  " ".intercalate ["ok", toHex u.scheme, toHex u.host, toHex u.path, toHex u.rawPath, b01 u.omitHost,
    b01 u.forceQuery, toHex u.rawQuery, toHex (escapedPath u), toHex (Url.toString u), toHex (requestURI u)]

def renderRes (r : Res URL) : String :=
  match r with
  | .ok u => renderUrl u
  | .err => "err"
  | .unmodelled reg => "unmodelled " ++ reg
  | .panic => "panic"

def opParse (args : List Sexp) : String :=
  match args with
  | [.atom h] => match ofHex h with
    | some raw => renderRes (parse raw)
    | none => "bad-op"
  | _ => "bad-op"

def opResolve (args : List Sexp) : String :=
  match args with
  | [.atom b, .atom r] =>
    match ofHex b, ofHex r with
    | some bs, some rs =>
      match parse bs, parse rs with
      | .ok bu, .ok ru => renderUrl (resolveReference bu ru)
      | .unmodelled reg, _ => "unmodelled " ++ reg
      | _, .unmodelled reg => "unmodelled " ++ reg
      | _, _ => "err"
    | _, _ => "bad-op"
  | _ => "bad-op"

def opFmtQuery (args : List Sexp) : String :=
  match args with
  | [.atom b, .atom root, .atom rp, .atom q] =>
    let query : Option (Option Bytes) := if q == "nil" then some none else (ofHex q).map some
    match ofHex b, ofHex root, ofHex rp, query with
    | some bs, some rootB, some rpB, some qq =>
      match parse bs with
      | .ok bu => renderRes (requestUrl bu rootB rpB qq)
      | .unmodelled reg => "unmodelled base-" ++ reg
      | _ => "err-base"
    | _, _, _, _ => "bad-op"
  | _ => "bad-op"

-- driver-ops: Restli.UrlDriver.ops
def ops : List (String × (List Restli.Sexp → String)) :=
  [("urlparse", opParse), ("urlresolve", opResolve), ("fmtquery", opFmtQuery)]
end Restli.UrlDriver
