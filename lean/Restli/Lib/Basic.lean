/-! Shared basics: byte strings, hex, small helpers. Core Lean only. -/
namespace Restli

abbrev Bytes := List UInt8

def hexDigit (n : Nat) : Char :=
  if n < 10 then Char.ofNat (48 + n) else Char.ofNat (87 + n)

def hexOfByte (b : UInt8) : List Char := [hexDigit (b.toNat / 16), hexDigit (b.toNat % 16)]

/-- hex rendering of a byte string; the empty string is rendered as `-` so that it stays one token. -/
def toHex (b : Bytes) : String :=
  if b.isEmpty then "-" else String.ofList (b.flatMap hexOfByte)

def hexVal (c : Char) : Option Nat :=
  if '0' ≤ c ∧ c ≤ '9' then some (c.toNat - 48)
  else if 'a' ≤ c ∧ c ≤ 'f' then some (c.toNat - 87)
  else if 'A' ≤ c ∧ c ≤ 'F' then some (c.toNat - 55)
  else none

def ofHexChars : List Char → Option Bytes
  | [] => some []
  | [_] => none
  | a :: b :: rest => do
    let x ← hexVal a
    let y ← hexVal b
    let r ← ofHexChars rest
    pure (UInt8.ofNat (x * 16 + y) :: r)

def ofHex (s : String) : Option Bytes :=
  if s == "-" then some [] else ofHexChars s.toList

def strBytes (s : String) : Bytes := s.toUTF8.toList

/-- render bytes that are known to be ASCII (used only for canonical output of ASCII tokens) -/
def asciiString (b : Bytes) : String := String.ofList (b.map (fun c => Char.ofNat c.toNat))

end Restli
