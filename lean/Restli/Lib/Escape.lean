import Restli.Lib.Basic
import Restli.Gen.Tables
/-! ROR2 string escapers of `restlicodec` (path, query, header flavours) over the regenerated
character tables, and Go's `url.PathUnescape` / `url.QueryUnescape`. -/
namespace Restli.Escape

def hexUpper (n : Nat) : UInt8 := if n < 10 then UInt8.ofNat (48 + n) else UInt8.ofNat (55 + n)

/-- `hexEscape`: `%XX`, upper-case -/
def pct (c : UInt8) : Bytes := [37, hexUpper (c.toNat / 16), hexUpper (c.toNat % 16)]

/-- `Ror2PathEscape` / `Ror2QueryEscape`: bytes in the safe table are copied, all others `%XX`.
(The query escaper's explicit `' '` case writes `%20`, which is what the default branch does,
since the space is not in its table.) -/
def escOne (safe : List UInt8) (c : UInt8) : Bytes := if safe.contains c then [c] else pct c

def escapeWith (safe : List UInt8) (b : Bytes) : Bytes := b.flatMap (escOne safe)

/-- `headerEncodingEscaper`: a `strings.Replacer` over single-byte patterns -/
def replOne (pairs : List (UInt8 × Bytes)) (c : UInt8) : Bytes :=
  match pairs.lookup c with | some r => r | none => [c]

def replaceWith (pairs : List (UInt8 × Bytes)) (b : Bytes) : Bytes :=
  b.flatMap (replOne pairs)

def unhex (c : UInt8) : Option Nat :=
  if 48 ≤ c && c ≤ 57 then some (c.toNat - 48)
  else if 97 ≤ c && c ≤ 102 then some (c.toNat - 87)
  else if 65 ≤ c && c ≤ 70 then some (c.toNat - 55)
  else none

/-- scanner state of the unescaper: plain text, after '%', after '%' and one hex digit -/
inductive USt where
  | normal
  | pct
  | hi (x : Nat)

/-- Go's `url.unescape` for `PathUnescape` (`plus = false`) and `QueryUnescape` (`plus = true`):
any `%` not followed by two hex digits is an error; in query mode `+` decodes to a space.
(Go validates the whole string first and then decodes; with `Option` the two passes coincide.) -/
def unescAux (plus : Bool) : USt → Bytes → Option Bytes
  | .normal, [] => some []
  | .normal, c :: rest =>
    if c == 37 then unescAux plus .pct rest
    else (unescAux plus .normal rest).map ((if plus && c == 43 then 32 else c) :: ·)
  | .pct, [] => none
  | .pct, a :: rest =>
    match unhex a with
    | some x => unescAux plus (.hi x) rest
    | none => none
  | .hi _, [] => none
  | .hi x, b :: rest =>
    match unhex b with
    | some y => (unescAux plus .normal rest).map (UInt8.ofNat (x * 16 + y) :: ·)
    | none => none

def unescape (plus : Bool) (b : Bytes) : Option Bytes := unescAux plus .normal b

/-- which of the three ROR2 writer flavours / two reader decoders -/
inductive Flavour | header | path | query
deriving DecidableEq, Repr

def Flavour.esc (G : List UInt8 × List UInt8 × List (UInt8 × Bytes)) : Flavour → Bytes → Bytes
  | .path => escapeWith G.1
  | .query => escapeWith G.2.1
  | .header => replaceWith G.2.2

end Restli.Escape
