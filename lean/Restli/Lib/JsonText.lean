import Restli.Lib.Utf8
/-! JSON text: easyjson's `jwriter.String` escaper (v0.7.2 and v0.7.7 are identical here), and
a strict RFC 8259 parser used both as the independent oracle of C03 and as the front end of the
JSON reader model (documents the strict parser rejects are declined, not guessed). -/
namespace Restli.Json

def hexLower (n : Nat) : UInt8 := if n < 10 then UInt8.ofNat (48 + n) else UInt8.ofNat (87 + n)

/-- bytes < 0x80 that `jwriter.String` copies verbatim (`htmlEscapeTable`) -/
def asciiSafe (c : UInt8) : Bool :=
  c ≥ 32 && c != 34 && c != 38 && c != 60 && c != 62 && c != 92

def escapeAscii (c : UInt8) : Bytes :=
  if c == 9 then [92, 116] else if c == 13 then [92, 114] else if c == 10 then [92, 110]
  else if c == 92 then [92, 92] else if c == 34 then [92, 34]
  else [92, 117, 48, 48, hexLower (c.toNat / 16), hexLower (c.toNat % 16)]

/-- the body of `jwriter.String` (without the surrounding quotes) -/
def escapeBody : Nat → Bytes → Bytes
  | 0, _ => []
  | _, [] => []
  | fuel + 1, c :: rest =>
    if c < 128 then
      (if asciiSafe c then [c] else escapeAscii c) ++ escapeBody fuel rest
    else
      let (r, w) := Utf8.decodeRune (c :: rest)
      if r == Utf8.runeError && w == 1 then [92, 117, 102, 102, 102, 100] ++ escapeBody fuel rest
      else if r == 0x2028 || r == 0x2029 then
        [92, 117, 50, 48, 50, hexLower (r % 16)] ++ escapeBody fuel ((c :: rest).drop w)
      else (c :: rest).take w ++ escapeBody fuel ((c :: rest).drop w)

/-- `jwriter.Writer.String(s)` -/
def jsonString (s : Bytes) : Bytes := 34 :: (escapeBody s.length s ++ [34])

/-! ## strict parser -/

inductive JVal where
  | null
  | bool (b : Bool)
  | num (text : Bytes)
  | str (b : Bytes)
  | arr (xs : List JVal)
  | obj (kvs : List (Bytes × JVal))
deriving Repr, Inhabited

def isWs (c : UInt8) : Bool := c == 32 || c == 9 || c == 10 || c == 13

def skipWs : Bytes → Bytes
  | [] => []
  | c :: cs => if isWs c then skipWs cs else c :: cs

def unhex (c : UInt8) : Option Nat :=
  if 48 ≤ c && c ≤ 57 then some (c.toNat - 48)
  else if 97 ≤ c && c ≤ 102 then some (c.toNat - 87)
  else if 65 ≤ c && c ≤ 70 then some (c.toNat - 55)
  else none

/-- `getu4` on the text after `\u` -/
def u4 : Bytes → Option (Nat × Bytes)
  | a :: b :: c :: d :: rest => do
    let w ← unhex a; let x ← unhex b; let y ← unhex c; let z ← unhex d
    pure (w * 4096 + x * 256 + y * 16 + z, rest)
  | _ => none

def isDigit (c : UInt8) : Bool := 48 ≤ c && c ≤ 57

/-- string body after the opening quote: decoded bytes and the rest after the closing quote.
Escapes as easyjson decodes them: surrogate pairs combine, a lone surrogate is U+FFFD. Raw control
characters are rejected (strict); bytes ≥ 0x80 are copied. -/
def parseStrBody : Nat → Bytes → Option (Bytes × Bytes)
  | 0, _ => none
  | _, [] => none
  | fuel + 1, c :: cs =>
    if c == 34 then some ([], cs)
    else if c < 32 then none
    else if c == 92 then
      match cs with
      | [] => none
      | e :: es =>
        let simple (b : UInt8) := (parseStrBody fuel es).map (fun (s, r) => (b :: s, r))
        if e == 34 then simple 34 else if e == 92 then simple 92 else if e == 47 then simple 47
        else if e == 98 then simple 8 else if e == 102 then simple 12 else if e == 110 then simple 10
        else if e == 114 then simple 13 else if e == 116 then simple 9
        else if e == 117 then
          match u4 es with
          | none => none
          | some (r1, after) =>
            if 0xD800 ≤ r1 && r1 ≤ 0xDFFF then
              -- try to pair with a following \uXXXX low surrogate
              let paired : Option (Nat × Bytes) :=
                match after with
                | 92 :: 117 :: more =>
                  (match u4 more with
                  | some (r2, after2) =>
                    if r1 < 0xDC00 && 0xDC00 ≤ r2 && r2 ≤ 0xDFFF then
                      some (0x10000 + (r1 - 0xD800) * 1024 + (r2 - 0xDC00), after2)
                    else none
                  | none => none)
                | _ => none
              match paired with
              | some (r, after2) => (parseStrBody fuel after2).map (fun (s, rest) => (Utf8.encodeRune r ++ s, rest))
              | none => (parseStrBody fuel after).map (fun (s, rest) => (Utf8.encodeRune Utf8.runeError ++ s, rest))
            else (parseStrBody fuel after).map (fun (s, rest) => (Utf8.encodeRune r1 ++ s, rest))
        else none
    else (parseStrBody fuel cs).map (fun (s, r) => (c :: s, r))

def takeDigits : Bytes → Bytes × Bytes
  | [] => ([], [])
  | c :: cs => if isDigit c then let (d, r) := takeDigits cs; (c :: d, r) else ([], c :: cs)

def numSign (s : Bytes) : Bytes × Bytes :=
  match s with
  | 45 :: r => ([45], r)
  | r => ([], r)

/-- integer part: a lone `0`, or a non-zero digit followed by digits -/
def numInt (s : Bytes) : Option (Bytes × Bytes) :=
  match s with
  | [] => none
  | d :: r =>
    if !isDigit d then none
    else if d == 48 then some ([48], r)
    else some (takeDigits (d :: r))

/-- optional fraction: `.` followed by at least one digit -/
def numFrac (s : Bytes) : Option (Bytes × Bytes) :=
  match s with
  | 46 :: r2 => let (fd, r3) := takeDigits r2; if fd.isEmpty then none else some (46 :: fd, r3)
  | r2 => some ([], r2)

/-- optional exponent: `e`/`E`, optional sign, at least one digit -/
def numExp (s : Bytes) : Option (Bytes × Bytes) :=
  match s with
  | e :: r3 =>
    if e == 101 || e == 69 then
      let (sg, r4) : Bytes × Bytes := match r3 with
        | 43 :: t => ([43], t)
        | 45 :: t => ([45], t)
        | t => ([], t)
      let (ed, r5) := takeDigits r4
      if ed.isEmpty then none else some (e :: sg ++ ed, r5)
    else some ([], e :: r3)
  | [] => some ([], [])

/-- RFC 8259 number: the token text and the rest -/
def parseNumber (s : Bytes) : Option (Bytes × Bytes) :=
  let (sign, s1) := numSign s
  match numInt s1 with
  | none => none
  | some (ip, s2) =>
    match numFrac s2 with
    | none => none
    | some (fp, s3) =>
      match numExp s3 with
      | none => none
      | some (ep, s4) => some (sign ++ ip ++ fp ++ ep, s4)

def litTrue : Bytes := [116, 114, 117, 101]
def litFalse : Bytes := [102, 97, 108, 115, 101]
def litNull : Bytes := [110, 117, 108, 108]

mutual
def parseValue : Nat → Bytes → Option (JVal × Bytes)
  | 0, _ => none
  | fuel + 1, s =>
    match skipWs s with
    | [] => none
    | c :: cs =>
      if c == 34 then (parseStrBody (cs.length + 1) cs).map (fun (b, r) => (.str b, r))
      else if c == 123 then
        match skipWs cs with
        | 125 :: r => some (.obj [], r)
        | r => (parseMembers fuel r).map (fun (kvs, r') => (.obj kvs, r'))
      else if c == 91 then
        match skipWs cs with
        | 93 :: r => some (.arr [], r)
        | r => (parseElements fuel r).map (fun (xs, r') => (.arr xs, r'))
      else if litTrue.isPrefixOf (c :: cs) then some (.bool true, (c :: cs).drop 4)
      else if litFalse.isPrefixOf (c :: cs) then some (.bool false, (c :: cs).drop 5)
      else if litNull.isPrefixOf (c :: cs) then some (.null, (c :: cs).drop 4)
      else (parseNumber (c :: cs)).map (fun (t, r) => (.num t, r))
/-- members after `{` (at least one): "k" : v (, "k" : v)* } -/
def parseMembers : Nat → Bytes → Option (List (Bytes × JVal) × Bytes)
  | 0, _ => none
  | fuel + 1, s =>
    match skipWs s with
    | 34 :: cs =>
      match parseStrBody (cs.length + 1) cs with
      | none => none
      | some (k, r1) =>
        match skipWs r1 with
        | 58 :: r2 =>
          match parseValue fuel r2 with
          | none => none
          | some (v, r3) =>
            match skipWs r3 with
            | 44 :: r4 => (parseMembers fuel r4).map (fun (kvs, r5) => ((k, v) :: kvs, r5))
            | 125 :: r4 => some ([(k, v)], r4)
            | _ => none
        | _ => none
    | _ => none
def parseElements : Nat → Bytes → Option (List JVal × Bytes)
  | 0, _ => none
  | fuel + 1, s =>
    match parseValue fuel s with
    | none => none
    | some (v, r1) =>
      match skipWs r1 with
      | 44 :: r2 => (parseElements fuel r2).map (fun (xs, r3) => (v :: xs, r3))
      | 93 :: r2 => some ([v], r2)
      | _ => none
end

/-- one JSON value, optional surrounding whitespace, nothing else -/
def parse (s : Bytes) : Option JVal :=
  match parseValue (s.length + 1) s with
  | some (v, rest) => if (skipWs rest).isEmpty then some v else none
  | none => none

end Restli.Json
